/-
  Model of fosite's ID-token layer (C14):
    handler/openid/strategy_jwt.go      (`DefaultStrategy.GenerateIDToken`)
    handler/openid/helper.go            (`IDTokenHandleHelper.ComputeHash`, `GetAccessTokenHash`,
                                         `IssueImplicitIDToken`, `IssueExplicitIDToken`)
    handler/openid/validator.go         (`OpenIDConnectRequestValidator.ValidatePrompt`)
    token/jwt/claims_id_token.go        (`IDTokenClaims.ToMap`)
    handler/openid/flow_explicit_auth.go, flow_explicit_token.go, flow_implicit.go, flow_hybrid.go,
    flow_refresh_token.go, flow_device_token.go   (issuance conditions, at_hash / c_hash inputs)
    client_with_custom_token_lifespans.go, config_default.go (`GetEffectiveLifespan`,
                                         `GetIDTokenLifespan`, `GetMinParameterEntropy`)

  Representation.
  * A `time.Time` (UTC, no monotonic reading) is an `Int`: nanoseconds since the Unix epoch.  `time.Time{}`
    is `zeroTime` (0001-01-01T00:00:00Z), `IsZero` is equality with it, `Before/After/Equal` are `< > =`,
    `Add d` is `+ d`, `Unix()` is floor division by 10⁹, `Truncate(time.Second)` rounds down to a second.
  * A `time.Duration` is an `Int` (nanoseconds); `time.Second * time.Duration(n)` wraps like int64 (`wrap64`).
  * Go strings are byte strings; a `String` here has one character per byte, so `len(s)` is `s.length`.
  * The claims object is mutated in place by the Go code; the model returns the mutated claims.

  PARAMETERS (library behaviour, not re-implemented; the harness computes it and hands it over):
  * hashing and base64url (`Crypto`), JWS signing / verification (not in the model at all: the harness verifies
    every token with go-jose and the public key);
  * `strconv.ParseInt(form "max_age")` (`Form.maxAge`, `none` = it returned an error);
  * `Signer.Decode(id_token_hint)` (`Hint`: the `sub` claim of the decoded token, or an error other than
    "expired");
  * `RedirectSecureChecker(redirect_uri)` (`Env.redirectSecure`);
  * UUID generation (`fresh` arguments).
-/
namespace Fosite.Model.IDToken

/-! ## time -/


/-- `time.Time{}` -/
def zeroTime : Int := -62135596800000000000

def second : Int := 1000000000
def hour : Int := 3600000000000

/-- `t.Unix()` -/
def unix (t : Int) : Int := t / 1000000000

/-- `t.Truncate(time.Second)` (the zero time lies on a second boundary) -/
def truncSecond (t : Int) : Int := t - t % 1000000000

/-- int64 wrap-around of a product computed in `time.Duration` -/
def wrap64 (x : Int) : Int := (x + 9223372036854775808) % 18446744073709551616 - 9223372036854775808

/-! ## errors -/

/-- the RFC 6749 errors the modelled code returns -/
inductive RFCErr
  | serverError             -- fosite.ErrServerError              server_error/500
  | insufficientEntropy     -- fosite.ErrInsufficientEntropy      insufficient_entropy/400
  | invalidRequest          -- fosite.ErrInvalidRequest           invalid_request/400
  | loginRequired           -- fosite.ErrLoginRequired            login_required/400
  | consentRequired         -- fosite.ErrConsentRequired          consent_required/400
  | unsupportedResponseType -- fosite.ErrUnsupportedResponseType  unsupported_response_type/400
  deriving DecidableEq, Repr, Inhabited

def RFCErr.wire : RFCErr → String
  | .serverError => "server_error/500"
  | .insufficientEntropy => "insufficient_entropy/400"
  | .invalidRequest => "invalid_request/400"
  | .loginRequired => "login_required/400"
  | .consentRequired => "consent_required/400"
  | .unsupportedResponseType => "unsupported_response_type/400"

/-! ## claims, form, configuration -/

/-- a claim value as it is serialised -/
inductive Val
  | str (s : String)
  | num (n : Int)
  | strs (l : List String)
  | raw (s : String)          -- a value of `Extra`, opaque
  deriving DecidableEq, Repr, Inhabited

/-- `jwt.IDTokenClaims` -/
structure Claims where
  jti : String := ""
  iss : String := ""
  sub : String := ""
  aud : List String := []
  nonce : String := ""
  exp : Int := zeroTime
  iat : Int := zeroTime
  rat : Int := zeroTime
  authTime : Int := zeroTime
  atHash : String := ""
  acr : String := ""
  amr : List String := []
  cHash : String := ""
  extra : List (String × Val) := []
  deriving DecidableEq, Repr, Inhabited

/-- result of `h.Signer.Decode(ctx, id_token_hint)` as far as the code looks at it -/
inductive Hint
  | absent                   -- the form value is the empty string
  | decoded (sub : String)   -- decoded (possibly with the "expired" validation error); `sub` claim, "" if not a string
  | error                    -- any other error
  deriving DecidableEq, Repr, Inhabited

/-- the values of `requester.GetRequestForm()` the code reads -/
structure Form where
  grantType : String := ""
  maxAge : Option Int := none     -- strconv.ParseInt(form.Get("max_age"), 10, 64); none = error
  prompt : String := ""
  acrValues : String := ""
  hint : Hint := .absent
  nonce : String := ""
  deriving DecidableEq, Repr, Inhabited

/-- `Config` as read through `GetIDTokenIssuer` / `GetMinParameterEntropy` -/
structure Cfg where
  issuer : String
  minEntropy : Int
  deriving DecidableEq, Repr, Inhabited

/-- `fosite.MinParameterEntropy` -/
def defaultMinEntropy : Int := 8

/-- `Config.GetMinParameterEntropy` -/
def getMinParameterEntropy (raw : Int) : Int := if raw = 0 then defaultMinEntropy else raw

/-- `Config.GetIDTokenLifespan` -/
def getIDTokenLifespan (raw : Int) : Int := if raw = 0 then hour else raw

/-- `fosite.GetEffectiveLifespan(client, grant, IDToken, fallback)`: `override` is the client's field for the
    grant type (`none` = nil pointer, no `TokenLifespans`, or a grant type without such a field) -/
def getEffectiveLifespan (override : Option Int) (fallback : Int) : Int :=
  match override with
  | some l => l
  | none => fallback

/-- `defaultExpiryTime` -/
def defaultExpiryTime : Int := hour

/-! ## `stringslice.Unique` -/

def uniqueAux : List String → List String → List String
  | [], _ => []
  | x :: xs, seen => if x ∈ seen then uniqueAux xs seen else x :: uniqueAux xs (x :: seen)

/-- `stringslice.Unique`: first occurrences, in order -/
def unique (l : List String) : List String := uniqueAux l []

/-! ## `GenerateIDToken` -/

/-- `strconv.ParseInt` of max_age followed by `if err != nil { maxAge = 0 }` -/
def maxAgeOf (f : Form) : Int := match f.maxAge with | some n => n | none => 0

/-- the `max_age` part of the non-refresh block.  `maxAge` is the int64 after `if err != nil { maxAge = 0 }`. -/
def maxAgeCheck (maxAge : Int) (c : Claims) : Option RFCErr :=
  if maxAge > 0 then
    if c.authTime = zeroTime then some .serverError
    else if c.rat = zeroTime then some .serverError
    else if c.authTime + wrap64 (second * maxAge) < c.rat then some .serverError
    else none
  else none

/-- the `switch prompt` of `GenerateIDToken` (compares the raw form value) -/
def promptSwitch (prompt : String) (c : Claims) : Option RFCErr :=
  if prompt = "none" then
    if ¬ c.authTime = c.rat ∧ c.authTime > c.rat then some .serverError else none
  else if prompt = "login" then
    if ¬ c.authTime = c.rat ∧ c.authTime < c.rat then some .serverError else none
  else none

/-- the `id_token_hint` part -/
def hintCheck (h : Hint) (c : Claims) : Option RFCErr :=
  match h with
  | .absent => none
  | .error => some .serverError
  | .decoded hintSub =>
    if hintSub = "" then some .serverError
    else if hintSub ≠ c.sub then some .serverError
    else none

/-- "If acr_values was requested but no acr value was provided in the ID token, fall back to level 0" -/
def acrDefault (f : Form) (c : Claims) : Claims :=
  if f.acrValues ≠ "" ∧ c.acr = "" then { c with acr := "0" } else c

/-- The block `if requester.GetRequestForm().Get("grant_type") != "refresh_token" { … }`, in source order:
    max_age parse, auth_time not more than 5 s in the future, max_age, prompt needs auth_time, prompt switch,
    acr default (a mutation), id_token_hint. -/
def requestChecks (now : Int) (f : Form) (c : Claims) : Except RFCErr Claims :=
  if c.authTime > now + 5 * second then .error .serverError
  else match maxAgeCheck (maxAgeOf f) c with
  | some e => .error e
  | none =>
    if f.prompt ≠ "" ∧ c.authTime = zeroTime then .error .serverError
    else match promptSwitch f.prompt c with
    | some e => .error e
    | none =>
      match hintCheck f.hint (acrDefault f c) with
      | some e => .error e
      | none => .ok (acrDefault f c)

/-- the nonce part: `none` = keep `claims.Nonce`, `some n` = overwrite -/
def nonceStep (cfg : Cfg) (f : Form) : Except RFCErr (Option String) :=
  if f.nonce.length = 0 then .ok none
  else if (f.nonce.length : Int) < cfg.minEntropy then .error .insufficientEntropy
  else .ok (some f.nonce)

/-- `if claims.ExpiresAt.IsZero() { claims.ExpiresAt = time.Now().UTC().Add(lifespan) }` -/
def expDefault (now : Int) (lifespan : Int) (c : Claims) : Claims :=
  if c.exp = zeroTime then { c with exp := now + lifespan } else c

/-- `if claims.AuthTime.IsZero() { claims.AuthTime = time.Now().Truncate(time.Second).UTC() }` -/
def authTimeDefault (now : Int) (c : Claims) : Claims :=
  if c.authTime = zeroTime then { c with authTime := truncSecond now } else c

/-- `if claims.Issuer == "" { claims.Issuer = h.Config.GetIDTokenIssuer(ctx) }` -/
def issDefault (cfg : Cfg) (c : Claims) : Claims :=
  if c.iss = "" then { c with iss := cfg.issuer } else c

def setNonce (n : Option String) (c : Claims) : Claims :=
  match n with
  | some v => { c with nonce := v }
  | none => c

/-- `claims.Audience = stringslice.Unique(append(claims.Audience, clientID)); claims.IssuedAt = time.Now().UTC()` -/
def finish (now : Int) (clientId : String) (c : Claims) : Claims :=
  { c with aud := unique (c.aud ++ [clientId]), iat := now }

/-- `DefaultStrategy.GenerateIDToken(ctx, lifespan, requester)` up to the call of `Signer.Generate`:
    returns the claims object as mutated (what is signed is `toMap` of it) or the error.
    `cfg.minEntropy` is `h.Config.GetMinParameterEntropy(ctx)`, `clientId` is `requester.GetClient().GetID()`,
    `now` is `time.Now()` (the clock does not move during the call). -/
def generateIDToken (cfg : Cfg) (now : Int) (lifespan : Int) (clientId : String) (f : Form) (c : Claims) :
    Except RFCErr Claims :=
  let lifespan := if lifespan = 0 then defaultExpiryTime else lifespan
  if c.sub = "" then .error .serverError
  else
    match (if f.grantType ≠ "refresh_token" then requestChecks now f c else .ok c) with
    | .error e => .error e
    | .ok c1 =>
      let c2 := expDefault now lifespan c1
      if c2.exp < now then .error .serverError
      else
        match nonceStep cfg f with
        | .error e => .error e
        | .ok n => .ok (finish now clientId (setNonce n (issDefault cfg (authTimeDefault now c2))))

/-! ## `IDTokenClaims.ToMap` -/

abbrev ClaimMap := List (String × Val)

def ClaimMap.get (m : ClaimMap) (k : String) : Option Val :=
  match m with
  | [] => none
  | (k', v) :: rest => if k' = k then some v else ClaimMap.get rest k

def ClaimMap.del (m : ClaimMap) (k : String) : ClaimMap := m.filter (fun kv => kv.1 ≠ k)

/-- `ret[k] = v` (some) or `delete(ret, k)` (none) -/
def ClaimMap.put (m : ClaimMap) (k : String) (v : Option Val) : ClaimMap :=
  match v with
  | some x => (k, x) :: m.del k
  | none => m.del k

def optStr (s : String) : Option Val := if s ≠ "" then some (.str s) else none
def optTime (t : Int) : Option Val := if t ≠ zeroTime then some (.num (unix t)) else none
def optList (l : List String) : Option Val := if l.length > 0 then some (.strs l) else none

/-- `IDTokenClaims.ToMap`; `fresh` is `uuid.New().String()`.  Starts from a copy of `Extra`; every reserved
    key is then either assigned or deleted, in source order. -/
def toMap (fresh : String) (c : Claims) : ClaimMap :=
  let m : ClaimMap := c.extra
  let m := m.put "sub" (optStr c.sub)
  let m := m.put "iss" (optStr c.iss)
  let m := m.put "jti" (some (.str (if c.jti ≠ "" then c.jti else fresh)))
  let m := m.put "aud" (some (.strs c.aud))          -- `[]string{}` when empty
  let m := m.put "iat" (optTime c.iat)
  let m := m.put "exp" (optTime c.exp)
  let m := m.put "rat" (optTime c.rat)
  let m := m.put "nonce" (optStr c.nonce)
  let m := m.put "at_hash" (optStr c.atHash)
  let m := m.put "c_hash" (optStr c.cHash)
  let m := m.put "auth_time" (optTime c.authTime)
  let m := m.put "acr" (optStr c.acr)
  let m := m.put "amr" (optList c.amr)
  m

/-- the claims `ToMap` owns -/
def reservedKeys : List String :=
  ["sub", "iss", "jti", "aud", "iat", "exp", "rat", "nonce", "at_hash", "c_hash", "auth_time", "acr", "amr"]

/-! ## `ComputeHash` -/

/-- hashing and encoding primitives: `hash bits` is SHA-256 / SHA-384 / SHA-512 for `bits` = 256 / 384 / 512,
    `b64` is `base64.RawURLEncoding.EncodeToString` -/
structure Crypto where
  hash : Nat → String → List UInt8
  b64 : List UInt8 → String

/-- `sess.IDTokenHeaders().Get("alg")` -/
inductive AlgHeader
  | absent                -- nil
  | str (s : String)      -- a string
  | other                 -- some non-string value
  deriving DecidableEq, Repr, Inhabited

def digitVal (c : Char) : Option Nat :=
  if '0' ≤ c ∧ c ≤ '9' then some (c.toNat - '0'.toNat) else none

def atoiDigits : List Char → Nat → Option Nat
  | [], acc => some acc
  | c :: cs, acc => match digitVal c with
    | some d => atoiDigits cs (acc * 10 + d)
    | none => none

/-- `strconv.Atoi` as far as `ComputeHash` needs it: optional sign, then one or more decimal digits
    (`none` = syntax error; a value outside int is an error in Go and can equal neither 384 nor 512 here
    either way, because only those two comparisons are made on the result). -/
def atoi (s : String) : Option Int :=
  match s.toList with
  | '+' :: (d :: ds) => (atoiDigits (d :: ds) 0).map (fun n => (n : Int))
  | '-' :: (d :: ds) => (atoiDigits (d :: ds) 0).map (fun n => -(n : Int))
  | d :: ds => if d = '+' ∨ d = '-' then none else (atoiDigits (d :: ds) 0).map (fun n => (n : Int))
  | [] => none

/-- the alg → hash table of `ComputeHash`: SHA-256 unless the header is a string longer than two bytes whose
    tail `alg[2:]` is the number 384 or 512 -/
def hashBits (alg : AlgHeader) : Nat :=
  match alg with
  | .str s =>
    if s.length > 2 then
      match atoi (String.ofList (s.toList.drop 2)) with
      | some n => if n = 384 then 384 else if n = 512 then 512 else 256
      | none => 256
    else 256
  | _ => 256

/-- `hashBuf.Bytes()[:hashBuf.Len()/2]` -/
def leftHalf (b : List UInt8) : List UInt8 := b.take (b.length / 2)

/-- `IDTokenHandleHelper.ComputeHash(ctx, sess, token)` -/
def computeHash (C : Crypto) (alg : AlgHeader) (token : String) : String :=
  C.b64 (leftHalf (C.hash (hashBits alg) token))

/-! ## `ValidatePrompt` -/

def isSpace (c : Char) : Bool :=
  c = ' ' || c = '\t' || c = '\n' || c = '\r' || c.toNat = 0x0b || c.toNat = 0x0c

/-- `strings.TrimSpace` on a byte string without multi-byte white space (the generator's prompts are ASCII) -/
def trimSpace (s : String) : String :=
  String.ofList ((s.toList.dropWhile isSpace).reverse.dropWhile isSpace).reverse

/-- `strings.Split(s, " ")` on the list of bytes: `cur` is the (reversed) piece being read -/
def splitSpaceAux : List Char → List Char → List (List Char)
  | [], cur => [cur.reverse]
  | c :: cs, cur => if c = ' ' then cur.reverse :: splitSpaceAux cs [] else splitSpaceAux cs (c :: cur)

def splitSpace (s : String) : List String := (splitSpaceAux s.toList []).map String.ofList

/-- `fosite.RemoveEmpty(strings.Split(s, " "))` -/
def promptList (s : String) : List String :=
  ((splitSpace s).map trimSpace).filter (fun v => v ≠ "")

/-- `defaultPrompts` -/
def defaultPrompts : List String := ["login", "none", "consent", "select_account"]

/-- `isWhitelisted` -/
def isWhitelisted (items white : List String) : Bool := items.all (fun i => white.contains i)

/-- the body of `ValidatePrompt` after `requiredPrompt` and `maxAge` have been computed -/
def validatePromptCore (clientPublic redirectSecure : Bool) (now : Int) (required : List String) (maxAge : Int)
    (hint : Hint) (c : Claims) : Except RFCErr Unit :=
  if clientPublic ∧ required.contains "none" ∧ ¬ redirectSecure then .error .consentRequired
  else if ¬ isWhitelisted required defaultPrompts then .error .invalidRequest
  else if required.contains "none" ∧ required.length > 1 then .error .invalidRequest
  else if c.sub = "" then .error .serverError
  else if c.authTime > now + 5 * second then .error .serverError
  else if maxAge > 0 ∧ c.authTime = zeroTime then .error .serverError
  else if maxAge > 0 ∧ c.rat = zeroTime then .error .serverError
  else if maxAge > 0 ∧ c.authTime + wrap64 (second * maxAge) < c.rat then .error .loginRequired
  else if required.contains "none" ∧ c.authTime = zeroTime then .error .serverError
  else if required.contains "none" ∧ ¬ c.authTime = c.rat ∧ c.authTime > c.rat then .error .loginRequired
  else if required.contains "login" ∧ c.authTime < c.rat then .error .loginRequired
  else match hint with
    | .absent => .ok ()
    | .error => .error .invalidRequest
    | .decoded hintSub =>
      if hintSub = "" then .error .invalidRequest
      else if hintSub ≠ c.sub then .error .loginRequired
      else .ok ()

/-- `OpenIDConnectRequestValidator.ValidatePrompt(ctx, req)` with the default prompt list.
    `clientPublic` is `req.GetClient().IsPublic()`, `redirectSecure` is `checker(ctx, req.GetRedirectURI())`. -/
def validatePrompt (clientPublic redirectSecure : Bool) (now : Int) (f : Form) (c : Claims) : Except RFCErr Unit :=
  validatePromptCore clientPublic redirectSecure now (promptList f.prompt) (maxAgeOf f) f.hint c

/-! ## issuance per flow

  Everything the openid handlers decide; the OAuth 2.0 core around them (client and redirect-URI validation,
  code / token minting and storage, client authentication) is assumed to succeed — the harness keeps those
  inputs valid — and enters only through the minted artefacts (`code`, `accessToken`). -/

/-- per-exchange constants -/
structure Env where
  C : Crypto
  cfgIssuer : String
  minEntropyRaw : Int
  cfgLifespan : Int                 -- Config.IDTokenLifespan
  lifeCode : Option Int             -- client: AuthorizationCodeGrantIDTokenLifespan
  lifeImplicit : Option Int         -- client: ImplicitGrantIDTokenLifespan
  lifeRefresh : Option Int          -- client: RefreshTokenGrantIDTokenLifespan
  clientId : String
  clientPublic : Bool
  redirectSecure : Bool
  alg : AlgHeader                   -- the session's ID-token header `alg`

def Env.cfg (e : Env) : Cfg := { issuer := e.cfgIssuer, minEntropy := getMinParameterEntropy e.minEntropyRaw }

def Env.lifespan (e : Env) (override : Option Int) : Int :=
  getEffectiveLifespan override (getIDTokenLifespan e.cfgLifespan)

/-- what a step leaves behind / delivers -/
structure StepOut where
  claims : Claims                   -- the session's claims object after the step
  issued : Option Claims := none    -- the claims that were signed (`toMap` of them), if an ID token was delivered
  stored : Bool := false            -- an OpenID Connect session was stored under the code

/-- `OpenIDConnectExplicitHandler.HandleAuthorizeEndpointRequest` for response type exactly `code`
    (redirect_uri present). -/
def explicitAuthorize (e : Env) (now : Int) (openid : Bool) (f : Form) (c : Claims) : Except RFCErr StepOut :=
  if ¬ openid then .ok { claims := c }
  else match validatePrompt e.clientPublic e.redirectSecure now f c with
    | .error err => .error err
    | .ok () => .ok { claims := c, stored := true }

/-- `OpenIDConnectExplicitHandler.PopulateTokenEndpointResponse` (`stored` = a session was found under the
    code; the session was stored only with `openid` granted; the client has the grant type).
    `ErrUnknownRequest` is swallowed by `NewAccessResponse`: no ID token. -/
def explicitToken (e : Env) (now : Int) (stored : Bool) (f : Form) (c : Claims) (accessToken : String) :
    Except RFCErr StepOut :=
  if ¬ stored then .ok { claims := c }
  else if c.sub = "" then .error .serverError
  else
    let c1 := { c with atHash := computeHash e.C e.alg accessToken }
    match generateIDToken e.cfg now (e.lifespan e.lifeCode) e.clientId f c1 with
    | .error err => .error err
    | .ok c2 => .ok { claims := c2, issued := some c2 }

/-- `OpenIDConnectDeviceHandler.PopulateTokenEndpointResponse`: as the explicit flow; the device grant has no
    per-client ID-token lifespan. -/
def deviceToken (e : Env) (now : Int) (stored : Bool) (f : Form) (c : Claims) (accessToken : String) :
    Except RFCErr StepOut :=
  if ¬ stored then .ok { claims := c }
  else if c.sub = "" then .error .serverError
  else
    let c1 := { c with atHash := computeHash e.C e.alg accessToken }
    match generateIDToken e.cfg now (e.lifespan none) e.clientId f c1 with
    | .error err => .error err
    | .ok c2 => .ok { claims := c2, issued := some c2 }

/-- `OpenIDConnectImplicitHandler.HandleAuthorizeEndpointRequest` for `id_token` (`withToken = false`) and
    `id_token token`.  Without the granted `openid` scope nobody handles `id_token` and
    `NewAuthorizeResponse` answers unsupported_response_type. -/
def implicitAuthorize (e : Env) (now : Int) (openid withToken : Bool) (f : Form) (c : Claims)
    (accessToken : String) : Except RFCErr StepOut :=
  if ¬ openid then .error .unsupportedResponseType
  else if f.nonce.length = 0 then .error .invalidRequest
  else if (f.nonce.length : Int) < e.cfg.minEntropy then .error .insufficientEntropy
  else match validatePrompt e.clientPublic e.redirectSecure now f c with
    | .error err => .error err
    | .ok () =>
      let c1 := if withToken then { c with atHash := computeHash e.C e.alg accessToken } else c
      match generateIDToken e.cfg now (e.lifespan e.lifeImplicit) e.clientId f c1 with
      | .error err => .error err
      | .ok c2 => .ok { claims := c2, issued := some c2 }

/-- `OpenIDConnectHybridHandler.HandleAuthorizeEndpointRequest` for `code id_token`, `code id_token token`,
    `code token`. -/
def hybridAuthorize (e : Env) (now : Int) (openid withIDToken withToken : Bool) (f : Form) (c : Claims)
    (code accessToken : String) : Except RFCErr StepOut :=
  if f.nonce.length = 0 ∧ withIDToken then .error .invalidRequest
  else if f.nonce.length > 0 ∧ (f.nonce.length : Int) < e.cfg.minEntropy then .error .insufficientEntropy
  else match validatePrompt e.clientPublic e.redirectSecure now f c with
    | .error err => .error err
    | .ok () =>
      let c1 := { c with cHash := computeHash e.C e.alg code }
      let c2 := if withToken then { c1 with atHash := computeHash e.C e.alg accessToken } else c1
      if ¬ openid ∨ ¬ withIDToken then .ok { claims := c2, stored := openid }
      else match generateIDToken e.cfg now (e.lifespan e.lifeImplicit) e.clientId f c2 with
        | .error err => .error err
        | .ok c3 => .ok { claims := c3, issued := some c3, stored := openid }

/-- `OpenIDConnectRefreshHandler.HandleTokenEndpointRequest` + `PopulateTokenEndpointResponse` on the clone of
    the stored session; `f` is the form of the refresh request (`grant_type=refresh_token`). -/
def refreshToken (e : Env) (now : Int) (openid : Bool) (f : Form) (c : Claims) (accessToken fresh : String) :
    Except RFCErr StepOut :=
  if ¬ openid then .ok { claims := c }
  else
    let c1 := { c with exp := zeroTime, jti := "", atHash := "", cHash := "" }
    if c1.sub = "" then .error .serverError
    else
      let c2 := { c1 with atHash := computeHash e.C e.alg accessToken, jti := fresh, cHash := "",
                          iat := truncSecond now }
      match generateIDToken e.cfg now (e.lifespan e.lifeRefresh) e.clientId f c2 with
      | .error err => .error err
      | .ok c3 => .ok { claims := c3, issued := some c3 }

/-! ## a complete exchange (what the harness drives end to end)

  The reference store keeps the session object by reference, so the claims object mutated by one step is the
  one the next step sees (`StepOut.claims`); the refresh step works on a deep copy (same values). -/

/-- response type of the first step -/
inductive RT
  | code | it | itt | ci | cit | ct   -- authorize endpoint: code, id_token, id_token token, code id_token, …
  | device                            -- device authorization + the application accepting the user code
  deriving DecidableEq, Repr, Inhabited

/-- the step whose response is reported -/
inductive Last
  | authz | token | refresh
  deriving DecidableEq, Repr, Inhabited

def RT.hasToken : RT → Bool
  | .itt | .cit | .ct => true
  | _ => false

def RT.hasCode : RT → Bool
  | .code | .ci | .cit | .ct => true
  | _ => false

def RT.hasIDToken : RT → Bool
  | .it | .itt | .ci | .cit => true
  | _ => false

structure Exchange where
  rt : RT
  last : Last
  openid : Bool            -- `openid` is among the granted scopes
  now1 : Int              -- time of the first step
  dt1 : Int                -- pause before the token request
  dt2 : Int                -- pause before the refresh request
  form : Form              -- OpenID Connect parameters of the authorize request (device: supplied by the application)
  refreshNonce : String    -- `nonce` parameter of the refresh request
  claims : Claims          -- the session's ID-token claims as the application filled them in
  code : String            -- the artefacts minted by the OAuth 2.0 core
  at0 : String             -- access token of the authorize response
  at1 : String             -- access token of the token response
  at2 : String             -- access token of the refresh response
  fresh : String           -- uuid.New() of the refresh step

inductive Outcome
  | err (e : RFCErr) (step : String)
  | noIDToken
  /-- the signed claims, the time of the reported step, and the access token / code the hashes are to be
      compared with ("" = the response has none) -/
  | idToken (c : Claims) (now : Int) (accessToken code : String)
  deriving DecidableEq, Repr, Inhabited

/-- The first step.  For response type `code` the OAuth 2.0 handler runs before the OpenID Connect one
    (`AuthorizeExplicitGrantHandler.HandleAuthorizeEndpointRequest`) and refuses a redirect URI that is not
    secure with invalid_request; the hybrid and implicit handlers have no such check.  `device`: the device
    authorization endpoint issues the codes; the application stores the OpenID Connect session when it accepts
    the user code (only sensible with `openid` granted). -/
def firstStep (e : Env) (x : Exchange) : Except RFCErr StepOut :=
  match x.rt with
  | .code =>
    if ¬ e.redirectSecure then .error .invalidRequest
    else explicitAuthorize e x.now1 x.openid x.form x.claims
  | .it => implicitAuthorize e x.now1 x.openid false x.form x.claims x.at0
  | .itt => implicitAuthorize e x.now1 x.openid true x.form x.claims x.at0
  | .ci => hybridAuthorize e x.now1 x.openid true false x.form x.claims x.code x.at0
  | .cit => hybridAuthorize e x.now1 x.openid true true x.form x.claims x.code x.at0
  | .ct => hybridAuthorize e x.now1 x.openid false true x.form x.claims x.code x.at0
  | .device => .ok { claims := x.claims, stored := x.openid }

def secondStep (e : Env) (x : Exchange) (s1 : StepOut) : Except RFCErr StepOut :=
  match x.rt with
  | .device => deviceToken e (x.now1 + x.dt1) s1.stored x.form s1.claims x.at1
  | _ => explicitToken e (x.now1 + x.dt1) s1.stored x.form s1.claims x.at1

def thirdStep (e : Env) (x : Exchange) (s2 : StepOut) : Except RFCErr StepOut :=
  refreshToken e (x.now1 + x.dt1 + x.dt2) x.openid
    { grantType := "refresh_token", nonce := x.refreshNonce } s2.claims x.at2 x.fresh

def report (s : StepOut) (now : Int) (accessToken code : String) : Outcome :=
  match s.issued with
  | some c => .idToken c now accessToken code
  | none => .noIDToken

def exchange (e : Env) (x : Exchange) : Outcome :=
  match firstStep e x with
  | .error err => .err err "authz"
  | .ok s1 =>
    match x.last with
    | .authz =>
      report s1 x.now1 (if x.rt.hasToken then x.at0 else "") (if x.rt.hasCode then x.code else "")
    | _ =>
      match secondStep e x s1 with
      | .error err => .err err "token"
      | .ok s2 =>
        match x.last with
        | .refresh =>
          (match thirdStep e x s2 with
           | .error err => .err err "refresh"
           | .ok s3 => report s3 (x.now1 + x.dt1 + x.dt2) x.at2 "")
        | _ => report s2 (x.now1 + x.dt1) x.at1 (if x.rt = .device then "" else x.code)

end Fosite.Model.IDToken

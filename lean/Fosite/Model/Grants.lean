/-
  The grants that create a grant at the token endpoint itself: client_credentials
  (`flow_client_credentials.go`) and resource owner password credentials (`flow_resource_owner.go`).
  Between `NewAccessRequest` and `NewAccessResponse` the application grants the requested scopes
  and audiences (as fosite's documentation and example do).
-/
import Fosite.Model.Authorize
namespace Fosite.Model

structure DirectReq where
  clientId : String
  credOk : Bool
  scopes : List String := []
  aud : List String := []
  username : String := ""
  passwordGiven : Bool := true
  userOk : Bool := true       -- outcome of the store's `Authenticate` (a parameter)
  subject : String := ""      -- subject the store returns for the user
  form : List (String × String) := []
  deriving Repr, Inhabited

/-- `grant_type=client_credentials` -/
def clientCredentialsH (cfg : Config) (now : Time) (q : DirectReq) : HP Out := do
  let rid ← expectNat .newId (fun _ => retErr .server_error)
  let client ← authenticate q.clientId q.credOk
  let scopes := appendAllUniq [] q.scopes
  let aud := appendAllUniq [] q.aud
  HP.guard (scopesAllowed cfg client scopes) .invalid_scope
  optErr (audienceMatch cfg.audStrategy client.audience aud)
  HP.guard (!client.isPublic) .invalid_grant
  -- (the application grants what was requested)
  let req : Req := { id := rid, client := client, requestedAt := now, reqScopes := scopes, reqAud := aud,
                     grantedScopes := scopes, grantedAud := aud, form := q.form,
                     sess := { expAccess := some (addDur now cfg.atLife) } }
  -- PopulateTokenEndpointResponse
  HP.guard (client.grants.contains "client_credentials") .unauthorized_client
  let atk ← expectNat (.createAccess (req.sanitize [])) (fun r => retErr (match r.errKind with | some e => e | none => .server_error))
  return .tokens atk none false (expiresIn req.sess now cfg.atLife) req.grantedScopes

def clientCredentialsProg (cfg : Config) (now : Time) (q : DirectReq) : Prog Out := (clientCredentialsH cfg now q).run

/-- `grant_type=password` -/
def passwordH (cfg : Config) (now : Time) (q : DirectReq) : HP Out := do
  let rid ← expectNat .newId (fun _ => retErr .server_error)
  let client ← authenticate q.clientId q.credOk
  HP.guard (client.grants.contains "password") .unauthorized_client
  let scopes := appendAllUniq [] q.scopes
  let aud := appendAllUniq [] q.aud
  HP.guard (scopesAllowed cfg client scopes) .invalid_scope
  optErr (audienceMatch cfg.audStrategy client.audience aud)
  HP.guard (q.username != "" && q.passwordGiven) .invalid_request
  match ← callH (.authenticateUser q.username q.userOk) with
  | .ok =>
    -- `password` is deleted from the form before anything is stored
    let req : Req := { id := rid, client := client, requestedAt := now, reqScopes := scopes, reqAud := aud,
                       grantedScopes := scopes, grantedAud := aud, form := q.form.filter (fun p => p.1 != "password"),
                       sess := stampSession cfg now { subject := q.subject, idSubject := q.subject } }
    let atk ← expectNat (.createAccess (req.sanitize [])) (fun r => retErr (match r.errKind with | some e => e | none => .server_error))
    if cfg.refreshScopes.isEmpty || hasOneOf req.grantedScopes cfg.refreshScopes then
      let rt ← expectNat (.createRefresh atk (req.sanitize [])) (fun _ => retErr .server_error)
      return .tokens atk (some rt) false (expiresIn req.sess now cfg.atLife) req.grantedScopes
    else
      return .tokens atk none false (expiresIn req.sess now cfg.atLife) req.grantedScopes
  | r =>
    match r.errKind with
    | some .not_found => HP.fail .invalid_grant
    | _ => HP.fail .server_error

def passwordProg (cfg : Config) (now : Time) (q : DirectReq) : Prog Out := (passwordH cfg now q).run

end Fosite.Model

/-
  History driver (D1): parses one operation per line, runs `Model.step`, prints
  `outcome || storage calls || store dump` with tokens and ids canonicalised by order of first
  appearance (the Go harness applies the same canonicalisation to the real strings).
-/
import Fosite.Driver.Wire
import Fosite.Model.Fault
import Fosite.Model.Sched
import Fosite.Model.Dispatch
namespace Fosite.Driver
open Fosite.Model

/-- canonical names: raw reference "K:raw" ↦ "K<j>" -/
structure Names where
  table : List (String × String) := []
  counts : List (Char × Nat) := []
  deriving Inhabited

/-- `raw` is "K:id" (allocating reference) or "?K:id" (lookup: never allocates, prints "?" when the
    id has not been named yet).  Ids are globally unique, so the table is keyed by the id alone and
    the kind letter of a name is the one of its first (allocating) appearance. -/
def Names.canon (n : Names) (raw : String) : Names × String :=
  let lookupOnly := raw.startsWith "?"
  let body := if lookupOnly then (raw.drop 1).toString else raw
  let key := (body.drop 2).toString
  match n.table.find? (fun p => p.1 == key) with
  | some p => (n, p.2)
  | none =>
    if lookupOnly then (n, "?") else
    let k := body.front
    let c := match n.counts.find? (fun p => p.1 == k) with | some p => p.2 | none => 0
    let name := k.toString ++ toString c
    ({ table := n.table ++ [(key, name)], counts := (n.counts.filter (fun p => p.1 != k)) ++ [(k, c + 1)] }, name)

/-- replace every `@K:raw@` in `s` by its canonical name, allocating names left to right -/
def Names.rewrite (n : Names) (s : String) : Names × String :=
  let parts := s.splitOn "@"
  let rec go (n : Names) (ps : List String) (inRef : Bool) (acc : String) : Names × String :=
    match ps with
    | [] => (n, acc)
    | p :: rest =>
      if inRef then
        let (n', nm) := n.canon p
        go n' rest false (acc ++ nm)
      else go n rest true (acc ++ p)
  go n parts false ""

/-- canonical name ↦ raw number (for references in op lines) -/
def Names.resolve (n : Names) (name : String) : Option Nat :=
  match n.table.find? (fun p => p.2 == name) with
  | some p => p.1.toNat?
  | none => none

def ref (k : Char) (n : Nat) : String := "@" ++ k.toString ++ ":" ++ toString n ++ "@"
/-- lookup reference: prints the canonical name if the id is known, "?" otherwise -/
def refOpt (k : Char) : Option Nat → String
  | some n => "@?" ++ k.toString ++ ":" ++ toString n ++ "@"
  | none => "?"

def refNew (k : Char) : Option Nat → String
  | some n => ref k n
  | none => "?"

def encList (xs : List String) : String := String.join (xs.map (fun x => "," ++ x))

def optTime : Option Time → String
  | some t => toString t
  | none => "-"

def sortStrings (xs : List String) : List String := (xs.toArray.qsort (· < ·)).toList
def dedupS (xs : List String) : List String := xs.foldl (fun acc x => if acc.contains x then acc else acc ++ [x]) []

def renderReq (r : Req) : String :=
  s!"g={ref 'G' r.id} c={r.client.id} gs={encList r.grantedScopes} ga={encList r.grantedAud} sub={r.sess.subject} xa={optTime r.sess.expAccess} xr={optTime r.sess.expRefresh} xc={optTime r.sess.expCode} xd={optTime r.sess.expDevice} xu={optTime r.sess.expUser} xp={optTime r.sess.expPar} f={encList (sortStrings (dedupS (r.form.map (·.1))))}"

def renderRes : Res → String
  | .ok => "ok" | .notFound => "notfound" | .req _ => "ok" | .inactive _ => "inactive"
  | .client _ => "ok" | .nat _ => "ok" | .par _ => "ok" | .dev _ => "ok" | .usedDev _ => "used"
  | .fail .not_found => "notfound"      -- an injected ErrNotFound is indistinguishable from a genuine one
  | .fail e => "err:" ++ e.wire

def renderCall : Call × Res → String
  | (.getClient id, r) => s!"getClient({id})={renderRes r}"
  | (.createCode q, r) => s!"createCode({match r with | .nat n => ref 'C' n | _ => "?"},{ref 'G' q.id})={renderRes r}"
  | (.getCode k, r) => s!"getCode({refOpt 'C' k})={renderRes r}"
  | (.invalidateCode k, r) => s!"invalidateCode({refOpt 'C' k})={renderRes r}"
  | (.createAccess q, r) => s!"createAccess({match r with | .nat n => ref 'A' n | _ => "?"},{ref 'G' q.id})={renderRes r}"
  | (.getAccess k, r) => s!"getAccess({refOpt 'A' k})={renderRes r}"
  | (.deleteAccess k, r) => s!"deleteAccess({refOpt 'A' k})={renderRes r}"
  | (.revokeAccess rid, r) => s!"revokeAccess({ref 'G' rid})={renderRes r}"
  | (.createRefresh a q, r) => s!"createRefresh({match r with | .nat n => ref 'R' n | _ => "?"},{ref 'A' a},{ref 'G' q.id})={renderRes r}"
  | (.getRefresh k, r) => s!"getRefresh({refOpt 'R' k})={renderRes r}"
  | (.deleteRefresh k, r) => s!"deleteRefresh({refOpt 'R' k})={renderRes r}"
  | (.revokeRefresh rid, r) => s!"revokeRefresh({ref 'G' rid})={renderRes r}"
  | (.rotateRefresh rid k, r) => s!"rotateRefresh({ref 'G' rid},{refOpt 'R' k})={renderRes r}"
  | (.createPKCE s q, r) => s!"createPKCE({ref 'C' s},{ref 'G' q.id})={renderRes r}"
  | (.getPKCE k, r) => s!"getPKCE({refOpt 'C' k})={renderRes r}"
  | (.deletePKCE k, r) => s!"deletePKCE({refOpt 'C' k})={renderRes r}"
  | (.createOIDC c q, r) => s!"createOIDC(full:{ref 'C' c},{ref 'G' q.id})={renderRes r}"
  | (.getOIDC k, r) => s!"getOIDC(full:{refOpt 'C' k})={renderRes r}"
  | (.deleteOIDC k, r) => s!"deleteOIDC(full:{refOpt 'C' k})={renderRes r}"
  | (.createPAR q, r) => s!"createPAR({match r with | .nat n => ref 'P' n | _ => "?"},{ref 'G' q.req.id})={renderRes r}"
  | (.getPAR k, r) => s!"getPAR({refOpt 'P' k})={renderRes r}"
  | (.deletePAR k, r) => s!"deletePAR({refOpt 'P' k})={renderRes r}"
  | (.createDevice q, r) => s!"createDevice({match r with | .nat n => ref 'D' n ++ "," ++ ref 'U' (n + 1) | _ => "?"},{ref 'G' q.req.id})={renderRes r}"
  | (.getDevice k, r) => s!"getDevice({refOpt 'D' k})={renderRes r}"
  | (.invalidateDevice k, r) => s!"invalidateDevice({refOpt 'D' k})={renderRes r}"
  | (.authenticateUser n _, r) => s!"authenticateUser({n})={renderRes r}"
  | (.beginTx, r) => s!"beginTx={renderRes r}"
  | (.commitTx, r) => s!"commitTx={renderRes r}"
  | (.rollbackTx, r) => s!"rollbackTx={renderRes r}"
  | (.newId, _) => "newId"

def b01 (b : Bool) : String := if b then "1" else "0"

def renderOut : Out → String
  | .ok => "ok"
  | .err e => "err " ++ e.wire
  | .authz c a i => s!"authz code={refNew 'C' c} at={refNew 'A' a} id={b01 i}"
  | .tokens a r i e sc => s!"tokens at={ref 'A' a} rt={refNew 'R' r} id={b01 i} exp={e} scope={encList sc}"
  | .active u r => s!"active use={u} {renderReq r}"
  | .inactive e => "inactive " ++ e.wire
  | .device d u e => s!"device dc={ref 'D' d} uc={ref 'U' u} exp={e}"
  | .par u e => s!"par uri={ref 'P' u} exp={e}"

def renderDump (s : Store) : String :=
  let codes := s.codes.map (fun (k, r) => s!"{ref 'C' k}:{b01 r.active}:{renderReq r.req}")
  let access := s.access.map (fun (k, r) => s!"{ref 'A' k}:{renderReq r}")
  let refresh := s.refresh.map (fun (k, r) => s!"{ref 'R' k}:{b01 r.active}:{ref 'A' r.atSig}:{renderReq r.req}")
  let atIdx := s.atIdx.map (fun (k, v) => s!"{ref 'G' k}>{ref 'A' v}")
  let rtIdx := s.rtIdx.map (fun (k, v) => s!"{ref 'G' k}>{ref 'R' v}")
  let pkce := s.pkce.map (fun (k, r) => s!"{ref 'C' k}:{renderReq r}")
  let oidc := s.oidc.map (fun (k, r) => s!"full:{refOpt 'C' (some k)}:{renderReq r}")
  let par := s.par.map (fun (k, p) => s!"{ref 'P' k}:rt={encList p.responseTypes}:redir={p.redirect}:state={p.state}:{renderReq p.req}")
  let device := s.device.map (fun (k, d) => s!"{ref 'D' k}:{d.state}:{b01 d.used}:{renderReq d.req}")
  s!"codes[{"; ".intercalate codes}] access[{"; ".intercalate access}] refresh[{"; ".intercalate refresh}] atIdx[{" ".intercalate atIdx}] rtIdx[{" ".intercalate rtIdx}] pkce[{"; ".intercalate pkce}] oidc[{"; ".intercalate oidc}] par[{"; ".intercalate par}] device[{"; ".intercalate device}]"

/-! ### parsing -/

def parseBool (s : String) : Bool := s == "1"

def parsePresented (n : Names) (s : String) : Presented :=
  match s.splitOn "~" with
  | [name] => match n.resolve name with
    | some k => { sig := some k, exact := true }
    | none => { sig := none, exact := false }
  | [name, "r"] => match n.resolve name with
    | some k => { sig := some k, exact := false }
    | none => { sig := none, exact := false }
  -- leading white space: the signature part is still the stored one
  | [name, "q"] => match n.resolve name with
    | some k => { sig := some k, exact := false }
    | none => { sig := none, exact := false }
  -- "~s" (signature altered), "~p" (trailing white space: the signature part matches nothing)
  | _ => { sig := none, exact := false }

def hexVal1 (c : Char) : Option Nat :=
  if '0' ≤ c ∧ c ≤ '9' then some (c.toNat - '0'.toNat)
  else if 'a' ≤ c ∧ c ≤ 'f' then some (c.toNat - 'a'.toNat + 10) else none

/-- hex-encoded ASCII text (op "wire") -/
def unhexAscii : List Char → Option (List Char)
  | [] => some []
  | a :: b :: rest => do
    let x ← hexVal1 a
    let y ← hexVal1 b
    let t ← unhexAscii rest
    pure (Char.ofNat (16 * x + y) :: t)
  | _ => none

def parseHint : String → Hint
  | "" => .none | "access_token" => .access | "refresh_token" => .refresh | _ => .other


def parseCfg (fs : List String) : Config :=
  { refreshScopes := decList (kv fs "refreshScopes"),
    scopeStrategy := match kv fs "scope" with | "hierarchic" => .hierarchic | "exact" => .exact | _ => .wildcard,
    audStrategy := if kv fs "aud" == "default" then .default else .exact,
    codeLife := (kv fs "codeLife").toInt?.getD 0,
    atLife := (kv fs "atLife").toInt?.getD 0,
    rtLife := (kv fs "rtLife").toInt?.getD 0,
    enforcePKCE := parseBool (kv fs "pkce"),
    enforcePKCEPublic := parseBool (kv fs "pkcePublic"),
    enablePlain := parseBool (kv fs "plain"),
    disableRefreshIntrospect := parseBool (kv fs "noRtIntrospect"),
    deviceLife := (kv fs "deviceLife").toInt?.getD (10 * 60 * 1000000000),
    parLife := (kv fs "parLife").toInt?.getD (5 * 60 * 1000000000),
    enforcePAR := parseBool (kv fs "enforcePAR"),
    jwtAccess := parseBool (kv fs "jwt") }

def tokenForm (grant : String) (clientId : String) (extra : List (String × String)) : List (String × String) :=
  [("grant_type", grant), ("client_id", clientId)] ++ extra.filter (fun p => p.2 != "")

def parseOp (n : Names) (fs : List String) : Option Op :=
  match fs with
  | "cfg" :: rest => some (.setCfg (parseCfg rest))
  | ["client", id, pub, grants, scopes, aud, redirects] =>
    some (.setClient { id := id, isPublic := parseBool pub, grants := decList grants, scopes := decList scopes,
                       audience := decList aud, redirects := decList redirects })
  | ["advance", d] => d.toNat?.map .advance
  -- "authorizeRU": an ordinary authorization request that also carries a `request_uri` outside the PAR prefix
  -- and no `openid` scope: the parameter is ignored (it is no pushed request and no OIDC request object)
  | ["authorizeRU", client, rts, redirect, secure, state, nonce, scopes, aud, gs, ga, sub, challenge, method, _]
  | ["authorize", client, rts, redirect, secure, state, nonce, scopes, aud, gs, ga, sub, challenge, method] =>
    some (.authorize { clientId := client, responseTypes := decList rts, redirect := redirect,
                       redirectSecure := parseBool secure, state := state, nonce := nonce,
                       scopes := decList scopes, aud := decList aud, grantScopes := decList gs, grantAud := decList ga,
                       subject := sub, challenge := challenge, method := method })
  | ["redeemAs", client, cred, code, redirect, verifier, scopes, aud, bodyClient] =>
    -- the authenticated client is `client` (HTTP Basic); the body's client_id only ends up in the stored form
    some (.redeem { clientId := client, credOk := parseBool cred, code := parsePresented n code,
                    redirect := redirect, verifier := verifier, scopes := decList scopes, aud := decList aud,
                    form := tokenForm "authorization_code" bodyClient
                      [("code", code), ("redirect_uri", redirect), ("code_verifier", verifier),
                       ("scope", " ".intercalate (decList scopes)), ("audience", " ".intercalate (decList aud))] })
  | ["redeem", client, cred, code, redirect, verifier, scopes, aud] =>
    some (.redeem { clientId := client, credOk := parseBool cred, code := parsePresented n code,
                    redirect := redirect, verifier := verifier, scopes := decList scopes, aud := decList aud,
                    form := tokenForm "authorization_code" client
                      [("code", code), ("redirect_uri", redirect), ("code_verifier", verifier),
                       ("scope", " ".intercalate (decList scopes)), ("audience", " ".intercalate (decList aud))] })
  | ["refresh", client, cred, tok, scopes, aud] =>
    some (.refresh { clientId := client, credOk := parseBool cred, token := parsePresented n tok,
                     scopes := decList scopes, aud := decList aud,
                     form := tokenForm "refresh_token" client
                       [("refresh_token", tok), ("scope", " ".intercalate (decList scopes)),
                        ("audience", " ".intercalate (decList aud))] })
  | ["revoke", client, cred, tok, hint] =>
    some (.revoke { clientId := client, credOk := parseBool cred, token := parsePresented n tok, hint := parseHint hint })
  | ["introspectHTTP", ckind, carg, ccred, tok, hint, scopes] =>
    let caller : Caller := match ckind with
      | "bearer" => .bearer (parsePresented n carg) (carg == tok && carg != "foreign")
      | "basic" => .basic carg (parseBool ccred)
      | _ => .anonymous
    some (.introspectEndpoint { caller := caller, q := { token := parsePresented n tok, hint := parseHint hint, scopes := decList scopes } })
  | ["introspect", tok, hint, scopes] =>
    some (.introspect { token := parsePresented n tok, hint := parseHint hint, scopes := decList scopes })
  | ["cc", client, cred, scopes, aud] =>
    let ccForm := tokenForm "client_credentials" client
      [("scope", " ".intercalate (decList scopes)), ("audience", " ".intercalate (decList aud))]
    some (.clientCredentials { clientId := client, credOk := parseBool cred, scopes := decList scopes, aud := decList aud, form := ccForm })
  | ["password", client, cred, user, pwgiven, userok, scopes, aud] =>
    some (.password { clientId := client, credOk := parseBool cred, username := user, passwordGiven := parseBool pwgiven, userOk := parseBool userok, subject := "sub-" ++ user, scopes := decList scopes, aud := decList aud, form := tokenForm "password" client [("username", user), ("password", if parseBool pwgiven then "x" else ""), ("scope", " ".intercalate (decList scopes)), ("audience", " ".intercalate (decList aud))] })
  | ["deviceAuthorize", client, cred, formClient, scopes, aud] =>
    some (.deviceAuthorize { clientId := client, credOk := parseBool cred, formClientId := formClient, scopes := decList scopes, aud := decList aud, form := [("client_id", formClient)].filter (fun p => p.2 != "") ++ [("scope", " ".intercalate (decList scopes)), ("audience", " ".intercalate (decList aud))].filter (fun p => p.2 != "") })
  | ["deviceDecide", dev, verdict, gs, ga, sub] =>
    (n.resolve dev).map (fun sig => .deviceDecide sig (verdict == "accept") (decList gs) (decList ga) sub)
  | ["devicePoll", client, cred, dev] =>
    some (.devicePoll { clientId := client, credOk := parseBool cred, code := parsePresented n dev, form := tokenForm "urn:ietf:params:oauth:grant-type:device_code" client [("device_code", dev)] })
  | ["parPush", client, cred, hasUri, bodySecret, rts, redirect, secure, state, nonce, scopes, aud, challenge, method] =>
    some (.parPush { credOk := parseBool cred, hasRequestUri := parseBool hasUri, extraForm := (if parseBool bodySecret then [("client_secret", "x")] else []) ++ (if parseBool hasUri then [("request_uri", "x")] else []), q := { clientId := client, responseTypes := decList rts, redirect := redirect, redirectSecure := parseBool secure, state := state, nonce := nonce, scopes := decList scopes, aud := decList aud, challenge := challenge, method := method } })
  | ["authorizePar", client, uri, extra, gs, ga, sub] =>
    some (.authorizePar { clientId := client, uri := n.resolve uri, extra := [("request_uri", uri)] ++ (decList extra).map (fun k => (k, "x")), grantScopes := decList gs, grantAud := decList ga, subject := sub })
  | _ => none

structure HistState where
  m : MState := {}
  names : Names := {}
  tx : Bool := false                       -- the store implements storage.Transactional (cfg tx=1)
  pending : List (Nat × Err) := []         -- fault plan for the next operation (op "fault")
  wire : Option String := none             -- grant_type value on the wire for the next token request (op "wire")
  deriving Inhabited

def parseFaultKind : String → Err
  | "not_found" => .not_found
  | "serialization" => .serialization_failure
  | _ => .generic

def parsePlan (s : String) : List (Nat × Err) :=
  (decList s).filterMap (fun e => match e.splitOn ":" with
    | [i, k] => i.toNat?.map (fun n => (n, parseFaultKind k))
    | _ => none)

/-! ### op "par": several operations interleaved at storage-call granularity (C19) -/

/-- thread `i` runs the quiet calls in front of its next storage call (what the real request does before it
    reaches the store: request-id / token generation, transaction markers of a non-transactional store) -/
def flushQuiet : Nat → Sys → Nat → Sys
  | 0, s, _ => s
  | fuel + 1, s, i =>
    match s.thr[i]? with
    | some t =>
      match t.prog with
      | .call c _ => if c.quiet then flushQuiet fuel (s.step i) i else s
      | .ret _ => s
    | none => s

/-- one schedule entry: thread `i` performs its next storage call, then runs on to the one after it (or ends) -/
def parStep (s : Sys) (i : Nat) : Sys :=
  match s.thr[i]? with
  | some t =>
    match t.prog with
    | .call _ _ => flushQuiet 64 (s.step i) i
    | .ret _ => s
  | none => s

/-- after the schedule: the unfinished requests run to completion, lowest index first -/
def parDrain : Nat → Sys → Sys
  | 0, s => s
  | fuel + 1, s =>
    match (List.range s.thr.length).find? (fun i => match s.thr[i]? with | some t => t.out.isNone | none => false) with
    | some i => parDrain fuel (parStep s i)
    | none => s

def parRun (m : MState) (ops : List Op) (sched : List Nat) : Sys :=
  let s0 := Sys.init m ops
  let s1 := (List.range s0.thr.length).foldl (fun s i => flushQuiet 64 s i) s0
  parDrain 4096 (sched.foldl parStep s1)

def parSep : String := String.singleton (Char.ofNat 31)

/-- JWT access-token mode, rendering of lookup keys only: the strategy derives the storage key from the
    SHAPE of the presented string (`header.payload.signature` for access tokens, `random.signature` for
    everything else), so a credential of the wrong shape is looked up under the empty key — the lookup fails
    either way, and the harness logs the key as "?".  The model keeps one `Presented.sig` per credential; this
    function rewrites the rendered key of such a (failing) lookup to "?" so that the call logs compare. -/
def jwtKeyView (entry : String) : String :=
  let (tag, rest) := if entry.startsWith "t" && (entry.splitOn ":").length > 1 && !(entry.startsWith "to")
    then ((entry.splitOn ":").headD "" ++ ":", ":".intercalate ((entry.splitOn ":").drop 1)) else ("", entry)
  let name := (rest.splitOn "(").headD rest
  let accessTable := name == "getAccess" || name == "deleteAccess"
  let opaqueTable := name == "getRefresh" || name == "deleteRefresh" || name == "getCode" || name == "invalidateCode" ||
    name == "getPKCE" || name == "deletePKCE" || name == "getDevice" || name == "invalidateDevice"
  if !(accessTable || opaqueTable) then entry else
  match rest.splitOn "(" with
  | [n, r] =>
    match r.splitOn ")" with
    | [arg, tail] =>
      let wrong := if accessTable then !(arg.startsWith "A") && arg != "?" else arg.startsWith "A"
      if wrong then tag ++ n ++ "(?)" ++ tail else entry
    | _ => entry
  | _ => entry

def jwtCallsView (line : String) : String :=
  match line.splitOn " || " with
  | out :: calls :: rest => " || ".intercalate (out :: " ".intercalate ((calls.splitOn " ").map jwtKeyView) :: rest)
  | _ => line

def hexOfString (s : String) : String :=
  String.join (s.toUTF8.toList.map (fun b =>
    let d (n : Nat) : Char := if n < 10 then Char.ofNat (48 + n) else Char.ofNat (87 + n)
    String.ofList [d (b.toNat / 16), d (b.toNat % 16)]))

/-- what an accepted authorization request echoes: its state and the redirect target.  A plain request echoes its
    own parameters (the redirect URI defaults to the client's single registered one); a pushed request echoes the
    PUSHED state and redirect URI, whatever is sent alongside the request_uri (C17, C13). -/
def authzEcho (m : MState) (op : Op) (out : Out) : String :=
  match out with
  | .authz _ _ _ =>
    -- the response mode of a request that names none: `query` for exactly `code`, `fragment` otherwise
    let modeOf (rts : List String) : String := if rts == ["code"] then "query" else "fragment"
    let (st, rd, mode) := match op with
      | .authorize q =>
        (q.state, (if q.redirect != "" then q.redirect else
          match m.ss.clients.find? (fun c => c.id == q.clientId) with
          | some c => c.redirects.headD ""
          | none => ""), modeOf q.responseTypes)
      | .authorizePar a =>
        (match a.uri.bind (alookup m.ss.store.par) with
         | some p => (p.state, (if p.redirect != "" then p.redirect else p.req.client.redirects.headD ""), modeOf p.responseTypes)
         | none => ("", "", ""))
      | _ => ("", "", "")
    " st=" ++ hexOfString st ++ " rd=" ++ hexOfString rd ++ " mode=" ++ mode
  | _ => ""

/-- one line in, one line out -/
def histStep (h : HistState) (line : String) : HistState × String :=
  match fields line with
  | ["fault", plan] =>
    let (names', txt) := h.names.rewrite ("ok ||  || " ++ renderDump h.m.ss.store)
    ({ h with pending := parsePlan plan, names := names' }, txt)
  | ["wire", spec] =>
    let (names', txt) := h.names.rewrite ("ok ||  || " ++ renderDump h.m.ss.store)
    -- ("cid=…": another client_id in the body of a request that authenticates with HTTP Basic — the authenticated
    --  client is the client of the request, so the model has nothing to change)
    let w := if spec.startsWith "gt=" then (unhexAscii (spec.drop 3).toString.toList).map String.ofList else none
    ({ h with wire := w, names := names' }, txt)
  | "par" :: sched :: opStrs =>
    let ops := opStrs.filterMap (fun o => parseOp h.names (o.splitOn parSep))
    if ops.length != opStrs.length || !(ops.all (fun op => (op.prog h.m).isSome)) then ({ h with pending := [] }, "bad-op") else
    let s := parRun h.m ops ((decList sched).filterMap String.toNat?)
    let outs := (s.thr.zip ops).map (fun (t, op) => match t.out with | some o => renderOut o ++ authzEcho h.m op o | none => "unfinished")
    let calls := (s.trace.filter (fun e => !e.2.1.quiet)).map (fun e => s!"t{e.1}:" ++ renderCall e.2)
    let m' := { h.m with ss := s.ss }
    let raw := "par " ++ " ;; ".intercalate outs ++ " || " ++ " ".intercalate calls ++ " || " ++ renderDump m'.ss.store
    let (names', txt) := h.names.rewrite raw
    ({ h with m := m', names := names', pending := [] }, if h.m.cfg.jwtAccess then jwtCallsView txt else txt)
  | _ =>
  match parseOp h.names (fields line) with
  | none => ({ h with pending := [] }, "bad-op")
  | some op =>
    let (m0, tx) := match fields line with
      | "cfg" :: rest => ({ h.m with ss := { h.m.ss with devMark := parseBool (kv rest "devMark") } }, parseBool (kv rest "tx"))
      | _ => (h.m, h.tx)
    -- the plan applies to this operation only; storage-call indices are per operation
    let rc : RunCfg := { plan := planOf h.pending, tx := tx }
    let (m', out, log) :=
      match h.wire with
      | some w =>
        if ownGrantType op w then stepWith rc m0 op else
        let r := run rc { ss := m0.ss } (noHandlerProg op.clientId)
        ({ m0 with ss := r.1.ss }, r.2, r.1.log)
      | none => stepWith rc m0 op
    let raw := renderOut out ++ authzEcho m0 op out ++ " || " ++ " ".intercalate (log.map renderCall) ++ " || " ++ renderDump m'.ss.store
    let (names', txt) := h.names.rewrite raw
    ({ m := m', names := names', tx := tx, pending := [] }, if m'.cfg.jwtAccess then jwtCallsView txt else txt)

end Fosite.Driver

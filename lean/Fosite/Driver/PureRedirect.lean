/-
  D4 pure driver, redirect-URI decision functions (C11).

  Op lines (tab-separated fields; every string item is escaped with `\\`, `\c` (comma), `\uXXXX`
  (control / line-separator code points); lists are ",a,b"):

    redirect  match  RAW  REGS  E(RAW)  E(reg1) … E(regN)
    redirect  (valid|secure|strict|localhost)  RAW  E(RAW)

  where REGS is the list of registered redirect URIs and E(s) is the list
    ,parseOk,str,scheme,user,host,hostname,port,path,rawQuery,fragment,opaque,loopback,isRequestURL
  of what net/url.Parse / net.ParseIP / govalidator report about `s` (computed by the Go harness).

  Answers:  match → `ok <u.String()>` | `err <rfc error name>`;
            others → `parse-error` | `true` | `false`.
-/
import Fosite.Driver.Wire
import Fosite.Model.Redirect
import Fosite.Spec.Redirect
namespace Fosite.Driver.Redirect
open Fosite Fosite.Model Fosite.Driver

def hexVal (c : Char) : Nat :=
  if '0' ≤ c ∧ c ≤ '9' then c.toNat - '0'.toNat
  else if 'a' ≤ c ∧ c ≤ 'f' then c.toNat - 'a'.toNat + 10
  else if 'A' ≤ c ∧ c ≤ 'F' then c.toNat - 'A'.toNat + 10
  else 0

/-- inverse of the harness' `escField` -/
def unescL : List Char → List Char
  | '\\' :: 'c' :: cs => ',' :: unescL cs
  | '\\' :: '\\' :: cs => '\\' :: unescL cs
  | '\\' :: 'u' :: a :: b :: c :: d :: cs =>
    Char.ofNat (((hexVal a * 16 + hexVal b) * 16 + hexVal c) * 16 + hexVal d) :: unescL cs
  | c :: cs => c :: unescL cs
  | [] => []

def unesc (s : String) : String := String.ofList (unescL s.toList)

def hexDigit (n : Nat) : Char :=
  if n < 10 then Char.ofNat ('0'.toNat + n) else Char.ofNat ('A'.toNat + (n - 10))

def needsU (c : Char) : Bool :=
  c.toNat < 0x20 || c.toNat == 0x7f || c.toNat == 0x85 || c.toNat == 0x2028 || c.toNat == 0x2029

/-- the harness' `escField` -/
def escL : List Char → List Char
  | [] => []
  | c :: cs =>
    if c = '\\' then '\\' :: '\\' :: escL cs
    else if c = ',' then '\\' :: 'c' :: escL cs
    else if needsU c then
      let n := c.toNat
      '\\' :: 'u' :: hexDigit (n / 4096 % 16) :: hexDigit (n / 256 % 16) :: hexDigit (n / 16 % 16) ::
        hexDigit (n % 16) :: escL cs
    else c :: escL cs

def esc (s : String) : String := String.ofList (escL s.toList)

def flag (s : String) : Bool := s == "1"

/-- one E(s) field -/
def decPURL (field : String) : Option PURL :=
  match (decList field).map unesc with
  | [ok, str, scheme, user, host, hostname, port, path, q, frag, opq, lb, rq] =>
    some { parseOk := flag ok, str := str, scheme := scheme, user := user, host := host,
           hostname := hostname, port := port, path := path, rawQuery := q, fragment := frag,
           opaquePart := opq, hostIsLoopbackIP := flag lb, isRequestURL := flag rq }
  | _ => none

/-- the parser as a finite table: the first entry for a string wins; strings outside the table do
    not parse (the model never asks for them). -/
def mkParser (keys : List String) (vals : List PURL) : Parser := fun s =>
  match (keys.zip vals).find? (fun kv => kv.1 == s) with
  | some kv => kv.2
  | none => PURL.bad

structure MatchOp where
  raw : String
  regs : List String
  P : Parser

def decMatch (raw regs : String) (entries : List String) : Option MatchOp :=
  let raw' := unesc raw
  let regs' := (decList regs).map unesc
  match entries.mapM decPURL with
  | some us =>
    if us.length == regs'.length + 1 then some { raw := raw', regs := regs', P := mkParser (raw' :: regs') us }
    else none
  | none => none

def unary (f : PURL → String) (entry : String) : Option String :=
  match decPURL entry with
  | some u => some (if u.parseOk then f u else "parse-error")
  | none => none

end Fosite.Driver.Redirect

namespace Fosite.Driver
open Fosite Fosite.Model Fosite.Driver.Redirect

/-- model side -/
def pureModelRedirect (fs : List String) : Option String :=
  match fs with
  | "redirect" :: "match" :: raw :: regs :: entries =>
    match decMatch raw regs entries with
    | some m =>
      match matchRedirectURI m.P m.raw m.regs with
      | .ok s => some ("ok " ++ esc (m.P s).str)
      | .error e => some ("err " ++ e)
    | none => none
  | ["redirect", "valid", _, e] => unary (fun u => boolStr (isValidRedirectURI u)) e
  | ["redirect", "secure", _, e] => unary (fun u => boolStr (isRedirectURISecure u)) e
  | ["redirect", "strict", _, e] => unary (fun u => boolStr (isRedirectURISecureStrict u)) e
  | ["redirect", "localhost", _, e] => unary (fun u => boolStr (isLocalhost u)) e
  | _ => none

/-- spec side: the documented meaning; "skip" where the statement does not prescribe the answer
    (`valid`: the statement only demands rejection of non-absolute URIs and of fragments). -/
def pureSpecRedirect (fs : List String) : Option String :=
  match fs with
  | "redirect" :: "match" :: raw :: regs :: entries =>
    match decMatch raw regs entries with
    | some m =>
      match Spec.matchTarget m.P m.raw m.regs with
      | some s => some ("ok " ++ esc (m.P s).str)
      | none => some "err invalid_request"
    | none => none
  | ["redirect", "valid", _, e] =>
    unary (fun u => if u.scheme == "" || u.fragment != "" then "false" else "skip") e
  | ["redirect", "secure", _, e] => unary (fun u => boolStr (Spec.secure u)) e
  | ["redirect", "strict", _, e] => unary (fun u => boolStr (Spec.secureStrict u)) e
  | ["redirect", "localhost", _, e] => unary (fun u => boolStr (Spec.isLocalB u)) e
  | _ => none

end Fosite.Driver

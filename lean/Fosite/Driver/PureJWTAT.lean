/-
  D4 driver for the JWT access-token layer (C06, JWT half).  Op lines (tab-separated, `k=v` fields
  after the kind):

    jwtat validate    key=<cfg> tok=<recipe> <facts>
    jwtat signer      key=<cfg> tok=<recipe> <facts>
    jwtat introspect  key=<cfg> tok=<recipe> <facts> need=<list esc> cover=<list 0|1> strat=<name> use=<hint>
    jwtat sig         tok=<recipe> <facts>
    jwtat gen         key=<cfg>

  <cfg>   ge | d/<mat> | jp/<mat>/<alg>/<use> | jv/<mat>/<alg>/<use>
  <mat>   rp.<K> (*rsa.PrivateKey) | ep.<K>.<bits> (*ecdsa.PrivateKey) | pk.… (public keys, by value or
          pointer) | sec ([]byte) | os.<rpub|epub|rpriv|epriv|other>.<K>.<alg+alg+…> (jose.OpaqueSigner
          with the dynamic type of Public().Key and its Algs()) | oth.… (nil, string)
  <facts> form=c|j jok=0|1 nseg=<n> b64=0|1 hdr=0|1 nsig=<n> alg=<esc> crit=0|1 pl=0|1 by=<K|-> mac=<K|->
          hp=<id> cv=<subset of e,i,n or -> sub=<esc> scp=<list esc> uh=<list esc>
          — the parameters of `Model/JWTAT.lean`, computed by the Go side with the standard library
          (strings, encoding/base64, encoding/json, crypto/rsa, crypto/ecdsa, crypto/hmac),
          cross-checked there with go-jose, and re-checked by the executor on replay.
  `tok=` (how the string is built from really minted tokens) and `strat=` / `use=` are read by the Go
  executor only.

  `pureModelJWTAT` answers with the line the implementation must print:
    validate    ok | err <name>/<status>
    signer      ok | verr <bit+bit…> | err plain
    introspect  ok use=access_token sub=<esc> scopes=<list> uh=<list> | err <name>/<status>
    sig         sig third | sig empty
    gen         gen ok alg=<alg> rt=<validate line of the minted token> | gen err
  `pureSpecJWTAT` is the property monitor: it needs the implementation's observation, which the runner
  appends to the op line as a last field `obs=<observation>`; the answer is the observation itself when
  no clause of C06 is violated, `VIOLATION <clauses>` otherwise, and `skip` when the line carries no
  observation or the operation is outside the statement (sig, gen).
-/
import Fosite.Driver.Wire
import Fosite.Model.JWTAT
import Fosite.Spec.JWTAT
namespace Fosite.Driver.JWTAT
open Fosite Fosite.Driver Fosite.Model.JWTAT

def hexVal (c : Char) : Nat :=
  if '0' ≤ c ∧ c ≤ '9' then c.toNat - '0'.toNat
  else if 'a' ≤ c ∧ c ≤ 'f' then c.toNat - 'a'.toNat + 10
  else if 'A' ≤ c ∧ c ≤ 'F' then c.toNat - 'A'.toNat + 10
  else 0

/-- `%XX` escapes → characters standing for bytes (kept as they are: the model only compares) -/
def unescL : List Char → List Char
  | '%' :: a :: b :: rest => Char.ofNat (hexVal a * 16 + hexVal b) :: unescL rest
  | c :: rest => c :: unescL rest
  | [] => []

def unesc (s : String) : String := String.ofList (unescL s.toList)

def hexDigit (n : Nat) : Char := if n < 10 then Char.ofNat (48 + n) else Char.ofNat (87 + n)

def safeChar (c : Char) : Bool := c.isAlphanum || c == '_' || c == '-' || c == '.'

def esc (s : String) : String :=
  String.ofList (s.toList.flatMap (fun c =>
    if safeChar c then [c] else ['%', hexDigit (c.toNat / 16 % 16), hexDigit (c.toNat % 16)]))

def encList (xs : List String) : String := String.join (xs.map (fun x => "," ++ x))

def opaquePubOf (kind k : String) : OpaquePub :=
  match kind with
  | "rpub" => .rsaPub k
  | "epub" => .ecPub k
  | "rpriv" => .rsaPriv k
  | "epriv" => .ecPriv k
  | _ => .other

def materialOf (s : String) : Option Material :=
  match s.splitOn "." with
  | ["rp", k] => some (.rsaPriv k)
  | ["ep", k, bits] => some (.ecPriv k bits.toNat!)
  | "pk" :: _ => some .pubKey
  | ["sec"] => some .secret
  | ["os", kind, k, algs] => some (.signer (opaquePubOf kind k) (if algs.isEmpty then [] else algs.splitOn "+"))
  | "oth" :: _ => some .other
  | _ => none

def keyCfgOf (s : String) : Option KeyCfg :=
  match s.splitOn "/" with
  | ["ge"] => some .getterError
  | ["d", m] => (materialOf m).map .direct
  | ["jp", m, alg, use] => (materialOf m).map (fun m => .jwkPtr m alg use)
  | ["jv", m, alg, use] => (materialOf m).map (fun m => .jwkVal m alg use)
  | _ => none

def optKey (s : String) : Option KeyId := if s == "-" || s.isEmpty then none else some s

def bit (s : String) : Bool := s == "1"

def tokenOf (fs : List String) : Token :=
  let cv := kv fs "cv"
  { json := kv fs "form" == "j"
    jsonOK := bit (kv fs "jok")
    nseg := (kv fs "nseg").toNat!
    b64OK := bit (kv fs "b64")
    hdrOK := bit (kv fs "hdr")
    nsig := (kv fs "nsig").toNat!
    alg := unesc (kv fs "alg")
    critOK := bit (kv fs "crit")
    payloadOK := bit (kv fs "pl")
    signedBy := optKey (kv fs "by")
    macBy := optKey (kv fs "mac")
    content := kv fs "hp"
    claims := ⟨cv.contains 'e', cv.contains 'i', cv.contains 'n'⟩
    sub := unesc (kv fs "sub")
    scopes := (decList (kv fs "scp")).map unesc
    unsignedHdr := (decList (kv fs "uh")).map unesc }

def errStr (e : Err) : String := "err " ++ e.name ++ "/" ++ toString e.status

def verdictStr : Verdict → String
  | .ok => "ok"
  | .err e => errStr e

def bitNames (v : VBits) : List String :=
  (if v.malformed then ["malformed"] else []) ++ (if v.unverifiable then ["unverifiable"] else []) ++
  (if v.signatureInvalid then ["signature"] else []) ++ (if v.audience then ["audience"] else []) ++
  (if v.expired then ["expired"] else []) ++ (if v.issuedAt then ["iat"] else []) ++
  (if v.issuer then ["issuer"] else []) ++ (if v.notValidYet then ["nbf"] else []) ++
  (if v.id then ["id"] else []) ++ (if v.claimsInvalid then ["claims"] else [])

def decStr : Except DecErr Unit → String
  | .ok () => "ok"
  | .error .plain => "err plain"
  | .error (.verr v) => "verr " ++ "+".intercalate (bitNames v)

def introStr : IntroResult → String
  | .ok sub scopes uh =>
    "ok use=access_token sub=" ++ esc sub ++ " scopes=" ++ encList (scopes.map esc) ++ " uh=" ++ encList (uh.map esc)
  | .err e => errStr e

/-- the verdict table of the configured scope strategy: `need` and `cover` are parallel lists -/
def coverOf (fs : List String) : String → Bool :=
  let need := (decList (kv fs "need")).map unesc
  let bits := decList (kv fs "cover")
  fun s => match (need.zip bits).find? (fun p => p.1 == s) with
    | some p => p.2 == "1"
    | none => false

def needOf (fs : List String) : List String := (decList (kv fs "need")).map unesc

/-- the token `Generate` produces, as facts: compact, well formed, the minted algorithm, signed by the
    configuration's own key, claims in time -/
def mintedToken (cfg : KeyCfg) (alg : String) : Token :=
  { json := false, jsonOK := false, nseg := 3, b64OK := true, hdrOK := true, nsig := 1, alg := alg,
    critOK := true, payloadOK := true,
    signedBy := if algFamily alg == .rsa || algFamily alg == .ec then cfg.material.bind signingKeyId else none,
    macBy := none, content := "", claims := ⟨false, false, false⟩, sub := "", scopes := [], unsignedHdr := [] }

def genStr (cfg : KeyCfg) : String :=
  match generate cfg with
  | none => "gen err"
  | some alg => "gen ok alg=" ++ alg ++ " rt=" ++ verdictStr (validateAccessToken cfg (mintedToken cfg alg))

def obsOf (obs : String) : Option Spec.JWTAT.Obs :=
  if obs == "ok" || obs.startsWith "ok " then some .accepted
  else if obs.startsWith "err " then
    match ((obs.drop 4).toString.splitOn " ").head!.splitOn "/" with
    | [n, s] => some (.rejected n s.toNat!)
    | [n] => some (.rejected n 0)
    | _ => none
  else if obs.startsWith "verr " then some (.rejected "verr" 0)
  else none

def monitor (fs : List String) (obs : String) : Option String :=
  match fs with
  | "jwtat" :: op :: r =>
    if op == "sig" || op == "gen" then some "skip"
    else
      match keyCfgOf (kv r "key"), obsOf obs with
      | some cfg, some o =>
        let t := tokenOf r
        let vs :=
          if op == "introspect" then Spec.JWTAT.violations cfg t (coverOf r) (needOf r) true o
          else Spec.JWTAT.violations cfg t (fun _ => true) [] (op == "validate") o
        match vs with
        | [] => some obs
        | vs => some ("VIOLATION " ++ " ".intercalate vs)
      | _, _ => none
  | _ => none

end Fosite.Driver.JWTAT

namespace Fosite.Driver
open Fosite Fosite.Model.JWTAT Fosite.Driver.JWTAT

def pureModelJWTAT (fs : List String) : Option String :=
  match fs with
  | "jwtat" :: "validate" :: r =>
    (keyCfgOf (kv r "key")).map fun cfg => verdictStr (validateAccessToken cfg (tokenOf r))
  | "jwtat" :: "signer" :: r =>
    (keyCfgOf (kv r "key")).map fun cfg => decStr (signerValidate cfg (tokenOf r))
  | "jwtat" :: "introspect" :: r =>
    (keyCfgOf (kv r "key")).map fun cfg => introStr (introspect cfg (tokenOf r) (coverOf r) (needOf r))
  | "jwtat" :: "sig" :: r => some (if accessTokenSignature (tokenOf r) then "sig third" else "sig empty")
  | "jwtat" :: "gen" :: r => (keyCfgOf (kv r "key")).map genStr
  | _ => none

/-- spec side: the last field `obs=<observation>` carries the implementation's answer -/
def pureSpecJWTAT (fs : List String) : Option String :=
  match fs.getLast? with
  | some l => if l.startsWith "obs=" then monitor fs.dropLast (l.drop 4).toString else some "skip"
  | none => none

end Fosite.Driver

/-
  Driver for C14 (ID token bindings), kind `idtoken`.  One op line = one complete OpenID Connect exchange
  (see harness/drive/pure_idtoken.go for the field list):

    idtoken rt=<code|it|itt|ci|cit|ct|device> last=<authz|token|refresh> key=… sigalg=… halg=… cid=… public=…
            redir=… secure=… lcode=… limpl=… lrefr=… cfglife=… minent=… iss=… sub=… siss=… saud=… authtime=…
            rat=… exp=… sjti=… sacr=… samr=… extra=… granted=… nonce=… maxage=… maxagep=… prompt=… acrv=…
            hint=… hintdec=… gt=… rnonce=… t0=… dt1=… dt2=…  [obs=<implementation line>]

  Strings are %XX-escaped byte strings (one character per byte here), lists are ",a,b", times are nanosecond
  offsets from the epoch of the synctest bubble (2000-01-01T00:00:00Z), "-" = the zero time / not configured.

  PARAMETERS taken from the line: `sigalg` (algorithm the default signer uses for the key), `maxagep`
  (strconv.ParseInt of max_age), `hintdec` (Signer.Decode of the hint), `secure` (IsRedirectURISecure).
  Hashing is abstract in the model; the driver instantiates it with an injective stand-in, so that
  "the at_hash claim equals the left half of the hash chosen by the JWS alg" is decided by comparing which hash
  and which artefact went in — exactly what the harness decides with crypto/sha256 / sha512.

  `pureModelIDToken` answers the canonical observation line; `pureSpecIDToken` is the monitor: it needs the
  implementation's line in a trailing field `obs=…` (answers "skip" without it) and prints that line if the
  exchange conforms to the statement of C14, `VIOLATION <clause>` otherwise.
-/
import Fosite.Driver.Wire
import Fosite.Model.IDToken
import Fosite.Spec.IDToken
namespace Fosite.Driver.IDToken
open Fosite Fosite.Driver Fosite.Model.IDToken

def hexVal (c : Char) : Nat :=
  if '0' ≤ c ∧ c ≤ '9' then c.toNat - '0'.toNat
  else if 'a' ≤ c ∧ c ≤ 'f' then c.toNat - 'a'.toNat + 10
  else if 'A' ≤ c ∧ c ≤ 'F' then c.toNat - 'A'.toNat + 10
  else 0

def isHex (c : Char) : Bool := ('0' ≤ c ∧ c ≤ '9') || ('a' ≤ c ∧ c ≤ 'f') || ('A' ≤ c ∧ c ≤ 'F')

/-- `%XX` ↦ the character standing for byte XX (the harness' `idtUnesc`) -/
def unescL : List Char → List Char
  | '%' :: a :: b :: rest =>
    if isHex a && isHex b then Char.ofNat (hexVal a * 16 + hexVal b) :: unescL rest
    else '%' :: unescL (a :: b :: rest)
  | c :: rest => c :: unescL rest
  | [] => []

def unesc (s : String) : String := String.ofList (unescL s.toList)

def hexDigit (n : Nat) : Char := if n < 10 then Char.ofNat (48 + n) else Char.ofNat (55 + n)

def safeChar (c : Char) : Bool :=
  c.isAlphanum || c == '-' || c == '.' || c == '_' || c == ':' || c == '/' || c == '@' || c == '#' || c == '+'

/-- the harness' `idtEsc` -/
def esc (s : String) : String :=
  String.ofList (s.toList.flatMap (fun c =>
    if safeChar c then [c] else ['%', hexDigit (c.toNat / 16 % 16), hexDigit (c.toNat % 16)]))

def encList (xs : List String) : String := String.join (xs.map (fun x => "," ++ esc x))

def decListU (s : String) : List String := (decList s).map unesc

def insertSorted (x : String) : List String → List String
  | [] => [x]
  | y :: ys => if x < y then x :: y :: ys else y :: insertSorted x ys

def sortStrings (l : List String) : List String := l.foldr insertSorted []

def epoch : Int := 946684800000000000

def decTime (s : String) : Int :=
  if s == "-" || s == "" then zeroTime else epoch + (s.toInt?.getD 0)

def decOptInt (s : String) : Option Int := if s == "-" || s == "" then none else s.toInt?

def decExtra (s : String) : String × Val :=
  match s.splitOn ":" with
  | k :: rest => (k, .raw (":".intercalate rest))
  | [] => ("", .raw "")

def decHint (s : String) : Hint :=
  if s == "-" then .absent
  else if s.startsWith "sub:" then .decoded ((s.drop 4).toString)
  else .error

def decRT (s : String) : Option RT :=
  match s with
  | "code" => some .code | "it" => some .it | "itt" => some .itt | "ci" => some .ci
  | "cit" => some .cit | "ct" => some .ct | "device" => some .device | _ => none

def decLast (s : String) : Option Last :=
  match s with
  | "authz" => some .authz | "token" => some .token | "refresh" => some .refresh | _ => none

/-- an injective stand-in for (SHA-256, SHA-384, SHA-512, base64url): the "digest" is the tagged input followed
    by as many zero bytes, so that its left half is the tagged input -/
def standIn : Crypto where
  hash := fun bits s =>
    let b := (toString bits ++ "|" ++ s).toUTF8.toList
    b ++ List.replicate b.length 0
  b64 := fun b => String.ofList (b.map (fun x => Char.ofNat x.toNat))

def freshUUID : String := "00000000-0000-4000-8000-000000000000"

structure Decoded where
  env : Env
  x : Exchange
  sigalg : String
  sjti : String
  granted : List String
  minent : Int

def decode (fs : List String) : Option Decoded := do
  let rt ← decRT (kv fs "rt")
  let last ← decLast (kv fs "last")
  let halgRaw := kv fs "halg"
  let alg : AlgHeader := if halgRaw == "-" then .absent else .str (unesc halgRaw)
  let granted := decListU (kv fs "granted")
  let minent := (kv fs "minent").toInt?.getD 0
  let env : Env := {
    C := standIn
    cfgIssuer := unesc (kv fs "iss")
    minEntropyRaw := minent
    cfgLifespan := (kv fs "cfglife").toInt?.getD 0
    lifeCode := decOptInt (kv fs "lcode")
    lifeImplicit := decOptInt (kv fs "limpl")
    lifeRefresh := decOptInt (kv fs "lrefr")
    clientId := unesc (kv fs "cid")
    clientPublic := kv fs "public" == "1"
    redirectSecure := kv fs "secure" == "1"
    alg := alg }
  let claims : Claims := {
    jti := unesc (kv fs "sjti")
    iss := unesc (kv fs "siss")
    sub := unesc (kv fs "sub")
    aud := decListU (kv fs "saud")
    exp := decTime (kv fs "exp")
    rat := decTime (kv fs "rat")
    authTime := decTime (kv fs "authtime")
    acr := unesc (kv fs "sacr")
    amr := decListU (kv fs "samr")
    extra := (decListU (kv fs "extra")).map decExtra }
  let form : Form := {
    grantType := unesc (kv fs "gt")
    maxAge := decOptInt (kv fs "maxagep")
    prompt := unesc (kv fs "prompt")
    acrValues := unesc (kv fs "acrv")
    hint := decHint (unesc (kv fs "hintdec"))
    nonce := unesc (kv fs "nonce") }
  let x : Exchange := {
    rt := rt, last := last, openid := granted.contains "openid"
    now1 := epoch + (kv fs "t0").toInt?.getD 0
    dt1 := (kv fs "dt1").toInt?.getD 0
    dt2 := (kv fs "dt2").toInt?.getD 0
    form := form, refreshNonce := unesc (kv fs "rnonce"), claims := claims
    code := "CODE", at0 := "AT0", at1 := "AT1", at2 := "AT2", fresh := freshUUID }
  pure { env := env, x := x, sigalg := kv fs "sigalg", sjti := unesc (kv fs "sjti"), granted := granted, minent := minent }

def strField (m : ClaimMap) (k : String) : String :=
  match m.get k with
  | none => "-"
  | some (.str s) => "=" ++ esc s
  | some (.raw s) => "?" ++ esc s
  | some _ => "?"

def relField (m : ClaimMap) (k : String) (nowUnix : Int) : String :=
  match m.get k with
  | none => "absent"
  | some (.num n) => toString (n - nowUnix)
  | some _ => "nan"

def listField (m : ClaimMap) (k : String) : String :=
  match m.get k with
  | none => "-"
  | some (.strs l) => encList (sortStrings l)
  | some (.str s) => encList [s]
  | some _ => "?"

/-- the harness' comparison of a hash claim with the artefact of the exchange, hash chosen by the JWS alg -/
def bindField (m : ClaimMap) (k : String) (sigalg artefact : String) : String :=
  match m.get k with
  | none => "absent"
  | some v =>
    if artefact == "" then "unbound"
    else match Spec.IDToken.algBits sigalg with
      | some bits => if v == .str (Spec.IDToken.halfHash standIn bits artefact) then "match" else "mismatch"
      | none => "mismatch"

def jtiField (m : ClaimMap) (sjti : String) : String :=
  match m.get "jti" with
  | some (.str v) => if sjti != "" && v == sjti then "preset" else if v.length == 36 then "fresh" else "other"
  | _ => "absent"

def valText : Val → String
  | .str s => s
  | .raw s => s
  | .num n => "#" ++ toString n
  | .strs l => "json:" ++ toString l

def extraField (m : ClaimMap) : String :=
  let ks := (m.filter (fun kv => !(reservedKeys.contains kv.1)))
  -- a Go map has one entry per key
  let uniq := ks.foldl (fun acc kv => if acc.any (fun a => a.1 == kv.1) then acc else acc ++ [kv]) ([] : ClaimMap)
  encList (sortStrings (uniq.map (fun kv => kv.1 ++ ":" ++ valText kv.2)))

def render (d : Decoded) (c : Claims) (now : Int) (accessToken code : String) : String :=
  let m := toMap freshUUID c
  let nu := unix now
  "idtoken sigok=1 alg=" ++ d.sigalg ++ " sub" ++ strField m "sub" ++ " iss" ++ strField m "iss" ++
  " aud=" ++ listField m "aud" ++ " nonce" ++ strField m "nonce" ++
  " exp_rel=" ++ relField m "exp" nu ++ " iat_rel=" ++ relField m "iat" nu ++
  " auth_time_rel=" ++ relField m "auth_time" nu ++ " rat_rel=" ++ relField m "rat" nu ++
  " at_hash=" ++ bindField m "at_hash" d.sigalg accessToken ++ " c_hash=" ++ bindField m "c_hash" d.sigalg code ++
  " acr" ++ strField m "acr" ++ " amr=" ++ listField m "amr" ++ " jti=" ++ jtiField m d.sjti ++
  " extra=" ++ extraField m

def renderOutcome (d : Decoded) : Outcome → String
  | .err e step => "err " ++ e.wire ++ " step=" ++ step
  | .noIDToken => "noidtoken"
  | .idToken c now a k => render d c now a k

/-! ### decoding an observation line (for the monitor) -/

open Fosite.Spec.IDToken in
def decBinding (s : String) : Binding :=
  match s with
  | "absent" => .absent
  | "match" => .matches
  | "mismatch" => .mismatch
  | _ => .unbound

/-- value of `k` in an observation written as `k=v`, `k-` (absent) or `k?v` (not a string) -/
def obsStr (ws : List String) (k : String) : Option String :=
  match ws.find? (fun w => w.startsWith (k ++ "=")) with
  | some w => some (unesc ((w.drop (k.length + 1)).toString))
  | none => none

open Fosite.Spec.IDToken in
def decObservation (line : String) : Observation :=
  let ws := line.splitOn " "
  match ws with
  | "err" :: _ => .err
  | "noidtoken" :: _ => .noIDToken
  | "idtoken" :: _ =>
    .idToken {
      sigok := (obsStr ws "sigok") == some "1"
      alg := (obsStr ws "alg").getD ""
      sub := obsStr ws "sub"
      iss := obsStr ws "iss"
      aud := match ws.find? (fun w => w.startsWith "aud=") with
             | some w => decListU ((w.drop 4).toString)
             | none => []
      nonce := obsStr ws "nonce"
      expRel := (obsStr ws "exp_rel").bind String.toInt?
      iatRel := (obsStr ws "iat_rel").bind String.toInt?
      atHash := decBinding ((obsStr ws "at_hash").getD "unbound")
      cHash := decBinding ((obsStr ws "c_hash").getD "unbound") }
  | _ => .err

open Fosite.Spec.IDToken in
def toCase (d : Decoded) : Case := {
  rt := d.x.rt, last := d.x.last, openid := d.granted.contains "openid", sigalg := d.sigalg
  clientId := d.env.clientId, sub := d.x.claims.sub, sessIss := d.x.claims.iss, cfgIss := d.env.cfgIssuer
  nonce := d.x.form.nonce, refreshNonce := d.x.refreshNonce
  minEntropy := if d.minent = 0 then 8 else d.minent
  now1 := d.x.now1, dt1 := d.x.dt1, dt2 := d.x.dt2, presetExp := d.x.claims.exp
  authTime := d.x.claims.authTime, rat := d.x.claims.rat, cfgLifespan := d.env.cfgLifespan
  lifeCode := d.env.lifeCode, lifeImplicit := d.env.lifeImplicit, lifeRefresh := d.env.lifeRefresh
  maxAge := d.x.form.maxAge
  prompts := (d.x.form.prompt.splitOn " ").filter (fun p => p != "")
  hint := d.x.form.hint }

end Fosite.Driver.IDToken

namespace Fosite.Driver
open Fosite Fosite.Model.IDToken Fosite.Driver.IDToken

/-- model side: the canonical observation line of the exchange -/
def pureModelIDToken (fs : List String) : Option String :=
  match fs with
  | "idtoken" :: rest =>
    match decode rest with
    | some d => some (renderOutcome d (exchange d.env d.x))
    | none => none
  | _ => none

/-- monitor: the statement of C14 evaluated on the op line and the implementation's line (field `obs=`) -/
def pureSpecIDToken (fs : List String) : Option String :=
  match fs with
  | "idtoken" :: rest =>
    match decode rest with
    | some d =>
      match rest.find? (fun f => f.startsWith "obs=") with
      | none => some "skip"
      | some f =>
        let line := (f.drop 4).toString
        if line.startsWith "bad-" || line.startsWith "panic" then some ("VIOLATION harness " ++ line)
        else match Spec.IDToken.check (toCase d) (decObservation line) with
          | none => some line
          | some clause => some ("VIOLATION " ++ clause)
    | none => none
  | _ => none

end Fosite.Driver

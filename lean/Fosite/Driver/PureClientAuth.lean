/-
  D5 pure driver, client authentication (C10).  Op lines (tab-separated, `k=v` fields after the endpoint;
  every string is percent-escaped outside [A-Za-z0-9_.-]; lists are ",a,b"):

    clientauth <ep> clients=… hdr=… q=… cid=… csec=… cat=… asrt=… asub=… method=… body=… gt=… skip=… scope=…
               ruri=… owner=…  bok=… braw=… bid=… bsec=… pempty=… pcid=… pcsec=… pcat=… rcid=… rcsec=… rcat=…
               pgt=… rruri=… bc=… ao=… ccscope=… hs=… down=…

  <ep> ∈ auth | token | revoke | par | device, optionally suffixed "-query".  The Lean side reads only
    clients   ,id|public|plain/oidc|method|hashlabel|rot;rot      the client registry
    bok/braw/bid/bsec   `r.BasicAuth()` / `url.QueryUnescape` facts ("!" = decode error)
    pempty, pcid/pcsec/pcat/pgt    `r.PostForm` facts;  rcid/rcsec/rcat/rruri   `r.Form` facts (PAR)
    method    HTTP method
    bc        ,hashlabel|secret|0/1      graph of the bcrypt comparison
    ao        - | ok:<id> | err:<name>/<code> | raw:<name>/<code>   abstract outcome of the assertion branch
    skip      `GrantTypeJWTBearerCanSkipClientAuth`;  ccscope   scope strategy verdict for client_credentials
    hs        ,<Go type>…   the token endpoint handler chain
    down      ,<id or ->|ok or err:<name>/<code>|w1;w2    answer of the code behind the gate, per acting client

  Answers: see `harness/drive/pure_clientauth.go`.
-/
import Fosite.Driver.Wire
import Fosite.Model.ClientAuth
import Fosite.Spec.ClientAuth
namespace Fosite.Driver.ClientAuth
open Fosite Fosite.Driver Fosite.Model.ClientAuth

def hexVal (c : Char) : Nat :=
  if '0' ≤ c ∧ c ≤ '9' then c.toNat - '0'.toNat
  else if 'a' ≤ c ∧ c ≤ 'f' then c.toNat - 'a'.toNat + 10
  else if 'A' ≤ c ∧ c ≤ 'F' then c.toNat - 'A'.toNat + 10
  else 0

def unescL : List Char → List Char
  | '%' :: a :: b :: rest => Char.ofNat (hexVal a * 16 + hexVal b) :: unescL rest
  | c :: rest => c :: unescL rest
  | [] => []

def unesc (s : String) : String := String.ofList (unescL s.toList)

def hexDigit (n : Nat) : Char := if n < 10 then Char.ofNat (48 + n) else Char.ofNat (87 + n)

def safeChar (c : Char) : Bool := c.isAlphanum || c == '_' || c == '-' || c == '.'

def esc (s : String) : String :=
  String.ofList (s.toList.flatMap (fun c =>
    if safeChar c then [c] else ['%', hexDigit (c.toNat / 16 % 16), hexDigit (c.toNat % 16)]))

/-- "a;b" ↦ ["a","b"], "" ↦ [] -/
def semis (s : String) : List String := if s.isEmpty then [] else s.splitOn ";"

def parseClient (s : String) : Option Registration :=
  match s.splitOn "|" with
  | [id, pub, kind, method, cur, rot] =>
    some { id := unesc id, isPublic := pub == "1", oidc := kind == "oidc", authMethod := unesc method,
           hash := unesc cur, rotated := (semis rot).map unesc }
  | _ => none

def registry (fs : List String) : List Registration := (decList (kv fs "clients")).filterMap parseClient

def lookupIn (regs : List Registration) (id : String) : Option Registration := regs.find? (fun c => c.id == id)

def parseErr (rfc : Bool) (s : String) : Err :=
  match s.splitOn "/" with
  | [n, c] => ⟨rfc, n, c.toNat!⟩
  | _ => ⟨false, "BAD-ERR", 0⟩

/-- the bcrypt graph; a query outside the supplied facts answers `false` -/
def hasherOf (fs : List String) : Hasher :=
  let tbl := (decList (kv fs "bc")).filterMap (fun e =>
    match e.splitOn "|" with
    | [h, s, m] => some (unesc h, unesc s, m == "1")
    | _ => none)
  fun h s => match tbl.find? (fun e => e.1 == h && e.2.1 == s) with
    | some e => e.2.2
    | none => false

def missErr : Err := ⟨false, "MISS", 0⟩

def assertionOf (fs : List String) (regs : List Registration) : AssertionOutcome :=
  let ao := kv fs "ao"
  if ao.startsWith "ok:" then
    match lookupIn regs (unesc (ao.drop 3).toString) with
    | some c => .ok c
    | none => .err missErr
  else if ao.startsWith "err:" then .err (parseErr true (ao.drop 4).toString)
  else if ao.startsWith "raw:" then .err (parseErr false (ao.drop 4).toString)
  else .err missErr

def basicOf (fs : List String) : Basic :=
  if kv fs "bok" == "1" then
    let dec (v : String) : Option String := if v == "!" then none else some (unesc v)
    .present (unesc (kv fs "braw")) (dec (kv fs "bid")) (dec (kv fs "bsec"))
  else .absent

/-- the request as read from `r.PostForm` (`p`) or `r.Form` (`r`) -/
def requestOf (fs : List String) (regs : List Registration) (view : String) : Request :=
  { basic := basicOf fs
    clientId := unesc (kv fs (view ++ "cid"))
    clientSecret := unesc (kv fs (view ++ "csec"))
    assertionType := unesc (kv fs (view ++ "cat"))
    assertion := assertionOf fs regs }

def httpOf (fs : List String) : Http :=
  { method := kv fs "method", parseOk := true, postFormEmpty := kv fs "pempty" == "1" }

def cfgOf (fs : List String) : Config := { grantTypeJWTBearerCanSkipClientAuth := kv fs "skip" == "1" }

/-- the downstream table: key (client id, or "-" for no client) ↦ result -/
def downTable (fs : List String) : List (String × DResult) :=
  (decList (kv fs "down")).filterMap (fun e =>
    match e.splitOn "|" with
    | [k, r, ws] =>
      let err := if r == "ok" then none else if r.startsWith "err:" then some (parseErr true (r.drop 4).toString) else some missErr
      some (k, { err := err, writes := semis ws })
    | _ => none)

def downOf (fs : List String) (c : Option Registration) : DResult :=
  let key := match c with | some c => esc c.id | none => "-"
  match (downTable fs).find? (fun e => e.1 == key) with
  | some e => e.2
  | none => { err := some missErr, writes := [] }

def kindOfGoName (n : String) : Option HandlerKind := HandlerKind.all.find? (fun k => k.goName == n)

def chainOf (fs : List String) : List HandlerKind := (decList (kv fs "hs")).filterMap kindOfGoName

/-- Handler instances of the composed provider for this request: `client_credentials` is the model's own
    function; every other handler answers what the `down` table says (an error at handle time, or success
    whose writes happen in the response phase). -/
def handlersOf (fs : List String) (grantTypes : List String) : List Handler :=
  (chainOf fs).map (fun k =>
    match k with
    | .clientCredentials => Handler.ofKind grantTypes k (clientCredentialsHandle (kv fs "ccscope" == "1") none)
    | _ => Handler.ofKind grantTypes k (fun c =>
        match (downOf fs c).err with
        | none => ⟨.ok, []⟩
        | some e => ⟨.err e, (downOf fs c).writes⟩))

def responseOf (fs : List String) (c : Option Registration) : DResult :=
  match (downOf fs c).err with
  | none => downOf fs c
  | some e => { err := some e, writes := [] }      -- not reached: a handler returned the error before

/-! rendering -/

def errStr (e : Err) : String := e.name ++ "/" ++ toString e.code

def verdictStr : Except Err Registration → String
  | .ok c => "ok " ++ esc c.id
  | .error e => "err " ++ errStr e

def resultStr : Except Err (Option Registration) → String
  | .ok (some c) => "ok " ++ esc c.id
  | .ok none => "ok -"
  | .error e => "err " ++ errStr e

def insertSorted (x : String) : List String → List String
  | [] => [x]
  | y :: ys => if x < y || x == y then x :: y :: ys else y :: insertSorted x ys

def sortStrings (xs : List String) : List String := xs.foldr insertSorted []

def writesStr (ws : List String) : String := String.join ((sortStrings ws).map (fun w => "," ++ w))

def lineOf (auth : Option (Except Err Registration)) (res : Except Err (Option Registration)) (ws : List String) : String :=
  "auth=" ++ (match auth with | some v => verdictStr v | none => "-") ++ " res=" ++ resultStr res ++
    " writes=" ++ writesStr ws

def endpointOf (ep : String) : String :=
  if ep.endsWith "-query" then (ep.dropEnd 6).toString else ep

end Fosite.Driver.ClientAuth

namespace Fosite.Driver
open Fosite Fosite.Model.ClientAuth Fosite.Driver.ClientAuth

def pureModelClientAuth (fs : List String) : Option String :=
  match fs with
  | "clientauth" :: ep :: r =>
    let regs := registry r
    let H := hasherOf r
    let lookup := lookupIn regs
    match endpointOf ep with
    | "auth" => some (verdictStr (authenticate H lookup (requestOf r regs "p")))
    | "token" =>
      let gt := unesc (kv r "pgt")
      let o := tokenEndpoint (cfgOf r) H lookup (httpOf r) gt (requestOf r regs "p")
        (handlersOf r (grantTypesOf gt)) (responseOf r)
      some (lineOf o.auth o.result o.writes)
    | "revoke" =>
      let o := revocationEndpoint H lookup (httpOf r) (requestOf r regs "p")
        [fun c => match (downOf r (some c)).err with
          | none => ⟨.ok, (downOf r (some c)).writes⟩
          | some e => ⟨.err e, (downOf r (some c)).writes⟩]
      some (lineOf o.auth o.result o.writes)
    | "par" =>
      let o := parEndpoint H lookup (httpOf r) (requestOf r regs "r") (unesc (kv r "rruri"))
        (fun c => if (downOf r (some c)).writes.isEmpty then (downOf r (some c)).err else none)
        (fun c => downOf r (some c))
      some (lineOf o.auth o.result o.writes)
    | "device" =>
      let o := deviceEndpoint H lookup (httpOf r) (requestOf r regs "p") (fun c => downOf r (some c))
      some (lineOf o.auth o.result o.writes)
    | _ => none
  | _ => none

/-- The documented meaning evaluated on the op line.  Credentials are read from the request BODY at every
    endpoint (RFC 6749 §2.3.1: never from the request URI).  `skip` where a registration violates the
    assumption that no registered hash matches the empty secret. -/
def pureSpecClientAuth (fs : List String) : Option String :=
  match fs with
  | "clientauth" :: ep :: r =>
    let regs := registry r
    let H := hasherOf r
    let lookup := lookupIn regs
    let req := requestOf r regs "p"
    let v := Spec.ClientAuth.verdict H lookup req
    let emptyHash := regs.any (fun c => H c.hash "" || c.rotated.any (fun h => H h ""))
    if emptyHash then some "skip"
    else
    let line (o : Spec.ClientAuth.Obs) := some (lineOf o.auth o.result o.writes)
    match endpointOf ep with
    | "auth" => some (verdictStr v)
    | "token" =>
      let gts := grantTypesOf (unesc (kv r "pgt"))
      let responsible := (chainOf r).filter (fun k => match k.grantType with | some g => exactOne gts g | none => false)
      let down (c : Option Registration) : DResult :=
        if responsible.contains .clientCredentials then
          match c with
          | some c => Spec.ClientAuth.clientCredentialsDown (kv r "ccscope" == "1") c (downOf r (some c))
          | none => downOf r none
        else downOf r c
      line (Spec.ClientAuth.tokenObs (cfgOf r) (httpOf r) gts v responsible down)
    | "revoke" => line (Spec.ClientAuth.revocationObs (httpOf r) v (fun c => downOf r (some c)))
    | "par" =>
      let reqForm := requestOf r regs "r"
      let vp := Spec.ClientAuth.parVerdict (Spec.ClientAuth.verdict H lookup reqForm) v
      line (Spec.ClientAuth.parObs lookup (httpOf r) vp reqForm.clientId (unesc (kv r "rruri")) (fun c => downOf r (some c)))
    | "device" => line (Spec.ClientAuth.deviceObs (httpOf r) v req.clientId (fun c => downOf r (some c)))
    | _ => none
  | _ => none

end Fosite.Driver

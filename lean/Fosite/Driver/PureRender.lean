/-
  D4 "render" driver: op lines of harness/drive/pure_render.go ↦ the canonical observation line.
  `pureModelRender` runs `Model.Render`, `pureSpecRender` runs `Spec.Render` ("skip" where the
  specification prescribes nothing).

  The three library parameters of the model are instantiated here, not in the model:
  * JSON (`encoding/json`): encoding followed by decoding is the identity on valid UTF-8 and maps every
    byte that is not part of a valid UTF-8 sequence to U+FFFD (`coerceUTF8`);
  * URL query encoding (`url.Values.Encode` / `url.QueryUnescape`): the identity on bytes;
  * `html/template` attribute escaping followed by HTML5 tokenization: `coerceUTF8`, NUL ↦ U+FFFD,
    and the parser's newline normalisation CR LF ↦ LF, CR ↦ LF (`coerceHTML`).
-/
import Fosite.Driver.Wire
import Fosite.Model.Render
import Fosite.Spec.Render
namespace Fosite.Driver.Render
open Fosite.Model.Render

/-! ### hex -/

def hexDigit (n : Nat) : Char := if n < 10 then Char.ofNat (48 + n) else Char.ofNat (87 + n)

def hexOf (b : Bytes) : String :=
  String.ofList (b.flatMap (fun x => [hexDigit (x.toNat / 16), hexDigit (x.toNat % 16)]))

def hexVal (c : Char) : Option Nat :=
  if '0' ≤ c ∧ c ≤ '9' then some (c.toNat - 48)
  else if 'a' ≤ c ∧ c ≤ 'f' then some (c.toNat - 87)
  else if 'A' ≤ c ∧ c ≤ 'F' then some (c.toNat - 55)
  else none

def unhexL : List Char → Option Bytes
  | [] => some []
  | [_] => none
  | a :: b :: rest => do
    let x ← hexVal a
    let y ← hexVal b
    let r ← unhexL rest
    pure (UInt8.ofNat (x * 16 + y) :: r)

def unhex (s : String) : Option Bytes := unhexL s.toList

def bytesOfAscii (s : String) : Bytes := asc s
def asciiOfBytes (b : Bytes) : String := String.ofList (b.map (fun x => Char.ofNat x.toNat))

/-! ### library parameters -/

/-- Go's `utf8.DecodeRune` validity, applied the way `encoding/json` and `html/template` do: every
    byte that does not start a valid sequence becomes U+FFFD (EF BF BD) and decoding resumes at the
    next byte. -/
def coerceAux : Nat → Bytes → Bytes
  | 0, _ => []
  | _, [] => []
  | fuel + 1, b0 :: rest =>
    let go := coerceAux fuel
    let bad := 0xEF :: 0xBF :: 0xBD :: go rest
    let cont (lo hi : UInt8) (x : UInt8) : Bool := lo ≤ x && x ≤ hi
    if b0 < 0x80 then b0 :: go rest
    else if 0xC2 ≤ b0 && b0 ≤ 0xDF then
      match rest with
      | b1 :: r => if cont 0x80 0xBF b1 then b0 :: b1 :: go r else bad
      | _ => bad
    else if 0xE0 ≤ b0 && b0 ≤ 0xEF then
      let lo : UInt8 := if b0 == 0xE0 then 0xA0 else 0x80
      let hi : UInt8 := if b0 == 0xED then 0x9F else 0xBF
      match rest with
      | b1 :: b2 :: r =>
        if cont lo hi b1 && cont 0x80 0xBF b2 then b0 :: b1 :: b2 :: go r else bad
      | _ => bad
    else if 0xF0 ≤ b0 && b0 ≤ 0xF4 then
      let lo : UInt8 := if b0 == 0xF0 then 0x90 else 0x80
      let hi : UInt8 := if b0 == 0xF4 then 0x8F else 0xBF
      match rest with
      | b1 :: b2 :: b3 :: r =>
        if cont lo hi b1 && cont 0x80 0xBF b2 && cont 0x80 0xBF b3 then b0 :: b1 :: b2 :: b3 :: go r else bad
      | _ => bad
    else bad

def coerceUTF8 (b : Bytes) : Bytes := coerceAux b.length b

def htmlNewlines : Bytes → Bytes
  | [] => []
  | 0x0D :: 0x0A :: rest => 0x0A :: htmlNewlines rest
  | 0x0D :: rest => 0x0A :: htmlNewlines rest
  | 0x00 :: rest => 0xEF :: 0xBF :: 0xBD :: htmlNewlines rest
  | b :: rest => b :: htmlNewlines rest

def coerceHTML (b : Bytes) : Bytes := htmlNewlines b

def coerceVal (f : Bytes → Bytes) : JVal → JVal
  | .str b => .str (f b)
  | .strs l => .strs (l.map f)
  | v => v

def coerceField (fl : Field) : Field :=
  match fl.place with
  | .json => { fl with key := coerceUTF8 fl.key, val := coerceVal coerceUTF8 fl.val }
  | .form => { fl with key := coerceHTML fl.key, val := coerceVal coerceHTML fl.val }
  | _ => fl

/-! ### printing -/

def bytesLt : Bytes → Bytes → Bool
  | [], [] => false
  | [], _ :: _ => true
  | _ :: _, [] => false
  | a :: as, b :: bs => a < b || (a == b && bytesLt as bs)

def placeRank : Place → Nat
  | .json => 0 | .query => 1 | .fragment => 2 | .form => 3

def placeLetter : Place → String
  | .json => "j" | .query => "q" | .fragment => "f" | .form => "p"

def fieldLe (a b : Field) : Bool :=
  placeRank a.place < placeRank b.place ||
    (placeRank a.place == placeRank b.place && !(bytesLt b.key a.key))

def encVal : JVal → String
  | .str b => "s" ++ hexOf b
  | .num n => "n" ++ toString n
  | .bool b => if b then "b1" else "b0"
  | .null => "z"
  | .strs l => "a" ++ ".".intercalate (l.map hexOf)

def encFields (l : List Field) : String :=
  String.join (((l.map coerceField).mergeSort fieldLe).map
    (fun f => "," ++ placeLetter f.place ++ ":" ++ hexOf f.key ++ "=" ++ encVal f.val))

def encHeaders (h : Headers) : String :=
  String.join (((h.map (fun p => p.1 ++ ":" ++ p.2)).mergeSort (fun a b => a ≤ b)).map (fun s => "," ++ s))

def encBody : BodyKind → String
  | .empty => "empty" | .json => "json" | .html => "html"

def encResponse (r : Response) (valid : String) : String :=
  "st=" ++ toString r.status ++ " h=" ++ encHeaders r.headers ++ " body=" ++ encBody r.bodyKind ++
    " valid=" ++ valid ++ " target=" ++ hexOf r.target ++ " fields=" ++ encFields r.fields

/-! ### decoding op fields -/

def optText (s : String) : Option (Option Bytes) :=
  if s == "-" then some none
  else if s.startsWith "x" then (unhex (s.drop 1).toString).map some
  else none

def decLink (s : String) : Option (Link × Bool) :=   -- link, isValue
  match s.splitOn ":" with
  | ["m", h] => (unhex h).map (fun m => (.msg m, false))
  | [k, sent, name, code, desc, hint, debug] =>
    if k != "r" && k != "v" then none else do
      let base ← if sent == "custom" then do
            let n ← unhex name
            let c ← code.toNat?
            pure ({ name := n, description := [], code := c } : RFCError)
          else (sentinel? sent).map Sentinel.toError
      let d ← optText desc
      let h ← optText hint
      let g ← optText debug
      let e := match d with | some t => base.withDescription t | none => base
      let e := match h with | some t => e.withHint t | none => e
      let e := match g with | some t => e.withDebug t | none => e
      if k == "v" then pure (.val e, true) else pure (.rfc e, false)
  | _ => none

def decChain (s : String) : Option GoErr :=
  if s.isEmpty then some []
  else (s.splitOn "|").mapM (fun l => (decLink l).map (·.1))

def decPair (s : String) : Option (Bytes × Bytes) :=
  match s.splitOn "=" with
  | [k, v] => do pure ((← unhex k), (← unhex v))
  | _ => none

def decPairs (s : String) : Option (List (Bytes × Bytes)) := (decList s).mapM decPair

def decHeaders (s : String) : Option Headers :=
  (decList s).mapM (fun it => match it.splitOn "=" with
    | [k, v] => (unhex v).map (fun b => (k, asciiOfBytes b))
    | _ => none)

def decVal (v : String) : Option JVal :=
  let rest := (v.drop 1).toString
  if v.startsWith "s" then (unhex rest).map .str
  else if v.startsWith "n" then rest.toNat?.map .num
  else if v == "b0" then some (.bool false)
  else if v == "b1" then some (.bool true)
  else if v == "z" then some .null
  else if v == "a" then some (.strs [])
  else if v.startsWith "a" then ((rest.splitOn ".").mapM unhex).map .strs
  else none

def decExtras (s : String) : Option (List (Bytes × JVal)) :=
  (decList s).mapM (fun it => match it.splitOn "=" with
    | [k, v] => do pure ((← unhex k), (← decVal v))
    | _ => none)

def decHexList (s : String) : Option (List Bytes) := (decList s).mapM unhex

def decOptNat (s : String) : Option (Option Nat) :=
  if s == "-" then some none else s.toNat?.map some

def decBool (s : String) : Bool := s == "1"

/-- generic evaluation of an op line, parameterised by the functions under test -/
structure RenderImpl where
  describe : RFCError → Option Bytes
  marshal : RFCError → Option (List (Bytes × JVal))
  values : RFCError → Option (List (Bytes × Bytes))
  error : ErrWriter → Cfg → GoErr → Option Response
  accessResponse : Bytes → Bytes → List (Bytes × JVal) → Option Response
  authorizeResponse : AuthReq → Headers → List (Bytes × Bytes) → Option Response
  introspectionResponse : Introspection → Option Response
  parResponse : Headers → Bytes → Nat → List (Bytes × JVal) → Option Response
  deviceResponse : Headers → Device → Option Response

def skipOr (o : Option String) : String := o.getD "skip"

def renderWith (I : RenderImpl) (fs : List String) : Option String :=
  match fs with
  | ["render", "access_response", at_, tt, extras] => do
    pure (skipOr ((I.accessResponse (← unhex at_) (← unhex tt) (← decExtras extras)).map (encResponse · "-")))
  | ["render", w, l, x, chain] => do
    let cfg : Cfg := ⟨decBool l, decBool x⟩
    let err ← decChain chain
    let direct (err : GoErr) : RFCError := configured cfg err
    if w == "describe" then
      if err.isEmpty then none else
      pure (skipOr ((I.describe (direct err)).map (fun d =>
        "fields=,j:" ++ hexOf (asc "description") ++ "=s" ++ hexOf d)))
    else if w == "marshal" then
      if err.isEmpty then none else
      pure (skipOr ((I.marshal (direct err)).map (fun fl =>
        encResponse { status := 200, headers := [("Content-Type", "application/json")], bodyKind := .json,
                      fields := jsonFields fl } "-")))
    else if w == "values" then
      if err.isEmpty then none else
      pure (skipOr ((I.values (direct err)).map (fun fl => "fields=" ++ encFields (strFields .query fl))))
    else
      let ew : Option ErrWriter :=
        if w == "access_error" then some .access
        else if w == "par_error" then some .pushedAuthorize
        else if w == "introspection_error" then some .introspection
        else if w == "revocation" then some .revocation
        else none
      let ew ← ew
      if err.isEmpty && (w == "access_error" || w == "par_error") then none else
      pure (skipOr ((I.error ew cfg err).map (fun r => encResponse r "-")))
  -- (a trailing field "ak=0": html/template's URL filter does not keep this redirect URI as the form action)
  | ["render", "authorize_error", l, x, chain, mode, valid, base, query, state]
  | ["render", "authorize_error", l, x, chain, mode, valid, base, query, state, _] => do
    let cfg : Cfg := ⟨decBool l, decBool x⟩
    let err ← decChain chain
    if err.isEmpty then none else
    let ar : AuthReq := { mode := (← unhex mode), redirValid := decBool valid, redirBase := (← unhex base),
                          redirQuery := (← decPairs query), state := (← unhex state),
                          actionKept := fs.getLast? != some "ak=0" }
    pure (skipOr ((I.error (.authorize ar) cfg err).map (fun r => encResponse r (if ar.redirValid then "1" else "0"))))
  | ["render", "authorize_response", mode, base, query, headers, params]
  | ["render", "authorize_response", mode, base, query, headers, params, _] => do
    let ar : AuthReq := { mode := (← unhex mode), redirValid := true, redirBase := (← unhex base),
                          redirQuery := (← decPairs query), actionKept := fs.getLast? != some "ak=0" }
    pure (skipOr ((I.authorizeResponse ar (← decHeaders headers) (← decPairs params)).map (encResponse · "-")))
  | ["render", "introspection_response", active, extras, exp, client, scopes, iat, sub, aud, user] => do
    let r : Introspection := { active := decBool active, extraClaims := (← decExtras extras), exp := (← decOptNat exp),
                               clientID := (← unhex client), scopes := (← decHexList scopes), iat := (← decOptNat iat),
                               subject := (← unhex sub), audience := (← decHexList aud), username := (← unhex user) }
    pure (skipOr ((I.introspectionResponse r).map (encResponse · "-")))
  | ["render", "par_response", headers, uri, expires, extras] => do
    pure (skipOr ((I.parResponse (← decHeaders headers) (← unhex uri) (← expires.toNat?) (← decExtras extras)).map (encResponse · "-")))
  | ["render", "device_response", headers, dc, uc, vu, vuc, expires, interval] => do
    let d : Device := { deviceCode := (← unhex dc), userCode := (← unhex uc), verificationURI := (← unhex vu),
                        verificationURIComplete := (← unhex vuc), expiresIn := (← expires.toNat?), interval := (← interval.toNat?) }
    pure (skipOr ((I.deviceResponse (← decHeaders headers) d).map (encResponse · "-")))
  | _ => none

def modelImpl : RenderImpl where
  describe e := some (getDescription e)
  marshal e := some (marshalJSON e)
  values e := some (toValues e)
  error w cfg err := some (writeError w cfg err)
  accessResponse a t x := some (writeAccessResponse a t x)
  authorizeResponse ar h p := some (writeAuthorizeResponse ar h p)
  introspectionResponse r := some (writeIntrospectionResponse r)
  parResponse h u n x := some (writePushedAuthorizeResponse h u n x)
  deviceResponse h d := some (writeDeviceResponse h d)

def specImpl : RenderImpl where
  describe e := Fosite.Spec.Render.description e
  marshal e := Fosite.Spec.Render.errorObject e
  values e := Fosite.Spec.Render.errorParams e
  error w cfg err := Fosite.Spec.Render.errorResponse w cfg err
  accessResponse a t x := Fosite.Spec.Render.accessResponse a t x
  authorizeResponse ar h p := Fosite.Spec.Render.authorizeResponse ar h p
  introspectionResponse r := Fosite.Spec.Render.introspectionResponse r
  parResponse h u n x := Fosite.Spec.Render.parResponse h u n x
  deviceResponse h d := Fosite.Spec.Render.deviceResponse h d

end Fosite.Driver.Render

namespace Fosite.Driver

/-- model side of the "render" ops -/
def pureModelRender (fs : List String) : Option String := Render.renderWith Render.modelImpl fs

/-- spec side of the "render" ops; "skip" where the specification does not prescribe -/
def pureSpecRender (fs : List String) : Option String := Render.renderWith Render.specImpl fs

end Fosite.Driver

/-
  D4 driver for the HMAC token layer (C06).  Op lines (tab-separated, `k=v` fields after the kind):

    hmac validate   g=<hex> rot=<list hex> tok=<esc> dec=<list esc:hex|!> mac=<list hexkey:hexmsg:hextag> h=<hasher>
    hmac pvalidate  kind=at|rt|ac|dc  (then as validate)
    hmac signature  tok=<esc>
    hmac psignature kind=… tok=<esc>
    hmac generate   g=<hex> e=<int> stream=<hex> enc=<list hex:esc> mac=<…> h=<hasher>
    hmac pgenerate  kind=… (then as generate)
    hmac mint       g=<hex> e=<int> n=<N> h=<hasher>

  Cryptography is abstract in the model, so the line carries the *facts* the Go side computed with
  the real primitives (standard library, not fosite): `dec` is the graph of `b64.DecodeString` on
  every substring the token could be cut into, `enc` the graph of `b64.EncodeToString`, `mac` the
  graph of HMAC under the 32-byte signing keys.  The model's `Crypto` is instantiated with these
  tables and then decides exactly as the Go code decides from bytes.  `h=` is read by the Go
  executor only.
-/
import Fosite.Driver.Wire
import Fosite.Model.HMAC
import Fosite.Spec.HMAC
namespace Fosite.Driver.HMACWire
open Fosite Fosite.Driver Fosite.Model.HMAC

def hexVal (c : Char) : Nat :=
  if '0' ≤ c ∧ c ≤ '9' then c.toNat - '0'.toNat
  else if 'a' ≤ c ∧ c ≤ 'f' then c.toNat - 'a'.toNat + 10
  else if 'A' ≤ c ∧ c ≤ 'F' then c.toNat - 'A'.toNat + 10
  else 0

def unhexL : List Char → Bytes
  | a :: b :: rest => UInt8.ofNat (hexVal a * 16 + hexVal b) :: unhexL rest
  | _ => []

def unhex (s : String) : Bytes := unhexL s.toList

def hexDigit (n : Nat) : Char := if n < 10 then Char.ofNat (48 + n) else Char.ofNat (87 + n)

/-- `%XX` escapes → characters standing for bytes -/
def unescL : List Char → Str
  | '%' :: a :: b :: rest => Char.ofNat (hexVal a * 16 + hexVal b) :: unescL rest
  | c :: rest => c :: unescL rest
  | [] => []

def unesc (s : String) : Str := unescL s.toList

def safeChar (c : Char) : Bool := c.isAlphanum || c == '_' || c == '-' || c == '.'

def esc (s : Str) : String :=
  String.ofList (s.flatMap (fun c => if safeChar c then [c] else ['%', hexDigit (c.toNat / 16 % 16), hexDigit (c.toNat % 16)]))

structure Tables where
  dec : List (Str × Option Bytes) := []
  enc : List (Bytes × Str) := []
  mac : List (Bytes × Bytes × Bytes) := []

def decEntry (s : String) : Str × Option Bytes :=
  match s.splitOn ":" with
  | [a, b] => (unesc a, if b == "!" then none else some (unhex b))
  | _ => ([], none)

def encEntry (s : String) : Bytes × Str :=
  match s.splitOn ":" with
  | [a, b] => (unhex a, unesc b)
  | _ => ([], [])

def macEntry (s : String) : Bytes × Bytes × Bytes :=
  match s.splitOn ":" with
  | [k, m, t] => (unhex k, unhex m, unhex t)
  | _ => ([], [], [])

def tablesOf (fs : List String) : Tables :=
  { dec := (decList (kv fs "dec")).map decEntry
    enc := (decList (kv fs "enc")).map encEntry
    mac := (decList (kv fs "mac")).map macEntry }

/-- a query outside the supplied facts (never happens on generated lines) -/
def missBytes : Bytes := [0x4d, 0x49, 0x53, 0x53]
def missStr : Str := "?MISS?".toList

def Tables.crypto (t : Tables) : Crypto where
  mac k m := match t.mac.find? (fun e => e.1 == k && e.2.1 == m) with
    | some e => e.2.2
    | none => missBytes
  enc b := match t.enc.find? (fun e => e.1 == b) with
    | some e => e.2
    | none => missStr
  dec s := match t.dec.find? (fun e => e.1 == s) with
    | some e => e.2
    | none => none

def outcomeStr : Outcome → String
  | .ok => "ok"
  | .err_short_secret => "err_short_secret"
  | .err_no_keys => "err_no_keys"
  | .invalid_format => "invalid_format"
  | .b64_error => "b64_error"
  | .signature_mismatch => "signature_mismatch"

def kindOf : String → Option Kind
  | "at" => some .access
  | "rt" => some .refresh
  | "ac" => some .code
  | "dc" => some .device
  | _ => none

/-- the harness's deterministic `crypto/rand.Reader`: the stream, cyclically -/
def streamRng (stream : Bytes) (n : Nat) : Bytes :=
  if stream.length = 0 then List.replicate n 0
  else (List.range n).map (fun i => stream.getD (i % stream.length) 0)

def genStr : Except Outcome (Str × Str) → String
  | .error e => outcomeStr e
  | .ok (t, s) => "ok " ++ esc t ++ " " ++ esc s

/-- toy instance used only for the `mint` op: a counter as random source and an injective
    dot-free encoding; the observation is the number of bytes requested and distinctness. -/
def toyEnc (b : Bytes) : Str := b.flatMap (fun u => [hexDigit (u.toNat / 16), hexDigit (u.toNat % 16)])
def toyCrypto : Crypto := { mac := fun k m => k ++ m, enc := toyEnc, dec := fun _ => none }
def counterRng (i : Nat) (n : Nat) : Bytes := (List.range n).map (fun j => UInt8.ofNat (i / 256 ^ j % 256))

def mintObs (g : Bytes) (e : Int) (n : Nat) : String :=
  let toks := (List.range (min n 64)).map (fun i => generate toyCrypto g e (counterRng i))
  match toks.head? with
  | some (.error err) => outcomeStr err
  | _ =>
    let strs := toks.filterMap (fun t => match t with | .ok (t, _) => some t | _ => none)
    let distinct := strs.eraseDups.length == strs.length
    "ok randlen=" ++ toString (entropyBytes e) ++ " distinct=" ++ boolStr distinct

end Fosite.Driver.HMACWire

namespace Fosite.Driver
open Fosite Fosite.Model.HMAC Fosite.Driver.HMACWire

def pureModelHMAC (fs : List String) : Option String :=
  match fs with
  | "hmac" :: "validate" :: r =>
    some (outcomeStr (validate (tablesOf r).crypto (unhex (kv r "g")) ((decList (kv r "rot")).map unhex) (unesc (kv r "tok"))))
  | "hmac" :: "pvalidate" :: r =>
    (kindOf (kv r "kind")).map fun k =>
      outcomeStr (validatePrefixed (tablesOf r).crypto k (unhex (kv r "g")) ((decList (kv r "rot")).map unhex) (unesc (kv r "tok")))
  | "hmac" :: "signature" :: r => some ("sig:" ++ esc (signature (unesc (kv r "tok"))))
  | "hmac" :: "psignature" :: r =>
    (kindOf (kv r "kind")).map fun k => "sig:" ++ esc (signaturePrefixed k (unesc (kv r "tok")))
  | "hmac" :: "generate" :: r =>
    some (genStr (generate (tablesOf r).crypto (unhex (kv r "g")) (kv r "e").toInt! (streamRng (unhex (kv r "stream")))))
  | "hmac" :: "pgenerate" :: r =>
    (kindOf (kv r "kind")).map fun k =>
      genStr (generatePrefixed (tablesOf r).crypto k (unhex (kv r "g")) (kv r "e").toInt! (streamRng (unhex (kv r "stream"))))
  | "hmac" :: "mint" :: r => some (mintObs (unhex (kv r "g")) (kv r "e").toInt! (kv r "n").toNat!)
  | "hmac" :: "ucode" :: r =>
    some (match generateUserCode (unhex (kv r "g")) (kv r "len").toNat! with
      | some n => s!"ok len={n} sig=true"
      | none => "err_short_secret")
  | _ => none

/-- spec side (monitor oracle): the declarative meaning in `Spec/HMAC.lean`, independent of the loops -/
def pureSpecHMAC (fs : List String) : Option String :=
  match fs with
  | "hmac" :: "validate" :: r =>
    some (outcomeStr (Spec.HMAC.verdict (tablesOf r).crypto (keyList (unhex (kv r "g")) ((decList (kv r "rot")).map unhex)) (unesc (kv r "tok"))))
  | "hmac" :: "pvalidate" :: r =>
    (kindOf (kv r "kind")).map fun k =>
      outcomeStr (Spec.HMAC.verdict (tablesOf r).crypto (keyList (unhex (kv r "g")) ((decList (kv r "rot")).map unhex))
        (Spec.HMAC.strip k (unesc (kv r "tok"))))
  | "hmac" :: "signature" :: r => some ("sig:" ++ esc (Spec.HMAC.signatureOf (unesc (kv r "tok"))))
  | "hmac" :: "psignature" :: r => some ("sig:" ++ esc (Spec.HMAC.signatureOf (unesc (kv r "tok"))))
  | "hmac" :: "generate" :: r =>
    some (genStr (Spec.HMAC.mint (tablesOf r).crypto (unhex (kv r "g")) (kv r "e").toInt! (streamRng (unhex (kv r "stream")))))
  | "hmac" :: "pgenerate" :: r =>
    (kindOf (kv r "kind")).map fun k =>
      genStr (match Spec.HMAC.mint (tablesOf r).crypto (unhex (kv r "g")) (kv r "e").toInt! (streamRng (unhex (kv r "stream"))) with
        | .ok (t, s) => .ok ("ory_".toList ++ k.part ++ ['_'] ++ t, s)
        | .error e => .error e)
  | "hmac" :: "mint" :: _ => some "skip"
  | "hmac" :: "ucode" :: r =>
    -- documented meaning: a secret shorter than 32 bytes is refused; otherwise a code of the configured length
    -- comes with its signature
    some (if (unhex (kv r "g")).length < 32 then "err_short_secret"
          else s!"ok len={if (kv r "len").toNat! = 0 then 8 else (kv r "len").toNat!} sig=true")
  | _ => none

end Fosite.Driver

/-
  D5 driver for JWT assertions (C15).  Op lines (tab separated, `k=v` fields after the kind; every
  string item is %xx-escaped outside [A-Za-z0-9_.-]; lists are ",a,b"):

    assertion client epoch=<s> ep=token|revoke|par|device urls=<list> regs=<list CLIENT> pres=<list DT@PRES>
    assertion cseq   … any number of presentations against one store   (`czero` is a synonym)
    assertion cconc  … n=<k>: one presentation, k simultaneous copies
    assertion bearer epoch=<s> url=<u> max=<ns> iatopt=0|1 jtiopt=0|1 strat=exact|wildcard|hierarchic keys=<list KEY> pres=<list DT@PRES>
    assertion bseq / bconc  likewise

    CLIENT = id~oidc~method~alg~JWKS          JWKS = "-" | "K" kid/use/type/key + …
    KEY    = iss~sub~mapkid~jwkkid~type~key~scope+scope…
    PRES   = w=jws|empty|garbage;cid=…;alg=…;kid=…;by=<key|->;iss=C;sub=C;aud=C;exp=C;nbf=C;iat=C;jti=C;scope=a+b
    C      = - | s:<esc> | i:<int> | f:<literal>:<int64(float)> | l:<E>|<E>… | x        E = s:<esc> | n

  `by` is the crypto fact: the key under which the signature verifies for the header's algorithm
  (the Go executor builds the real JWS from the same descriptor and cross-checks the fact with
  go-jose).  Times: the bubble starts at `epoch` seconds; DT is the sleep before the presentation.

  Answers: per presentation `ok client=<id>` | `ok` (revocation) | `ok sub=<s>` | `err <name>/<status>`,
  comma-joined; `accepted=k/n` for the concurrent kinds (the model presents the n copies one after
  the other at the same instant — by `jti_once_concurrent` every interleaving accepts as many).
-/
import Fosite.Driver.Wire
import Fosite.Model.Scope
import Fosite.Model.Assertion
import Fosite.Spec.Assertion
namespace Fosite.Driver.Assertion
open Fosite Fosite.Driver Fosite.Model.Assertion

def hexVal (c : Char) : Nat :=
  if '0' ≤ c ∧ c ≤ '9' then c.toNat - '0'.toNat
  else if 'a' ≤ c ∧ c ≤ 'f' then c.toNat - 'a'.toNat + 10
  else if 'A' ≤ c ∧ c ≤ 'F' then c.toNat - 'A'.toNat + 10
  else 0

def hexDigit (n : Nat) : Char := if n < 10 then Char.ofNat (48 + n) else Char.ofNat (87 + n)

def unescL : List Char → List Char
  | '%' :: a :: b :: rest => Char.ofNat (hexVal a * 16 + hexVal b) :: unescL rest
  | c :: rest => c :: unescL rest
  | [] => []

def unesc (s : String) : String := String.ofList (unescL s.toList)

def safeChar (c : Char) : Bool := c.isAlphanum || c == '_' || c == '-' || c == '.'

def esc (s : String) : String :=
  String.ofList (s.toList.flatMap (fun c =>
    if safeChar c then [c] else ['%', hexDigit (c.toNat / 16 % 16), hexDigit (c.toNat % 16)]))

/-- value of `k` in a `k=v;k=v` descriptor -/
def dkv (parts : List String) (k : String) : String :=
  match parts.find? (fun f => f.startsWith (k ++ "=")) with
  | some f => (f.drop (k.length + 1)).toString
  | none => ""

def splitNonEmpty (s : String) (sep : String) : List String :=
  if s.isEmpty then [] else s.splitOn sep

def decElem (s : String) : Option (Option String) :=
  if s == "n" then some none
  else if s.startsWith "s:" then some (some (unesc (s.drop 2).toString))
  else none

def decClaim (s : String) : Option Claim :=
  if s == "-" then some .absent
  else if s == "x" then some .other
  else if s.startsWith "s:" then some (.str (unesc (s.drop 2).toString))
  else if s.startsWith "i:" then (s.drop 2).toString.toInt?.map .int
  else if s.startsWith "f:" then
    match (s.drop 2).toString.splitOn ":" with
    | [_, t] => t.toInt?.map .flt
    | _ => none
  else if s.startsWith "l:" then
    ((splitNonEmpty (s.drop 2).toString "|").mapM decElem).map .list
  else none

def decKeyType (s : String) : Option KeyType :=
  if s == "rsa" then some .rsa else if s == "ec" then some .ec else none

structure Pres where
  dt : Nat
  cid : String
  w : Wire
  scope : List String

def decPres (item : String) : Option Pres :=
  match item.splitOn "@" with
  | [dts, desc] =>
    let parts := desc.splitOn ";"
    let v := dkv parts
    match dts.toNat? with
    | none => none
    | some dt =>
      let cid := unesc (v "cid")
      let scope := (splitNonEmpty (v "scope") "+").map unesc
      if v "w" == "empty" then some ⟨dt, cid, .empty, scope⟩
      else if v "w" == "garbage" then some ⟨dt, cid, .garbage, scope⟩
      else if v "w" == "jws" then
        match decClaim (v "iss"), decClaim (v "sub"), decClaim (v "aud"), decClaim (v "exp"),
              decClaim (v "nbf"), decClaim (v "iat"), decClaim (v "jti") with
        | some iss, some sub, some aud, some exp, some nbf, some iat, some jti =>
          let signedBy := if v "by" == "-" then none else some (v "by")
          some ⟨dt, cid, .jws ⟨unesc (v "alg"), unesc (v "kid"), signedBy, ⟨iss, sub, aud, exp, nbf, iat, jti⟩⟩, scope⟩
        | _, _, _, _, _, _, _ => none
      else none
  | _ => none

def decJWK (s : String) : Option JWK :=
  match s.splitOn "/" with
  | [kid, use, ty, key] => (decKeyType ty).map (fun t => ⟨unesc kid, unesc use, t, key⟩)
  | _ => none

def decJWKS (s : String) : Option (Option (List JWK)) :=
  if s == "-" then some none
  else if s.startsWith "K" then
    ((splitNonEmpty (s.drop 1).toString "+").mapM decJWK).map some
  else none

def decClient (s : String) : Option ClientReg :=
  match s.splitOn "~" with
  | [id, oidc, method, alg, jwks] =>
    (decJWKS jwks).map (fun ks => ⟨unesc id, oidc == "1", unesc method, authAlgOfField (unesc alg), ks⟩)
  | _ => none

def decIssuerKey (s : String) : Option IssuerKey :=
  match s.splitOn "~" with
  | [iss, sub, mk, jk, ty, key, scopes] =>
    (decKeyType ty).map (fun t => ⟨unesc iss, unesc sub, unesc mk, unesc jk, t, key, (splitNonEmpty scopes "+").map unesc⟩)
  | _ => none

def decEndpoint (s : String) : Option Endpoint :=
  if s == "token" then some .token else if s == "revoke" then some .revoke
  else if s == "par" then some .par else if s == "device" then some .device else none

def decStrat (s : String) : Option (List String → String → Bool) :=
  let lift (f : List (List Char) → List Char → Bool) : List String → String → Bool :=
    fun hay needle => f (hay.map String.toList) needle.toList
  if s == "exact" then some (lift Model.exactScope)
  else if s == "wildcard" then some (lift Model.wildcardScope)
  else if s == "hierarchic" then some (lift Model.hierarchicScope)
  else none

def showErr (e : Err) : String := "err " ++ e.name ++ "/" ++ toString e.status

def showClient (ep : Endpoint) : Result → String
  | .ok cid => if ep = .revoke then "ok" else "ok client=" ++ esc cid
  | .err e => showErr e

def showBearer : Result → String
  | .ok s => "ok sub=" ++ esc s
  | .err e => showErr e

structure ClientOp where
  cfg : Config
  clients : List ClientReg
  ep : Endpoint
  now0 : Int
  pres : List Pres
  n : Nat

structure BearerOp where
  cfg : BearerConfig
  strat : List String → String → Bool
  keys : List IssuerKey
  now0 : Int
  pres : List Pres
  n : Nat

def decClientOp (fs : List String) : Option ClientOp := do
  let epoch ← (kv fs "epoch").toInt?
  let ep ← decEndpoint (kv fs "ep")
  let clients ← (decList (kv fs "regs")).mapM decClient
  let pres ← (decList (kv fs "pres")).mapM decPres
  let urls := (decList (kv fs "urls")).map unesc
  pure ⟨⟨urls⟩, clients, ep, epoch * second, pres, (kv fs "n").toNat?.getD 0⟩

def decBearerOp (fs : List String) : Option BearerOp := do
  let epoch ← (kv fs "epoch").toInt?
  let max ← (kv fs "max").toInt?
  let strat ← decStrat (kv fs "strat")
  let keys ← (decList (kv fs "keys")).mapM decIssuerKey
  let pres ← (decList (kv fs "pres")).mapM decPres
  pure ⟨⟨[unesc (kv fs "url")], max, kv fs "iatopt" == "1", kv fs "jtiopt" == "1"⟩, strat, keys,
        epoch * second, pres, (kv fs "n").toNat?.getD 0⟩

def clientItems (o : ClientOp) : List (Nat × (String × Wire)) := o.pres.map (fun p => (p.dt, (p.cid, p.w)))
def bearerItems (o : BearerOp) : List (Nat × (Wire × List String)) := o.pres.map (fun p => (p.dt, (p.w, p.scope)))

def clientOutcomes (o : ClientOp) : List Result :=
  runSeq (clientStep o.cfg o.clients o.ep) (clientItems o) o.now0 []

def bearerOutcomes (o : BearerOp) : List Result :=
  runSeq (bearerStep o.cfg o.strat o.keys) (bearerItems o) o.now0 []

/-- the n copies of a concurrent op, one after the other at the same instant -/
def copies {α : Type} (n : Nat) : List (Nat × α) → List (Nat × α)
  | [(dt, a)] => (dt, a) :: List.replicate (n - 1) (0, a)
  | _ => []

def accepted (rs : List Result) (n : Nat) : String :=
  "accepted=" ++ toString (rs.filter Result.isOk).length ++ "/" ++ toString n

/-! #### the monitor: where C15 demands a rejection, independent of what the model answers -/

open Fosite.Spec.Assertion in
/-- does C15 demand that this client-assertion presentation is rejected?  `seen` = tickets accepted
    earlier in this history.  (The client an assertion can authenticate is fixed by its `iss`.) -/
def clientDemandsReject (o : ClientOp) (now : Int) (seen : List (String × Int)) (w : Wire) : Option Bool :=
  match w with
  | .jws j =>
    some ((match j.claims.iss with
      | .str cid => !(decide (ClientAssertionOK o.cfg o.clients j now cid))
      | _ => true) ||
    (match ticketOf w with
     | some t => seen.contains t
     | none => true))
  | _ => some true

open Fosite.Spec.Assertion in
/-- the same for the JWT-bearer grant; `none` (nothing is said) when the key registration is not a map -/
def bearerDemandsReject (o : BearerOp) (now : Int) (seen : List (String × Int)) (a : Wire × List String) : Option Bool :=
  if !decide (WellFormedKeys o.keys) then none else
  match a.1 with
  | .jws j =>
    some ((match j.claims.sub with
      | .str sub => !(decide (BearerOK o.cfg o.strat o.keys j a.2 now sub))
      | _ => true) ||
    (match ticketOf a.1 with
     | some t => seen.contains t
     | none => !o.cfg.jtiOptional))
  | _ => some true

/-- walk a history next to the model's outcomes: an acceptance where a rejection is demanded is
    replaced by `err rejected-by-spec`; the flag says whether anything was demanded at all -/
def monitorWalk {α : Type} (demands : Int → List (String × Int) → α → Option Bool)
    (wire : α → Wire) (render : Result → String) :
    List (Nat × α) → List Result → Int → List (String × Int) → List String × Bool
  | (dt, a) :: rest, r :: rs, now, seen =>
    let now' := now + dt
    let d := (demands now' seen a).getD false
    let seen' := if r.isOk then
        match Fosite.Spec.Assertion.ticketOf (wire a) with
        | some t => t :: seen
        | none => seen
      else seen
    let (ls, any) := monitorWalk demands wire render rest rs now' seen'
    ((if d && r.isOk then "err rejected-by-spec" else render r) :: ls, d || any)
  | _, _, _, _ => ([], false)

end Fosite.Driver.Assertion

namespace Fosite.Driver
open Fosite Fosite.Model.Assertion Fosite.Driver.Assertion

/-- model side -/
def pureModelAssertion (fs : List String) : Option String :=
  match fs with
  | "assertion" :: kind :: _ =>
    if kind == "client" || kind == "cseq" || kind == "czero" then
      (decClientOp fs).bind (fun o =>
        if o.pres.isEmpty || (kind == "client" && o.pres.length != 1) then none
        else some (",".intercalate ((clientOutcomes o).map (showClient o.ep))))
    else if kind == "cconc" then
      (decClientOp fs).bind (fun o =>
        if o.pres.length != 1 || o.n < 2 then none
        else some (accepted (runSeq (clientStep o.cfg o.clients o.ep) (copies o.n (clientItems o)) o.now0 []) o.n))
    else if kind == "bearer" || kind == "bseq" then
      (decBearerOp fs).bind (fun o =>
        if o.pres.isEmpty || (kind == "bearer" && o.pres.length != 1) then none
        else some (",".intercalate ((bearerOutcomes o).map showBearer)))
    else if kind == "bconc" then
      (decBearerOp fs).bind (fun o =>
        if o.pres.length != 1 || o.n < 2 then none
        else some (accepted (runSeq (bearerStep o.cfg o.strat o.keys) (copies o.n (bearerItems o)) o.now0 []) o.n))
    else none
  | _ => none

/-- spec side (monitor).  C15 only ever demands rejections ("only if").  Whether a presentation must
    be rejected is decided from the op line alone (`Spec.ClientAssertionOK` / `Spec.BearerOK` fail, or
    the ticket (jti, exp) was accepted earlier in the history).  "skip" when no presentation of the op
    must be rejected.  Otherwise the line lists, per presentation, `err rejected-by-spec` where a
    rejection is demanded but the model accepts, and the model's own outcome elsewhere (the property
    does not prescribe WHICH error; an implementation that rejects differently shows up in the
    correspondence diff, one that accepts shows up here).
    Concurrent kinds: the copies are one ticket, so the line is `accepted=k/n` with k = the number of
    acceptances the property allows (0 or 1). -/
def pureSpecAssertion (fs : List String) : Option String :=
  match fs with
  | "assertion" :: kind :: _ =>
    if kind == "client" || kind == "cseq" || kind == "czero" then
      (decClientOp fs).bind (fun o =>
        if o.pres.isEmpty then none else
        let (ls, any) := monitorWalk (fun now seen (a : String × Wire) => clientDemandsReject o now seen a.2)
          (fun a => a.2) (showClient o.ep) (clientItems o) (clientOutcomes o) o.now0 []
        some (if any then ",".intercalate ls else "skip"))
    else if kind == "bearer" || kind == "bseq" then
      (decBearerOp fs).bind (fun o =>
        if o.pres.isEmpty then none else
        let (ls, any) := monitorWalk (fun now seen (a : Wire × List String) => bearerDemandsReject o now seen a)
          (fun a => a.1) showBearer (bearerItems o) (bearerOutcomes o) o.now0 []
        some (if any then ",".intercalate ls else "skip"))
    else if kind == "cconc" then
      (decClientOp fs).bind (fun o =>
        if o.pres.length != 1 || o.n < 2 then none else
        let items := copies o.n (clientItems o)
        let rs := runSeq (clientStep o.cfg o.clients o.ep) items o.now0 []
        let (ls, _) := monitorWalk (fun now seen (a : String × Wire) => clientDemandsReject o now seen a.2)
          (fun a => a.2) (showClient o.ep) items rs o.now0 []
        some (accepted ((ls.filter (fun l => l.startsWith "ok")).map (fun _ => Result.ok "")) o.n))
    else if kind == "bconc" then
      (decBearerOp fs).bind (fun o =>
        if o.pres.length != 1 || o.n < 2 then none else
        let items := copies o.n (bearerItems o)
        let rs := runSeq (bearerStep o.cfg o.strat o.keys) items o.now0 []
        let (ls, _) := monitorWalk (fun now seen (a : Wire × List String) => bearerDemandsReject o now seen a)
          (fun a => a.1) showBearer items rs o.now0 []
        some (accepted ((ls.filter (fun l => l.startsWith "ok")).map (fun _ => Result.ok "")) o.n))
    else none
  | _ => none

end Fosite.Driver

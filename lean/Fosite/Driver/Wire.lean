/- Line-protocol helpers shared by every driver: tab-separated fields, lists as ",a,b". -/
namespace Fosite.Driver

def fields (line : String) : List String := line.splitOn "\t"

/-- ",a,b" ↦ ["a","b"]; "" ↦ []; "," ↦ [""] -/
def decList (s : String) : List String :=
  if s.isEmpty then [] else (s.splitOn ",").drop 1

def chars (s : String) : List Char := s.toList

def boolStr (b : Bool) : String := if b then "true" else "false"

end Fosite.Driver

/- Line-protocol helpers shared by every driver: tab-separated fields, lists as ",a,b". -/
namespace Fosite.Driver

def fields (line : String) : List String := line.splitOn "\t"

/-- ",a,b" ↦ ["a","b"]; "" ↦ []; "," ↦ [""] -/
def decList (s : String) : List String :=
  if s.isEmpty then [] else (s.splitOn ",").drop 1

def chars (s : String) : List Char := s.toList

def boolStr (b : Bool) : String := if b then "true" else "false"

/-- value of the first "k=v" field -/
def kv (fs : List String) (k : String) : String :=
  match fs.find? (fun f => f.startsWith (k ++ "=")) with
  | some f => (f.drop (k.length + 1)).toString
  | none => ""

end Fosite.Driver

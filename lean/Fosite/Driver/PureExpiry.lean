/-
  D4 pure driver, expiry arithmetic and lifespan table (C07).

  Op lines (tab-separated `k=v` fields after the kind; T = absolute Unix ns, "-" unset, "z" explicit
  zero time; D = signed ns):

    expiry at|ac  exp=T|-|z req=T life=D now=T mac=M sess=S via=hmac|jwt tz=SECS
    expiry rt     exp=T|-|z req=T now=T mac=M sess=S via=hmac|jwt tz=SECS
    expiry dc     exp=T|-|z req=T life=D now=T mac=M sess=S tz=SECS
    expiry uc     exp=T|-|z req=T life=D now=T sess=S tz=SECS
    expiry jwt    exp=T|- iat=T|- nbf=T|- issue=T now=T sig=M
    expiry claims exp=V iat=V nbf=V now=T
    expiry verify which=exp|iat|nbf v=V cmp=INT req=0|1
    expiry expin  exp=T|- life=D now=T
    expiry life   gt=STR tt=STR fb=D cl=nil|none|,v1..v12
    expiry stamp  site=code|cc|implicit|password|codetoken|refresh|device|jwtbearer now=T life=D rtlife=D cl=.. pre=T|-
    expiry par    life=D push=T use=T sess=default|nil
    expiry assert exp=INT|- iat=INT|- nbf=INT|- iatopt=0|1 maxdur=D now=T

  `life` is the RAW configured value (0 = server default: the model applies the getter's default).
  `sess`, `via`, `tz` select the session type, the strategy wrapper and the time zone of the stored
  instants on the Go side; the model ignores them (they must not matter).
  M = ok | signature_mismatch | invalid_format is the MAC / JWS verdict (parameter, C06).
  V = - | i:INT | f:DEC | j:TEXT|INT-or-!|DEC-or-! | s:.. | I:.. | n | b.

  Answers: `ok` / `err <name>/<status>`; jwt: `exp=.. iat=.. nbf=.. <verdict>`; claims: `ok` /
  `verr exp,iat,nbf`; verify: `true|false`; expin: `d=<ns> s=<sec>`; life: `<ns>`;
  stamp: the stamped instants and `expires_in`; par: `expires_in=.. exp=.. accepted|err ..`;
  assert: `ok` / `err invalid_grant/400`.
-/
import Fosite.Driver.Wire
import Fosite.Model.Expiry
import Fosite.Spec.Expiry
namespace Fosite.Driver.Expiry
open Fosite Fosite.Model Fosite.Model.Expiry Fosite.Driver

def int? (s : String) : Option Int := s.toInt?

def nat? (s : String) : Option Nat := s.toNat?

/-- T | - | z -/
def optTime? (s : String) : Option (Option Time) :=
  if s == "-" || s == "z" || s == "" then some none
  else (nat? s).map some

def mac? (s : String) : Option (Option Err) :=
  if s == "ok" then some none
  else if s == "signature_mismatch" then some (some .token_signature_mismatch)
  else if s == "invalid_format" then some (some .invalid_token_format)
  else none

def render (r : Except Err Unit) : String :=
  match r with
  | .ok _ => "ok"
  | .error e => "err " ++ e.wire

def optStr (t : Option Time) : String :=
  match t with
  | none => "-"
  | some t => toString t

/-- decimal text with at most three fractional digits ↦ thousandths -/
def milli? (s : String) : Option Int :=
  let neg := s.startsWith "-"
  let body := if neg then (s.drop 1).toString else s
  match body.splitOn "." with
  | [a] => (nat? a).map fun n => (if neg then -1 else 1) * Int.ofNat (n * 1000)
  | [a, b] =>
    if b.length == 0 || b.length > 3 then none else
    match nat? a, nat? (b ++ String.ofList (List.replicate (3 - b.length) '0')) with
    | some n, some m => some ((if neg then -1 else 1) * Int.ofNat (n * 1000 + m))
    | _, _ => none
  | _ => none

def factInt? (s : String) : Option (Option Int) :=
  if s == "!" then some none else (int? s).map some

def factMilli? (s : String) : Option (Option Int) :=
  if s == "!" then some none else (milli? s).map some

/-- typed claim value V -/
def claimVal? (s : String) : Option ClaimVal :=
  if s == "-" || s == "" then some .absent
  else if s.startsWith "i:" then (int? (s.drop 2).toString).map .int
  else if s.startsWith "f:" then (milli? (s.drop 2).toString).map .float
  else if s.startsWith "j:" then
    match ((s.drop 2).toString).splitOn "|" with
    | [_, a, b] =>
      match factInt? a, factMilli? b with
      | some a, some b => some (.jnum a b)
      | _, _ => none
    | _ => none
  else if s.startsWith "s:" || s.startsWith "I:" || s == "n" || s == "b" then some .other
  else none

def claimStr (v : ClaimVal) : String :=
  match v with
  | .int n => toString n
  | _ => "-"

def wireOf (table : List (String × String)) (s : String) : Option String :=
  (table.find? fun e => e.2 == s).map fun e => e.1

def grantType (s : String) : GrantType :=
  match wireOf Spec.Expiry.grantTypeConsts s with
  | some "GrantTypeAuthorizationCode" => .authorizationCode
  | some "GrantTypeClientCredentials" => .clientCredentials
  | some "GrantTypeImplicit" => .implicit
  | some "GrantTypeJWTBearer" => .jwtBearer
  | some "GrantTypePassword" => .password
  | some "GrantTypeRefreshToken" => .refreshToken
  | some "GrantTypeDeviceCode" => .deviceCode
  | _ => .other

def tokenType (s : String) : TokenType :=
  match wireOf Spec.Expiry.tokenTypeConsts s with
  | some "AccessToken" => .accessToken
  | some "RefreshToken" => .refreshToken
  | some "AuthorizeCode" => .authorizeCode
  | some "IDToken" => .idToken
  | some "UserCode" => .userCode
  | some "DeviceCode" => .deviceCode
  | some "PushedAuthorizeRequestContext" => .parContext
  | _ => .other

def optDur? (s : String) : Option (Option Dur) :=
  if s == "-" then some none else (int? s).map some

def clientLifespans? (s : String) : Option ClientLifespans :=
  if s == "nil" || s == "" then some .plain
  else if s == "none" then some .unset
  else
    match (decList s).mapM optDur? with
    | some [a, b, c, d, e, f, g, h, i, j, k, l] =>
      some (.set { authorizationCodeGrantAccessTokenLifespan := a, authorizationCodeGrantIDTokenLifespan := b,
                   authorizationCodeGrantRefreshTokenLifespan := c, clientCredentialsGrantAccessTokenLifespan := d,
                   implicitGrantAccessTokenLifespan := e, implicitGrantIDTokenLifespan := f,
                   jwtBearerGrantAccessTokenLifespan := g, passwordGrantAccessTokenLifespan := h,
                   passwordGrantRefreshTokenLifespan := i, refreshTokenGrantIDTokenLifespan := j,
                   refreshTokenGrantAccessTokenLifespan := k, refreshTokenGrantRefreshTokenLifespan := l })
    | _ => none

/-- fields common to the opaque kinds -/
structure OpaqueOp where
  exp : Option Time
  req : Time
  life : Dur
  now : Time
  mac : Option Err

def opaque? (fs : List String) (needMac : Bool) : Option OpaqueOp :=
  match optTime? (kv fs "exp"), nat? (kv fs "req"), int? (if kv fs "life" == "" then "0" else kv fs "life"),
        nat? (kv fs "now"), (if needMac then mac? (kv fs "mac") else some none) with
  | some exp, some req, some life, some now, some mac => some { exp, req, life, now, mac }
  | _, _, _, _, _ => none

def defaultLifeOf (kind : String) : Dur :=
  if kind == "at" then defaultAccessLife else if kind == "ac" then defaultCodeLife else defaultDeviceLife

def expiredErrOf (kind : String) : Err :=
  if kind == "dc" || kind == "uc" then .expired_token else .token_expired

structure JWTOp where
  exp : Option Time
  iat : Option Time
  nbf : Option Time
  issue : Time
  now : Time
  sig : Option Err

def jwt? (fs : List String) : Option JWTOp :=
  match optTime? (kv fs "exp"), optTime? (kv fs "iat"), optTime? (kv fs "nbf"), nat? (kv fs "issue"),
        nat? (kv fs "now"), mac? (kv fs "sig") with
  | some exp, some iat, some nbf, some issue, some now, some sig => some { exp, iat, nbf, issue, now, sig }
  | _, _, _, _, _, _ => none

def jwtHead (c : TimeClaims) : String :=
  "exp=" ++ claimStr c.exp ++ " iat=" ++ claimStr c.iat ++ " nbf=" ++ claimStr c.nbf ++ " "

def verrStr (v : VErr) : String :=
  if v.valid then "ok"
  else "verr " ++ ",".intercalate ((if v.expired then ["exp"] else []) ++ (if v.issuedAt then ["iat"] else []) ++
    (if v.notValidYet then ["nbf"] else []))

structure StampOp where
  site : String
  now : Time
  life : Dur
  rtlife : Dur
  cl : ClientLifespans
  pre : Option Time

def stamp? (fs : List String) : Option StampOp :=
  match nat? (kv fs "now"), int? (kv fs "life"), int? (kv fs "rtlife"), clientLifespans? (kv fs "cl"),
        optTime? (kv fs "pre") with
  | some now, some life, some rtlife, some cl, some pre => some { site := kv fs "site", now, life, rtlife, cl, pre }
  | _, _, _, _, _ => none

/-- the model's answer for a stamp op; `st` abstracts the stamping function so that the spec side can
    reuse the line layout with the unrounded instant -/
def stampLine (o : StampOp) (eff : ClientLifespans → GrantType → TokenType → Dur → Dur)
    (st : Site → Time → Dur → Time) (secs : Int → Int) : Option String :=
  let at0 := cfgLife o.life defaultAccessLife
  if o.site == "code" then
    some ("ac=" ++ toString (st .issueAuthorizeCode o.now (cfgLife o.life defaultCodeLife)))
  else if o.site == "cc" then
    let l := eff o.cl .clientCredentials .accessToken at0
    let e := st .clientCredentials o.now l
    some ("at=" ++ toString e ++ " expires_in=" ++ toString (secs (getExpiresIn (some e) l o.now)))
  else if o.site == "implicit" then
    let l := eff o.cl .implicit .accessToken at0
    let e := match o.pre with
      | none => st .implicit o.now l
      | some p => p
    some ("at=" ++ toString e ++ " expires_in=" ++ toString (secs (getExpiresIn (some e) l o.now)))
  else if o.site == "password" then
    let l := eff o.cl .password .accessToken at0
    let rl := eff o.cl .password .refreshToken (cfgLife o.rtlife defaultRefreshLife)
    let rt : Option Time := if rl > -1 then some (st .password o.now rl) else none
    some ("at=" ++ toString (st .password o.now l) ++ " rt=" ++ optStr rt)
  else if o.site == "codetoken" then
    -- flow_authorize_code_token.go HandleTokenEndpointRequest: per-client override first, then the `> -1` test
    let l := eff o.cl .authorizationCode .accessToken at0
    let rl := eff o.cl .authorizationCode .refreshToken (cfgLife o.rtlife defaultRefreshLife)
    let rt : Option Time := if rl > -1 then some (st .codeToken o.now rl) else none
    some ("at=" ++ toString (st .codeToken o.now l) ++ " rt=" ++ optStr rt)
  else if o.site == "refresh" then
    -- flow_refresh.go HandleTokenEndpointRequest
    let l := eff o.cl .refreshToken .accessToken at0
    let rl := eff o.cl .refreshToken .refreshToken (cfgLife o.rtlife defaultRefreshLife)
    let rt : Option Time := if rl > -1 then some (st .refresh o.now rl) else none
    some ("at=" ++ toString (st .refresh o.now l) ++ " rt=" ++ optStr rt)
  else if o.site == "jwtbearer" then
    some ("at=" ++ toString (st .jwtBearer o.now (eff o.cl .jwtBearer .accessToken at0)))
  else if o.site == "device" then
    let e := st .deviceAuth o.now (cfgLife o.life defaultDeviceLife)
    some ("uc=" ++ toString e ++ " dc=" ++ toString e ++ " expires_in=" ++ toString (secs (Int.ofNat e - Int.ofNat o.now)))
  else none

def optInt? (s : String) : Option (Option Int) :=
  if s == "-" || s == "" then some none else (int? s).map some

structure AssertOp where
  exp : Option Int
  iat : Option Int
  nbf : Option Int
  iatOptional : Bool
  maxDur : Dur
  now : Time

def assert? (fs : List String) : Option AssertOp :=
  match optInt? (kv fs "exp"), optInt? (kv fs "iat"), optInt? (kv fs "nbf"), int? (kv fs "maxdur"), nat? (kv fs "now") with
  | some exp, some iat, some nbf, some md, some now =>
    some { exp, iat, nbf, iatOptional := kv fs "iatopt" == "1", maxDur := cfgMaxDuration md, now }
  | _, _, _, _, _ => none

/-- is `now + life` a whole second (so that rounding cannot matter)? -/
def wholeSecondSum (now : Time) (life : Dur) : Bool :=
  (Int.ofNat now + life) % Int.ofNat second == 0 && Int.ofNat now + life ≥ 0

end Fosite.Driver.Expiry

namespace Fosite.Driver
open Fosite Fosite.Model Fosite.Model.Expiry Fosite.Driver.Expiry

/-- model side -/
def pureModelExpiry (fs : List String) : Option String :=
  match fs with
  | "expiry" :: kind :: _ =>
    if kind == "at" || kind == "ac" || kind == "dc" || kind == "uc" then
      match opaque? fs (kind != "uc") with
      | some o =>
        let life := cfgLife o.life (defaultLifeOf kind)
        if kind == "at" then
          if kv fs "via" == "jwt" then none else some (render (validateAccessToken o.exp o.req life o.now o.mac))
        else if kind == "ac" then some (render (validateAuthorizeCode o.exp o.req life o.now o.mac))
        else if kind == "dc" then some (render (validateDeviceCode o.exp o.req life o.now o.mac))
        else some (render (validateUserCode o.exp o.req life o.now))
      | none => none
    else if kind == "rt" then
      match opaque? fs true with
      | some o => some (render (validateRefreshToken o.exp o.now o.mac))
      | none => none
    else if kind == "jwt" then
      match jwt? fs with
      | some o =>
        let c := jwtClaimsAtIssue o.exp o.iat o.nbf o.issue
        some (jwtHead c ++ render (validateJWTAccessToken o.sig c o.now))
      | none => none
    else if kind == "claims" then
      match claimVal? (kv fs "exp"), claimVal? (kv fs "iat"), claimVal? (kv fs "nbf"), nat? (kv fs "now") with
      | some e, some i, some n, some now => some (verrStr (mapClaimsValid { exp := e, iat := i, nbf := n } now))
      | _, _, _, _ => none
    else if kind == "verify" then
      match claimVal? (kv fs "v"), int? (kv fs "cmp") with
      | some v, some cmp =>
        let req := kv fs "req" == "1"
        let w := kv fs "which"
        if w == "exp" then some (boolStr (verifyExpiresAt v cmp req))
        else if w == "iat" then some (boolStr (verifyIssuedAt v cmp req))
        else if w == "nbf" then some (boolStr (verifyNotBefore v cmp req))
        else none
      | _, _ => none
    else if kind == "expin" then
      match optTime? (kv fs "exp"), int? (kv fs "life"), nat? (kv fs "now") with
      | some exp, some life, some now =>
        let d := getExpiresIn exp life now
        some ("d=" ++ toString d ++ " s=" ++ toString (wholeSeconds d))
      | _, _, _ => none
    else if kind == "life" then
      match clientLifespans? (kv fs "cl"), int? (kv fs "fb") with
      | some cl, some fb => some (toString (effectiveLifespan cl (grantType (kv fs "gt")) (tokenType (kv fs "tt")) fb))
      | _, _ => none
    else if kind == "stamp" then
      match stamp? fs with
      | some o => stampLine o effectiveLifespan stamp wholeSeconds
      | none => none
    else if kind == "par" then
      match int? (kv fs "life"), nat? (kv fs "push"), nat? (kv fs "use") with
      | some life, some push, some use =>
        let l := cfgLifePAR life defaultPARLife
        let e := parStamp (kv fs "sess" != "nil") push l
        some ("expires_in=" ++ toString (parExpiresIn l) ++ " exp=" ++ optStr e ++ " " ++
          (match parUse e use with
           | .ok _ => "accepted"
           | .error err => "err " ++ err.wire))
      | _, _, _ => none
    else if kind == "assert" then
      match assert? fs with
      | some o => some (render (validateAssertionTimes o.exp o.iat o.nbf o.iatOptional o.maxDur o.now))
      | none => none
    else none
  | _ => none

/-- spec side: the documented meaning; "skip" where the statement does not prescribe the exact line
    (two independent reasons for refusal; legacy readings of `exp: 0` and of a future `iat`;
    non-integer NumericDates; sub-second rounding of a stamped expiry). -/
def pureSpecExpiry (fs : List String) : Option String :=
  match fs with
  | "expiry" :: kind :: _ =>
    if kind == "at" || kind == "ac" || kind == "dc" || kind == "uc" then
      match opaque? fs (kind != "uc") with
      | some o =>
        if kind == "at" && kv fs "via" == "jwt" then none else
        let X := Spec.Expiry.expiryInstant o.exp o.req (cfgLife o.life (defaultLifeOf kind))
        if !decide (Spec.Expiry.honouredAt X o.now) && o.mac.isSome then some "skip"
        else some (render (Spec.Expiry.opaqueVerdict (expiredErrOf kind) X o.now o.mac))
      | none => none
    else if kind == "rt" then
      match opaque? fs true with
      | some o =>
        if !decide (Spec.Expiry.refreshHonouredAt o.exp o.now) && o.mac.isSome then some "skip"
        else some (render (Spec.Expiry.refreshVerdict o.exp o.now o.mac))
      | none => none
    else if kind == "jwt" then
      match jwt? fs with
      | some o =>
        let expC : Option Int := o.exp.map Spec.Expiry.expClaimOf
        let iatC : Int := unix (o.iat.getD o.issue)
        let nbfC : Option Int := o.nbf.map unix
        let showO : Option Int → String := fun x => match x with | none => "-" | some n => toString n
        let head := "exp=" ++ showO expC ++ " iat=" ++ toString iatC ++ " nbf=" ++ showO nbfC ++ " "
        let expired : Bool := match expC with
          | none => false
          | some e => !decide (Spec.Expiry.honouredNumeric e o.now)
        if expC == some 0 then some "skip"            -- `exp: 0` is read as "no exp" (jwt-go legacy)
        else if o.sig.isSome then
          if expired then some "skip" else some (head ++ render (macResult o.sig))
        else if expired then some (head ++ "err " ++ Err.token_expired.wire)
        else if unix o.now < iatC then some "skip"    -- "used before issued" is not an RFC 7519 rule
        else
          match nbfC with
          | some n =>
            if n == 0 then some "skip"
            else if unix o.now < n then some (head ++ "err " ++ Err.token_claim.wire)
            else some (head ++ "ok")
          | none => some (head ++ "ok")
      | none => none
    else if kind == "claims" then
      match claimVal? (kv fs "exp"), claimVal? (kv fs "iat"), claimVal? (kv fs "nbf"), nat? (kv fs "now") with
      | some e, some i, some n, some now =>
        -- RFC 7519 on NumericDates ≥ 1 (exp: any numeric representation, in thousandths; iat / nbf:
        -- integers only); anything else is not prescribed
        let expMilli : Option (Option Int) := match e with
          | .absent => some none
          | .int x => if x ≥ 1 then some (some (x * 1000)) else none
          | .float m => if m ≥ 1000 then some (some m) else none
          | .jnum (some x) _ => if x ≥ 1 then some (some (x * 1000)) else none
          | .jnum none (some m) => if m ≥ 1000 then some (some m) else none
          | _ => none
        let plain : ClaimVal → Bool := fun v => match v with
          | .absent => true
          | .int x => x != 0
          | _ => false
        match expMilli with
        | none => some "skip"
        | some em =>
          if !(plain i && plain n) then some "skip"
          else
            let u := unix now
            let futureIat : Bool := match i with | .int x => decide (u < x) | _ => false
            if futureIat then some "skip"
            else
              let eb : Bool := match em with | some m => decide (u * 1000 > m) | none => false
              let nb : Bool := match n with | .int x => decide (u < x) | _ => false
              some (verrStr { expired := eb, issuedAt := false, notValidYet := nb })
      | _, _, _, _ => none
    else if kind == "verify" then some "skip"
    else if kind == "expin" then
      match optTime? (kv fs "exp"), int? (kv fs "life"), nat? (kv fs "now") with
      | some exp, some life, some now =>
        let d : Int := match exp with
          | some e => Int.ofNat e - Int.ofNat now
          | none => life
        some ("d=" ++ toString d ++ " s=" ++ toString (Spec.Expiry.secondsOf d))
      | _, _, _ => none
    else if kind == "life" then
      match clientLifespans? (kv fs "cl"), int? (kv fs "fb") with
      | some cl, some fb => some (toString (Spec.Expiry.effective cl (grantType (kv fs "gt")) (tokenType (kv fs "tt")) fb))
      | _, _ => none
    else if kind == "stamp" then
      match stamp? fs with
      | some o =>
        -- the documented expiry is `now + lifespan`; where that is not a whole second the statement
        -- tolerates the rounding (see `StampConsistent`) and no exact line is prescribed
        let plainStamp : Site → Time → Dur → Time := fun _ now life => stampPlain now life
        let grantOf : GrantType :=
          if o.site == "codetoken" then .authorizationCode else if o.site == "refresh" then .refreshToken else .password
        let lifeUsed : Dur :=
          if o.site == "code" then cfgLife o.life defaultCodeLife
          else if o.site == "device" then cfgLife o.life defaultDeviceLife
          else if o.site == "cc" then Spec.Expiry.effective o.cl .clientCredentials .accessToken (cfgLife o.life defaultAccessLife)
          else if o.site == "implicit" then Spec.Expiry.effective o.cl .implicit .accessToken (cfgLife o.life defaultAccessLife)
          else if o.site == "jwtbearer" then Spec.Expiry.effective o.cl .jwtBearer .accessToken (cfgLife o.life defaultAccessLife)
          else Spec.Expiry.effective o.cl grantOf .accessToken (cfgLife o.life defaultAccessLife)
        let rtUsed : Dur := Spec.Expiry.effective o.cl grantOf .refreshToken (cfgLife o.rtlife defaultRefreshLife)
        let withRefresh := o.site == "password" || o.site == "codetoken" || o.site == "refresh"
        let exact := (o.site == "implicit" && o.pre.isSome) ||
          (wholeSecondSum o.now lifeUsed && (!withRefresh || rtUsed ≤ -1 || wholeSecondSum o.now rtUsed))
        if exact then stampLine o Spec.Expiry.effective plainStamp Spec.Expiry.secondsOf else some "skip"
      | none => none
    else if kind == "par" then
      match int? (kv fs "life"), nat? (kv fs "push"), nat? (kv fs "use") with
      | some life, some push, some use =>
        let l := cfgLifePAR life defaultPARLife
        let e := stampPlain push l
        -- pushed with a nil session: no expiry is recorded anywhere; what the advertised
        -- `expires_in` then obliges the server to is not prescribed here (reported separately)
        if kv fs "sess" == "nil" then some "skip" else
        some ("expires_in=" ++ toString (Spec.Expiry.secondsOf l) ++ " exp=" ++ toString e ++ " " ++
          (match Spec.Expiry.parVerdict (some e) use with
           | .ok _ => "accepted"
           | .error err => "err " ++ err.wire))
      | _, _, _ => none
    else if kind == "assert" then
      match assert? fs with
      | some o =>
        match o.exp with
        | none => some ("err " ++ Err.invalid_grant.wire)       -- RFC 7523 §3: exp is REQUIRED
        | some e =>
          if !decide (Spec.Expiry.assertionHonouredAt e o.now) then some ("err " ++ Err.invalid_grant.wire)
          else
            -- not expired: the remaining checks (nbf, iat presence, maximum duration) belong to C15
            let issued : Option Int := match o.iat with
              | some i => some (i * Int.ofNat second)
              | none => if o.iatOptional then some (Int.ofNat o.now) else none
            match o.nbf, issued with
            | none, some i => if e * Int.ofNat second - i ≤ o.maxDur then some "ok" else some "skip"
            | _, _ => some "skip"
      | none => none
    else none
  | _ => none

end Fosite.Driver

/-
  D4 pure driver for the audience strategies.

  Op line:  audience \t (default|exact) \t <haystack entries> \t <needle entries>
  Lists are ",e1,e2" ("" = empty list).  URL parsing is a parameter of the model, so every entry
  carries what the REAL `net/url.Parse` produced for it on the Go side:

      entry = hex(raw) | ok | hex(scheme) | hex(host) | hex(path)        ok = "1" parsed, "0" error

  Every byte is transported as two hex digits and becomes one `Char` (code point = byte value), so
  arbitrary bytes survive and Go's byte-wise `==`, `len`, slicing and `TrimRight` coincide with
  the model's operations on `List Char`.  The parser handed to the model / spec is "decode the
  entry"; the exact strategy sees the raw strings only.
  Output: "ok" or the RFC 6749 error name ("invalid_request").
-/
import Fosite.Driver.Wire
import Fosite.Model.Audience
import Fosite.Spec.Audience
namespace Fosite.Driver
open Fosite

def hexVal (c : Char) : Option Nat :=
  if '0' ≤ c ∧ c ≤ '9' then some (c.toNat - '0'.toNat)
  else if 'a' ≤ c ∧ c ≤ 'f' then some (c.toNat - 'a'.toNat + 10)
  else if 'A' ≤ c ∧ c ≤ 'F' then some (c.toNat - 'A'.toNat + 10)
  else none

/-- "6162" ↦ ['a','b']; `none` on odd length or a non-hex digit -/
def unhexChars : List Char → Option (List Char)
  | [] => some []
  | [_] => none
  | a :: b :: rest =>
    match hexVal a, hexVal b, unhexChars rest with
    | some x, some y, some cs => some (Char.ofNat (16 * x + y) :: cs)
    | _, _, _ => none

def unhex (s : String) : Option String := (unhexChars s.toList).map String.ofList

structure AudEntry where
  raw : String
  parsed : Option Model.URLParts

def decAudEntry (e : String) : Option AudEntry :=
  match e.splitOn "|" with
  | [raw, ok, scheme, host, path] =>
    match unhex raw, unhex scheme, unhex host, unhex path with
    | some r, some s, some h, some p =>
      if ok == "1" then some ⟨r, some ⟨s, h, p⟩⟩
      else if ok == "0" then some ⟨r, none⟩
      else none
    | _, _, _, _ => none
  | _ => none

/-- the transported `url.Parse`: an entry parses to the components it carries -/
def parseEntry (e : String) : Option Model.URLParts :=
  match decAudEntry e with
  | some a => a.parsed
  | none => none

def rawOfEntry (e : String) : String :=
  match decAudEntry e with
  | some a => a.raw
  | none => e

def errName : Option Model.Err → String
  | none => "ok"
  | some e => ((e.wire.splitOn "/").headD "error")

def audienceOp (dflt : (String → Option Model.URLParts) → List String → List String → Option Model.Err)
    (exact : List String → List String → Option Model.Err) (fs : List String) : Option String :=
  match fs with
  | ["audience", strat, hay, needles] =>
    let hs := decList hay
    let ns := decList needles
    if (hs ++ ns).all (fun e => (decAudEntry e).isSome) then
      if strat == "default" then some (errName (dflt parseEntry hs ns))
      else if strat == "exact" then some (errName (exact (hs.map rawOfEntry) (ns.map rawOfEntry)))
      else none
    else none
  | _ => none

/-- model side -/
def pureModelAudience (fs : List String) : Option String :=
  audienceOp Model.audDefault Model.audExact fs

/-- spec side: the documented meaning, used as the monitor oracle on implementation outputs -/
def pureSpecAudience (fs : List String) : Option String :=
  audienceOp Spec.audienceDefault Spec.audienceExact fs

end Fosite.Driver

/-
  C19 — the lock reports of the regenerated fact table as text lines, for the runner
  (evidence, and to name the finding when a `decide` in `Props/C19.lean` stops holding).
  Suggested wiring in `Main.lean`:  `| ["lock-report"] => Fosite.Driver.LockReport.lines.forM' IO.println`.
  One finding per line, fields separated by one space:

      DISCIPLINE <method> <index> <read|write> <recv>.<field>     access without its guard
      DISCIPLINE <method> <index> unresolved <recv>.<callee>      call that could not be inlined
      BALANCE    <method> <index> <acq|rel|unresolved> <recv>.<mutex>
      REACQUIRE  <method> <index> <recv>.<mutex>
      SHAPE      <method> nestedLockOps=<n> closures=<n>
      ORDER      <recv>.<mutex> -> <recv>.<mutex>                  (informational, de-duplicated)
      ACYCLIC    <true|false>
      GETTER     <method> <field>[,<field>…]                      getter that assigns receiver fields
      METHODS    <n>   GETTERS <n>                                (informational)
-/
import Fosite.Gen.Facts
import Fosite.Model.Locks

namespace Fosite.Driver.LockReport
open Fosite.Model.Locks

def resStr (r : Res) : String := r.1 ++ "." ++ r.2

def modeStr : Mode → String
  | .read => "read"
  | .write => "write"

def opStr : Op → String
  | .acq l m => "acq-" ++ modeStr m ++ " " ++ resStr l
  | .rel l m => "rel-" ++ modeStr m ++ " " ++ resStr l
  | .access f m => modeStr m ++ " " ++ resStr f
  | .unresolved c => "unresolved " ++ resStr c

def violLine (tag : String) (v : Violation) : String :=
  tag ++ " " ++ v.method ++ " " ++ toString v.index ++ " " ++ opStr v.op

def lines : List String :=
  let facts := Fosite.Gen.lockFacts
  (disciplineViolations facts).map (violLine "DISCIPLINE")
  ++ (balanceViolations facts).map (violLine "BALANCE")
  ++ (reacquireViolations facts).map (violLine "REACQUIRE")
  ++ (sectionViolations facts).map (violLine "SECTIONS")
  ++ (shapeViolations facts).map (fun s => "SHAPE " ++ s.1 ++ " nestedLockOps=" ++ toString s.2.1 ++ " closures=" ++ toString s.2.2)
  ++ (lockOrder facts).eraseDups.map (fun e => "ORDER " ++ resStr e.1 ++ " -> " ++ resStr e.2)
  ++ ["ACYCLIC " ++ toString (acyclicB (lockOrder facts))]
  ++ (getterImpurities Fosite.Gen.getterFacts).map (fun g => "GETTER " ++ g.1 ++ " " ++ ",".intercalate g.2)
  ++ ["METHODS " ++ toString facts.length ++ " GETTERS " ++ toString Fosite.Gen.getterFacts.length]

end Fosite.Driver.LockReport

import Fosite.Driver.Wire
import Fosite.Model.Scope
import Fosite.Spec.Scope
import Fosite.Driver.PureAudience
import Fosite.Driver.PureHMAC
import Fosite.Driver.PureRedirect
import Fosite.Driver.PureRender
import Fosite.Driver.PureClientAuth
import Fosite.Driver.PureExpiry
import Fosite.Driver.PureAssertion
import Fosite.Driver.PureIDToken
import Fosite.Driver.PureAuthz
import Fosite.Driver.PureJWTAT
namespace Fosite.Driver
open Fosite

/-- model side of the pure-function drivers (D4) -/
def pureModel (fs : List String) : Option String :=
  match fs with
  | ["scope", "wildcard", hay, needle] => some (boolStr (Model.wildcardScope ((decList hay).map chars) (chars needle)))
  | ["scope", "hierarchic", hay, needle] => some (boolStr (Model.hierarchicScope ((decList hay).map chars) (chars needle)))
  | ["scope", "exact", hay, needle] => some (boolStr (Model.exactScope ((decList hay).map chars) (chars needle)))
  | "audience" :: _ => pureModelAudience fs
  | "hmac" :: _ => pureModelHMAC fs
  | "redirect" :: _ => pureModelRedirect fs
  | "render" :: _ => pureModelRender fs
  | "clientauth" :: _ => pureModelClientAuth fs
  | "expiry" :: _ => pureModelExpiry fs
  | "assertion" :: _ => pureModelAssertion fs
  | "idtoken" :: _ => pureModelIDToken fs
  | "authz" :: _ => pureModelAuthz fs
  | "jwtat" :: _ => pureModelJWTAT fs
  | _ => none

/-- spec side: the documented meaning, used as the monitor oracle on implementation outputs -/
def pureSpec (fs : List String) : Option String :=
  match fs with
  | ["scope", "wildcard", hay, needle] => some (boolStr (Spec.wildcard ((decList hay).map chars) (chars needle)))
  | ["scope", "hierarchic", hay, needle] => some (boolStr (Spec.hierarchic ((decList hay).map chars) (chars needle)))
  | ["scope", "exact", hay, needle] => some (boolStr (Spec.exact ((decList hay).map chars) (chars needle)))
  | "audience" :: _ => pureSpecAudience fs
  | "hmac" :: _ => pureSpecHMAC fs
  | "redirect" :: _ => pureSpecRedirect fs
  | "render" :: _ => pureSpecRender fs
  | "clientauth" :: _ => pureSpecClientAuth fs
  | "expiry" :: _ => pureSpecExpiry fs
  | "assertion" :: _ => pureSpecAssertion fs
  | "idtoken" :: _ => pureSpecIDToken fs
  | "authz" :: _ => pureSpecAuthz fs
  | "jwtat" :: _ => pureSpecJWTAT fs
  | _ => none

end Fosite.Driver

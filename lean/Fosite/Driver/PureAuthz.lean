/-
  D6 "authz" driver (C13, writer half of C11): op lines of harness/drive/pure_authz.go ↦ the canonical
  observation line.

  Op line (tab-separated `k=v` fields after `authz <stream>`; lists ",a,b", every item escaped as in the
  redirect driver):

    cfg=,minEntropy,enforcePAR,scopeStrategy,omitScope,enforcePKCE,enforcePKCEPublic,enablePlain
    cl=,exists,id,public  crt= cgt= csc= cru= caud=  crm=-|LIST  oidc=-|,alg,hasJWKS  jwks=,kid|use|kty|key…  cqu=
    body=1|0  form=,k,v…  ro=-|,M,variant|,P,alg,kid,signer,claimsValid  rocl=,k,v…  sess=,subject,authTime,requestedAt  grant=all|none
  library facts (parameters of the model, computed by the harness with the real libraries):
    lw=,s,lower(s)…  audf=,s,0|1…  pint=,s,n…  hint=,s,I|S,sub…  ft=,url,ok|err|status…  and pairs  u=<s>  e=<E(s)>,<query keys>,<action kept>

  `pureModelAuthz` answers with the line the implementation must print:
    accept|reject <name>/<code>  http=… placement=… target=… params=… query=… state=+…|- tokens_in_query=0|1
  `pureSpecAuthz` is the property monitor: it needs the implementation's observation, which the runner
  appends to the op line as a last field `obs=<observation>`; the answer is the observation itself when
  no clause of C13 / C11 (writer half) is violated, `VIOLATION <clauses>` otherwise, and `skip` when
  the line carries no observation.
-/
import Fosite.Driver.Wire
import Fosite.Model.AuthzWrite
import Fosite.Spec.Authz
namespace Fosite.Driver.Authz
open Fosite Fosite.Model Fosite.Model.Authz Fosite.Driver

def hexVal (c : Char) : Nat :=
  if '0' ≤ c ∧ c ≤ '9' then c.toNat - '0'.toNat
  else if 'a' ≤ c ∧ c ≤ 'f' then c.toNat - 'a'.toNat + 10
  else if 'A' ≤ c ∧ c ≤ 'F' then c.toNat - 'A'.toNat + 10
  else 0

/-- inverse of the harness' `rdEsc` -/
def unescL : List Char → List Char
  | '\\' :: 'c' :: cs => ',' :: unescL cs
  | '\\' :: '\\' :: cs => '\\' :: unescL cs
  | '\\' :: 'u' :: a :: b :: c :: d :: cs =>
    Char.ofNat (((hexVal a * 16 + hexVal b) * 16 + hexVal c) * 16 + hexVal d) :: unescL cs
  | c :: cs => c :: unescL cs
  | [] => []

def unesc (s : String) : String := String.ofList (unescL s.toList)

def hexDigit (n : Nat) : Char :=
  if n < 10 then Char.ofNat ('0'.toNat + n) else Char.ofNat ('A'.toNat + (n - 10))

def needsU (c : Char) : Bool :=
  c.toNat < 0x20 || c.toNat == 0x7f || c.toNat == 0x85 || c.toNat == 0x2028 || c.toNat == 0x2029

/-- the harness' `rdEsc` -/
def escL : List Char → List Char
  | [] => []
  | c :: cs =>
    if c = '\\' then '\\' :: '\\' :: escL cs
    else if c = ',' then '\\' :: 'c' :: escL cs
    else if needsU c then
      let n := c.toNat
      '\\' :: 'u' :: hexDigit (n / 4096 % 16) :: hexDigit (n / 256 % 16) :: hexDigit (n / 16 % 16) ::
        hexDigit (n % 16) :: escL cs
    else c :: escL cs

def esc (s : String) : String := String.ofList (escL s.toList)

/-- `esc` with blanks escaped too (the observation line is split at blanks) -/
def escObs (s : String) : String :=
  String.ofList ((escL s.toList).flatMap (fun c => if c = ' ' then "\\u0020".toList else [c]))

def flag (s : String) : Bool := s == "1"

def items (s : String) : List String := (decList s).map unesc

def pairs : List String → List (String × String)
  | k :: v :: rest => (k, v) :: pairs rest
  | _ => []

def triples : List String → List (String × String × String)
  | a :: b :: c :: rest => (a, b, c) :: triples rest
  | _ => []

def lookupD (tbl : List (String × String)) (k d : String) : String :=
  match tbl.find? (fun kv => kv.1 == k) with
  | some kv => kv.2
  | none => d

def encItems (xs : List String) : String := String.join (xs.map (fun x => "," ++ escObs x))

/-- values of all fields `k=…`, in order -/
def kvAll (fs : List String) (k : String) : List String :=
  (fs.filter (fun f => f.startsWith (k ++ "="))).map (fun f => (f.drop (k.length + 1)).toString)

/-- one `e=` field: the 13 `PURL` items, the query keys and the form-action flag -/
def decEntry (field : String) : Option (PURL × List String × Bool) :=
  match items field with
  | [ok, str, scheme, user, host, hostname, port, path, q, frag, opq, lb, rq, keys, kept] =>
    some ({ parseOk := flag ok, str := str, scheme := scheme, user := user, host := host,
            hostname := hostname, port := port, path := path, rawQuery := q, fragment := frag,
            opaquePart := opq, hostIsLoopbackIP := flag lb, isRequestURL := flag rq },
          if keys.isEmpty then [] else keys.splitOn "&", flag kept)
  | _ => none

def decKty (s : String) : KeyType := if s == "rsa" then .rsa else if s == "ec" then .ec else .other

def decJWK (s : String) : Option JWK :=
  match s.splitOn "|" with
  | [kid, use, kty, key] => some { kid := kid, use := use, kty := decKty kty, keyId := key }
  | _ => none

def decTime (s : String) : Authz.Time := if s == "z" then none else s.toInt?

def decStrategy (s : String) : ScopeStrategy :=
  if s == "hierarchic" then .hierarchic else if s == "exact" then .exact else .wildcard

structure Op where
  input : Input

/-- the request object the placeholder `@RO` (by value or as the fetched body) stands for -/
def decRO (fs : List String) : JWTFacts :=
  match items (kv fs "ro") with
  | ["P", alg, kid, signer, valid] =>
    .parsed { alg := alg, kid := kid, signedBy := signer, claimsValid := flag valid, claims := pairs (items (kv fs "rocl")) }
  | _ => .malformed

def decOp (fs : List String) : Option Input := do
  let cfgL := decList (kv fs "cfg")
  let cfg : Cfg ← match cfgL with
    | [me, par, strat, omitS, pk, pkp, plain] =>
      some { minEntropy := me.toNat!, enforcePAR := flag par, scopeStrategy := decStrategy strat, omitScope := flag omitS,
             enforcePKCE := flag pk, enforcePKCEPublic := flag pkp, enablePlainPKCE := flag plain }
    | _ => none
  let (exists_, cid, pub) ← match items (kv fs "cl") with
    | [e, i, p] => some (flag e, i, flag p)
    | _ => none
  let jwks ← (items (kv fs "jwks")).mapM decJWK
  let oidc : Option OIDCReg ← match kv fs "oidc" with
    | "-" => some none
    | v => match items v with
      | [alg, has] => some (some { jwks := if flag has then some jwks else none, jwksURI := "", remoteJWKS := none,
                                   requestURIs := items (kv fs "cqu"), requestObjectSigningAlg := alg })
      | _ => none
  let client : Client :=
    { id := cid, responseTypes := items (kv fs "crt"), grantTypes := items (kv fs "cgt"), scopes := items (kv fs "csc"),
      redirectURIs := items (kv fs "cru"), isPublic := pub,
      responseModes := if kv fs "crm" == "-" then none else some (items (kv fs "crm")), oidc := oidc }
  let entries ← (kvAll fs "e").mapM decEntry
  let keys := (kvAll fs "u").map unesc
  if keys.length != entries.length then none
  let tbl := keys.zip entries
  let P : Parser := fun s => match tbl.find? (fun kv => kv.1 == s) with
    | some kv => kv.2.1
    | none => PURL.bad
  let queryKeys : String → List String := fun s => match tbl.find? (fun kv => kv.1 == s) with
    | some kv => kv.2.2.1
    | none => []
  let kept : String → Bool := fun s => match tbl.find? (fun kv => kv.1 == s) with
    | some kv => kv.2.2.2
    | none => false
  let lw := pairs (items (kv fs "lw"))
  let audf := pairs (items (kv fs "audf"))
  let pint := pairs (items (kv fs "pint"))
  let hint := triples (items (kv fs "hint"))
  let ft := pairs (items (kv fs "ft"))
  let ro := decRO fs
  let lib : Lib :=
    { P := P
      lower := fun s => lookupD lw s s
      jwtOf := fun s => if s == "@RO" then ro else .malformed
      fetch := fun u => match lookupD ft u "err" with
        | "ok" => .body "@RO"
        | "status" => .badStatus
        | _ => .transportError
      audienceOK := fun a => lookupD audf a "0" == "1"
      parseInt := fun s => ((lookupD pint s "0").toInt?).getD 0
      hintOf := fun s => match hint.find? (fun t => t.1 == s) with
        | some (_, "S", sub) => .sub sub
        | _ => .invalid
      queryKeys := queryKeys
      formActionKept := kept }
  let (sub, auth, req) ← match items (kv fs "sess") with
    | [s, a, r] => some (s, decTime a, decTime r)
    | _ => none
  let grantAll := kv fs "grant" == "all"
  some { cfg := cfg, lib := lib
         clients := fun i => if exists_ && i == cid then some client else none
         formOK := flag (kv fs "body"), form := pairs (items (kv fs "form"))
         sess := { subject := sub, authTime := auth, requestedAt := req }
         grant := fun req => if grantAll then req else [] }

/-! ### rendering -/

def insertSorted (x : String) : List String → List String
  | [] => [x]
  | y :: ys => if x < y then x :: y :: ys else if x == y then y :: ys else y :: insertSorted x ys

/-- sorted, without duplicates (the keys of a `url.Values`) -/
def sortNames (xs : List String) : List String := xs.foldl (fun acc x => insertSorted x acc) []

def placementName : Placement → String
  | .query => "query" | .fragment => "fragment" | .formPost => "form_post" | .json => "json" | .nothing => "none"

def targetOf (lib : Lib) (r : HTTPResp) : String :=
  match r.base with
  | none => if r.actionBlocked then "://" else "-"
  | some s =>
    let u := lib.P s
    if u.opaquePart != "" then escObs (u.scheme ++ ":" ++ u.opaquePart) else escObs (u.scheme ++ "://" ++ u.host ++ u.path)

def paramsAt (r : HTTPResp) : List String :=
  match r.placement with
  | .query => sortNames (r.paramNames ++ r.ownQueryKeys)
  | _ => sortNames r.paramNames

def stateOf (r : HTTPResp) : String :=
  match r.params.find? (fun p => p.1 == "state") with
  | some (_, some v) => "+" ++ escObs v
  | some (_, none) => "+?"
  | none => "-"

def renderResp (lib : Lib) (r : HTTPResp) : String :=
  let q := sortNames r.queryNames
  let tiq := q.contains "access_token" || q.contains "id_token"
  s!"http={r.status} placement={placementName r.placement} target={targetOf lib r} params={encItems (paramsAt r)} query={encItems q} state={stateOf r} tokens_in_query={if tiq then "1" else "0"}"

def renderOutcome (i : Input) : String :=
  let verdict := match authorize i with
    | .success _ _ => "accept"
    | .failure _ e => s!"reject {e.name}/{e.code}"
  verdict ++ " " ++ renderResp i.lib (respond i)

/-! ### the observation, read back -/

/-- `accept …` / `reject name/code …` followed by `k=v` items separated by blanks -/
def decObs (obs : String) : Option Spec.Authz.Obs :=
  let ws := obs.splitOn " "
  let (accepted, errName, rest) := match ws with
    | "accept" :: rest => (true, "", rest)
    | "reject" :: e :: rest => (false, (e.splitOn "/").headD "", rest)
    | _ => (false, "?", [])
  if errName == "?" then none
  else
    let st := kv rest "state"
    some { accepted := accepted, errName := errName, placement := kv rest "placement", target := unesc (kv rest "target"),
           params := items (kv rest "params"), query := items (kv rest "query"),
           state := if st.startsWith "+" then some (unesc (st.drop 1).toString) else none,
           tokensInQuery := kv rest "tokens_in_query" != "0" }

end Fosite.Driver.Authz

namespace Fosite.Driver
open Fosite.Driver.Authz

/-- model side -/
def pureModelAuthz (fs : List String) : Option String :=
  match fs with
  | "authz" :: _ :: rest => (decOp rest).map renderOutcome
  | _ => none

end Fosite.Driver

namespace Fosite.Driver
open Fosite.Driver.Authz

/-- the property monitor applied to the op line and the implementation's observation -/
def pureMonitorAuthz (fs : List String) (obs : String) : Option String :=
  match fs with
  | "authz" :: _ :: rest =>
    match decOp rest, decObs obs with
    | some i, some o =>
      match Spec.Authz.violations i o with
      | [] => some obs
      | vs => some ("VIOLATION " ++ " ".intercalate vs.eraseDups)
    | _, _ => none
  | _ => none

/-- spec side: the last field `obs=<observation>` carries the implementation's answer -/
def pureSpecAuthz (fs : List String) : Option String :=
  match fs.getLast? with
  | some l => if l.startsWith "obs=" then pureMonitorAuthz fs.dropLast (l.drop 4).toString else some "skip"
  | none => none

end Fosite.Driver

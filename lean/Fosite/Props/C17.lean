/-
  C17 — pushed authorization requests are one-time, client-bound and authoritative.
-/
import Fosite.Proofs.DevicePar
namespace Fosite.Props.C17
open Fosite.Model

def isParUse (u : Nat) : Op × Out → Bool
  | (.authorizePar a, .authz _ _ _) => a.uri == some u
  | _ => false

/-- An authorization starts from a `request_uri` only if the pushed record is there, the
    `client_id` of the authorization request is the client that pushed it, and the lifetime recorded
    at the push has not passed. -/
theorem request_uri_only_for_pushing_client_in_time (s : MState) (a : AuthzParReq) (c t i)
    (h : (step s (.authorizePar a)).2.1 = .authz c t i) :
    ∃ u p, a.uri = some u ∧ alookup s.ss.store.par u = some p ∧ a.clientId = p.req.client.id ∧
      (∀ e, p.req.sess.expPar = some e → s.now ≤ e) := by
  have hp := step_prog s (.authorizePar a) (authorizeParProg s.cfg s.now s.minNonce a) rfl
  rw [hp.2] at h
  exact (run_HP_ok {} (authorizeParH s.cfg s.now s.minNonce a) { ss := s.ss } _ _
    (authorizePar_wp {} plain_default.1 s.cfg s.now s.minNonce a { ss := s.ss }) h (by intro e; simp) c t i rfl).ex

/-- **Authoritative.** The authorization request the handlers work on is rebuilt from the pushed
    record alone: whatever extra query parameters accompany the `request_uri`, the response types,
    redirect URI, state, nonce, requested scopes and audiences and the PKCE challenge are the pushed ones. -/
theorem pushed_values_authoritative (p : ParRec) (a : AuthzParReq) (extra' : List (String × String)) :
    authzReqOfPar p { a with extra := extra' } = authzReqOfPar p a := rfl

/-- … and a stored form value wins over a same-named query parameter. -/
theorem pushed_form_value_wins (query stored : List (String × String)) (k v : String)
    (h : (k, v) ∈ stored) : ∀ v', (k, v') ∈ mergeForm query stored → (k, v') ∈ stored := by
  intro v' hm
  unfold mergeForm at hm
  rcases List.mem_append.mp hm with hq | hs
  · have := (List.mem_filter.mp hq).2
    simp only [Bool.not_eq_eq_eq_not, Bool.not_true, List.any_eq_false] at this
    exact absurd (by simp) (this (k, v) h)
  · exact hs

theorem init_parBelow : ParBelow ({} : MState).ss := by intro u p h; simp [alookup] at h

theorem step_parBelow (s : MState) (op : Op) (h : ParBelow s.ss) : ParBelow (step s op).1.ss :=
  step_preserves ParBelow exec_ParBelow (fun _ _ h => h) (fun _ _ _ h => h) s op h

theorem consumed_request_uri_stays_consumed (s : MState) (op : Op) (u : Nat) (h : ParDead s.ss u) : ParDead (step s op).1.ss u :=
  step_preserves (fun ss => ParDead ss u) (fun ss c h => exec_ParDead ss c u h) (fun _ _ h => h) (fun _ _ _ h => h) s op h

theorem par_use_consumes (s : MState) (hb : ParBelow s.ss) (a : AuthzParReq) (c t i)
    (h : (step s (.authorizePar a)).2.1 = .authz c t i) :
    ∃ u, a.uri = some u ∧ ParDead (step s (.authorizePar a)).1.ss u := by
  have hp := step_prog s (.authorizePar a) (authorizeParProg s.cfg s.now s.minNonce a) rfl
  rw [hp.2] at h; rw [hp.1]
  exact run_HP_ok {} (authorizeParH s.cfg s.now s.minNonce a) { ss := s.ss } _ _
    (authorizePar_kills {} plain_default s.cfg s.now s.minNonce a { ss := s.ss } hb) h (by intro e; simp) c t i rfl

theorem consumed_request_uri_never_used (ops : List Op) (s : MState) (u : Nat) (hd : ParDead s.ss u) :
    ((trace s ops).filter (isParUse u)).length = 0 := by
  induction ops generalizing s with
  | nil => rfl
  | cons op ops ih =>
    simp only [trace, List.filter_cons]
    have hno : isParUse u (op, (step s op).2.1) = false := by
      cases hop : op with
      | authorizePar a =>
        cases hout : (step s (.authorizePar a)).2.1 with
        | authz c t i =>
          obtain ⟨u', p, hu, hl, _⟩ := request_uri_only_for_pushing_client_in_time s a c t i hout
          simp only [isParUse, hu]
          by_cases heq : u' = u
          · subst heq; rw [hd.2] at hl; cases hl
          · simp [heq]
        | _ => simp [isParUse]
      | _ => simp [isParUse]
    rw [hno]
    exact ih _ (consumed_request_uri_stays_consumed s op u hd)

/-- **C17 (one-time).** In any history a `request_uri` starts at most one authorization. -/
theorem request_uri_used_at_most_once (ops : List Op) (s : MState) (u : Nat) (hb : ParBelow s.ss) :
    ((trace s ops).filter (isParUse u)).length ≤ 1 := by
  induction ops generalizing s with
  | nil => simp [trace]
  | cons op ops ih =>
    have hb' := step_parBelow s op hb
    simp only [trace, List.filter_cons]
    by_cases hsucc : isParUse u (op, (step s op).2.1) = true
    · rw [if_pos hsucc]
      have hdead : ParDead (step s op).1.ss u := by
        cases hop : op with
        | authorizePar a =>
          rw [hop] at hsucc
          cases hout : (step s (.authorizePar a)).2.1 with
          | authz c t i =>
            obtain ⟨u', hu, hd⟩ := par_use_consumes s hb a c t i hout
            rw [hout] at hsucc
            simp only [isParUse, hu] at hsucc
            have : u' = u := by simpa using hsucc
            subst this; exact hd
          | _ => rw [hout] at hsucc; simp [isParUse] at hsucc
        | _ => rw [hop] at hsucc; simp [isParUse] at hsucc
      rw [List.length_cons, consumed_request_uri_never_used ops _ u hdead]; omega
    · rw [if_neg hsucc]; exact ih _ hb'

theorem request_uri_used_at_most_once_from_init (ops : List Op) (u : Nat) :
    ((trace {} ops).filter (isParUse u)).length ≤ 1 :=
  request_uri_used_at_most_once ops {} u init_parBelow

end Fosite.Props.C17

namespace Fosite.Props.C17
open Fosite.Model

/-- The push endpoint accepts a request only from an authenticated client and never one that itself
    carries a `request_uri`. -/
theorem push_needs_authentication_and_no_request_uri (s : MState) (p : ParPushReq) (u e)
    (h : (step s (.parPush p)).2.1 = .par u e) :
    p.hasRequestUri = false ∧ ∃ client ∈ s.ss.clients, client.id = p.q.clientId ∧ (client.isPublic || p.credOk) = true := by
  have hp := step_prog s (.parPush p) (parPushProg s.cfg s.now p) rfl
  rw [hp.2] at h
  refine run_HP_ok {} (parPushH s.cfg s.now p) { ss := s.ss } _
    (fun _ o => ∀ u e, o = .par u e → p.hasRequestUri = false ∧ ∃ client ∈ s.ss.clients, client.id = p.q.clientId ∧ (client.isPublic || p.credOk) = true)
    ?_ h (by intro e; simp) u e rfl
  unfold parPushH
  simp only [wpOk_bind, authenticate, wpOk_expectClient, wpOk_guard, wpOk_pure]
  intro client hcl hcred hnouri
  have h1 := step_eq_exec {} { ss := s.ss } (.getClient p.q.clientId) rfl _ hcl (by intro e; simp)
  obtain ⟨hm, hid⟩ := exec_getClient_client _ _ _ h1.2
  have hfacts : p.hasRequestUri = false ∧ ∃ client ∈ s.ss.clients, client.id = p.q.clientId ∧ (client.isPublic || p.credOk) = true :=
    ⟨by simpa using hnouri, client, hm, hid, hcred⟩
  repeat' (first | (apply wpOk_of_forall; intro _ _) | (intro _ _ _; exact hfacts) | (intro _))

/-- When pushing is enforced, an authorization request without a `request_uri` is refused. -/
theorem enforced_requires_par (s : MState) (q : AuthzReq) (henf : s.cfg.enforcePAR = true) (c t i) :
    (step s (.authorize q)).2.1 ≠ .authz c t i := by
  intro h
  have hp := step_prog s (.authorize q) (authorizeProg s.cfg s.now s.minNonce q) rfl
  rw [hp.2] at h
  have := run_HP_ok {} (authorizeH s.cfg s.now s.minNonce q) { ss := s.ss } _ (fun _ _ => False) ?_ h (by intro e; simp)
  · exact this
  · unfold authorizeH
    simp only [wpOk_bind, wpOk_guard, henf]
    intro hf; simp at hf

end Fosite.Props.C17

/-
  C16 (continued) — the PRESCRIBED ANSWERS of the device_code grant and the replay clause.

  Clauses covered (C16 statement, sentences 1 and 2):
  * "while undecided the token endpoint answers authorization_pending, after denial access_denied,
    after expiry expired_token, and for a client other than the one that started the flow
    invalid_grant": `undecided_answers_authorization_pending`, `denied_answers_access_denied`,
    `expired_answers_expired_token`, `foreign_client_answers_invalid_grant`, all instances of
    `device_poll_answer`.
    Reading (DESIGN §3 C16, "overlap"): where two listed conditions hold at once the code decides by a
    fixed precedence, stated here exactly (`deviceAnswer`, `device_answer_order`): user-code state
    (undecided, then denied) BEFORE expiry BEFORE the MAC of the presented code BEFORE the client
    comparison.  Hence each theorem carries exactly the hypotheses the code needs: the first two need
    nothing about expiry, exactness of the copy or the client; the third nothing about exactness or
    client; only the fourth needs an exact copy.  In particular an undecided code that has expired
    keeps answering `authorization_pending` (recorded in DESIGN §6 as "not a finding" under this reading).
  * "none of these refusals changes the device record or creates a token": `refusal_changes_nothing`.
  * "presenting it again never yields tokens": at-most-once is `Props/C16.lean`; here the answers
    a replay gets: `unknown_code_answers_invalid_grant` (reference store: record deleted) and
    `replay_answers_invalid_grant_and_revokes` (marking store).
  * "where the store reports it as already used the tokens issued from it are revoked":
    `replay_answers_invalid_grant_and_revokes` (no access-token record of the DEVICE request's id is
    left — fix commit 553ea6d), `replay_deactivates_refresh_token` (under the grant invariant, which
    holds in every reachable state), `device_tokens_stored_under_device_request_id` (that id is the
    one the tokens issued from the device code were stored under).
  All theorems are one-step theorems over EVERY state, request and configuration (hence every position
  of every history); fault-free runs; `device_poll_answer_any_tx_mode` lifts the answers to stores with
  transactions.  The last sentence of C16 (unguessable, distinct, stored as signatures) is not here.
-/
import Fosite.Proofs.DeviceAnswers
namespace Fosite.Props.C16b
open Fosite.Model

/-- **Prescribed answers, with their precedence.** An authenticated client presenting a stored, not yet
    used device code for which `deviceAnswer` finds an objection gets exactly that RFC error, and the
    operation leaves the server state as it was, but for the request id it consumed. -/
theorem device_poll_answer (s : MState) (q : DevicePollReq) (client : Client) (sig : Nat) (d : DevRec) (e : Err)
    (h : PresentsCode s q client sig d) (hlive : d.used = false)
    (hans : deviceAnswer s.cfg s.now q client d = some e) :
    (step s (.devicePoll q)).2.1 = .err e ∧
    (step s (.devicePoll q)).1.ss = { s.ss with next := s.ss.next + 1 } := by
  obtain ⟨rs', ⟨ho, hs⟩, hss⟩ := step_devicePoll_run s q _
    (devicePoll_refusal_wp {} plain_default.1 s.cfg s.now q { ss := s.ss } client sig d e h.authd h.key h.stored hlive hans)
  exact ⟨ho, hss.trans hs⟩

/-- the order of the checks, spelled out: state 0, state 2, expiry, MAC, client -/
theorem device_answer_order (cfg : Config) (now : Time) (q : DevicePollReq) (client : Client) (d : DevRec) :
    deviceAnswer cfg now q client d =
      if d.state = 0 then some .authorization_pending
      else if d.state = 2 then some .access_denied
      else if deviceExpired d cfg now = true then some .expired_token
      else if q.code.exact = false then some .token_signature_mismatch
      else if d.req.client.id ≠ client.id then some .invalid_grant
      else none := by
  unfold deviceAnswer
  by_cases h0 : d.state = 0 <;> by_cases h2 : d.state = 2 <;> by_cases he : deviceExpired d cfg now = true <;>
    by_cases hx : q.code.exact = true <;> by_cases hc : d.req.client.id = client.id <;> simp [h0, h2, he, hx, hc]

/-- the list of objections is complete: none is raised exactly when the user code was decided and not
    denied, the code is in time, an exact copy was presented and the client is the one that started the flow -/
theorem device_answer_none_iff (cfg : Config) (now : Time) (q : DevicePollReq) (client : Client) (d : DevRec) :
    deviceAnswer cfg now q client d = none ↔
      d.state ≠ 0 ∧ d.state ≠ 2 ∧ deviceExpired d cfg now = false ∧ q.code.exact = true ∧ d.req.client.id = client.id := by
  rw [device_answer_order]
  by_cases h0 : d.state = 0 <;> by_cases h2 : d.state = 2 <;> by_cases he : deviceExpired d cfg now = true <;>
    by_cases hx : q.code.exact = true <;> by_cases hc : d.req.client.id = client.id <;> simp [h0, h2, he, hx, hc]

/-- **Undecided ⇒ authorization_pending** — whatever the expiry, the copy presented and the client. -/
theorem undecided_answers_authorization_pending (s : MState) (q : DevicePollReq) (client : Client) (sig : Nat) (d : DevRec)
    (h : PresentsCode s q client sig d) (hlive : d.used = false) (hst : d.state = 0) :
    (step s (.devicePoll q)).2.1 = .err .authorization_pending :=
  (device_poll_answer s q client sig d _ h hlive (by rw [device_answer_order]; simp [hst])).1

/-- **Denied ⇒ access_denied** — whatever the expiry, the copy presented and the client. -/
theorem denied_answers_access_denied (s : MState) (q : DevicePollReq) (client : Client) (sig : Nat) (d : DevRec)
    (h : PresentsCode s q client sig d) (hlive : d.used = false) (hst : d.state = 2) :
    (step s (.devicePoll q)).2.1 = .err .access_denied :=
  (device_poll_answer s q client sig d _ h hlive (by rw [device_answer_order]; simp [hst])).1

/-- **Expired ⇒ expired_token**, once the user code has been decided and not denied — whatever the
    copy presented and the client. -/
theorem expired_answers_expired_token (s : MState) (q : DevicePollReq) (client : Client) (sig : Nat) (d : DevRec)
    (h : PresentsCode s q client sig d) (hlive : d.used = false) (h0 : d.state ≠ 0) (h2 : d.state ≠ 2)
    (hexp : deviceExpired d s.cfg s.now = true) :
    (step s (.devicePoll q)).2.1 = .err .expired_token :=
  (device_poll_answer s q client sig d _ h hlive (by rw [device_answer_order]; simp [h0, h2, hexp])).1

/-- **Foreign client ⇒ invalid_grant**, for an exact copy of a decided, not denied, unexpired code. -/
theorem foreign_client_answers_invalid_grant (s : MState) (q : DevicePollReq) (client : Client) (sig : Nat) (d : DevRec)
    (h : PresentsCode s q client sig d) (hlive : d.used = false) (h0 : d.state ≠ 0) (h2 : d.state ≠ 2)
    (hexp : deviceExpired d s.cfg s.now = false) (hexact : q.code.exact = true)
    (hforeign : d.req.client.id ≠ client.id) :
    (step s (.devicePoll q)).2.1 = .err .invalid_grant :=
  (device_poll_answer s q client sig d _ h hlive (by rw [device_answer_order]; simp [h0, h2, hexp, hexact, hforeign])).1

/-- (not in the property's list) a decided, unexpired code whose MAC does not verify: the answer is
    fosite's `token_signature_mismatch`, before the client is looked at -/
theorem inexact_copy_answers_signature_mismatch (s : MState) (q : DevicePollReq) (client : Client) (sig : Nat) (d : DevRec)
    (h : PresentsCode s q client sig d) (hlive : d.used = false) (h0 : d.state ≠ 0) (h2 : d.state ≠ 2)
    (hexp : deviceExpired d s.cfg s.now = false) (hexact : q.code.exact = false) :
    (step s (.devicePoll q)).2.1 = .err .token_signature_mismatch :=
  (device_poll_answer s q client sig d _ h hlive (by rw [device_answer_order]; simp [h0, h2, hexp, hexact])).1

/-- **No refusal changes the device record or creates a token**: the whole store (device
    authorizations, access tokens, refresh tokens, indexes, sessions) and the client table are as before. -/
theorem refusal_changes_nothing (s : MState) (q : DevicePollReq) (client : Client) (sig : Nat) (d : DevRec) (e : Err)
    (h : PresentsCode s q client sig d) (hlive : d.used = false)
    (hans : deviceAnswer s.cfg s.now q client d = some e) :
    (step s (.devicePoll q)).1.ss.store = s.ss.store ∧
    (step s (.devicePoll q)).1.ss.clients = s.ss.clients ∧
    alookup (step s (.devicePoll q)).1.ss.store.device sig = some d := by
  have := (device_poll_answer s q client sig d e h hlive hans).2
  rw [this]
  exact ⟨rfl, rfl, h.stored⟩

/-- the prescribed answers do not depend on the store having transactions (fault-free runs) -/
theorem device_poll_answer_any_tx_mode (rc : RunCfg) (hnf : NoFaults rc)
    (s : MState) (q : DevicePollReq) (client : Client) (sig : Nat) (d : DevRec) (e : Err)
    (h : PresentsCode s q client sig d) (hlive : d.used = false)
    (hans : deviceAnswer s.cfg s.now q client d = some e) :
    (stepWith rc s (.devicePoll q)).2.1 = .err e ∧
    (stepWith rc s (.devicePoll q)).1.ss = { s.ss with next := s.ss.next + 1 } := by
  obtain ⟨rs', ⟨ho, hs⟩, hss⟩ := stepWith_devicePoll_run rc s q _
    (devicePoll_refusal_wp rc hnf s.cfg s.now q { ss := s.ss } client sig d e h.authd h.key h.stored hlive hans)
  exact ⟨ho, hss.trans hs⟩

/-- **Replay against the reference store** (the record was deleted by the successful exchange), or any
    other unknown code: `invalid_grant`, nothing changes. -/
theorem unknown_code_answers_invalid_grant (s : MState) (q : DevicePollReq) (client : Client)
    (hpre : PollPrefix q s.ss client) (hnone : q.code.sig.bind (alookup s.ss.store.device) = none) :
    (step s (.devicePoll q)).2.1 = .err .invalid_grant ∧
    (step s (.devicePoll q)).1.ss = { s.ss with next := s.ss.next + 1 } := by
  obtain ⟨rs', ⟨ho, hs⟩, hss⟩ := step_devicePoll_run s q _
    (devicePoll_unknown_wp {} plain_default.1 s.cfg s.now q { ss := s.ss } client hpre hnone)
  exact ⟨ho, hss.trans hs⟩

/-- **Replay clause.** Where the store reports the device code as already used, the answer is
    `invalid_grant`, and afterwards no access-token record with the DEVICE request's id exists; the
    device record itself stays (marked used). -/
theorem replay_answers_invalid_grant_and_revokes (s : MState) (q : DevicePollReq) (client : Client) (sig : Nat) (d : DevRec)
    (h : PresentsCode s q client sig d) (hused : d.used = true) :
    (step s (.devicePoll q)).2.1 = .err .invalid_grant ∧
    (∀ a r, alookup (step s (.devicePoll q)).1.ss.store.access a = some r → r.id ≠ d.req.id) ∧
    (step s (.devicePoll q)).1.ss.store.access = s.ss.store.access.filter (fun p => p.2.id != d.req.id) ∧
    (step s (.devicePoll q)).1.ss.store.device = s.ss.store.device := by
  obtain ⟨rs', ⟨ho, hs⟩, hss⟩ := step_devicePoll_run s q _
    (devicePoll_replay_wp {} plain_default.1 s.cfg s.now q { ss := s.ss } client sig d h.authd h.key h.stored hused)
  rw [hss, hs]
  exact ⟨ho, fun a r hl => replayState_no_access _ _ a r hl, replayState_access _ _, replayState_device _ _⟩

/-- … and no ACTIVE refresh token with that request id is left either, in every state that satisfies
    the grant invariant (`GInv`: every state reachable from the initial one, `after_GInv`). -/
theorem replay_deactivates_refresh_token (s : MState) (hinv : GInv s.ss)
    (q : DevicePollReq) (client : Client) (sig : Nat) (d : DevRec)
    (h : PresentsCode s q client sig d) (hused : d.used = true) :
    ∀ rsig rec, alookup (step s (.devicePoll q)).1.ss.store.refresh rsig = some rec → rec.req.id = d.req.id →
      rec.active = false := by
  obtain ⟨rs', ⟨_, hs⟩, hss⟩ := step_devicePoll_run s q _
    (devicePoll_replay_wp {} plain_default.1 s.cfg s.now q { ss := s.ss } client sig d h.authd h.key h.stored hused)
  rw [hss, hs]
  exact fun rsig rec hl hid => replayState_no_active_refresh _ _ hinv.idx rsig rec hl hid

/-- the tokens a device code yields are stored under the device request's id (so the replay clause
    above speaks about exactly them) -/
theorem device_tokens_stored_under_device_request_id (cfg : Config) (now : Time) (q : DevicePollReq) (client : Client)
    (d d2 : DevRec) : ((deviceStoreReq cfg now q client d d2).sanitize []).id = d.req.id := rfl

/-! ### non-vacuity: concrete histories in which each hypothesis set is met and the answer is the prescribed one -/

def exOwner : Client := { id := "c", isPublic := true, grants := [deviceGrant] }
def exOther : Client := { id := "x", isPublic := true, grants := [deviceGrant] }
/-- device authorization by "c": request id 0, device-code signature 1, user-code signature 2 -/
def exStart : List Op :=
  [ .setClient exOwner, .setClient exOther, .deviceAuthorize { clientId := "c", credOk := true, formClientId := "c" } ]
def exPoll (cid : String) (exact : Bool := true) : DevicePollReq :=
  { clientId := cid, credOk := true, code := { sig := some 1, exact := exact } }
def exDev (s : MState) : DevRec := (alookup s.ss.store.device 1).getD default

def sPending : MState := after {} exStart
def sDenied : MState := after {} (exStart ++ [.deviceDecide 1 false [] [] "u"])
def sApproved : MState := after {} (exStart ++ [.deviceDecide 1 true [] [] "u"])
def sExpired : MState := after {} (exStart ++ [.deviceDecide 1 true [] [] "u", .advance (601 * second)])
def sPendingExpired : MState := after {} (exStart ++ [.advance (601 * second)])

example : PresentsCode sPending (exPoll "c") exOwner 1 (exDev sPending) ∧ (exDev sPending).used = false ∧ (exDev sPending).state = 0 :=
  ⟨⟨⟨by decide, by decide, by decide⟩, rfl, by decide⟩, by decide, by decide⟩
example : Out.answers .authorization_pending (step sPending (.devicePoll (exPoll "c"))).2.1 = true := by decide
-- precedence: undecided AND expired AND foreign client AND inexact copy: still authorization_pending
example : (exDev sPendingExpired).state = 0 ∧ deviceExpired (exDev sPendingExpired) sPendingExpired.cfg sPendingExpired.now = true ∧
    Out.answers .authorization_pending (step sPendingExpired (.devicePoll (exPoll "x" false))).2.1 = true := by decide

example : PresentsCode sDenied (exPoll "c") exOwner 1 (exDev sDenied) ∧ (exDev sDenied).used = false ∧ (exDev sDenied).state = 2 :=
  ⟨⟨⟨by decide, by decide, by decide⟩, rfl, by decide⟩, by decide, by decide⟩
example : Out.answers .access_denied (step sDenied (.devicePoll (exPoll "c"))).2.1 = true := by decide

example : PresentsCode sExpired (exPoll "x") exOther 1 (exDev sExpired) ∧ (exDev sExpired).used = false ∧
    (exDev sExpired).state = 1 ∧ deviceExpired (exDev sExpired) sExpired.cfg sExpired.now = true :=
  ⟨⟨⟨by decide, by decide, by decide⟩, rfl, by decide⟩, by decide, by decide, by decide⟩
-- precedence: expired AND foreign client: expired_token
example : Out.answers .expired_token (step sExpired (.devicePoll (exPoll "x"))).2.1 = true := by decide

example : PresentsCode sApproved (exPoll "x") exOther 1 (exDev sApproved) ∧ (exDev sApproved).used = false ∧
    (exDev sApproved).state = 1 ∧ deviceExpired (exDev sApproved) sApproved.cfg sApproved.now = false ∧
    (exDev sApproved).req.client.id ≠ exOther.id :=
  ⟨⟨⟨by decide, by decide, by decide⟩, rfl, by decide⟩, by decide, by decide, by decide, by decide⟩
example : Out.answers .invalid_grant (step sApproved (.devicePoll (exPoll "x"))).2.1 = true := by decide
example : Out.answers .token_signature_mismatch (step sApproved (.devicePoll (exPoll "x" false))).2.1 = true := by decide
-- … while the owner, in time, with an exact copy, gets tokens (the refusals are not all there is)
example : (match (step sApproved (.devicePoll (exPoll "c"))).2.1 with | .tokens .. => true | _ => false) = true := by decide

/-- a store that marks device codes as used: approve, exchange (access token 4 under request id 0), replay -/
def sMarkedUsed : MState :=
  after { ss := { devMark := true } } (exStart ++ [.deviceDecide 1 true [] [] "u", .devicePoll (exPoll "c")])

example : PresentsCode sMarkedUsed (exPoll "c") exOwner 1 (exDev sMarkedUsed) ∧ (exDev sMarkedUsed).used = true ∧
    GInv ({ ss := { devMark := true } } : MState).ss ∧
    (sMarkedUsed.ss.store.access.map (fun p => (p.1, p.2.id))) = [(4, 0)] ∧ (exDev sMarkedUsed).req.id = 0 :=
  ⟨⟨⟨by decide, by decide, by decide⟩, rfl, by decide⟩, by decide, init_GInv_devMark, by decide, by decide⟩
example : Out.answers .invalid_grant (step sMarkedUsed (.devicePoll (exPoll "c"))).2.1 = true ∧
    (step sMarkedUsed (.devicePoll (exPoll "c"))).1.ss.store.access = [] := by decide
example : GInv sMarkedUsed.ss := after_GInv _ _ init_GInv_devMark
/-- the same with a refresh token issued by the exchange (refresh token 5 under request id 0) -/
def sMarkedUsedRT : MState :=
  after { ss := { devMark := true } }
    ([.setCfg { refreshScopes := [] }, .setClient { exOwner with grants := [deviceGrant, "refresh_token"] },
      .deviceAuthorize { clientId := "c", credOk := true, formClientId := "c" },
      .deviceDecide 1 true [] [] "u", .devicePoll (exPoll "c")])
example : (sMarkedUsedRT.ss.store.refresh.map (fun p => (p.1, p.2.req.id, p.2.active))) = [(5, 0, true)] ∧
    ((step sMarkedUsedRT (.devicePoll (exPoll "c"))).1.ss.store.refresh.map (fun p => (p.1, p.2.req.id, p.2.active))) = [(5, 0, false)] ∧
    (step sMarkedUsedRT (.devicePoll (exPoll "c"))).1.ss.store.access = [] := by decide
example : PresentsCode sMarkedUsedRT (exPoll "c") { exOwner with grants := [deviceGrant, "refresh_token"] } 1 (exDev sMarkedUsedRT) ∧
    (exDev sMarkedUsedRT).used = true ∧ GInv sMarkedUsedRT.ss :=
  ⟨⟨⟨by decide, by decide, by decide⟩, rfl, by decide⟩, by decide, after_GInv _ _ init_GInv_devMark⟩
-- the answers under a store with transactions (hypothesis `NoFaults` of `device_poll_answer_any_tx_mode` met)
example : NoFaults { tx := true } := fun _ => rfl
example : Out.answers .authorization_pending (stepWith { tx := true } sPending (.devicePoll (exPoll "c"))).2.1 = true ∧
    Out.answers .access_denied (stepWith { tx := true } sDenied (.devicePoll (exPoll "c"))).2.1 = true := by decide
-- reference store: the replay finds nothing
def sDeleted : MState := after {} (exStart ++ [.deviceDecide 1 true [] [] "u", .devicePoll (exPoll "c")])
example : PollPrefix (exPoll "c") sDeleted.ss exOwner ∧ (exPoll "c").code.sig.bind (alookup sDeleted.ss.store.device) = none :=
  ⟨⟨by decide, by decide, by decide⟩, by decide⟩
example : Out.answers .invalid_grant (step sDeleted (.devicePoll (exPoll "c"))).2.1 = true := by decide

end Fosite.Props.C16b

/-
  C20 (rendering half) — responses leak nothing.
  Property theorems only; lemmas live in `Fosite/Proofs/Render.lean`.

  Every statement quantifies over *all* byte strings for name, description, hint, debug, state,
  redirect parameters, over both error formats, both settings of debug exposure, every error
  writer and every placement.  JSON / URL / HTML escaping are library parameters (see
  `Model/Render.lean`); the theorems speak about the data handed to them, and the correspondence
  run (`harness/drive/pure_render.go`) reads that data back out of the real responses.
-/
import Fosite.Proofs.Render
namespace Fosite.Props.C20
open Fosite Fosite.Model.Render Fosite.Proofs.Render

/-! ## debug detail only when the operator enabled it -/

/-- With `SendDebugMessagesToClients = false`, what *any* error writer produces (status, headers,
    body kind, redirect target, every JSON member, query / fragment parameter and form field) is
    unchanged when every internal text of the Go error — the `DebugField` of every RFC error in the
    chain and the message of every non-RFC error wrapped around or inside it — is blanked.  The
    response is therefore a function of (name, description, hint, status) alone. -/
theorem debug_only_if_exposed (w : ErrWriter) (cfg : Cfg) (h : cfg.sendDebugMessagesToClients = false)
    (err : GoErr) : writeError w cfg err = writeError w cfg (redact err) :=
  (writeError_redact w cfg h err).symm

/-- the same in the form "two debug texts are indistinguishable", for an RFC error with any cause chain -/
theorem debug_only_if_exposed_rfc (w : ErrWriter) (cfg : Cfg) (h : cfg.sendDebugMessagesToClients = false)
    (e : RFCError) (d1 d2 : Bytes) (cause : GoErr) :
    writeError w cfg (.rfc { e with debug := d1 } :: cause) = writeError w cfg (.rfc { e with debug := d2 } :: cause) := by
  rw [debug_only_if_exposed w cfg h (.rfc { e with debug := d1 } :: cause),
      debug_only_if_exposed w cfg h (.rfc { e with debug := d2 } :: cause)]
  rfl

/-- an error that is not an RFC error (its whole message is debug text): two messages are indistinguishable -/
theorem debug_only_if_exposed_plain (w : ErrWriter) (cfg : Cfg) (h : cfg.sendDebugMessagesToClients = false)
    (m1 m2 : Bytes) : writeError w cfg [.msg m1] = writeError w cfg [.msg m2] := by
  rw [debug_only_if_exposed w cfg h [.msg m1], debug_only_if_exposed w cfg h [.msg m2]]
  rfl

/-- the three rendering functions themselves, both formats -/
theorem debug_only_if_exposed_functions (e : RFCError) (h : e.exposeDebug = false) (d1 d2 : Bytes) :
    getDescription { e with debug := d1 } = getDescription { e with debug := d2 }
    ∧ marshalJSON { e with debug := d1 } = marshalJSON { e with debug := d2 }
    ∧ toValues { e with debug := d1 } = toValues { e with debug := d2 } := by
  refine ⟨?_, ?_, ?_⟩
  · rw [getDescription_clearDebug _ (by exact h), getDescription_clearDebug { e with debug := d2 } (by exact h)]; rfl
  · rw [marshalJSON_clearDebug _ (by exact h), marshalJSON_clearDebug { e with debug := d2 } (by exact h)]; rfl
  · rw [toValues_clearDebug _ (by exact h), toValues_clearDebug { e with debug := d2 } (by exact h)]; rfl

/-- the revocation endpoint never shows internal text, whatever the configuration -/
theorem revocation_never_exposes (err : GoErr) :
    writeRevocationResponse err = writeRevocationResponse (redact err) :=
  (writeRevocation_redact err).symm

/-- the `error_debug` member / parameter exists exactly in the legacy format with exposure on -/
theorem error_debug_member_iff (e : RFCError) :
    (kDebug ∈ (marshalJSON e).map (·.1) ↔ (e.useLegacyFormat = true ∧ e.exposeDebug = true ∧ e.debug ≠ []))
    ∧ (kDebug ∈ (toValues e).map (·.1) ↔ (e.useLegacyFormat = true ∧ e.exposeDebug = true ∧ e.debug ≠ [])) :=
  ⟨marshalJSON_debug_key e, toValues_debug_key e⟩

/-! ## well-formed: the description of the RFC format never contains a double quote -/

theorem description_has_no_double_quote (e : RFCError) : dq ∉ getDescription e :=
  replaceQuotes_no_dq _

/-- … and that is the `error_description` member / parameter of the RFC (non-legacy) format -/
theorem new_format_description (e : RFCError) (h : e.useLegacyFormat = false) :
    marshalJSON e = [(kError, .str e.name), (kDescription, .str (getDescription e))]
    ∧ toValues e = [(kError, e.name), (kDescription, getDescription e)] := by
  simp [marshalJSON, toValues, h]

/-- The legacy format passes `DescriptionField` through unchanged — a double quote in it reaches the
    encoder as data (the statement above is about the RFC format only; this witness pins that down). -/
theorem legacy_description_keeps_double_quote :
    ∃ e : RFCError, e.useLegacyFormat = true ∧ (kDescription, JVal.str [dq]) ∈ marshalJSON e :=
  ⟨{ name := [], description := [dq], code := 400, useLegacyFormat := true }, rfl, by decide⟩

/-! ## RFC error code and matching HTTP status -/

/-- JSON placements (token endpoint, PAR endpoint, authorization endpoint with an unusable redirect
    URI): the HTTP status is the error's status and the `error` member its code — for every RFC
    error, in particular for every sentinel of errors.go with any hint and debug text attached. -/
theorem status_matches_error_table (cfg : Cfg) (e : RFCError) (cause : GoErr) :
    let err : GoErr := .rfc e :: cause
    ((writeAccessError cfg err).status = e.code ∧ ⟨.json, kError, .str e.name⟩ ∈ (writeAccessError cfg err).fields)
    ∧ ((writePushedAuthorizeError cfg err).status = e.code
        ∧ ⟨.json, kError, .str e.name⟩ ∈ (writePushedAuthorizeError cfg err).fields)
    ∧ (∀ ar : AuthReq, ar.redirValid = false →
        (writeAuthorizeError cfg ar err).status = e.code
        ∧ ⟨.json, kError, .str e.name⟩ ∈ (writeAuthorizeError cfg ar err).fields) := by
  refine ⟨⟨rfl, ?_⟩, ⟨rfl, ?_⟩, ?_⟩
  · exact jsonFields_mem (marshalJSON_error_mem _)
  · exact jsonFields_mem (marshalJSON_error_mem _)
  · intro ar hv
    simp only [writeAuthorizeError, hv, ↓reduceIte]
    exact ⟨rfl, jsonFields_mem (marshalJSON_error_mem _)⟩

theorem status_matches_error_table_sentinel (s : Sentinel) (_hs : s ∈ sentinelTable) (cfg : Cfg)
    (hint debug : Bytes) (cause : GoErr) :
    let err : GoErr := .rfc ((s.toError.withHint hint).withDebug debug) :: cause
    (writeAccessError cfg err).status = s.code
    ∧ ⟨.json, kError, .str (asc s.name)⟩ ∈ (writeAccessError cfg err).fields :=
  (status_matches_error_table cfg ((s.toError.withHint hint).withDebug debug) cause).1

/-- redirect placements: 303 (200 for the self-submitting form), the `error` parameter is the code,
    in the place the response mode names -/
theorem redirect_carries_error_code (cfg : Cfg) (ar : AuthReq) (hv : ar.redirValid = true) (e : RFCError)
    (cause : GoErr) :
    (ar.mode = mFormPost →
        (writeAuthorizeError cfg ar (.rfc e :: cause)).status = 200
        ∧ (writeAuthorizeError cfg ar (.rfc e :: cause)).bodyKind = .html
        ∧ ⟨.form, kError, .str e.name⟩ ∈ (writeAuthorizeError cfg ar (.rfc e :: cause)).fields)
    ∧ (ar.mode ≠ mFormPost → ar.mode = mFragment →
        (writeAuthorizeError cfg ar (.rfc e :: cause)).status = 303
        ∧ (hLocation, "*") ∈ (writeAuthorizeError cfg ar (.rfc e :: cause)).headers
        ∧ ⟨.fragment, kError, .str e.name⟩ ∈ (writeAuthorizeError cfg ar (.rfc e :: cause)).fields)
    ∧ (ar.mode ≠ mFormPost → ar.mode ≠ mFragment →
        (writeAuthorizeError cfg ar (.rfc e :: cause)).status = 303
        ∧ (hLocation, "*") ∈ (writeAuthorizeError cfg ar (.rfc e :: cause)).headers
        ∧ ⟨.query, kError, .str e.name⟩ ∈ (writeAuthorizeError cfg ar (.rfc e :: cause)).fields) := by
  have hmem : (kError, e.name) ∈ setValue (toValues (configured cfg (.rfc e :: cause))) kState ar.state :=
    setValue_mem_other kError_ne_kState (toValues_error_mem (configured cfg (.rfc e :: cause)))
  refine ⟨?_, ?_, ?_⟩
  · intro m
    rw [writeAuthorizeError_form cfg ar _ hv m]
    exact ⟨rfl, rfl, List.mem_append_right _ (strFields_mem hmem)⟩
  · intro m1 m2
    rw [writeAuthorizeError_fragment cfg ar _ hv m1 m2]
    exact ⟨rfl, location_mem, List.mem_append_right _ (strFields_mem hmem)⟩
  · intro m1 m2
    rw [writeAuthorizeError_query cfg ar _ hv m1 m2]
    exact ⟨rfl, location_mem, strFields_mem (List.mem_append_left _ hmem)⟩

/-- an error that is not an RFC error is told as `error` / 500 -/
theorem unknown_error_is_500 (cfg : Cfg) (m : Bytes) :
    (writeAccessError cfg [.msg m]).status = 500
    ∧ ⟨.json, kError, .str (asc "error")⟩ ∈ (writeAccessError cfg [.msg m]).fields :=
  ⟨rfl, jsonFields_mem (marshalJSON_error_mem _)⟩

/-- the table itself: RFC 6749 §5.2 / §4.1.2.1 codes and their statuses (re-checked by evaluation) -/
theorem rfc6749_codes :
    (sentinelTable.filter (fun s => ["ErrInvalidRequest", "ErrInvalidClient", "ErrInvalidGrant", "ErrUnauthorizedClient",
        "ErrUnsupportedGrantType", "ErrInvalidScope", "ErrAccessDenied", "ErrUnsupportedResponseType", "ErrServerError",
        "ErrTemporarilyUnavailable"].contains s.goName)).map (fun s => (s.name, s.code))
    = [("invalid_request", 400), ("unauthorized_client", 400), ("access_denied", 403),
       ("unsupported_response_type", 400), ("invalid_scope", 400), ("server_error", 500),
       ("temporarily_unavailable", 503), ("unsupported_grant_type", 400), ("invalid_grant", 400),
       ("invalid_client", 401)] := by decide

/-! ## no-store / no-cache on every writer -/

/-- Every modelled writer ends with exactly one `Cache-Control: no-store` and one `Pragma: no-cache`
    — also when the responder supplied its own `Cache-Control` / `Pragma` headers.  The one exception
    is `WriteIntrospectionError(nil)`, which writes no response at all. -/
theorem cache_headers_on_every_writer :
    (∀ w cfg err, err ≠ [] → Cached (writeError w cfg err).headers)
    ∧ (∀ err, Cached (writeRevocationResponse err).headers)
    ∧ (∀ at_ tt extra, Cached (writeAccessResponse at_ tt extra).headers)
    ∧ (∀ ar rh params, Cached (writeAuthorizeResponse ar rh params).headers)
    ∧ (∀ r, Cached (writeIntrospectionResponse r).headers)
    ∧ (∀ rh uri exp extra, Cached (writePushedAuthorizeResponse rh uri exp extra).headers)
    ∧ (∀ rh d, Cached (writeDeviceResponse rh d).headers) :=
  ⟨cached_writeError, cached_writeRevocationResponse,
   fun _ _ _ => cached_json _ (cached_setCache _),
   cached_writeAuthorizeResponse, cached_writeIntrospectionResponse,
   fun _ _ _ _ => cached_json _ (cached_setCache _),
   fun _ _ => cached_setCache _⟩

/-! ## the two formats -/

/-- RFC format: exactly `error` and `error_description`.  Legacy format: `error`, the bare
    `error_description`, `error_hint` if there is a hint, `status_code` (JSON only) if non-zero,
    `error_debug` only if exposure is on and there is debug text. -/
theorem legacy_format_fields (e : RFCError) :
    (e.useLegacyFormat = false →
        (marshalJSON e).map (·.1) = [kError, kDescription] ∧ (toValues e).map (·.1) = [kError, kDescription])
    ∧ (e.useLegacyFormat = true →
        marshalJSON e =
          [(kError, .str e.name), (kDescription, .str e.description)]
          ++ (if e.hint ≠ [] then [(kHint, .str e.hint)] else [])
          ++ (if e.code ≠ 0 then [(kStatusCode, .num e.code)] else [])
          ++ (if e.exposeDebug = true ∧ e.debug ≠ [] then [(kDebug, .str e.debug)] else [])
        ∧ toValues e =
          [(kError, e.name), (kDescription, e.description)]
          ++ (if e.hint ≠ [] then [(kHint, e.hint)] else [])
          ++ (if e.exposeDebug = true ∧ e.debug ≠ [] then [(kDebug, e.debug)] else [])) :=
  ⟨fun h => ⟨marshalJSON_new_keys e h, toValues_new_keys e h⟩,
   fun h => ⟨marshalJSON_legacy e h, toValues_legacy e h⟩⟩

/-! ## the model implements the specification -/

/-- wherever `Spec/Render.lean` prescribes an error response, the model produces exactly it -/
theorem error_rendering_refines_spec (w : ErrWriter) (cfg : Cfg) (err : GoErr) (r : Response)
    (h : Spec.Render.errorResponse w cfg err = some r) : writeError w cfg err = r :=
  errorResponse_refines w cfg err r h

theorem error_functions_refine_spec (e : RFCError) :
    (∀ d, Spec.Render.description e = some d → getDescription e = d)
    ∧ (∀ o, Spec.Render.errorObject e = some o → marshalJSON e = o)
    ∧ (∀ ps, Spec.Render.errorParams e = some ps → toValues e = ps) :=
  ⟨description_refines e, errorObject_refines e, errorParams_refines e⟩

/-- … and the same for the success writers (token, authorize in all three placements, introspection,
    PAR).  The device response has no prescription: the implementation adds a `"Header": null` member. -/
theorem success_rendering_refines_spec :
    (∀ a t x r, Spec.Render.accessResponse a t x = some r → writeAccessResponse a t x = r)
    ∧ (∀ ar rh ps r, Spec.Render.authorizeResponse ar rh ps = some r → writeAuthorizeResponse ar rh ps = r)
    ∧ (∀ i r, Spec.Render.introspectionResponse i = some r → writeIntrospectionResponse i = r)
    ∧ (∀ rh u n x r, Spec.Render.parResponse rh u n x = some r → writePushedAuthorizeResponse rh u n x = r) :=
  ⟨accessResponse_refines, authorizeResponse_refines, introspectionResponse_refines, parResponse_refines⟩

/-- values reflected into a redirect or the form_post page are handed to the encoder as *data*: the
    success writer's parameters arrive, unchanged, in the place the response mode names (the
    encoding itself is the library parameter checked by the correspondence run) -/
theorem reflected_values_are_data (ar : AuthReq) (rh : Headers) (ps : List (Bytes × Bytes)) (k v : Bytes)
    (hm : (k, v) ∈ ps) :
    (ar.mode = mFormPost → ⟨.form, k, .str v⟩ ∈ (writeAuthorizeResponse ar rh ps).fields)
    ∧ (ar.mode ≠ mFormPost → ¬(ar.mode = mQuery ∨ ar.mode = []) → ar.mode = mFragment →
        ⟨.fragment, k, .str v⟩ ∈ (writeAuthorizeResponse ar rh ps).fields) := by
  constructor
  · intro m
    unfold writeAuthorizeResponse
    simp only
    rw [if_pos m]
    exact List.mem_append_right _ (strFields_mem hm)
  · intro m1 m2 m3
    unfold writeAuthorizeResponse
    simp only
    rw [if_neg m1, if_neg m2, if_pos m3]
    exact List.mem_append_right _ (strFields_mem hm)

/-! ## non-vacuity -/

def sampleErr : RFCError :=
  { name := asc "invalid_request", description := asc "bad", hint := asc "say \"hi\"", debug := asc "secret", code := 400 }

-- exposure on: the debug text *is* rendered, so `debug_only_if_exposed` is not true for trivial reasons
example : getDescription { sampleErr with exposeDebug := true } = asc "bad say 'hi' secret" := by decide
example : getDescription sampleErr = asc "bad say 'hi'" := by decide
example : getDescription { sampleErr with exposeDebug := true } ≠ getDescription { sampleErr with exposeDebug := true, debug := asc "other" } := by decide
-- legacy format keeps hint and debug apart and adds the status
example : marshalJSON { sampleErr with useLegacyFormat := true, exposeDebug := true }
    = [(kError, .str (asc "invalid_request")), (kDescription, .str (asc "bad")), (kHint, .str (asc "say \"hi\"")),
       (kStatusCode, .num 400), (kDebug, .str (asc "secret"))] := by decide
example : toValues { sampleErr with useLegacyFormat := true }
    = [(kError, asc "invalid_request"), (kDescription, asc "bad"), (kHint, asc "say \"hi\"")] := by decide
-- a plain Go error
example : (writeAccessError ⟨false, true⟩ [.msg (asc "boom")]).fields
    = [⟨.json, kError, .str (asc "error")⟩, ⟨.json, kDescription, .str (asc "The error is unrecognizable boom")⟩] := by decide
example : (writeAccessError ⟨false, false⟩ [.msg (asc "boom")]).fields
    = [⟨.json, kError, .str (asc "error")⟩, ⟨.json, kDescription, .str (asc "The error is unrecognizable")⟩] := by decide
-- placements of the authorize error
example : (writeAuthorizeError ⟨false, false⟩ { mode := mFragment, redirValid := true, redirBase := asc "https://c/cb", state := asc "s" }
            [.rfc sampleErr]).fields
    = [⟨.fragment, kError, .str (asc "invalid_request")⟩, ⟨.fragment, kDescription, .str (asc "bad say 'hi'")⟩,
       ⟨.fragment, kState, .str (asc "s")⟩] := by decide
example : (writeAuthorizeError ⟨false, false⟩ { mode := mQuery, redirValid := false, redirBase := asc "https://c/cb" }
            [.rfc sampleErr]).status = 400 := by decide
-- the specification prescribes on ordinary inputs (so the refinement theorem is not vacuous)
example : (Spec.Render.errorResponse .access ⟨false, false⟩ [.rfc sampleErr]).isSome = true := by decide
example : (Spec.Render.errorResponse (.authorize { mode := mFormPost, redirValid := true, redirBase := asc "https://c/cb" })
            ⟨true, true⟩ [.msg (asc "x"), .rfc sampleErr]).isSome = true := by decide
example : (Spec.Render.authorizeResponse { mode := mFormPost, redirValid := true, redirBase := asc "https://c/cb" }
            [("X-Custom", "1")] [(asc "code", asc "<script>"), (asc "state", asc "\"")]).isSome = true := by decide
example : (Spec.Render.accessResponse (asc "tok") (asc "bearer") [(asc "expires_in", .num 3600)]).isSome = true := by decide
-- the header predicate is not trivially true
example : ¬ Cached [] := by decide
example : ¬ Cached [("Cache-Control", "public"), ("Pragma", "no-cache")] := by decide
example : redact [.msg (asc "a"), .rfc sampleErr] ≠ [.msg (asc "a"), .rfc sampleErr] := by decide

/-- The form_post document never posts to a URI html/template does not trust: its action is the redirect
    URI exactly when the URL filter keeps it, and the neutral `#ZgotmplZ` otherwise — for the success and the
    error writer alike (a `javascript:` / `data:` redirect URI cannot become the action of the auto-submitting
    form). -/
theorem form_post_action_kept_or_neutralised (ar : Fosite.Model.Render.AuthReq)
    (h : Fosite.Model.Render.Headers) (params : List (Fosite.Model.Render.Bytes × Fosite.Model.Render.Bytes))
    (hm : ar.mode = Fosite.Model.Render.mFormPost) :
    (Fosite.Model.Render.writeAuthorizeResponse ar h params).target =
      (if ar.actionKept then ar.redirBase else Fosite.Model.Render.zgotmpl) := by
  unfold Fosite.Model.Render.writeAuthorizeResponse
  simp only [hm, if_true, Fosite.Model.Render.formTarget]

theorem form_post_error_action_kept_or_neutralised (cfg : Fosite.Model.Render.Cfg) (ar : Fosite.Model.Render.AuthReq)
    (err : Fosite.Model.Render.GoErr) (hv : ar.redirValid = true) (hm : ar.mode = Fosite.Model.Render.mFormPost) :
    (Fosite.Model.Render.writeAuthorizeError cfg ar err).target =
      (if ar.actionKept then ar.redirBase else Fosite.Model.Render.zgotmpl) := by
  rw [Fosite.Proofs.Render.writeAuthorizeError_form cfg ar err hv hm]
  rfl

end Fosite.Props.C20

/-
  C02 — a code is bound to its client, redirect_uri and lifetime; the grant is immutable.
  One-step theorems: they hold for *every* state (hence at every position of every history)
  and every token request, whatever `scope` / `audience` parameters it smuggles.
-/
import Fosite.Proofs.History
namespace Fosite.Props.C02
open Fosite.Model

/-- facts about the state before a successful redemption -/
theorem redeem_success_facts (s : MState) (q : RedeemReq) (a r i e sc)
    (h : (step s (.redeem q)).2.1 = .tokens a r i e sc) :
    RedeemOk s.cfg s.now q s.ss (step s (.redeem q)).1.ss r sc := by
  have hp := step_prog s (.redeem q) (redeemProg s.cfg s.now q) rfl
  rw [hp.2] at h
  rw [hp.1]
  exact redeem_success {} plain_default.1 s.cfg s.now q { ss := s.ss } a r i e sc h

/-- Only the client the code was issued to (and which authenticated, unless public) redeems it. -/
theorem redeem_requires_owner (s : MState) (q : RedeemReq) (a r i e sc)
    (h : (step s (.redeem q)).2.1 = .tokens a r i e sc) :
    ∃ sig rec client, q.code.sig = some sig ∧ alookup s.ss.store.codes sig = some rec ∧
      client ∈ s.ss.clients ∧ client.id = q.clientId ∧ (client.isPublic || q.credOk) = true ∧
      rec.req.client.id = q.clientId := by
  obtain ⟨sig, rec, client, hsig, hrec, _, _, hm, hid, hcred, _, hown, _⟩ := (redeem_success_facts s q a r i e sc h).ex
  exact ⟨sig, rec, client, hsig, hrec, hm, hid, hcred, by rw [hown, hid]⟩

/-- When the authorization request carried a redirect_uri, the token request must repeat it verbatim. -/
theorem redeem_requires_same_redirect_uri (s : MState) (q : RedeemReq) (a r i e sc)
    (h : (step s (.redeem q)).2.1 = .tokens a r i e sc) :
    ∃ sig rec, q.code.sig = some sig ∧ alookup s.ss.store.codes sig = some rec ∧
      (rec.req.formGet "redirect_uri" = "" ∨ rec.req.formGet "redirect_uri" = q.redirect) := by
  obtain ⟨sig, rec, _, hsig, hrec, _, _, _, _, _, _, _, hred, _⟩ := (redeem_success_facts s q a r i e sc h).ex
  exact ⟨sig, rec, hsig, hrec, hred⟩

/-- An expired code is never redeemed: `now ≤ exp` for the expiry stamped at the authorization
    endpoint (or `requestedAt + lifespan` when the session carries none). -/
theorem redeem_requires_unexpired (s : MState) (q : RedeemReq) (a r i e sc)
    (h : (step s (.redeem q)).2.1 = .tokens a r i e sc) :
    ∃ sig rec, q.code.sig = some sig ∧ alookup s.ss.store.codes sig = some rec ∧
      expiredAt rec.req.sess.expCode s.now s.cfg.codeLife s.now = false := by
  obtain ⟨sig, rec, _, hsig, hrec, _, _, _, _, _, _, _, _, hexp, _⟩ := (redeem_success_facts s q a r i e sc h).ex
  exact ⟨sig, rec, hsig, hrec, hexp⟩

theorem expiredAt_some (exp req now : Nat) (life : Int) : expiredAt (some exp) req life now = false ↔ now ≤ exp := by
  simp [expiredAt]

/-- The scopes returned are exactly the scopes the resource owner granted at the authorization
    endpoint — for every value of the token request's `scope` and `audience` parameters. -/
theorem issued_scopes_equal_consent (s : MState) (q : RedeemReq) (a r i e sc)
    (h : (step s (.redeem q)).2.1 = .tokens a r i e sc) :
    ∃ sig rec, q.code.sig = some sig ∧ alookup s.ss.store.codes sig = some rec ∧
      sc = appendAllUniq [] rec.req.grantedScopes := by
  obtain ⟨sig, rec, _, hsig, hrec, _, _, _, _, _, _, _, _, _, _, hsc, _⟩ := (redeem_success_facts s q a r i e sc h).ex
  exact ⟨sig, rec, hsig, hrec, hsc⟩

/-- The token request's own `scope`/`audience` parameters are irrelevant to the outcome's scopes:
    two requests differing only there obtain the same scopes. -/
theorem smuggled_parameters_ignored (s : MState) (q : RedeemReq) (scopes' aud' : List String) (a r i e sc a' r' i' e' sc')
    (h : (step s (.redeem q)).2.1 = .tokens a r i e sc)
    (h' : (step s (.redeem { q with scopes := scopes', aud := aud' })).2.1 = .tokens a' r' i' e' sc') : sc = sc' := by
  obtain ⟨sig, rec, hsig, hrec, hsc⟩ := issued_scopes_equal_consent s q a r i e sc h
  obtain ⟨sig', rec', hsig', hrec', hsc'⟩ := issued_scopes_equal_consent s _ a' r' i' e' sc' h'
  simp only at hsig'
  rw [hsig] at hsig'; cases hsig'
  rw [hrec] at hrec'; cases hrec'
  rw [hsc, hsc']

end Fosite.Props.C02

/-
  C03, history level, for codes issued through a PUSHED authorization request (RFC 9126) — the link
  `Props/C03b.lean` left open ("`pkce_binding_full` covers `.authorize` only").

  Clause covered: "a code issued for a request with a `code_challenge` is redeemable only with the matching
  `code_verifier`, and this stays true after any number of failed attempts" — for the operation
  `authorizePar` (authorization endpoint called with a `request_uri`).

  Reading.  The challenge of such a request is the one in the PUSHED form (`p.req.formGet "code_challenge"`,
  `p` the stored record the `request_uri` names).  The method on record is `parMethod p a`: the pushed
  `code_challenge_method` when the pushed form has that key, otherwise the value sent next to the
  `request_uri` (the handlers work on the MERGED form, `mergeForm`, exactly as `Request.Merge` builds it);
  `parMethod_is_pushed` gives the two conditions under which it is the pushed one.

  * `authorizePar_establishes_binding` — the linking lemma: an `authorizePar` that returns code `c` for a
    pushed record with a challenge leaves `PKCEBound … c (pushed challenge) (parMethod p a)`, `c` freshly minted.
  * `pkce_binding_from_authorizePar` — (ii) of C03b for such a code, from ANY state: after any history, a
    token response for `c` presented a verifier satisfying `VerifierFor` (43–128 unreserved characters,
    transforms to the pushed challenge; `plain` only with `EnablePlain` on at that moment);
    `…_pushed_method` is the same with the pushed method, under `parMethod_is_pushed`'s condition.
  * `pkce_binding_full_par` — over all histories from the empty state: every token response for a code that
    ANY `authorizePar` of the history issued for a challenged pushed request carried the matching verifier
    (`verifierMatches`, as in `C03.pkceRespected`); `pkce_binding_full_both_endpoints` is the statement for
    the codes of `authorize` and `authorizePar` together.
  * WHICH PARAMETERS NEXT TO THE `request_uri` ARE IGNORED: `request_built_from_pushed_record_only` (the
    request the handlers validate — response types, redirect URI, state, nonce, scopes, audiences, challenge,
    method — does not depend on `extra` at all) and `pushed_keys_override_query` (in the form the handlers
    store, every key of the pushed form shadows the same key of the query).  NOT ignored: query keys the
    pushed form lacks — they stay in the merged form; for PKCE that is `code_challenge_method`
    (`method_next_to_request_uri_is_recorded_when_none_was_pushed`, a witness).  A `code_challenge` next to
    the `request_uri` is always ignored by the model (`challenge_next_to_request_uri_is_ignored`).
  All theorems: fault-free `step`, every state / history / request.
-/
import Fosite.Proofs.ParLinks
import Fosite.Props.C03b
namespace Fosite.Props.C03c
open Fosite.Model Fosite.Props.C03 Fosite.Props.C03b

/-- **Linking lemma for PAR**: a code returned by `authorizePar` names the pushed record it was issued
    for, is freshly minted, and — when the pushed form carried a `code_challenge` — is bound to the
    PUSHED challenge and to `parMethod p a`. -/
theorem authorizePar_establishes_binding (s : MState) (a : AuthzParReq) (c : Nat) (atk : Option Nat) (idt : Bool)
    (h : (step s (.authorizePar a)).2.1 = .authz (some c) atk idt) :
    ∃ u p, a.uri = some u ∧ alookup s.ss.store.par u = some p ∧
      s.ss.next ≤ c ∧ c < (step s (.authorizePar a)).1.ss.next ∧
      (p.req.formGet "code_challenge" ≠ "" →
        PKCEBound (step s (.authorizePar a)).1.ss c (p.req.formGet "code_challenge") (parMethod p a)) := by
  obtain ⟨u, p, hu, hl, h1, h2, _, h4⟩ := authorizePar_establishes s a c atk idt h
  exact ⟨u, p, hu, hl, h1, h2, h4⟩

/-- the method on record is the pushed one when the pushed form has a `code_challenge_method`, or when
    none is sent next to the `request_uri` -/
theorem parMethod_is_pushed (p : ParRec) (a : AuthzParReq)
    (h : p.req.form.any (fun kv => kv.1 == "code_challenge_method") = true ∨
         a.extra.any (fun kv => kv.1 == "code_challenge_method") = false) :
    parMethod p a = p.req.formGet "code_challenge_method" :=
  parMethod_pushed p a h

/-- **The whole life of a challenged code issued through PAR**: issued by `authorizePar` for the pushed
    record `p` (challenge `p.req.formGet "code_challenge" ≠ ""`), then any history; a token response for it
    presented the verifier for the pushed challenge. -/
theorem pkce_binding_from_authorizePar (s : MState) (a : AuthzParReq) (c : Nat) (atk : Option Nat) (idt : Bool)
    (u : Nat) (p : ParRec) (hu : a.uri = some u) (hp : alookup s.ss.store.par u = some p)
    (h : (step s (.authorizePar a)).2.1 = .authz (some c) atk idt) (hch : p.req.formGet "code_challenge" ≠ "")
    (pre : List Op) (q : RedeemReq) (hsig : q.code.sig = some c)
    (htok : (step (after s (.authorizePar a :: pre)) (.redeem q)).2.1.tokensIssued = true) :
    VerifierFor (after s (.authorizePar a :: pre)).cfg (p.req.formGet "code_challenge") (parMethod p a) q.verifier := by
  obtain ⟨u', p', hu', hp', _, hlt, hb⟩ := authorizePar_establishes_binding s a c atk idt h
  rw [hu] at hu'; cases hu'
  rw [hp] at hp'; cases hp'
  exact pkce_binding_after_any_history (step s (.authorizePar a)).1 c _ _ hlt (hb hch) pre q hsig htok

/-- … with the PUSHED method, when one was pushed or none is sent next to the `request_uri` -/
theorem pkce_binding_from_authorizePar_pushed_method (s : MState) (a : AuthzParReq) (c : Nat) (atk : Option Nat) (idt : Bool)
    (u : Nat) (p : ParRec) (hu : a.uri = some u) (hp : alookup s.ss.store.par u = some p)
    (h : (step s (.authorizePar a)).2.1 = .authz (some c) atk idt) (hch : p.req.formGet "code_challenge" ≠ "")
    (hm : p.req.form.any (fun kv => kv.1 == "code_challenge_method") = true ∨
          a.extra.any (fun kv => kv.1 == "code_challenge_method") = false)
    (pre : List Op) (q : RedeemReq) (hsig : q.code.sig = some c)
    (htok : (step (after s (.authorizePar a :: pre)) (.redeem q)).2.1.tokensIssued = true) :
    VerifierFor (after s (.authorizePar a :: pre)).cfg (p.req.formGet "code_challenge")
      (p.req.formGet "code_challenge_method") q.verifier := by
  rw [← parMethod_is_pushed p a hm]
  exact pkce_binding_from_authorizePar s a c atk idt u p hu hp h hch pre q hsig htok

theorem verifierMatches_of_accept (cfg : Config) (ch m v : String) (pub : Bool) (hch : ch ≠ "")
    (h1 : pkceVerify cfg ch m v = none) (_h2 : pkceValidate cfg ch m pub = none) : verifierMatches ch m v = true := by
  have hlen : ch.length ≠ 0 := fun h0 => hch (String.length_eq_zero_iff.mp h0)
  obtain ⟨⟨a1, a2, a3⟩, a4⟩ := pkceVerify_none cfg ch m v hlen h1
  unfold verifierMatches
  by_cases hm : m = "S256"
  · simp only [hm, if_true] at a4
    simp [a1, a2, a3, hm, a4]
  · simp only [hm, if_false] at a4
    subst a4
    simp [a1, a2, a3, hm]

theorem empty_CodesBelow : CodesBelow ({} : MState).ss := by
  intro sig rec h; simp [alookup] at h

/-- **C03 over all histories, PAR**: in every history from the empty state, every token response for a code
    that an `authorizePar` of the history issued for a pushed request with a challenge (`parIssue`: the
    code, the pushed challenge, `parMethod`) carried the matching verifier — whatever happened in between. -/
theorem pkce_binding_full_par (ops : List Op) :
    ∀ q out, (Op.redeem q, out) ∈ trace {} ops → out.tokensIssued = true →
      ∀ x ∈ issuedBy parIssue {} ops, q.code.sig = some x.1 → verifierMatches x.2.1 x.2.2 q.verifier = true := by
  intro q out hmem htok x hx hsig
  obtain ⟨hch, cfg, pub, h1, h2⟩ := history_respects_issuer parIssue parIssue_issuer ops {} empty_CodesBelow []
    (by intro y hy; cases hy) q out hmem htok x (by simpa using hx) hsig
  exact verifierMatches_of_accept cfg _ _ _ pub hch h1 h2

/-- **… for both authorization endpoints together**: the codes `authorize` issued for a request with a
    challenge (`C03.challenged`) and those `authorizePar` issued for a pushed request with one. -/
theorem pkce_binding_full_both_endpoints (ops : List Op) :
    ∀ q out, (Op.redeem q, out) ∈ trace {} ops → out.tokensIssued = true →
      ∀ x, (x ∈ challenged (trace {} ops) ∨ x ∈ issuedBy parIssue {} ops) → q.code.sig = some x.1 →
        verifierMatches x.2.1 x.2.2 q.verifier = true := by
  intro q out hmem htok x hx hsig
  have hx' : x ∈ issuedBy (fun s op => authzIssue s op ++ parIssue s op) {} ops := by
    rw [issuedBy_append_mem, issuedBy_authz, ← challenged_eq_issued]; exact hx
  obtain ⟨hch, cfg, pub, h1, h2⟩ := history_respects_issuer _ (Issuer_append _ _ authzIssue_issuer parIssue_issuer) ops {}
    empty_CodesBelow [] (by intro y hy; cases hy) q out hmem htok x (by simpa using hx') hsig
  exact verifierMatches_of_accept cfg _ _ _ pub hch h1 h2

/-! ### which parameters sent next to the `request_uri` are ignored -/

/-- the request the handlers validate is rebuilt from the pushed record alone: nothing sent next to the
    `request_uri` (`extra`) enters response types, redirect URI, state, nonce, scopes, audiences, challenge, method -/
theorem request_built_from_pushed_record_only (p : ParRec) (a : AuthzParReq) (extra : List (String × String)) :
    authzReqOfPar p { a with extra := extra } = authzReqOfPar p a := rfl

/-- in the form the handlers store (PKCE session, OIDC session, code), every key of the pushed form
    shadows the same key sent next to the `request_uri` … -/
theorem pushed_keys_override_query (query stored : List (String × String)) (k : String)
    (h : stored.any (fun kv => kv.1 == k) = true) :
    formFind (mergeForm query stored) k = formFind stored k := by
  rw [formFind_mergeForm, if_pos h]

/-- … and keys the pushed form lacks are taken from the query -/
theorem unpushed_keys_come_from_query (query stored : List (String × String)) (k : String)
    (h : stored.any (fun kv => kv.1 == k) = false) :
    formFind (mergeForm query stored) k = formFind query k := by
  rw [formFind_mergeForm, if_neg (by rw [h]; exact Bool.false_ne_true)]

/-! ### non-vacuity: concrete histories -/

def pushed (ch m : String) : AuthzReq :=
  { clientId := "c1", responseTypes := ["code"], redirect := "https://c1/cb", scopes := ["a"], challenge := ch, method := m }

/-- `c1` pushes a request with an S256 challenge for `vOK`; the authorization endpoint is then called with
    the `request_uri` AND a different challenge / method next to it -/
def setup : List Op :=
  [ .setClient witnessClient,
    .parPush { credOk := true, q := pushed (s256 vOK) "S256" },
    .authorizePar { clientId := "c1", uri := some 1, extra := [("code_challenge", vBad), ("code_challenge_method", "plain")],
                    grantScopes := ["a"], subject := "u" } ]

def attempt (v : String) : RedeemReq :=
  { clientId := "c1", credOk := true, code := { sig := some 2, exact := true }, redirect := "https://c1/cb", verifier := v }

def authzCode : Out → Option (Option Nat × Option Nat × Bool)
  | .authz c t i => some (c, t, i)
  | _ => none

set_option maxRecDepth 4096 in
/-- the hypotheses of the linking lemma and of `pkce_binding_from_authorizePar` are met: the `authorizePar`
    returns code 2 for the stored record 1, whose form carries the challenge; the binding recorded is the
    pushed one (the `plain` / `vBad` sent next to the `request_uri` are ignored) -/
example :
    authzCode (step (after {} (setup.take 2)) (setup.getD 2 default)).2.1 = some (some 2, none, false) ∧
    ((alookup (after {} (setup.take 2)).ss.store.par 1).map (fun p => (p.req.formGet "code_challenge", p.req.formGet "code_challenge_method")))
      = some (s256 vOK, "S256") ∧
    issuedBy parIssue {} setup = [(2, s256 vOK, "S256")] := by decide

set_option maxRecDepth 4096 in
/-- wrong verifier, malformed verifier, none, the `plain` value sent next to the `request_uri`: refused
    (`invalid_grant`); then the right one succeeds — the conclusion of the history theorems is not vacuous -/
example :
    (trace {} (setup ++ [.redeem (attempt vBad), .redeem (attempt "short"), .redeem (attempt ""), .redeem (attempt vOK)])).map
      (fun p => (p.2.tokensIssued, p.2.error?)) =
      [(false, none), (false, none), (false, none), (false, some .invalid_grant), (false, some .invalid_grant),
       (false, some .invalid_grant), (true, none)] ∧
    verifierMatches (s256 vOK) "S256" vOK = true := by decide

/-- **Recorded behaviour** (a parameter next to the `request_uri` that is NOT ignored): the pushed request
    carries a challenge but no `code_challenge_method` (so `plain`, which must be enabled for the request to
    pass); `code_challenge_method=S256` is sent next to the `request_uri`; the PKCE session records `S256`,
    and the verifier the pushing client holds (`plain`: the challenge itself) is refused. -/
def setupMethod : List Op :=
  [ .setCfg { enablePlain := true }, .setClient witnessClient,
    .parPush { credOk := true, q := pushed vOK "" },
    .authorizePar { clientId := "c1", uri := some 1, extra := [("code_challenge_method", "S256")], grantScopes := ["a"], subject := "u" } ]

set_option maxRecDepth 4096 in
theorem method_next_to_request_uri_is_recorded_when_none_was_pushed :
    issuedBy parIssue {} setupMethod = [(2, vOK, "S256")] ∧
    ((alookup (after {} setupMethod).ss.store.pkce 2).map (fun r => (r.formGet "code_challenge", r.formGet "code_challenge_method")))
      = some (vOK, "S256") ∧
    (trace (after {} setupMethod) [.redeem (attempt vOK)]).map (fun p => (p.2.tokensIssued, p.2.error?)) = [(false, some .invalid_grant)] := by
  decide

/-- a `code_challenge` sent next to the `request_uri` of a pushed request WITHOUT a challenge is ignored by
    the model's PKCE handler (it validates the rebuilt request): no PKCE session, the code is redeemable
    without a verifier -/
def setupNoChallenge : List Op :=
  [ .setClient witnessClient,
    .parPush { credOk := true, q := pushed "" "" },
    .authorizePar { clientId := "c1", uri := some 1, extra := [("code_challenge", s256 vOK), ("code_challenge_method", "S256")],
                    grantScopes := ["a"], subject := "u" } ]

set_option maxRecDepth 4096 in
theorem challenge_next_to_request_uri_is_ignored :
    issuedBy parIssue {} setupNoChallenge = [] ∧ alookup (after {} setupNoChallenge).ss.store.pkce 2 = none ∧
    (trace (after {} setupNoChallenge) [.redeem (attempt "")]).map (fun p => p.2.tokensIssued) = [true] := by
  decide

end Fosite.Props.C03c

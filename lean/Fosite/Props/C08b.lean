/-
  C08, effectiveness and completeness — "After the revocation endpoint accepts a request for an access or
  refresh token from the client that owns it, that token and the access/refresh token issued alongside it
  for the same grant are inactive for all later use."

  Reading.  "Accepts": the endpoint found the presented token (as a live refresh token or a stored access
  token), the authenticated client is the token's client, and it answers success.  "The token issued
  alongside it for the same grant": every token whose record carries the same request id (the pairs the
  token endpoint issues for a grant all do: `redeem_tokens`, `refresh_tokens`).  "Inactive for all later
  use": `ATGone` / `RTDead` hold after every continuation of the history.  Since the repair of
  `RevokeAccessToken` (fix 957c586) this holds for presented access tokens too, including the hybrid
  flow's two access tokens under one request id — the former counterexample is a regression example below.
-/
import Fosite.Proofs.FamilyHistory
import Fosite.Props.C08
namespace Fosite.Props.C08b
open Fosite.Model

/-- **Owner revocation kills the grant** (one step): the token is found, the caller owns it; the endpoint
    answers success and afterwards no access token of the token's grant is stored and none of its refresh
    tokens is active. -/
theorem owner_revocation_kills_grant (s : MState) (hinv : GInv s.ss) (q : RevokeReq) (client : Client) (ar : Req)
    (hauth : authVerdict s.ss.clients q.clientId q.credOk = .ok client)
    (hfound : revokeDiscover q s.ss.store = .ok ar) (hown : ar.client.id = client.id) :
    (step s (.revoke q)).2.1 = .ok ∧ GrantDead (step s (.revoke q)).1.ss ar.id := by
  obtain ⟨h1, h2⟩ := Fosite.Props.C08.revoke_refines_pure s q
  rw [h1, h2]
  unfold revokePure
  have hne : (ar.client.id != client.id) = false := by simp [hown]
  simp only [hauth, hfound, hne, Bool.false_eq_true, if_false]
  refine ⟨?_, ?_⟩
  · have b1 : benignRevocationErr (revokeRefreshS s.ss.store ar.id).2.errKind = true := by
      rcases revokeRefreshS_res s.ss.store ar.id with h | h <;> rw [h] <;> rfl
    have b2 : benignRevocationErr (revokeAccessS (revokeRefreshS s.ss.store ar.id).1 ar.id).2.errKind = true := rfl
    simp [b1, b2]
  · exact revoke_both_dead_RA s.ss hinv ar.id

/-- the presented token is of the grant that dies: a found refresh token … -/
theorem found_refresh_token_is_of_the_grant (st : Store) (sig : Nat) (rec : RefreshRec)
    (hrec : alookup st.refresh sig = some rec) (hact : rec.active = true) :
    lookupRefresh st (some sig) = .req rec.req := by
  simp [lookupRefresh, hrec, hact]

/-- … or a found access token -/
theorem found_access_token_is_of_the_grant (st : Store) (sig : Nat) (x : Req)
    (hrec : alookup st.access sig = some x) : lookupAccess st (some sig) = .req x := by
  simp [lookupAccess, hrec]

/-- **Effective and complete, for all later use.**  After an accepted owner revocation every known token
    of the grant (`Carry`: the presented one, the one issued alongside it, any other of the same request
    id) is unusable at every later moment of every continuation. -/
theorem owner_revocation_is_final (ops : List Op) (s : MState) (hinv : GInv s.ss) (hn : KeysNodup s.ss)
    (q : RevokeReq) (client : Client) (ar : Req)
    (hauth : authVerdict s.ss.clients q.clientId q.credOk = .ok client)
    (hfound : revokeDiscover q s.ss.store = .ok ar) (hown : ar.client.id = client.id)
    (A R : List Nat) (hcarry : Carry s.ss A R ar.id) :
    (∀ a ∈ A, ATGone (after (step s (.revoke q)).1 ops).ss a) ∧
    (∀ t ∈ R, RTDead (after (step s (.revoke q)).1 ops).ss t) := by
  obtain ⟨_, hgd⟩ := owner_revocation_kills_grant s hinv q client ar hauth hfound hown
  have hc := step_Carry s (.revoke q) A R ar.id hn hcarry
  obtain ⟨hA, hR⟩ := dead_of_carry _ A R ar.id hc hgd
  exact ⟨fun a ha => after_ATGone ops _ a (hA a ha), fun t ht => after_RTDead ops _ t (hR t ht)⟩

/-- In particular a presented, stored access token itself is gone for good. -/
theorem revoked_access_token_is_gone_for_good (ops : List Op) (s : MState) (hinv : GInv s.ss) (hn : KeysNodup s.ss)
    (hb : AccessBelow s.ss) (q : RevokeReq) (client : Client) (sig : Nat) (x : Req)
    (hauth : authVerdict s.ss.clients q.clientId q.credOk = .ok client)
    (hhint : q.hint = .access) (hsig : q.token.sig = some sig)
    (hrec : alookup s.ss.store.access sig = some x) (hown : x.client.id = client.id) :
    ATGone (after (step s (.revoke q)).1 ops).ss sig := by
  have hfound : revokeDiscover q s.ss.store = .ok x := by
    unfold revokeDiscover
    simp [hhint, hsig, lookupAccess, hrec]
  have hcarry : Carry s.ss [sig] [] x.id :=
    ⟨fun a ha => by
        simp only [List.mem_singleton] at ha; subst ha
        exact ⟨hb _ _ hrec, fun x' hx' => by rw [hrec] at hx'; cases hx'; rfl⟩,
      fun t ht => by cases ht⟩
  exact (owner_revocation_is_final ops s hinv hn q client x hauth hfound hown [sig] [] hcarry).1 sig (List.mem_singleton.mpr rfl)

/-! ### regression example (former finding F8): hybrid flow `code token`, then the code is redeemed; the grant
    has two access tokens (2 from the authorization endpoint, 4 from the token endpoint); revoking the
    older one kills both and the refresh token -/

def exHybrid : List Op :=
  [ .setCfg { refreshScopes := [] },
    .setClient { id := "c", isPublic := true, grants := ["refresh_token", "authorization_code", "implicit"],
                 responseTypes := ["code token"] },
    .authorize { clientId := "c", responseTypes := ["code", "token"], nonce := "nonce-nonce", redirect := "https://c/cb", subject := "u" },
    .redeem { clientId := "c", credOk := true, code := { sig := some 1, exact := true }, redirect := "https://c/cb" } ]

example : (trace {} exHybrid).map (fun p => match p.2 with
    | .authz c a _ => (c, a, none) | .tokens a r _ _ _ => (none, some a, r) | _ => (none, none, none))
    = [(none, none, none), (none, none, none), (some 1, some 2, none), (none, some 4, some 5)] := by decide

def exRevokeOld : RevokeReq := { clientId := "c", credOk := true, token := { sig := some 2, exact := true }, hint := .access }

example : (alookup (step (after {} exHybrid) (.revoke exRevokeOld)).1.ss.store.access 2).isSome = false ∧
    (alookup (step (after {} exHybrid) (.revoke exRevokeOld)).1.ss.store.access 4).isSome = false ∧
    ((alookup (step (after {} exHybrid) (.revoke exRevokeOld)).1.ss.store.refresh 5).map (·.active)) = some false := by decide

end Fosite.Props.C08b

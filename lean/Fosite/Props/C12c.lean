/-
  C12 (continued) — confinement: the configured scope / audience strategy confines every grant.

  Clause covered (C12 statement, last sentence): "Under whichever strategy is configured, no flow ever
  accepts a requested scope or audience that the client's registration … does not cover, and tokens
  never carry a scope or audience that was not granted."  (The strategies themselves: `Props/C12.lean`,
  `Props/C12b.lean`; refresh re-validation: `Props/C05.lean`; code redemption: `Props/C02.lean`.)

  (a) ACCEPTANCE ⇒ COVERAGE, per flow, for every configuration (all three scope strategies, both audience
      strategies — `cfg` is universally quantified): if the operation succeeds then every requested scope
      is accepted by `cfg.scopeStrategy.run` against the registered scopes of the client looked up, and
      the requested audiences match under `cfg.audStrategy`:
      `authorize_accepts_only_covered` (code / implicit / hybrid alike: the check precedes the handlers),
      `par_push_accepts_only_covered`, `authorize_via_par_rechecks` (+ `authorize_via_par_otherwise_mints_nothing`),
      `client_credentials_accepts_only_covered`, `password_accepts_only_covered`,
      `device_authorization_accepts_only_covered`.
      Reading for PAR: the registration is checked at the PUSH (against the client table, under the
      configuration of that moment); at the authorization endpoint the handlers check the pushed request
      again, against the client snapshot stored with it and the CURRENT configuration — scopes and
      audiences for `code` and `token`, scopes only for the hybrid response types (as in the Go hybrid
      handler); with any other response type nothing is minted.  That the stored snapshot of a pushed
      request is the one checked at push time is an invariant over histories and is NOT proved here;
      a registration narrowed between push and use is not seen (`pushed_request_outlives_registration_narrowing`).
  (b) TOKENS CARRY ONLY WHAT WAS GRANTED: `minted_requests_carry_exactly_the_grant` — every `Req` any
      endpoint program hands to `createCode` / `createAccess` / `createRefresh` (read off the storage-call
      log of the operation, on every path, successful or not) carries EXACTLY (`=`, hence `⊆`) the granted
      scopes and audiences of its grant, de-duplicated: for the authorization endpoint what the consent
      application granted; for redeem / refresh / device_code the stored request's granted lists; for
      client_credentials / password the requested lists (which the application grants as they are, and
      which (a) shows are covered).  Corollaries in `⊆` form per flow; `response_scopes_are_granted`
      for the `scope` field of the token response.
      The model's consent step (`AuthzReq.grantScopes`, `deviceDecide`) is a parameter of the operation:
      fosite does not compare what the application grants with what was requested
      (`consent_may_grant_beyond_the_request`, a witness) — "granted" is what the application granted.
  JWT-bearer grants (RFC 7523, "the signing key's registration") are not part of the history model
  (`Model/Assertion.lean` is a stateless model); nothing is claimed about them here.
  All theorems: every state, request and configuration; fault-free runs of `step`.
-/
import Fosite.Proofs.Confinement
namespace Fosite.Props.C12c
open Fosite.Model

/- `Covered cfg client scopes aud` (`Proofs/Confinement.lean`) is, by definition,
     (∀ sc ∈ scopes, cfg.scopeStrategy.run (client.scopes.map String.toList) sc.toList = true) ∧
     audienceMatch cfg.audStrategy client.audience aud = none -/
theorem covered_def (cfg : Config) (client : Client) (scopes aud : List String) :
    Covered cfg client scopes aud ↔
      (∀ sc ∈ scopes, cfg.scopeStrategy.run (client.scopes.map String.toList) sc.toList = true) ∧
      audienceMatch cfg.audStrategy client.audience aud = none := Iff.rfl

/-! ### (a) acceptance ⇒ coverage -/

/-- **Authorization endpoint** (every response type: code, implicit, hybrid). -/
theorem authorize_accepts_only_covered (s : MState) (q : AuthzReq) (c t i)
    (h : (step s (.authorize q)).2.1 = .authz c t i) :
    ∃ client, s.ss.clients.find? (fun x => x.id == q.clientId) = some client ∧ Covered s.cfg client q.scopes q.aud := by
  obtain ⟨client, hf, hc⟩ := (step_authorize_cover s q c t i h).ex
  exact ⟨client, hf, covered_of _ _ _ _ hc⟩

/-- **PAR push.** -/
theorem par_push_accepts_only_covered (s : MState) (p : ParPushReq) (u e)
    (h : (step s (.parPush p)).2.1 = .par u e) :
    ∃ client, s.ss.clients.find? (fun x => x.id == p.q.clientId) = some client ∧ (client.isPublic || p.credOk) = true ∧
      Covered s.cfg client p.q.scopes p.q.aud := by
  obtain ⟨client, hf, hcred, hc⟩ := (step_parPush_cover s p u e h).ex
  exact ⟨client, hf, hcred, covered_of _ _ _ _ hc⟩

/-- **Authorization endpoint with a `request_uri`**: the handlers check the pushed request again, under the
    current configuration, against the registration stored with it. -/
theorem authorize_via_par_rechecks (s : MState) (a : AuthzParReq) (c t i)
    (h : (step s (.authorizePar a)).2.1 = .authz c t i) :
    ∃ u p, a.uri = some u ∧ alookup s.ss.store.par u = some p ∧
      ((exactOne p.responseTypes "code" = true ∨ exactOne p.responseTypes "token" = true) →
        Covered s.cfg p.req.client p.req.reqScopes p.req.reqAud) ∧
      (isHybrid p.responseTypes = true →
        ∀ sc ∈ p.req.reqScopes, s.cfg.scopeStrategy.run (p.req.client.scopes.map String.toList) sc.toList = true) := by
  obtain ⟨u, p, hu, hl, h1, h2⟩ := (step_authorizePar_cover s a c t i h).ex
  exact ⟨u, p, hu, hl, fun hh => covered_of _ _ _ _ (h1 hh), fun hh => (scopesAllowed_iff _ _ _).mp (h2 hh)⟩

/-- … and with a response type none of the handlers takes, no code and no token is stored at all. -/
theorem authorize_via_par_otherwise_mints_nothing (s : MState) (a : AuthzParReq)
    (h : ∀ u p, a.uri = some u → alookup s.ss.store.par u = some p →
      exactOne p.responseTypes "code" = false ∧ exactOne p.responseTypes "token" = false ∧ isHybrid p.responseTypes = false) :
    mintedReqs (step s (.authorizePar a)).2.2 = [] :=
  step_authorizePar_mints_nothing s a h

/-- **client_credentials.** -/
theorem client_credentials_accepts_only_covered (s : MState) (q : DirectReq) (a r i e sc)
    (h : (step s (.clientCredentials q)).2.1 = .tokens a r i e sc) :
    ∃ client, s.ss.clients.find? (fun x => x.id == q.clientId) = some client ∧
      Covered s.cfg client q.scopes (appendAllUniq [] q.aud) := by
  obtain ⟨client, hf, _, _, _, hsc, haud, _⟩ := (step_clientCredentials s q a r i e sc h).ex
  exact ⟨client, hf, covered_of _ _ _ _ ⟨by rw [← scopesAllowed_appendAllUniq]; exact hsc, haud⟩⟩

/-- **password.** -/
theorem password_accepts_only_covered (s : MState) (q : DirectReq) (a r i e sc)
    (h : (step s (.password q)).2.1 = .tokens a r i e sc) :
    ∃ client, s.ss.clients.find? (fun x => x.id == q.clientId) = some client ∧
      Covered s.cfg client q.scopes (appendAllUniq [] q.aud) := by
  obtain ⟨client, hf, _, _, hsc, haud, _⟩ := (step_password s q a r i e sc h).ex
  exact ⟨client, hf, covered_of _ _ _ _ ⟨by rw [← scopesAllowed_appendAllUniq]; exact hsc, haud⟩⟩

/-- **Device authorization endpoint.** -/
theorem device_authorization_accepts_only_covered (s : MState) (q : DeviceAuthReq) (d u e)
    (h : (step s (.deviceAuthorize q)).2.1 = .device d u e) :
    ∃ client, s.ss.clients.find? (fun x => x.id == q.clientId) = some client ∧ Covered s.cfg client q.scopes q.aud := by
  obtain ⟨client, hf, _, _, hc⟩ := (step_deviceAuth_cover s q d u e h).ex
  exact ⟨client, hf, covered_of _ _ _ _ hc⟩

/-! ### (b) tokens carry only what was granted -/

/-- **Every request handed to `createCode` / `createAccess` / `createRefresh` by any operation, on any
    path, carries exactly the grant** (`MintedFor`: per flow, in terms of the state the operation ran in). -/
theorem minted_requests_carry_exactly_the_grant (s : MState) (op : Op) (r : Req)
    (hr : r ∈ mintedReqs (step s op).2.2) : MintedFor s op r :=
  step_minted s op r hr

/-- authorization endpoint: codes and (implicit / hybrid) access tokens carry only consented scopes / audiences -/
theorem authorize_mints_only_consented (s : MState) (q : AuthzReq) (r : Req)
    (hr : r ∈ mintedReqs (step s (.authorize q)).2.2) :
    (∀ x ∈ r.grantedScopes, x ∈ q.grantScopes) ∧ (∀ x ∈ r.grantedAud, x ∈ q.grantAud) :=
  GrantedIs_subset _ _ r (step_minted s _ r hr)

theorem authorize_via_par_mints_only_consented (s : MState) (a : AuthzParReq) (r : Req)
    (hr : r ∈ mintedReqs (step s (.authorizePar a)).2.2) :
    (∀ x ∈ r.grantedScopes, x ∈ a.grantScopes) ∧ (∀ x ∈ r.grantedAud, x ∈ a.grantAud) :=
  GrantedIs_subset _ _ r (step_minted s _ r hr)

/-- code redemption: the tokens carry only what the stored authorize request was granted -/
theorem redeem_mints_only_stored_grant (s : MState) (q : RedeemReq) (r : Req)
    (hr : r ∈ mintedReqs (step s (.redeem q)).2.2) :
    ∃ sig rec, q.code.sig = some sig ∧ alookup s.ss.store.codes sig = some rec ∧
      (∀ x ∈ r.grantedScopes, x ∈ rec.req.grantedScopes) ∧ (∀ x ∈ r.grantedAud, x ∈ rec.req.grantedAud) := by
  obtain ⟨sig, rec, hsig, hrec, hg⟩ := step_minted s _ r hr
  exact ⟨sig, rec, hsig, hrec, GrantedIs_subset _ _ r hg⟩

/-- refresh: the new pair carries only what the refresh token presented was granted -/
theorem refresh_mints_only_stored_grant (s : MState) (q : RefreshReq) (r : Req)
    (hr : r ∈ mintedReqs (step s (.refresh q)).2.2) :
    ∃ sig rec, q.token.sig = some sig ∧ alookup s.ss.store.refresh sig = some rec ∧
      (∀ x ∈ r.grantedScopes, x ∈ rec.req.grantedScopes) ∧ (∀ x ∈ r.grantedAud, x ∈ rec.req.grantedAud) := by
  obtain ⟨sig, rec, hsig, hrec, hg⟩ := step_minted s _ r hr
  exact ⟨sig, rec, hsig, hrec, GrantedIs_subset _ _ r hg⟩

/-- device_code: the tokens carry only what the user granted to the stored device request -/
theorem device_poll_mints_only_stored_grant (s : MState) (q : DevicePollReq) (r : Req)
    (hr : r ∈ mintedReqs (step s (.devicePoll q)).2.2) :
    ∃ sig d, q.code.sig = some sig ∧ alookup s.ss.store.device sig = some d ∧
      (∀ x ∈ r.grantedScopes, x ∈ d.req.grantedScopes) ∧ (∀ x ∈ r.grantedAud, x ∈ d.req.grantedAud) := by
  obtain ⟨sig, d, hsig, hd, hg⟩ := step_minted s _ r hr
  exact ⟨sig, d, hsig, hd, GrantedIs_subset _ _ r hg⟩

/-- client_credentials / password: the tokens carry only the requested lists (granted as they are; covered by (a)) -/
theorem direct_grants_mint_only_requested (s : MState) (q : DirectReq) (r : Req)
    (hr : r ∈ mintedReqs (step s (.clientCredentials q)).2.2 ∨ r ∈ mintedReqs (step s (.password q)).2.2) :
    (∀ x ∈ r.grantedScopes, x ∈ q.scopes) ∧ (∀ x ∈ r.grantedAud, x ∈ q.aud) := by
  rcases hr with hr | hr <;> exact GrantedIs_subset _ _ r (step_minted s _ r hr)

/-- operations that are not grants mint nothing -/
theorem other_operations_mint_nothing (s : MState) (op : Op)
    (h : ∀ r, ¬ MintedFor s op r) : mintedReqs (step s op).2.2 = [] :=
  List.eq_nil_iff_forall_not_mem.mpr (fun r hr => h r (step_minted s op r hr))

/-- the `scope` field of a token response lists only granted scopes: device_code, password, client_credentials
    (code: `C02.issued_scopes_equal_consent`; refresh: `C05.refresh_preserves_granted_scopes`) -/
theorem response_scopes_are_granted (s : MState) :
    (∀ q a r i e sc, (step s (.devicePoll q)).2.1 = .tokens a r i e sc →
      ∃ sig d, q.code.sig = some sig ∧ alookup s.ss.store.device sig = some d ∧ ∀ x ∈ sc, x ∈ d.req.grantedScopes) ∧
    (∀ q a r i e sc, (step s (.password q)).2.1 = .tokens a r i e sc → ∀ x ∈ sc, x ∈ q.scopes) ∧
    (∀ q a r i e sc, (step s (.clientCredentials q)).2.1 = .tokens a r i e sc → ∀ x ∈ sc, x ∈ q.scopes) := by
  refine ⟨?_, ?_, ?_⟩
  · intro q a r i e sc h
    obtain ⟨sig, d, _, hsig, hd, _, _, _, _, _, hsc⟩ := (step_devicePoll_rt s q a r i e sc h).ex
    exact ⟨sig, d, hsig, hd, fun x hx => by rw [hsc] at hx; exact (mem_appendAllUniq_nil _ x).mp hx⟩
  · intro q a r i e sc h
    obtain ⟨_, _, _, _, _, _, _, _, hsc⟩ := (step_password s q a r i e sc h).ex
    exact fun x hx => by rw [hsc] at hx; exact (mem_appendAllUniq_nil _ x).mp hx
  · intro q a r i e sc h
    obtain ⟨_, _, _, _, _, _, _, _, hsc⟩ := (step_clientCredentials s q a r i e sc h).ex
    exact fun x hx => by rw [hsc] at hx; exact (mem_appendAllUniq_nil _ x).mp hx

/-! ### non-vacuity and recorded behaviour -/

def exClient_fl : Client :=
  { id := "c", isPublic := true, scopes := ["a", "b"], audience := ["https://api/x"],
    grants := ["authorization_code", "implicit", "password", "client_credentials", deviceGrant, "refresh_token"],
    responseTypes := ["code", "token"] }
def s0 : MState := after {} [.setCfg { refreshScopes := [], scopeStrategy := .exact }, .setClient exClient_fl]
def isAuthz : Out → Bool | .authz .. => true | _ => false
def isErr_fl (e : Err) : Out → Bool | .err e' => e' == e | _ => false
def grantsOf (log : List (Call × Res)) : List (List String × List String) :=
  (mintedReqs log).map (fun r => (r.grantedScopes, r.grantedAud))

/-- in-policy requests are accepted, the code / tokens carry the grant … -/
def exAuthz (scopes granted : List String) (rt : List String := ["code"]) : Op :=
  .authorize { clientId := "c", responseTypes := rt, redirect := "https://c/cb", scopes := scopes, grantScopes := granted,
               aud := ["https://api/x"], grantAud := ["https://api/x"], subject := "u" }
example : isAuthz (step s0 (exAuthz ["a", "b"] ["a"])).2.1 = true ∧
    grantsOf (step s0 (exAuthz ["a", "b"] ["a"])).2.2 = [(["a"], ["https://api/x"])] := by decide
example : grantsOf (step s0 (exAuthz ["a", "b"] ["a", "a"] ["token"])).2.2 = [(["a"], ["https://api/x"])] := by decide
/-- … out-of-policy requests are refused, under the exact and under the wildcard strategy, and mint nothing -/
example : isErr_fl .invalid_scope (step s0 (exAuthz ["a", "z"] ["a"])).2.1 = true ∧
    grantsOf (step s0 (exAuthz ["a", "z"] ["a"])).2.2 = [] := by decide
example : isErr_fl .invalid_scope (step (after s0 [.setCfg { scopeStrategy := .wildcard }]) (exAuthz ["a.x"] [])).2.1 = true := by decide
example : isErr_fl .invalid_request
    (step s0 (.authorize { clientId := "c", responseTypes := ["code"], redirect := "https://c/cb", aud := ["https://evil/"] })).2.1 = true := by
  decide
example : isErr_fl .invalid_scope (step s0 (.password { clientId := "c", credOk := true, scopes := ["z"], username := "u" })).2.1 = true ∧
    isErr_fl .invalid_scope (step s0 (.clientCredentials { clientId := "c", credOk := true, scopes := ["z"] })).2.1 = true ∧
    isErr_fl .invalid_scope (step s0 (.deviceAuthorize { clientId := "c", credOk := true, formClientId := "c", scopes := ["z"] })).2.1 = true ∧
    isErr_fl .invalid_scope (step s0 (.parPush { credOk := true, q := { clientId := "c", responseTypes := ["code"], scopes := ["z"] } })).2.1 = true := by
  decide

/-- a whole code + refresh history: every minted request carries ["a"] although the token requests ask for more -/
def exFlow : List Op :=
  [ exAuthz ["a", "b"] ["a"],
    .redeem { clientId := "c", credOk := true, code := { sig := some 1, exact := true }, redirect := "https://c/cb", scopes := ["b"] },
    .refresh { clientId := "c", credOk := true, token := { sig := some 4, exact := true }, scopes := ["a", "b"] } ]
def logsOf (s : MState) : List Op → List (List (List String × List String))
  | [] => []
  | op :: ops => grantsOf (step s op).2.2 :: logsOf (step s op).1 ops
example : logsOf s0 exFlow =
    [ [(["a"], ["https://api/x"])],
      [(["a"], ["https://api/x"]), (["a"], ["https://api/x"])],
      [(["a"], ["https://api/x"]), (["a"], ["https://api/x"])] ] := by decide

/-- device flow: requested ["a","b"], the user grants ["b"]: the tokens carry ["b"] -/
def exDevice : List Op :=
  [ .deviceAuthorize { clientId := "c", credOk := true, formClientId := "c", scopes := ["a", "b"] },
    .deviceDecide 1 true ["b"] [] "u",
    .devicePoll { clientId := "c", credOk := true, code := { sig := some 1, exact := true } } ]
example : logsOf s0 exDevice = [[], [], [(["b"], []), (["b"], [])]] := by decide

/-- **Recorded behaviour.** fosite does not compare what the consent application grants with what was
    requested: an authorization request for scope "a" whose consent step grants "b" (registered, not
    requested) and "zzz" (not even registered) is accepted and the code carries both. -/
theorem consent_may_grant_beyond_the_request :
    isAuthz (step s0 (exAuthz ["a"] ["b", "zzz"])).2.1 = true ∧
    grantsOf (step s0 (exAuthz ["a"] ["b", "zzz"])).2.2 = [(["b", "zzz"], ["https://api/x"])] := by decide

/-- PAR with a response type no handler takes (`code foo`): the authorization endpoint "succeeds" with an
    empty response and mints nothing (hypothesis of `authorize_via_par_otherwise_mints_nothing` met) -/
def sParOdd : MState :=
  after s0 [.parPush { credOk := true, q := { clientId := "c", responseTypes := ["code", "foo"], redirect := "https://c/cb", scopes := ["a"] } }]
example : (sParOdd.ss.store.par.map (fun p => (p.1, p.2.responseTypes))) = [(1, ["code", "foo"])] ∧
    exactOne ["code", "foo"] "code" = false ∧ exactOne ["code", "foo"] "token" = false ∧ isHybrid ["code", "foo"] = false ∧
    isAuthz (step sParOdd (.authorizePar { clientId := "c", uri := some 1, grantScopes := ["a"], subject := "u" })).2.1 = true ∧
    grantsOf (step sParOdd (.authorizePar { clientId := "c", uri := some 1, grantScopes := ["a"], subject := "u" })).2.2 = [] := by
  decide

/-- PAR: pushed with a covered request, authorized via the `request_uri` -/
def exPar : List Op :=
  [ .parPush { credOk := true, q := { clientId := "c", responseTypes := ["code"], redirect := "https://c/cb", scopes := ["a"] } },
    .authorizePar { clientId := "c", uri := some 1, grantScopes := ["a"], subject := "u" } ]
example : logsOf s0 exPar = [[], [(["a"], [])]] := by decide

/-- **Recorded behaviour (reading of (a) for PAR).** The authorization endpoint checks a pushed request
    against the registration STORED WITH IT: push scope "a"; the registration is narrowed to no scopes;
    the `request_uri` is still honoured and the code carries "a" — whereas the same request sent directly
    is refused with `invalid_scope`. -/
def exParNarrowed : List Op :=
  [ .parPush { credOk := true, q := { clientId := "c", responseTypes := ["code"], redirect := "https://c/cb", scopes := ["a"] } },
    .setClient { exClient_fl with scopes := [] },
    .authorizePar { clientId := "c", uri := some 1, grantScopes := ["a"], subject := "u" } ]
theorem pushed_request_outlives_registration_narrowing :
    logsOf s0 exParNarrowed = [[], [], [(["a"], [])]] ∧
    isAuthz (step (after s0 (exParNarrowed.take 2)) (.authorizePar { clientId := "c", uri := some 1, grantScopes := ["a"], subject := "u" })).2.1 = true ∧
    isErr_fl .invalid_scope (step (after s0 (exParNarrowed.take 2)) (exAuthz ["a"] ["a"])).2.1 = true := by decide

end Fosite.Props.C12c

/-
  C12 (a) for pushed authorization requests, over histories — the invariant `Props/C12c.lean` left open
  ("that the stored snapshot of a pushed request is the one checked at push time is an invariant over
  histories and is NOT proved here; only the two one-step halves are").

  Clause covered (C12 statement, last sentence): "Under whichever strategy is configured, no flow ever accepts
  a requested scope or audience that the client's registration … does not cover" — for the flow
  push → authorization endpoint with the `request_uri`.

  Reading.  A pushed request is checked against the client table and under the configuration of the moment
  of the PUSH; the record stored (`ParRec`) carries that registration as a snapshot (`p.req.client`) and the
  de-duplicated requested scopes / audiences (`p.req.reqScopes`, `p.req.reqAud`).  `PushedOk cfg clients pp p`
  says exactly that of a record `p` and a push `pp`.  The history invariant is `ParCovered s0 ops ss`: every
  record of `ss.store.par` was stored at the start of the history or was pushed during it (`PushedIn`: the
  push operation, the state it ran in, `PushedOk` under THAT state's configuration and client table).

  * `par_push_establishes` — established by `parPush`: after it, every stored record is an old one, or is
    fresh (key not below the old mint counter) and `PushedOk` under the current configuration.
  * `other_operations_only_delete_pushed_requests` — preserved by every other operation: records are only
    created by `parPush` (no other endpoint program makes a `createPAR` call on any path, `prog_noPAR`) and
    otherwise only deleted.
  * `par_covered_along_every_history`, `stored_pushed_requests_were_covered_at_push` — the invariant over
    histories from any state / from the empty state.
  * `authorize_via_par_covered_at_push` — the conclusion: whenever `authorizePar` answers with a code / token
    (`.authz …`), the record it worked on was pushed by an operation of the history, for the client registered
    under that id AT PUSH TIME (which authenticated), and its scopes and audiences were covered by that
    registration under the scope / audience strategy AT PUSH TIME.
  * `authorize_via_par_covered_then_and_now` — … together with what the authorization endpoint re-checks.
    IF `setCfg` CHANGES THE STRATEGY BETWEEN PUSH AND USE the theorem gives exactly this: coverage under the
    push-time strategies against the push-time registration (always); and, against the SAME stored snapshot
    under the CURRENT strategies, scopes and audiences for response type `code` or `token`, scopes only for
    the hybrid response types; nothing under the current strategies for other response types (then nothing
    is minted: `C12c.authorize_via_par_otherwise_mints_nothing`).  The current REGISTRATION is never
    consulted (`C12c.pushed_request_outlives_registration_narrowing`).  Witnesses below: a request covered
    under the wildcard strategy at push time is refused after a switch to the exact strategy
    (`strategy_change_is_seen_by_the_recheck`).
  All theorems: fault-free `step`, every history / state / request.
-/
import Fosite.Proofs.ParLinks
namespace Fosite.Props.C12d
open Fosite.Model

/-- `PushedOk`, spelled out -/
theorem pushedOk_def (cfg : Config) (clients : List Client) (pp : ParPushReq) (p : ParRec) (h : PushedOk cfg clients pp p) :
    clients.find? (fun c => c.id == pp.q.clientId) = some p.req.client ∧ (p.req.client.isPublic || pp.credOk) = true ∧
    p.req.reqScopes = appendAllUniq [] pp.q.scopes ∧ p.req.reqAud = appendAllUniq [] pp.q.aud ∧
    Covered cfg p.req.client p.req.reqScopes p.req.reqAud :=
  ⟨h.client, h.auth, h.scopes, h.aud, covered_of _ _ _ _ h.covers⟩

/-- **Established by `parPush`**: every pushed request stored after a push was stored before it, or is
    fresh and was checked by this push under the configuration and client table of this moment. -/
theorem par_push_establishes (s : MState) (pp : ParPushReq) (u : Nat) (p : ParRec)
    (h : alookup (step s (.parPush pp)).1.ss.store.par u = some p) :
    alookup s.ss.store.par u = some p ∨ (s.ss.next ≤ u ∧ PushedOk s.cfg s.ss.clients pp p) :=
  parPush_establishes s pp u p h

/-- **Preserved by every other operation**: it creates no pushed request, it can only delete some. -/
theorem other_operations_only_delete_pushed_requests (s : MState) (op : Op) (hop : ∀ pp, op ≠ .parPush pp)
    (u : Nat) (p : ParRec) (h : alookup (step s op).1.ss.store.par u = some p) :
    alookup s.ss.store.par u = some p :=
  step_par_shrinks s op hop u p h

/-- **The invariant over histories**, from any state whose `request_uri`s are below the mint counter. -/
theorem par_covered_along_every_history (s0 : MState) (hb : ParBelow s0.ss) (ops : List Op) :
    ParCovered s0 ops (after s0 ops).ss :=
  history_ParCovered ops s0 hb

/-- … from the empty state: every stored pushed request was pushed by an operation of the history and
    covered, at that moment, by the registration looked up at that moment. -/
theorem stored_pushed_requests_were_covered_at_push (ops : List Op) (u : Nat) (p : ParRec)
    (h : alookup (after {} ops).ss.store.par u = some p) :
    ∃ pre pp post, ops = pre ++ Op.parPush pp :: post ∧ alookup (after {} pre).ss.store.par u = none ∧
      (after {} pre).ss.clients.find? (fun c => c.id == pp.q.clientId) = some p.req.client ∧
      (p.req.client.isPublic || pp.credOk) = true ∧
      p.req.reqScopes = appendAllUniq [] pp.q.scopes ∧ p.req.reqAud = appendAllUniq [] pp.q.aud ∧
      Covered (after {} pre).cfg p.req.client p.req.reqScopes p.req.reqAud := by
  obtain ⟨pre, pp, post, h1, h2, h3⟩ := reachable_par_pushed ops u p h
  exact ⟨pre, pp, post, h1, h2, pushedOk_def _ _ _ _ h3⟩

/-- **Conclusion.** Whenever the authorization endpoint, called with a `request_uri`, answers with a code /
    token, the pushed request it worked on (`p`; its scopes and audiences are the ones the handlers see and
    the minted records carry as requested) was pushed by an operation `pp` of the history, by the client
    registered under that id at push time, and was covered by THAT registration under the scope and
    audience strategies in force at push time. -/
theorem authorize_via_par_covered_at_push (ops : List Op) (a : AuthzParReq) (c t i)
    (h : (step (after {} ops) (.authorizePar a)).2.1 = .authz c t i) :
    ∃ u p pre pp post, a.uri = some u ∧ alookup (after {} ops).ss.store.par u = some p ∧
      ops = pre ++ Op.parPush pp :: post ∧ alookup (after {} pre).ss.store.par u = none ∧
      (after {} pre).ss.clients.find? (fun x => x.id == pp.q.clientId) = some p.req.client ∧
      p.req.reqScopes = appendAllUniq [] pp.q.scopes ∧ p.req.reqAud = appendAllUniq [] pp.q.aud ∧
      Covered (after {} pre).cfg p.req.client p.req.reqScopes p.req.reqAud := by
  obtain ⟨u, p, hu, hl, _, _⟩ := (step_authorizePar_cover _ a c t i h).ex
  obtain ⟨pre, pp, post, h1, h2, h3, _, h5, h6, h7⟩ := stored_pushed_requests_were_covered_at_push ops u p hl
  exact ⟨u, p, pre, pp, post, hu, hl, h1, h2, h3, h5, h6, h7⟩

/-- **Then and now.** … and the same stored snapshot is checked again under the CURRENT configuration:
    scopes and audiences for `code` / `token`, scopes for the hybrid response types. -/
theorem authorize_via_par_covered_then_and_now (ops : List Op) (a : AuthzParReq) (c t i)
    (h : (step (after {} ops) (.authorizePar a)).2.1 = .authz c t i) :
    ∃ u p pre pp post, a.uri = some u ∧ alookup (after {} ops).ss.store.par u = some p ∧
      ops = pre ++ Op.parPush pp :: post ∧
      (after {} pre).ss.clients.find? (fun x => x.id == pp.q.clientId) = some p.req.client ∧
      -- at push time, under the configuration of that moment
      Covered (after {} pre).cfg p.req.client p.req.reqScopes p.req.reqAud ∧
      -- at use time, under the current configuration, against the stored snapshot
      ((exactOne p.responseTypes "code" = true ∨ exactOne p.responseTypes "token" = true) →
        Covered (after {} ops).cfg p.req.client p.req.reqScopes p.req.reqAud) ∧
      (isHybrid p.responseTypes = true →
        ∀ sc ∈ p.req.reqScopes, (after {} ops).cfg.scopeStrategy.run (p.req.client.scopes.map String.toList) sc.toList = true) := by
  obtain ⟨u, p, hu, hl, n1, n2⟩ := (step_authorizePar_cover _ a c t i h).ex
  obtain ⟨pre, pp, post, h1, _, h3, _, _, _, h7⟩ := stored_pushed_requests_were_covered_at_push ops u p hl
  exact ⟨u, p, pre, pp, post, hu, hl, h1, h3, h7, fun hh => covered_of _ _ _ _ (n1 hh),
    fun hh => (scopesAllowed_iff _ _ _).mp (n2 hh)⟩

/-- if no `setCfg` happened between push and use, the two configurations coincide (the push-time coverage
    then covers every response type, including those the handlers do not re-check) -/
theorem cfg_unchanged_without_setCfg (s : MState) (ops : List Op) (h : ∀ c, Op.setCfg c ∉ ops) : (after s ops).cfg = s.cfg := by
  induction ops generalizing s with
  | nil => rfl
  | cons op ops ih =>
    show (after (step s op).1 ops).cfg = s.cfg
    rw [ih _ (fun c hc => h c (List.mem_cons_of_mem _ hc)), step_cfg]
    cases op <;> first | rfl | exact absurd (List.mem_cons_self ..) (h _)

/-! ### non-vacuity and recorded behaviour -/

def exClient : Client :=
  { id := "c", isPublic := true, scopes := ["a.*", "b"], grants := ["authorization_code"], responseTypes := ["code"] }
def pushOf (scopes : List String) : Op :=
  .parPush { credOk := true, q := { clientId := "c", responseTypes := ["code"], redirect := "https://c/cb", scopes := scopes } }
def useOf (granted : List String) : Op := .authorizePar { clientId := "c", uri := some 1, grantScopes := granted, subject := "u" }
def isAuthz : Out → Bool | .authz .. => true | _ => false
def isErr (e : Err) : Out → Bool | .err e' => e' == e | _ => false

/-- wildcard strategy (the default): "a.x" is covered by the registered "a.*"; pushed, then used -/
def exHist : List Op := [.setClient exClient, pushOf ["a.x", "b"]]

set_option maxRecDepth 4096 in
/-- hypotheses met and conclusions not vacuous: the push stores record 1 with the registration as snapshot;
    the use succeeds; the history decomposes as the theorem says (`pre = [setClient …]`) -/
example :
    ((after {} exHist).ss.store.par.map (fun e => (e.1, e.2.req.reqScopes, e.2.req.client.scopes))) = [(1, ["a.x", "b"], ["a.*", "b"])] ∧
    isAuthz (step (after {} exHist) (useOf ["b"])).2.1 = true ∧
    alookup (after {} (exHist.take 1)).ss.store.par 1 = none ∧
    (after {} (exHist.take 1)).ss.clients.find? (fun x => x.id == "c") = some exClient := by decide

/-- **Recorded behaviour (strategy changed between push and use).** Pushed under the wildcard strategy
    ("a.x" covered by "a.*"), used after `setCfg` switched to the exact strategy: the re-check under the
    current strategy refuses (`invalid_scope`) — while a request whose scopes are registered literally
    ("b") is still honoured.  The theorem's push-time half speaks of the wildcard strategy in both cases. -/
theorem strategy_change_is_seen_by_the_recheck :
    isErr .invalid_scope (step (after {} (exHist ++ [.setCfg { scopeStrategy := .exact }])) (useOf ["b"])).2.1 = true ∧
    isAuthz (step (after {} ([.setClient exClient, pushOf ["b"], .setCfg { scopeStrategy := .exact }])) (useOf ["b"])).2.1 = true := by
  decide

/-- a push that is not covered stores nothing (so the invariant is not vacuously about an empty table only
    because pushes always succeed): under the exact strategy "a.x" is refused at the push -/
example : isErr .invalid_scope (step (after {} [.setCfg { scopeStrategy := .exact }, .setClient exClient]) (pushOf ["a.x"])).2.1 = true ∧
    (step (after {} [.setCfg { scopeStrategy := .exact }, .setClient exClient]) (pushOf ["a.x"])).1.ss.store.par = [] := by decide

end Fosite.Props.C12d

/-
  C09 — introspection tells the truth.  `IntrospectToken` refines a pure function of the store
  (`introspectPure`), changes nothing, and reports a token active exactly when its record is
  there, unexpired, an exact copy was presented and the required scopes are covered.
-/
import Fosite.Proofs.Revoke
namespace Fosite.Props.C09
open Fosite.Model

/-- Introspection is a pure function of the store, the clock and the configuration … -/
theorem introspect_refines_pure (s : MState) (q : IntrospectReq) :
    (step s (.introspect q)).2.1 = introspectPure s.cfg s.now q s.ss.store := by
  have hp := step_prog s (.introspect q) (introspectProg s.cfg s.now q) rfl
  rw [hp.2]
  exact (run_introspectProg {} plain_default s.cfg s.now q { ss := s.ss }).2

/-- … and never changes the state. -/
theorem introspect_changes_nothing (s : MState) (q : IntrospectReq) :
    (step s (.introspect q)).1.ss = s.ss := by
  have hp := step_prog s (.introspect q) (introspectProg s.cfg s.now q) rfl
  rw [hp.1]
  exact (run_introspectProg {} plain_default s.cfg s.now q { ss := s.ss }).1

theorem accessVerdict_ok (cfg : Config) (now : Time) (q : IntrospectReq) (st : Store) (r : Req) :
    accessVerdict cfg now q st = .ok r ↔
      ∃ sig, q.token.sig = some sig ∧ alookup st.access sig = some r ∧
        accessExpired cfg r now = false ∧ q.token.exact = true ∧
        matchScopes cfg r.grantedScopes q.scopes = true := by
  constructor
  · intro h
    unfold accessVerdict at h
    cases hs : q.token.sig with
    | none => rw [hs] at h; simp at h
    | some sig =>
      rw [hs] at h
      simp only [Option.bind_some] at h
      cases hl : alookup st.access sig with
      | none => rw [hl] at h; simp at h
      | some r' =>
        rw [hl] at h
        simp only at h
        by_cases h1 : (atCheck1 cfg r' q.token.exact now).1 = true
        · by_cases h2 : (atCheck2 cfg r' q.token.exact now).1 = true
          · by_cases h3 : matchScopes cfg r'.grantedScopes q.scopes = true
            · simp only [h1, h2, h3, Bool.not_true, Bool.false_eq_true, if_false, Except.ok.injEq] at h
              subst h
              obtain ⟨he, hx⟩ := (atChecks_iff cfg r' q.token.exact now).mp ⟨h1, h2⟩
              exact ⟨sig, rfl, hl, he, hx, h3⟩
            · simp [h1, h2, h3] at h
          · simp [h1, h2] at h
        · simp [h1] at h
  · rintro ⟨sig, hsig, hl, hexp, hex, hm⟩
    obtain ⟨h1, h2⟩ := (atChecks_iff cfg r q.token.exact now).mpr ⟨hexp, hex⟩
    unfold accessVerdict
    rw [hsig]
    simp only [Option.bind_some, hl, h1, h2, hm, Bool.not_true, Bool.false_eq_true, if_false]

/-- **Soundness.** A token reported as an active *access token* has its record in the store under the
    presented signature, was presented as an exact (MAC-verified) copy, has not expired, and covers
    every scope the caller required; the reported request is that very record. -/
theorem active_access_token_is_live (s : MState) (q : IntrospectReq) (r : Req)
    (h : (step s (.introspect q)).2.1 = .active "access_token" r) :
    ∃ sig, q.token.sig = some sig ∧ alookup s.ss.store.access sig = some r ∧
      accessExpired s.cfg r s.now = false ∧ q.token.exact = true ∧
      matchScopes s.cfg r.grantedScopes q.scopes = true := by
  rw [introspect_refines_pure] at h
  apply (accessVerdict_ok s.cfg s.now q s.ss.store r).mp
  unfold introspectPure at h
  by_cases hd : s.cfg.disableRefreshIntrospect = true
  · simp only [hd, if_true] at h
    cases hv : accessVerdict s.cfg s.now q s.ss.store with
    | ok r' => rw [hv] at h; cases h; rfl
    | error e => rw [hv] at h; cases h
  · simp only [hd, Bool.false_eq_true, if_false] at h
    by_cases hh : (q.hint == Hint.refresh) = true
    · simp only [hh, if_true] at h
      cases hr : refreshVerdict s.cfg s.now q s.ss.store with
      | ok r' => rw [hr] at h; simp at h
      | error e =>
        rw [hr] at h
        cases hv : accessVerdict s.cfg s.now q s.ss.store with
        | ok r' => rw [hv] at h; cases h; rfl
        | error e => rw [hv] at h; cases h
    · simp only [hh, Bool.false_eq_true, if_false] at h
      cases hv : accessVerdict s.cfg s.now q s.ss.store with
      | ok r' => rw [hv] at h; cases h; rfl
      | error e =>
        rw [hv] at h
        cases hr : refreshVerdict s.cfg s.now q s.ss.store with
        | ok r' => rw [hr] at h; simp at h
        | error e => rw [hr] at h; cases h

/-- **Completeness.** A stored, unexpired access token presented as an exact copy with covered
    scopes is reported active (whatever the hint). -/
theorem live_access_token_is_reported_active (s : MState) (q : IntrospectReq) (sig : Nat) (r : Req)
    (hsig : q.token.sig = some sig) (hl : alookup s.ss.store.access sig = some r)
    (hexp : accessExpired s.cfg r s.now = false) (hex : q.token.exact = true)
    (hsc : matchScopes s.cfg r.grantedScopes q.scopes = true) :
    ∃ use r', (step s (.introspect q)).2.1 = .active use r' := by
  rw [introspect_refines_pure]
  have hv : accessVerdict s.cfg s.now q s.ss.store = .ok r :=
    (accessVerdict_ok s.cfg s.now q s.ss.store r).mpr ⟨sig, hsig, hl, hexp, hex, hsc⟩
  unfold introspectPure
  rw [hv]
  by_cases hd : s.cfg.disableRefreshIntrospect = true
  · simp only [hd, if_true]; exact ⟨_, _, rfl⟩
  · simp only [hd, Bool.false_eq_true, if_false]
    by_cases hh : (q.hint == Hint.refresh) = true
    · simp only [hh, if_true]
      cases refreshVerdict s.cfg s.now q s.ss.store <;> exact ⟨_, _, rfl⟩
    · simp only [hh, Bool.false_eq_true, if_false]; exact ⟨_, _, rfl⟩

/-- With refresh-token introspection disabled, nothing is ever reported as a refresh token. -/
theorem disabled_refresh_never_reported (s : MState) (q : IntrospectReq) (r : Req)
    (hd : s.cfg.disableRefreshIntrospect = true) : (step s (.introspect q)).2.1 ≠ .active "refresh_token" r := by
  rw [introspect_refines_pure]
  unfold introspectPure
  simp only [hd, if_true]
  cases accessVerdict s.cfg s.now q s.ss.store <;> simp

/-- A tampered presentation (same signature, different random part) is never reported active. -/
theorem tampered_token_never_active (s : MState) (q : IntrospectReq) (hne : q.token.exact = false) (use : String) (r : Req) :
    (step s (.introspect q)).2.1 ≠ .active use r := by
  rw [introspect_refines_pure]
  have ha : ∀ r', accessVerdict s.cfg s.now q s.ss.store ≠ .ok r' := by
    intro r' h
    obtain ⟨_, _, _, _, he, _⟩ := (accessVerdict_ok _ _ _ _ _).mp h
    rw [hne] at he; cases he
  have hr : ∀ r', refreshVerdict s.cfg s.now q s.ss.store ≠ .ok r' := by
    intro r' h
    unfold refreshVerdict at h
    cases hb : q.token.sig.bind (alookup s.ss.store.refresh) with
    | none => rw [hb] at h; cases h
    | some rec =>
      rw [hb] at h
      simp only [hne] at h
      by_cases h1 : rec.active = true <;> by_cases h2 : refreshExpired rec.req s.now = true <;> simp [h1, h2] at h
  unfold introspectPure
  intro h
  by_cases hd : s.cfg.disableRefreshIntrospect = true
  · simp only [hd, if_true] at h
    cases hv : accessVerdict s.cfg s.now q s.ss.store with
    | ok r' => exact ha r' hv
    | error e => rw [hv] at h; cases h
  · simp only [hd, Bool.false_eq_true, if_false] at h
    by_cases hh : (q.hint == Hint.refresh) = true
    · simp only [hh, if_true] at h
      cases hrv : refreshVerdict s.cfg s.now q s.ss.store with
      | ok r' => exact hr r' hrv
      | error e =>
        rw [hrv] at h
        cases hv : accessVerdict s.cfg s.now q s.ss.store with
        | ok r' => exact ha r' hv
        | error e => rw [hv] at h; cases h
    · simp only [hh, Bool.false_eq_true, if_false] at h
      cases hv : accessVerdict s.cfg s.now q s.ss.store with
      | ok r' => exact ha r' hv
      | error e =>
        rw [hv] at h
        cases hrv : refreshVerdict s.cfg s.now q s.ss.store with
        | ok r' => exact hr r' hrv
        | error e => rw [hrv] at h; cases h

/-! ### the introspection endpoint answers authenticated callers only -/

/-- `NewIntrospectionRequest` is a pure function of the state … -/
theorem introspect_endpoint_refines_pure (s : MState) (r : IntrospectEndpointReq) :
    (step s (.introspectEndpoint r)).2.1 = introspectEndpointPure s.cfg s.now r s.ss := by
  have hp := step_prog s (.introspectEndpoint r) (introspectEndpointProg s.cfg s.now r) rfl
  rw [hp.2]
  exact (run_introspectEndpointProg {} plain_default s.cfg s.now r { ss := s.ss }).2

/-- … and never changes it. -/
theorem introspect_endpoint_changes_nothing (s : MState) (r : IntrospectEndpointReq) :
    (step s (.introspectEndpoint r)).1.ss = s.ss := by
  have hp := step_prog s (.introspectEndpoint r) (introspectEndpointProg s.cfg s.now r) rfl
  rw [hp.1]
  exact (run_introspectEndpointProg {} plain_default s.cfg s.now r { ss := s.ss }).1

/-- the caller proved who it is: a registered client with its secret, or a bearer token that is a
    different string than the inspected token and is itself reported as an active ACCESS token -/
def CallerAuthenticated (s : MState) (r : IntrospectEndpointReq) : Prop :=
  match r.caller with
  | .basic id secretOk => secretOk = true ∧ ∃ c ∈ s.ss.clients, c.id = id
  | .bearer tok identical =>
    identical = false ∧
      ∃ x, introspectPure s.cfg s.now { token := tok, hint := .access, scopes := [] } s.ss.store = .active "access_token" x
  | .anonymous => False

/-- **The endpoint answers only authenticated callers**: whenever it says anything about the inspected
    token (active with its data, or inactive) the caller was authenticated; everybody else gets
    `request_unauthorized`. -/
theorem introspect_endpoint_answers_only_authenticated (s : MState) (r : IntrospectEndpointReq) :
    CallerAuthenticated s r ∨ (step s (.introspectEndpoint r)).2.1 = .err .request_unauthorized := by
  rw [introspect_endpoint_refines_pure]
  unfold introspectEndpointPure CallerAuthenticated
  cases r.caller with
  | bearer tok identical =>
    simp only
    by_cases hi : identical = true
    · right; simp [hi]
    · simp only [hi, Bool.false_eq_true, if_false]
      cases hv : introspectPure s.cfg s.now { token := tok, hint := .access, scopes := [] } s.ss.store with
      | active use x =>
        simp only
        by_cases hu : use = "access_token"
        · left; exact ⟨by simpa using hi, x, by rw [hu]⟩
        · right; simp [hu]
      | _ => right; rfl
  | basic id secretOk =>
    simp only
    cases hf : s.ss.clients.find? (fun c => c.id == id) with
    | none => right; rfl
    | some c =>
      simp only
      by_cases hs : secretOk = true
      · left
        exact ⟨hs, c, List.mem_of_find?_eq_some hf, by simpa using List.find?_some hf⟩
      · right; simp [hs]
  | anonymous => right; rfl

/-- a refresh token (or a code, or anything that is not a live access token) is no caller credential -/
theorem refresh_token_is_no_caller_credential (s : MState) (tok : Presented) (q : IntrospectReq) (x : Req)
    (h : introspectPure s.cfg s.now { token := tok, hint := .access, scopes := [] } s.ss.store = .active "refresh_token" x) :
    (step s (.introspectEndpoint { caller := .bearer tok false, q := q })).2.1 = .err .request_unauthorized := by
  rw [introspect_endpoint_refines_pure]
  unfold introspectEndpointPure
  simp [h]

/-- for an authenticated caller the endpoint reports exactly what `IntrospectToken` reports, and for an
    inactive token nothing but "inactive" -/
theorem introspect_endpoint_of_authenticated (s : MState) (r : IntrospectEndpointReq) (h : CallerAuthenticated s r) :
    (step s (.introspectEndpoint r)).2.1 = inspectPure s.cfg s.now r.q s.ss.store := by
  rw [introspect_endpoint_refines_pure]
  unfold introspectEndpointPure
  unfold CallerAuthenticated at h
  cases hc : r.caller with
  | bearer tok identical =>
    rw [hc] at h
    obtain ⟨hi, x, hx⟩ := h
    simp [hi, hx]
  | basic id secretOk =>
    rw [hc] at h
    obtain ⟨hs, c, hm, hid⟩ := h
    simp only
    cases hf : s.ss.clients.find? (fun c => c.id == id) with
    | none =>
      have := List.find?_eq_none.mp hf c hm
      simp [hid] at this
    | some c' => simp [hs]
  | anonymous => rw [hc] at h; exact absurd h id

end Fosite.Props.C09

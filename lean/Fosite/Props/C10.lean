/-
  C10 — client authentication guards every client-authenticated endpoint.
  Property theorems only; lemmas live in `Fosite/Proofs/ClientAuth.lean`.

  Every theorem quantifies over ALL hashers `H` (bcrypt is a parameter), all registries `lookup`, all requests
  (every Basic-header observation, every form value, every outcome of the abstract `client_assertion`
  sub-result), all configurations and all handler chains / downstream behaviours.

  What the theorems establish about the Go code (through the model):
    * `DefaultClientAuthenticationStrategy` decides exactly the documented relation `Spec.Accepts`;
    * a confidential client is authenticated only by a proven secret (current or rotated hash) presented by a
      mechanism its registered method permits, or by an accepted assertion;
    * every rejection is `invalid_client` or `invalid_request`, or is the assertion sub-result's own error
      (`invalid_client`, `invalid_request`, `jti_known`, `misconfiguration`, a storage error); the PAR endpoint
      turns every RFC error into `invalid_client`;
    * token, revocation, device: a failed authentication reaches no handler and causes no storage write, unless
      the responsible token handler's `CanSkipClientAuth` says so — and only `rfc7523.Handler` can say so;
    * public clients never pass the `client_credentials` handler.

  What the code does NOT guarantee (stated as theorems too, reported as findings):
    * `par_processes_in_the_name_of_the_form_client_id`: the PAR endpoint authenticates one client and then
      processes the request for whatever `client_id` the form names.
-/
import Fosite.Proofs.ClientAuth
import Fosite.Gen.Facts
namespace Fosite.Props.C10
open Fosite.Model.ClientAuth Fosite.Spec.ClientAuth Fosite.Proofs.ClientAuth

/-! ### The authentication decision -/

/-- The model of `DefaultClientAuthenticationStrategy` computes the documented verdict. -/
theorem authenticate_decides_documented_rule (H : Hasher) (lookup : String → Option Registration)
    (r : Request) : authenticate H lookup r = verdict H lookup r :=
  authenticate_eq_verdict H lookup r

/-- A request is authenticated as `c` exactly when the documented relation holds. -/
theorem authenticate_ok_iff_accepts (H : Hasher) (lookup : String → Option Registration) (r : Request)
    (c : Registration) : authenticate H lookup r = .ok c ↔ Accepts H lookup r c := by
  rw [authenticate_eq_verdict]; exact verdict_ok_iff H lookup r c

/-- `authenticated_confidential_proved_secret_or_assertion`: a confidential client is authenticated only
    if the assertion sub-result was ok, or the request presents (Basic header, else body) a secret that
    matches the current or a rotated hash of the client registered under the presented id, by mechanisms
    the registered method permits. -/
theorem authenticated_confidential_proved_secret_or_assertion (H : Hasher)
    (lookup : String → Option Registration) (r : Request) (c : Registration)
    (h : authenticate H lookup r = .ok c) (hc : c.isPublic = false) :
    ProvedSecretOrAssertion H lookup r c := by
  rcases (authenticate_ok_iff_accepts H lookup r c).1 h with ha | ⟨_, t, id, s, hp, hl, hm, hs⟩
  · exact Or.inl ha
  · refine Or.inr ⟨t, id, s, hp, hl, ?_, hm⟩
    rcases hs with hs | hs
    · rw [hc] at hs; cases hs
    · exact hs

/-- `url.QueryUnescape` maps the empty string, and nothing else, to the empty string (named parameter
    assumption; the harness checks it on every generated header). -/
def UnescapeFaithful (b : Basic) : Prop :=
  ∀ raw i s, b = .present raw i (some s) → (raw = "" ↔ s = "")

/-- The strict transport reading.  For a client that registered a method and never registered an empty
    secret: the proven secret is non-empty, it came over Basic only if the method is `client_secret_basic`
    and in the body only if the method is `client_secret_post`. -/
theorem authenticated_secret_over_matching_transport (H : Hasher) (lookup : String → Option Registration)
    (r : Request) (c : Registration) (h : authenticate H lookup r = .ok c) (hc : c.isPublic = false)
    (hn : r.assertionType ≠ clientAssertionJWTBearerType) (he : NoEmptySecret H c)
    (hu : UnescapeFaithful r.basic) :
    ∃ t id s, Presents r t id s ∧ lookup id = some c ∧ s ≠ "" ∧ SecretProven H c s ∧
      TransportMatchesMethod t c := by
  rcases authenticated_confidential_proved_secret_or_assertion H lookup r c h hc with ⟨ha, _⟩ | ⟨t, id, s, hp, hl, hs, hm⟩
  · exact absurd ha hn
  · have hne : s ≠ "" := by
      intro h0
      subst h0
      rcases hs with hs | ⟨x, hx, hs⟩
      · rw [he.1] at hs; cases hs
      · rw [he.2 x hx] at hs; cases hs
    refine ⟨t, id, s, hp, hl, hne, hs, ?_⟩
    intro ho
    have hm' := hm ho
    unfold Presents at hp
    cases hb : r.basic with
    | absent =>
      rw [hb] at hp
      obtain ⟨ht, hid, _, hsec⟩ := hp
      refine ⟨fun h' => ?_, fun _ => hm'.1 ⟨hid, fun h0 => hne (hsec.trans h0)⟩⟩
      rw [ht] at h'; cases h'
    | present raw i s' =>
      rw [hb] at hp
      obtain ⟨ht, _, hsec⟩ := hp
      refine ⟨fun _ => hm'.2.1 ?_, fun h' => ?_⟩
      · unfold UsesBasic Basic.hasSecret
        rw [hb]
        have hraw : raw ≠ "" := fun h0 => hne ((hu raw i s (by rw [hb, hsec])).1 h0)
        simp [hraw]
      · rw [ht] at h'; cases h'

/-- `method_gating`: an OpenID Connect client (a client with a registered `token_endpoint_auth_method`) that
    was authenticated through the secret path used body credentials only if the method is
    `client_secret_post`, a Basic password only if it is `client_secret_basic`, and is public only if it is
    `none`. -/
theorem method_gating (H : Hasher) (lookup : String → Option Registration) (r : Request) (c : Registration)
    (h : authenticate H lookup r = .ok c) (hn : r.assertionType ≠ clientAssertionJWTBearerType)
    (ho : c.oidc = true) :
    (UsesPost r → c.authMethod = "client_secret_post") ∧
    (UsesBasic r → c.authMethod = "client_secret_basic") ∧
    (c.isPublic = true → c.authMethod = "none") := by
  rcases (authenticate_ok_iff_accepts H lookup r c).1 h with ⟨ha, _⟩ | ⟨_, _, _, _, _, _, hm, _⟩
  · exact absurd ha hn
  · exact hm ho

/-- Consequence: a registered method other than `client_secret_basic` / `client_secret_post`
    (`none`, `private_key_jwt`, `client_secret_jwt`, the empty string, anything else) never lets a non-empty
    secret through. -/
theorem other_methods_accept_no_secret (H : Hasher) (lookup : String → Option Registration) (r : Request)
    (c : Registration) (h : authenticate H lookup r = .ok c)
    (hn : r.assertionType ≠ clientAssertionJWTBearerType) (ho : c.oidc = true)
    (h1 : c.authMethod ≠ "client_secret_basic") (h2 : c.authMethod ≠ "client_secret_post") :
    ¬ UsesPost r ∧ ¬ UsesBasic r := by
  have hg := method_gating H lookup r c h hn ho
  exact ⟨fun hp => h2 (hg.1 hp), fun hb => h1 (hg.2.1 hb)⟩

/-- Public clients are identified without a secret: known id, method permits, nothing else is asked. -/
theorem public_client_identified_without_secret (H : Hasher) (lookup : String → Option Registration)
    (r : Request) (c : Registration) (t : Transport) (id s : String) (ht : r.assertionType = "")
    (hp : Presents r t id s) (hl : lookup id = some c) (hpub : c.isPublic = true) (hm : MethodPermits r c) :
    authenticate H lookup r = .ok c :=
  (authenticate_ok_iff_accepts H lookup r c).2 (Or.inr ⟨ht, t, id, s, hp, hl, hm, Or.inl hpub⟩)

/-- Completeness for confidential clients: a proven secret over permitted mechanisms is accepted. -/
theorem proven_secret_is_accepted (H : Hasher) (lookup : String → Option Registration)
    (r : Request) (c : Registration) (t : Transport) (id s : String) (ht : r.assertionType = "")
    (hp : Presents r t id s) (hl : lookup id = some c) (hs : SecretProven H c s) (hm : MethodPermits r c) :
    authenticate H lookup r = .ok c :=
  (authenticate_ok_iff_accepts H lookup r c).2 (Or.inr ⟨ht, t, id, s, hp, hl, hm, Or.inr hs⟩)

/-! ### Rejections -/

/-- `rejection_classes`, authentication itself: outside the assertion branch every rejection is
    `invalid_request` (unknown assertion type, undecodable Basic header, no `client_id` anywhere) or
    `invalid_client` (everything else); inside it, the error is the assertion sub-result's. -/
theorem rejection_classes (H : Hasher) (lookup : String → Option Registration) (r : Request) (e : Err)
    (h : authenticate H lookup r = .error e) : RejectionClass r e := by
  rw [authenticate_eq_verdict] at h; exact verdict_error_class H lookup r e h

theorem rejection_is_invalid_client_or_invalid_request (H : Hasher) (lookup : String → Option Registration)
    (r : Request) (e : Err) (h : authenticate H lookup r = .error e) :
    e = errInvalidClient ∨ e = errInvalidRequest ∨
      (r.assertionType = clientAssertionJWTBearerType ∧ r.assertion = .err e) := by
  have hc := rejection_classes H lookup r e h
  by_cases hj : r.assertionType = clientAssertionJWTBearerType
  · exact Or.inr (Or.inr ⟨hj, hc.1 hj⟩)
  · by_cases he : r.assertionType = ""
    · by_cases hm : Malformed r
      · exact Or.inr (Or.inl (hc.2.2.1 he hm))
      · exact Or.inl (hc.2.2.2 he hm)
    · exact Or.inr (Or.inl (hc.2.1 hj he))

/-- a rejected request is never also accepted (the verdict is a function) -/
theorem rejected_not_accepted (H : Hasher) (lookup : String → Option Registration) (r : Request) (e : Err)
    (h : authenticate H lookup r = .error e) (c : Registration) : ¬ Accepts H lookup r c := by
  intro ha
  rw [(authenticate_ok_iff_accepts H lookup r c).2 ha] at h
  cases h

/-- Wrong, empty, another client's, a never-registered secret: whatever does not match the current or a
    rotated hash of a confidential client is `invalid_client`. -/
theorem unproven_secret_rejected (H : Hasher) (lookup : String → Option Registration) (r : Request)
    (c : Registration) (t : Transport) (id s : String) (ht : r.assertionType = "")
    (hp : Presents r t id s) (hl : lookup id = some c) (hc : c.isPublic = false)
    (hs : ¬ SecretProven H c s) : authenticate H lookup r = .error errInvalidClient := by
  cases ha : authenticate H lookup r with
  | ok c' =>
    rcases (authenticate_ok_iff_accepts H lookup r c').1 ha with ⟨hj, _⟩ | ⟨_, t', id', s', hp', hl', _, hs'⟩
    · rw [ht] at hj; exact absurd hj (by decide)
    · obtain ⟨_, hid, hsec⟩ := presented_unique r t t' id id' s s' hp hp'
      rw [← hid, hl] at hl'
      injection hl' with hl'
      subst hl'
      rcases hs' with hs' | hs'
      · rw [hc] at hs'; cases hs'
      · exact absurd (hsec ▸ hs') hs
  | error e =>
    have hcl := rejection_classes H lookup r e ha
    have hnm : ¬ Malformed r := by
      intro hm
      have := (presented_iff r id s).2 ⟨t, hp⟩
      rw [(presented_none_iff r).2 hm] at this
      cases this
    rw [hcl.2.2.2 ht hnm]

/-- An id nobody registered is `invalid_client`. -/
theorem unknown_client_rejected (H : Hasher) (lookup : String → Option Registration) (r : Request)
    (t : Transport) (id s : String) (ht : r.assertionType = "") (hp : Presents r t id s)
    (hl : lookup id = none) : authenticate H lookup r = .error errInvalidClient := by
  cases ha : authenticate H lookup r with
  | ok c' =>
    rcases (authenticate_ok_iff_accepts H lookup r c').1 ha with ⟨hj, _⟩ | ⟨_, t', id', s', hp', hl', _⟩
    · rw [ht] at hj; exact absurd hj (by decide)
    · obtain ⟨_, hid, _⟩ := presented_unique r t t' id id' s s' hp hp'
      rw [← hid, hl] at hl'; cases hl'
  | error e =>
    have hcl := rejection_classes H lookup r e ha
    have hnm : ¬ Malformed r := by
      intro hm
      have := (presented_iff r id s).2 ⟨t, hp⟩
      rw [(presented_none_iff r).2 hm] at this
      cases this
    rw [hcl.2.2.2 ht hnm]

/-- A mechanism the registered method does not permit is `invalid_client`. -/
theorem disallowed_method_rejected (H : Hasher) (lookup : String → Option Registration) (r : Request)
    (c : Registration) (t : Transport) (id s : String) (ht : r.assertionType = "")
    (hp : Presents r t id s) (hl : lookup id = some c) (hm : ¬ MethodPermits r c) :
    authenticate H lookup r = .error errInvalidClient := by
  cases ha : authenticate H lookup r with
  | ok c' =>
    rcases (authenticate_ok_iff_accepts H lookup r c').1 ha with ⟨hj, _⟩ | ⟨_, t', id', s', hp', hl', hm', _⟩
    · rw [ht] at hj; exact absurd hj (by decide)
    · obtain ⟨_, hid, _⟩ := presented_unique r t t' id id' s s' hp hp'
      rw [← hid, hl] at hl'
      injection hl' with hl'
      subst hl'
      exact absurd hm' hm
  | error e =>
    have hcl := rejection_classes H lookup r e ha
    have hnm : ¬ Malformed r := by
      intro hmm
      have := (presented_iff r id s).2 ⟨t, hp⟩
      rw [(presented_none_iff r).2 hmm] at this
      cases this
    rw [hcl.2.2.2 ht hnm]

/-- An undecodable Basic header, or no `client_id` in header or body, is `invalid_request`. -/
theorem malformed_or_missing_rejected (H : Hasher) (lookup : String → Option Registration) (r : Request)
    (ht : r.assertionType = "") (hm : Malformed r) : authenticate H lookup r = .error errInvalidRequest := by
  cases ha : authenticate H lookup r with
  | ok c' =>
    rcases (authenticate_ok_iff_accepts H lookup r c').1 ha with ⟨hj, _⟩ | ⟨_, t', id', s', hp', _⟩
    · rw [ht] at hj; exact absurd hj (by decide)
    · have := (presented_iff r id' s').2 ⟨t', hp'⟩
      rw [(presented_none_iff r).2 hm] at this
      cases this
  | error e => rw [(rejection_classes H lookup r e ha).2.2.1 ht hm]

/-- An unknown `client_assertion_type` is `invalid_request`, whatever else the request carries. -/
theorem unknown_assertion_type_rejected (H : Hasher) (lookup : String → Option Registration) (r : Request)
    (h1 : r.assertionType ≠ clientAssertionJWTBearerType) (h2 : r.assertionType ≠ "") :
    authenticate H lookup r = .error errInvalidRequest := by
  cases ha : authenticate H lookup r with
  | ok c' =>
    rcases (authenticate_ok_iff_accepts H lookup r c').1 ha with ⟨hj, _⟩ | ⟨hj, _⟩
    · exact absurd hj h1
    · exact absurd hj h2
  | error e => rw [(rejection_classes H lookup r e ha).2.1 h1 h2]

/-! ### The gate at the four endpoints -/

/-- `rejected_request_reaches_no_handler` / `rejection_classes` at the token endpoint: when authentication fails
    and no responsible handler may skip it, `NewAccessRequest` answers the authentication error
    (`invalid_request` when no handler is responsible for the grant type), no handler's
    `HandleTokenEndpointRequest` runs, the response phase is not entered, nothing is written. -/
theorem token_rejected_request_reaches_no_handler (cfg : Config) (H : Hasher)
    (lookup : String → Option Registration) (http : Http) (grantType : String) (req : Request)
    (handlers : List Handler) (response : Option Registration → DResult) (e : Err)
    (ha : authenticate H lookup req = .error e)
    (hno : ∀ h ∈ handlers, h.canHandle = true → canSkipClientAuth h.kind cfg = false) :
    let o := tokenEndpoint cfg H lookup http grantType req handlers response
    o.ran = [] ∧ o.writes = [] ∧ (o.result = .error e ∨ o.result = .error errInvalidRequest) := by
  unfold tokenEndpoint
  by_cases h1 : (http.method != "POST") = true
  · simp [h1, Outcome.early]
  · by_cases h2 : (!http.parseOk) = true
    · simp [h1, h2, Outcome.early]
    · by_cases h3 : http.postFormEmpty = true
      · simp [h1, h2, h3, Outcome.early]
      · by_cases h4 : (grantTypesOf grantType).length < 1
        · simp [h1, h2, h3, h4, Outcome.early]
        · simp only [h1, h2, h3, h4, if_false, ha, handlerLoop_rejects cfg e handlers hno]
          by_cases h5 : (handlers.any fun h => h.canHandle) = true <;> simp [h5]

/-- With `GrantTypeJWTBearerCanSkipClientAuth = false` that holds for EVERY handler chain. -/
theorem token_rejected_request_reaches_no_handler_default (H : Hasher)
    (lookup : String → Option Registration) (http : Http) (grantType : String) (req : Request)
    (handlers : List Handler) (response : Option Registration → DResult) (e : Err)
    (ha : authenticate H lookup req = .error e) :
    let o := tokenEndpoint ⟨false⟩ H lookup http grantType req handlers response
    o.ran = [] ∧ o.writes = [] ∧ (o.result = .error e ∨ o.result = .error errInvalidRequest) :=
  token_rejected_request_reaches_no_handler ⟨false⟩ H lookup http grantType req handlers response e ha
    (fun h _ _ => by cases h.kind <;> rfl)

/-- `skip_only_if_handler_allows`: whenever authentication failed, every handler whose
    `HandleTokenEndpointRequest` ran is one whose `CanSkipClientAuth` returned true. -/
theorem skip_only_if_handler_allows (cfg : Config) (H : Hasher) (lookup : String → Option Registration)
    (http : Http) (grantType : String) (req : Request) (handlers : List Handler)
    (response : Option Registration → DResult) (e : Err) (ha : authenticate H lookup req = .error e)
    (k : HandlerKind)
    (hk : Stage.handler k ∈ (tokenEndpoint cfg H lookup http grantType req handlers response).ran) :
    canSkipClientAuth k cfg = true := by
  unfold tokenEndpoint at hk
  by_cases h1 : (http.method != "POST") = true
  · simp [h1, Outcome.early] at hk
  · by_cases h2 : (!http.parseOk) = true
    · simp [h1, h2, Outcome.early] at hk
    · by_cases h3 : http.postFormEmpty = true
      · simp [h1, h2, h3, Outcome.early] at hk
      · by_cases h4 : (grantTypesOf grantType).length < 1
        · simp [h1, h2, h3, h4, Outcome.early] at hk
        · simp only [h1, h2, h3, h4, if_false, ha] at hk
          obtain ⟨extra, hex, hp⟩ := handlerLoop_ran_extends cfg (.error e) handlers false [] []
          have key : ∀ s ∈ (handlerLoop cfg (.error e) handlers false [] []).2.1, s = Stage.handler k →
              canSkipClientAuth k cfg = true := by
            intro s hs hsk
            rw [hex] at hs
            simp only [List.nil_append] at hs
            obtain ⟨h', _, hs', _, hskip⟩ := hp s hs
            rw [hsk] at hs'
            injection hs' with hs'
            rw [hs']
            exact hskip rfl
          rcases hl : handlerLoop cfg (.error e) handlers false [] [] with ⟨res, ran, ws⟩
          rw [hl] at hk key
          cases res with
          | error e' => exact key _ hk rfl
          | ok u =>
            cases hr : (response (Except.toOption (Except.error e : Except Err Registration))).err with
            | none =>
              have hk' : Stage.handler k ∈ ran ++ [Stage.response] := by simpa [hr] using hk
              rcases List.mem_append.1 hk' with hk' | hk'
              · exact key _ hk' rfl
              · rw [List.mem_singleton] at hk'; cases hk'
            | some e' =>
              have hk' : Stage.handler k ∈ ran ++ [Stage.response] := by simpa [hr] using hk
              rcases List.mem_append.1 hk' with hk' | hk'
              · exact key _ hk' rfl
              · rw [List.mem_singleton] at hk'; cases hk'

/-- … and the only handler that can ever allow it is `rfc7523.Handler`, by configuration. -/
theorem skip_only_jwt_bearer_by_configuration (k : HandlerKind) (cfg : Config)
    (h : canSkipClientAuth k cfg = true) :
    k = .jwtBearer ∧ cfg.grantTypeJWTBearerCanSkipClientAuth = true := by
  cases k <;> first | exact ⟨rfl, h⟩ | cases h

/-- Revocation endpoint: a failed authentication is answered with its own error; the revocation handlers
    are not entered; nothing is written. -/
theorem revocation_rejected_request_reaches_no_handler (H : Hasher) (lookup : String → Option Registration)
    (http : Http) (req : Request) (handlers : List (Registration → HResult)) (e : Err)
    (ha : authenticate H lookup req = .error e) :
    let o := revocationEndpoint H lookup http req handlers
    o.ran = [] ∧ o.writes = [] ∧ (o.result = .error e ∨ (o.auth = none ∧ o.result = .error errInvalidRequest)) := by
  unfold revocationEndpoint
  by_cases h1 : (http.method != "POST") = true
  · simp [h1, Outcome.early]
  · by_cases h2 : (!http.parseOk) = true
    · simp [h1, h2, Outcome.early]
    · by_cases h3 : http.postFormEmpty = true
      · simp [h1, h2, h3, Outcome.early]
      · simp [h1, h2, h3, ha]

/-- Device authorization endpoint: likewise. -/
theorem device_rejected_request_reaches_no_handler (H : Hasher) (lookup : String → Option Registration)
    (http : Http) (req : Request) (down : Registration → DResult) (e : Err)
    (ha : authenticate H lookup req = .error e) :
    let o := deviceEndpoint H lookup http req down
    o.ran = [] ∧ o.writes = [] ∧ (o.result = .error e ∨ (o.auth = none ∧ o.result = .error errInvalidRequest)) := by
  unfold deviceEndpoint
  by_cases h1 : (http.method != "POST") = true
  · simp [h1, Outcome.early]
  · by_cases h2 : (!http.parseOk) = true
    · simp [h1, h2, Outcome.early]
    · by_cases h3 : http.postFormEmpty = true
      · simp [h1, h2, h3, Outcome.early]
      · simp [h1, h2, h3, ha]

/-- The device endpoint processes a request only in the name of the authenticated client, and only when
    the `client_id` parameter names that client. -/
theorem device_acts_for_authenticated_client (H : Hasher) (lookup : String → Option Registration)
    (http : Http) (req : Request) (down : Registration → DResult) (c : Option Registration)
    (h : (deviceEndpoint H lookup http req down).result = .ok c) :
    ∃ c', c = some c' ∧ authenticate H lookup req = .ok c' ∧ req.clientId = c'.id := by
  unfold deviceEndpoint at h
  by_cases h1 : (http.method != "POST") = true
  · simp [h1, Outcome.early] at h
  · by_cases h2 : (!http.parseOk) = true
    · simp [h1, h2, Outcome.early] at h
    · by_cases h3 : http.postFormEmpty = true
      · simp [h1, h2, h3, Outcome.early] at h
      · simp only [h1, h2, h3] at h
        cases ha : authenticate H lookup req with
        | error e => rw [ha] at h; cases h
        | ok c' =>
          rw [ha] at h
          simp only at h
          by_cases hid : (c'.id != req.clientId) = true
          · simp only [hid, if_true] at h; cases h
          · simp only [hid] at h
            have hid' : c'.id = req.clientId := by simpa using hid
            cases hd : (down c').err with
            | none => rw [hd] at h; injection h with h; exact ⟨c', h.symm, rfl, hid'.symm⟩
            | some e => rw [hd] at h; cases h

/-- PAR endpoint, `rejection_classes`: a failed authentication is answered with `parRewrap e`; nothing behind
    the gate runs, nothing is written. -/
theorem par_rejected_request_reaches_no_handler (H : Hasher) (lookup : String → Option Registration)
    (http : Http) (req : Request) (requestURI : String) (validate : Registration → Option Err)
    (down : Registration → DResult) (e : Err)
    (ha : authenticate H lookup req = .error e) :
    let o := parEndpoint H lookup http req requestURI validate down
    o.ran = [] ∧ o.writes = [] ∧
      (o.result = .error (parRewrap e) ∨ (o.auth = none ∧ o.result = .error errInvalidRequest)) := by
  unfold parEndpoint
  by_cases h1 : (http.method != "POST") = true
  · simp [h1, Outcome.early]
  · by_cases h2 : (!http.parseOk) = true
    · simp [h1, h2, Outcome.early]
    · simp [h1, h2, ha]

/-- … and `parRewrap` turns EVERY RFC error into one named `invalid_client`: errors with another name
    (`invalid_request`, `jti_known`, `misconfiguration` with its status 500, …) become a fresh
    `ErrInvalidClient` (401); only non-RFC errors (storage errors out of the assertion branch) pass through. -/
theorem par_rewrap_names_invalid_client (e : Err) (h : e.rfc = true) : (parRewrap e).name = "invalid_client" := by
  unfold parRewrap
  by_cases hn : e.name = "invalid_client"
  · simp [h, hn, errInvalidClient]
  · simp [h, hn, errInvalidClient]

theorem par_rewrap_other_names (e : Err) (h : e.rfc = true) (hn : e.name ≠ "invalid_client") :
    parRewrap e = errInvalidClient := by
  unfold parRewrap
  have : e.name ≠ errInvalidClient.name := hn
  simp [h, this]

theorem par_rewrap_non_rfc (e : Err) (h : e.rfc = false) : parRewrap e = e := by
  unfold parRewrap; simp [h]

example : parRewrap errInvalidRequest = errInvalidClient := by decide
example : parRewrap errJTIKnown = errInvalidClient := by decide
example : parRewrap errMisconfiguration = errInvalidClient := by decide
example : parRewrap errInvalidClient = errInvalidClient := by decide

/-- The token endpoint answers `invalid_request` before asking who the client is unless the request is a POST
    with a non-empty form naming a grant type. -/
theorem token_needs_post_form_and_grant_type (cfg : Config) (H : Hasher) (lookup : String → Option Registration)
    (http : Http) (grantType : String) (req : Request) (handlers : List Handler)
    (response : Option Registration → DResult)
    (h : http.method ≠ "POST" ∨ http.parseOk = false ∨ http.postFormEmpty = true ∨ grantTypesOf grantType = []) :
    let o := tokenEndpoint cfg H lookup http grantType req handlers response
    o.auth = none ∧ o.result = .error errInvalidRequest ∧ o.ran = [] ∧ o.writes = [] := by
  unfold tokenEndpoint
  by_cases h1 : (http.method != "POST") = true
  · simp [h1, Outcome.early]
  · by_cases h2 : (!http.parseOk) = true
    · simp [h1, h2, Outcome.early]
    · by_cases h3 : http.postFormEmpty = true
      · simp [h1, h2, h3, Outcome.early]
      · by_cases h4 : (grantTypesOf grantType).length < 1
        · simp [h1, h2, h3, h4, Outcome.early]
        · exfalso
          rcases h with h | h | h | h
          · simp [h] at h1
          · simp [h] at h2
          · exact h3 h
          · simp [h] at h4

/-! ### client_credentials -/

/-- The client-credentials handler refuses every public client (whatever the scope and audience checks said). -/
theorem client_credentials_handler_refuses_public (scopesAllowed : Bool) (audienceErr : Option Err)
    (c : Registration) (hp : c.isPublic = true) :
    ∃ e, (clientCredentialsHandle scopesAllowed audienceErr (some c)).res = .err e := by
  unfold clientCredentialsHandle
  cases scopesAllowed <;> cases audienceErr <;> simp [hp]

/-- … and it is never entered without an authenticated client: its `CanSkipClientAuth` is the literal `false`
    (so the nil-client panic of the model is unreachable). -/
theorem client_credentials_never_skips (cfg : Config) : canSkipClientAuth .clientCredentials cfg = false := rfl

/-- `public_never_client_credentials`: whenever the client-credentials handler is responsible for a token
    request that authenticated as a public client, the request fails and the response phase (where tokens are
    issued) is never entered — for every handler chain around it. -/
theorem public_never_client_credentials (cfg : Config) (H : Hasher) (lookup : String → Option Registration)
    (http : Http) (grantType : String) (req : Request) (handlers : List Handler)
    (response : Option Registration → DResult) (c : Registration)
    (ha : authenticate H lookup req = .ok c) (hp : c.isPublic = true)
    (h : Handler) (hm : h ∈ handlers) (hc : h.canHandle = true)
    (scopesAllowed : Bool) (audienceErr : Option Err)
    (hh : h.handle = clientCredentialsHandle scopesAllowed audienceErr) :
    let o := tokenEndpoint cfg H lookup http grantType req handlers response
    (∃ e, o.result = .error e) ∧ Stage.response ∉ o.ran := by
  obtain ⟨e, he⟩ := client_credentials_handler_refuses_public scopesAllowed audienceErr c hp
  rw [← hh] at he
  unfold tokenEndpoint
  by_cases h1 : (http.method != "POST") = true
  · simp [h1, Outcome.early]
  · by_cases h2 : (!http.parseOk) = true
    · simp [h1, h2, Outcome.early]
    · by_cases h3 : http.postFormEmpty = true
      · simp [h1, h2, h3, Outcome.early]
      · by_cases h4 : (grantTypesOf grantType).length < 1
        · simp [h1, h2, h3, h4, Outcome.early]
        · simp only [h1, h2, h3, h4, if_false, ha]
          obtain ⟨e', hl⟩ := handlerLoop_fails_of_refusing_handler cfg c handlers h hm hc e he false [] []
          obtain ⟨extra, hex, hpx⟩ := handlerLoop_ran_extends cfg (.ok c) handlers false [] []
          rcases hloop : handlerLoop cfg (.ok c) handlers false [] [] with ⟨res, ran, ws⟩
          rw [hloop] at hl hex
          simp only at hl hex
          subst hl
          refine ⟨⟨e', rfl⟩, ?_⟩
          simp only
          intro hmem
          rw [hex, List.nil_append] at hmem
          obtain ⟨_, _, hs, _⟩ := hpx _ hmem
          cases hs

/-! ### PAR: whose request is it? -/

/-- The PAR endpoint processes a request only in the name of the authenticated client: whatever the
    `client_id` form parameter names, an accepted request is the authenticated client's.  (Before repair
    417e2e2 the request was processed for the client the form parameter named; see the regression witness
    in the non-vacuity section.) -/
theorem par_acts_for_authenticated_client (H : Hasher) (lookup : String → Option Registration)
    (http : Http) (req : Request) (requestURI : String) (validate : Registration → Option Err)
    (down : Registration → DResult)
    (c'' : Option Registration) (h : (parEndpoint H lookup http req requestURI validate down).result = .ok c'') :
    ∃ c c', authenticate H lookup req = .ok c ∧ c'' = some c' ∧ c'.id = c.id ∧
      (req.clientId = "" ∨ lookup req.clientId = some c') := by
  unfold parEndpoint at h
  by_cases h1 : (http.method != "POST") = true
  · simp [h1, Outcome.early] at h
  · by_cases h2 : (!http.parseOk) = true
    · simp [h1, h2, Outcome.early] at h
    · simp only [h1, h2] at h
      cases ha : authenticate H lookup req with
      | error e => rw [ha] at h; cases h
      | ok c =>
        rw [ha] at h
        simp only at h
        by_cases h3 : (requestURI != "") = true
        · simp [h3] at h
        · simp only [h3] at h
          cases hl : lookup (if req.clientId.length = 0 then c.id else req.clientId) with
          | none => simp only [hl] at h; cases h
          | some c' =>
            simp only [hl] at h
            cases hv : validate c' with
            | some e => simp [hv] at h
            | none =>
              simp only [hv] at h
              by_cases hid : (c'.id != c.id) = true
              · simp [hid] at h
              · simp only [hid] at h
                have hid' : c'.id = c.id := by simpa using hid
                cases hd : (down c').err with
                | some e => simp [hd] at h
                | none =>
                  simp [hd] at h
                  refine ⟨c, c', rfl, h.symm, hid', ?_⟩
                  by_cases hz : req.clientId = ""
                  · exact Or.inl hz
                  · have hz' : ¬ req.clientId.length = 0 := fun h0 => hz (String.length_eq_zero_iff.1 h0)
                    simp only [hz', if_false] at hl; exact Or.inr hl

/-- A `client_id` parameter naming a different registered client is refused as `invalid_request` (or with
    the validation error of that client's request) and nothing is written. -/
theorem par_refuses_foreign_client_id (H : Hasher) (lookup : String → Option Registration)
    (http : Http) (req : Request) (validate : Registration → Option Err) (down : Registration → DResult)
    (c c' : Registration) (hpost : http.method = "POST") (hparse : http.parseOk = true)
    (ha : authenticate H lookup req = .ok c) (hid : req.clientId ≠ "")
    (hl : lookup req.clientId = some c') (hne : c'.id ≠ c.id) :
    let o := parEndpoint H lookup http req "" validate down
    o.writes = [] ∧ (o.result = .error errInvalidRequest ∨ ∃ e, validate c' = some e ∧ o.result = .error e) := by
  unfold parEndpoint
  have hlen : ¬ req.clientId.length = 0 := fun h0 => hid (String.length_eq_zero_iff.1 h0)
  cases hv : validate c' with
  | some e => simp [hpost, hparse, ha, hlen, hl, hv]
  | none => simp [hpost, hparse, ha, hlen, hl, hv, hne]

/-- Anything the PAR endpoint accepts was preceded by a successful authentication of SOME client. -/
theorem par_accepts_only_after_authentication (H : Hasher) (lookup : String → Option Registration)
    (http : Http) (req : Request) (requestURI : String) (validate : Registration → Option Err)
    (down : Registration → DResult)
    (c'' : Option Registration) (h : (parEndpoint H lookup http req requestURI validate down).result = .ok c'') :
    ∃ c, authenticate H lookup req = .ok c := by
  obtain ⟨c, _, hc, _⟩ := par_acts_for_authenticated_client H lookup http req requestURI validate down c'' h
  exact ⟨c, hc⟩

/-! ### The regenerated `CanSkipClientAuth` table -/

/-- In the sources as they are now, every `CanSkipClientAuth` returns the literal `false`, except
    `rfc7523.Handler`'s. -/
theorem can_skip_only_rfc7523 :
    ∀ p ∈ Fosite.Gen.canSkipClientAuth, p.2 = "false" ∨ p.1 = "rfc7523.Handler" := by decide

/-- The model's handler kinds are exactly the receivers found in the sources, with the same bodies. -/
theorem can_skip_table_covers_sources :
    ∀ p ∈ Fosite.Gen.canSkipClientAuth, ∃ k ∈ HandlerKind.all, p = (k.goName, k.canSkipSource) := by decide

theorem can_skip_sources_cover_table :
    ∀ k ∈ HandlerKind.all, (k.goName, k.canSkipSource) ∈ Fosite.Gen.canSkipClientAuth := by decide

theorem handler_kinds_complete (k : HandlerKind) : k ∈ HandlerKind.all := by cases k <;> decide

/-- A body that is the literal `false` is modelled as `false` for every configuration. -/
theorem can_skip_false_of_literal_false (k : HandlerKind) (h : k.canSkipSource = "false") (cfg : Config) :
    canSkipClientAuth k cfg = false := by
  cases k <;> first | rfl | (exact absurd h (by decide))

/-! ### Non-vacuity: concrete registries, hashers and requests -/

private def tgt : Registration :=
  { id := "tgt", isPublic := false, oidc := false, authMethod := "", hash := "h-cur", rotated := ["h-rot"] }
private def oidcBasic : Registration :=
  { id := "ob", isPublic := false, oidc := true, authMethod := "client_secret_basic", hash := "h-cur", rotated := [] }
private def pub : Registration :=
  { id := "pub", isPublic := true, oidc := false, authMethod := "", hash := "", rotated := [] }

private def reg : String → Option Registration := fun id =>
  if id = "tgt" then some tgt else if id = "ob" then some oidcBasic else if id = "pub" then some pub else none

private def Hx : Hasher := fun h s => (h == "h-cur" && s == "cur") || (h == "h-rot" && s == "old")

private def noAssertion : AssertionOutcome := .err ⟨false, "unused", 0⟩
private def basicReq (id s : String) : Request :=
  { basic := .present s (some id) (some s), clientId := "", clientSecret := "", assertionType := "", assertion := noAssertion }
private def bodyReq (id s : String) : Request :=
  { basic := .absent, clientId := id, clientSecret := s, assertionType := "", assertion := noAssertion }

private def vs : Except Err Registration → String
  | .ok c => "ok " ++ c.id
  | .error e => "err " ++ e.name
private def rs : Except Err (Option Registration) → String
  | .ok (some c) => "ok " ++ c.id
  | .ok none => "ok -"
  | .error e => "err " ++ e.name

example : vs (authenticate Hx reg (basicReq "tgt" "cur")) = "ok tgt" := by decide
example : vs (authenticate Hx reg (basicReq "tgt" "old")) = "ok tgt" := by decide          -- rotated secret
example : vs (authenticate Hx reg (basicReq "tgt" "nope")) = "err invalid_client" := by decide
example : vs (authenticate Hx reg (basicReq "tgt" "")) = "err invalid_client" := by decide
example : vs (authenticate Hx reg (basicReq "ghost" "cur")) = "err invalid_client" := by decide
example : vs (authenticate Hx reg (bodyReq "" "cur")) = "err invalid_request" := by decide
example : vs (authenticate Hx reg (bodyReq "tgt" "cur")) = "ok tgt" := by decide
example : vs (authenticate Hx reg (basicReq "ob" "cur")) = "ok ob" := by decide
example : vs (authenticate Hx reg (bodyReq "ob" "cur")) = "err invalid_client" := by decide   -- post not registered
example : vs (authenticate Hx reg (bodyReq "pub" "")) = "ok pub" := by decide
example : vs (authenticate Hx reg { basicReq "tgt" "cur" with basic := .present "x" none (some "cur") }) =
    "err invalid_request" := by decide
example : vs (authenticate Hx reg { basicReq "tgt" "cur" with assertionType := "urn:unknown" }) =
    "err invalid_request" := by decide
example : vs (authenticate Hx reg { bodyReq "" "" with
    assertionType := clientAssertionJWTBearerType, assertion := .err errJTIKnown }) = "err jti_known" := by decide

private def postHttp : Http := { method := "POST", postFormEmpty := false }
private def okDown (w : String) : Registration → DResult := fun _ => { err := none, writes := [w] }

/-- REGRESSION WITNESS (finding repaired in 417e2e2): the public client `pub` authenticates with its bare id
    in the Basic header and names the confidential client `tgt` in `client_id`.  Before the repair the pushed
    authorization request was accepted and stored in the name of `tgt`; now it is refused, nothing is stored. -/
example :
    let o := parEndpoint Hx reg postHttp { basicReq "pub" "" with clientId := "tgt" } "" (fun _ => none) (okDown "CreatePARSession")
    (match o.auth with | some v => vs v | none => "-") = "ok pub" ∧ rs o.result = "err invalid_request" ∧
      o.writes = [] := by decide

/-- … while the owner's own push is accepted -/
example :
    let o := parEndpoint Hx reg postHttp { basicReq "tgt" "cur" with clientId := "tgt" } "" (fun _ => none) (okDown "CreatePARSession")
    rs o.result = "ok tgt" ∧ o.writes = ["CreatePARSession"] := by decide

/-- the device endpoint refuses the same presentation -/
example :
    let o := deviceEndpoint Hx reg postHttp { basicReq "pub" "" with clientId := "tgt" } (okDown "CreateDeviceAuthSession")
    rs o.result = "err invalid_request" ∧ o.writes = [] := by decide

private def ccChain (gts : List String) : List Handler :=
  [Handler.ofKind gts .authorizeExplicit (fun _ => ⟨.err errInvalidGrant, []⟩),
   Handler.ofKind gts .clientCredentials (clientCredentialsHandle true none),
   Handler.ofKind gts .jwtBearer (fun _ => ⟨.err errInvalidRequest, []⟩)]

private def issue : Option Registration → DResult := fun _ => { err := none, writes := ["CreateAccessTokenSession"] }

example :
    let o := tokenEndpoint ⟨false⟩ Hx reg postHttp "client_credentials" (basicReq "tgt" "cur")
      (ccChain ["client_credentials"]) issue
    rs o.result = "ok tgt" ∧ o.writes = ["CreateAccessTokenSession"] := by decide
example :
    let o := tokenEndpoint ⟨false⟩ Hx reg postHttp "client_credentials" (bodyReq "pub" "")
      (ccChain ["client_credentials"]) issue
    rs o.result = "err invalid_grant" ∧ o.writes = [] := by decide
example :
    let o := tokenEndpoint ⟨false⟩ Hx reg postHttp "client_credentials" (basicReq "tgt" "nope")
      (ccChain ["client_credentials"]) issue
    rs o.result = "err invalid_client" ∧ o.writes = [] ∧ o.ran = [] := by decide
/-- jwt-bearer with the skip switch on: the handler runs although authentication failed … -/
example :
    let o := tokenEndpoint ⟨true⟩ Hx reg postHttp grantTypeJWTBearer (basicReq "tgt" "nope")
      (ccChain [grantTypeJWTBearer]) issue
    rs o.result = "err invalid_request" ∧ o.ran = [.handler .jwtBearer] := by decide
/-- … and with the switch off it does not. -/
example :
    let o := tokenEndpoint ⟨false⟩ Hx reg postHttp grantTypeJWTBearer (basicReq "tgt" "nope")
      (ccChain [grantTypeJWTBearer]) issue
    rs o.result = "err invalid_client" ∧ o.ran = [] := by decide

end Fosite.Props.C10

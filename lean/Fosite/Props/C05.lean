/-
  C05 — refreshing never widens a grant and never crosses clients; refresh-token issuance rule.
  One-step theorems over every state and request.
-/
import Fosite.Props.C04
import Fosite.Props.C02
namespace Fosite.Props.C05
open Fosite.Model

theorem refresh_success_facts (s : MState) (q : RefreshReq) (a r i e sc)
    (h : (step s (.refresh q)).2.1 = .tokens a r i e sc) :
    RefreshOk s.cfg s.now q s.ss (step s (.refresh q)).1.ss a r sc := by
  have hp := step_prog s (.refresh q) (refreshProg s.cfg s.now q) rfl
  rw [hp.2] at h; rw [hp.1]
  exact refresh_success {} plain_default.1 s.cfg s.now q { ss := s.ss } a r i e sc h

/-- A refresh token is honoured only for the client it was issued to, which must (still) be
    registered for the `refresh_token` grant and must have authenticated. -/
theorem refresh_requires_owner_with_grant_type (s : MState) (q : RefreshReq) (a r i e sc)
    (h : (step s (.refresh q)).2.1 = .tokens a r i e sc) :
    ∃ sig rec client, q.token.sig = some sig ∧ alookup s.ss.store.refresh sig = some rec ∧
      client ∈ s.ss.clients ∧ client.id = q.clientId ∧ (client.isPublic || q.credOk) = true ∧
      client.grants.contains "refresh_token" = true ∧ rec.req.client.id = q.clientId := by
  obtain ⟨sig, rec, client, hsig, hrec, _, _, hm, hid, hcred, hgr, _, _, hown, _⟩ := (refresh_success_facts s q a r i e sc h).ex
  exact ⟨sig, rec, client, hsig, hrec, hm, hid, hcred, hgr, by rw [hown, hid]⟩

/-- … and only while the client's *current* registration still covers every originally granted
    scope (under the configured strategy) and audience. -/
theorem refresh_revalidates_against_current_registration (s : MState) (q : RefreshReq) (a r i e sc)
    (h : (step s (.refresh q)).2.1 = .tokens a r i e sc) :
    ∃ sig rec client, q.token.sig = some sig ∧ alookup s.ss.store.refresh sig = some rec ∧
      client ∈ s.ss.clients ∧ client.id = q.clientId ∧
      (∀ sc' ∈ rec.req.grantedScopes, s.cfg.scopeStrategy.run (client.scopes.map String.toList) sc'.toList = true) ∧
      audienceMatch s.cfg.audStrategy client.audience rec.req.grantedAud = none := by
  obtain ⟨sig, rec, client, hsig, hrec, _, _, hm, hid, _, _, _, _, _, hsc, haud, _⟩ := (refresh_success_facts s q a r i e sc h).ex
  refine ⟨sig, rec, client, hsig, hrec, hm, hid, ?_, haud⟩
  intro sc' hmem
  unfold scopesStillAllowed at hsc
  exact List.all_eq_true.mp hsc sc' hmem

/-- The scopes returned by a refresh are those of the original grant, whatever `scope` / `audience`
    the refresh request carries. -/
theorem refresh_preserves_granted_scopes (s : MState) (q : RefreshReq) (a r i e sc)
    (h : (step s (.refresh q)).2.1 = .tokens a r i e sc) :
    ∃ sig rec, q.token.sig = some sig ∧ alookup s.ss.store.refresh sig = some rec ∧
      sc = appendAllUniq [] rec.req.grantedScopes := by
  obtain ⟨sig, rec, _, hsig, hrec, _, _, _, _, _, _, _, _, _, _, _, hsc, _⟩ := (refresh_success_facts s q a r i e sc h).ex
  exact ⟨sig, rec, hsig, hrec, hsc⟩

/-- The records stored for the new pair carry the original grant: same request id, granted scopes,
    granted audience and session subject. -/
theorem refreshed_records_carry_the_grant (cfg : Config) (now : Time) (q : RefreshReq) (client : Client) (orig : Req) :
    let r := (refreshStoreReq cfg now q client orig).sanitize []
    r.id = orig.id ∧ r.grantedScopes = appendAllUniq [] orig.grantedScopes ∧
    r.grantedAud = appendAllUniq [] orig.grantedAud ∧ r.sess.subject = orig.sess.subject := by
  simp [refreshStoreReq, Req.sanitize, stampSession]

/-- Code flow: a refresh token accompanies the access token exactly when the grant contains one of
    the configured refresh scopes (if any are configured) and the client the code was issued to is
    registered for the `refresh_token` grant. -/
theorem code_flow_refresh_token_iff_rule (s : MState) (q : RedeemReq) (a r i e sc)
    (h : (step s (.redeem q)).2.1 = .tokens a r i e sc) :
    ∃ sig rec, q.code.sig = some sig ∧ alookup s.ss.store.codes sig = some rec ∧
      (r.isSome = true ↔
        ((s.cfg.refreshScopes.isEmpty = true ∨ hasOneOf rec.req.grantedScopes s.cfg.refreshScopes = true) ∧
          rec.req.client.grants.contains "refresh_token" = true)) := by
  obtain ⟨sig, rec, _, hsig, hrec, _, _, _, _, _, _, _, _, _, _, _, hrt, _⟩ := (C02.redeem_success_facts s q a r i e sc h).ex
  refine ⟨sig, rec, hsig, hrec, ?_⟩
  rw [hrt]
  simp [canIssueRefresh]

end Fosite.Props.C05

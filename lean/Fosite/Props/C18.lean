/-
  C18 — "Storage failures never yield tokens and never leave a half-applied grant."

  All theorems quantify over EVERY run configuration `rc` (every fault plan `rc.plan : Nat → Option Err`:
  every storage-call index as failure point, every error kind, single faults, pairs, any number),
  every state `s : MState` and every operation; where `rc.tx` matters it is a hypothesis.
  `stepWith rc s op = (state after, response, storage-call log)`.

  Vocabulary (`Proofs/Tx.lean`):
    * `Unexpected c r` — call `c` answered `r` with `r.errKind = some e`, unless `e = not_found` at
      `getPKCE` / `getOIDC` / `deletePKCE` (the three calls where the handlers treat "not found" as an
      ordinary lookup answer).  So besides every injected failure it also covers the store's own
      not-found / invalidated / inactive answers wherever the handler turns them into an error response.
    * `traceOK TxSt.init log = some t` — the log is accepted by the transaction automaton
      (`beginTx` only with no transaction opened before; `commitTx` only inside the open transaction and
      only if nothing `dirtying` happened in it; `rollbackTx` only inside the open transaction).
    * `Out.issues` — the response hands something out (tokens, an authorize response, device/user codes,
      a request_uri); `Out.bearsToken` — it contains an access, refresh or ID token.
-/
import Fosite.Proofs.TxHandlers
namespace Fosite.Props.C18
open Fosite.Model

/-! ## 1. No tokens after a storage failure (transactional store or not) -/

/-- what the calculus gives for one operation, for every run configuration -/
theorem post_of_stepWith (rc : RunCfg) (s : MState) (op : Op) (p : Prog Out) (hp : op.prog s = some p) :
    ∃ t, Post op.txn op.strict t (stepWith rc s op).2.1 ∧
      t.failed = (stepWith rc s op).2.2.any (fun e => unexp e.1 e.2) := by
  obtain ⟨hl, ho, _⟩ := stepWith_log rc s op p hp
  obtain ⟨t, hK, hf⟩ := txK_sound_failed rc p (Post op.txn op.strict) T0 { ss := s.ss } (tx_op s op p hp)
  refine ⟨t, by rw [ho]; exact hK, ?_⟩
  rw [hl, hf]; rfl

/-- **If the response hands anything out, no storage call of the request failed unexpectedly** — for
    every fault plan, over a transactional store and over a plain one. -/
theorem storage_failure_never_yields_anything (rc : RunCfg) (s : MState) (op : Op)
    (h : (stepWith rc s op).2.1.issues = true) :
    ∀ e ∈ (stepWith rc s op).2.2, ¬ Unexpected e.1 e.2 := by
  cases hp : op.prog s with
  | none =>
    obtain ⟨h1, _, h3⟩ := stepWith_noprog rc s op hp
    rw [h1, h3]; intro e he; cases he
  | some p =>
    obtain ⟨t, hK, hf⟩ := post_of_stepWith rc s op p hp
    have hfalse := ((Post_spec _ _ t _ hK).2.1 h).1
    rw [hfalse] at hf
    intro e he hu
    have := List.any_eq_false.mp hf.symm e he
    exact this hu

/-- **C18, first sentence.**  If the response contains an access, refresh or ID token, the log of the
    request contains no unexpected storage failure. -/
theorem storage_failure_never_yields_tokens (rc : RunCfg) (s : MState) (op : Op)
    (h : (stepWith rc s op).2.1.bearsToken = true) :
    ∀ e ∈ (stepWith rc s op).2.2, ¬ Unexpected e.1 e.2 :=
  storage_failure_never_yields_anything rc s op (Out.issues_of_bearsToken _ h)

/-- … read the other way: after an unexpected storage failure the request is refused (every endpoint
    except revocation and introspection, whose answers are not error/issue shaped). -/
theorem unexpected_failure_is_refused (rc : RunCfg) (s : MState) (op : Op) (hs : op.strict = true)
    (e : Call × Res) (he : e ∈ (stepWith rc s op).2.2) (hu : Unexpected e.1 e.2) :
    ∃ err, (stepWith rc s op).2.1 = .err err := by
  cases hp : op.prog s with
  | none =>
    obtain ⟨h1, _, h3⟩ := stepWith_noprog rc s op hp
    rw [h1, h3] at he; cases he
  | some p =>
    obtain ⟨t, hK, _⟩ := post_of_stepWith rc s op p hp
    rcases (Post_spec _ _ t _ hK).2.2.2.2.2.2 hs with hi | hi
    · exact absurd hu (storage_failure_never_yields_anything rc s op hi e he)
    · cases ho : (stepWith rc s op).2.1 <;> simp [ho, Out.isErr] at hi
      exact ⟨_, rfl⟩

/-- the refresh flow's error mapping: a serialization conflict is answered `invalid_request` (the
    retryable error) whenever the rollback itself does not fail.  (The code and device flows answer
    `server_error` for every failure inside their transaction — see the report.) -/
theorem serialization_conflict_maps_to_retryable (rc : RunCfg) (rs : RState) (h : rc.plan rs.idx = none) (htx : rc.tx = true) :
    (run rc rs (refreshStorageError .serialization_failure)).2 = .invalid_request := by
  simp [refreshStorageError, RState.step, Call.isSilent, Call.isTx, htx, h, Res.errKind,
    Bind.bind, Prog.bind, call, Pure.pure]

/-! ## 2. Transaction discipline (transactional store) -/

/-- **The log of every operation is accepted by the automaton**, and the final automaton state satisfies
    the handler post-condition: no transaction left open; an issuing response only after the commit with
    no failed call; a failure inside the transaction ⇒ rolled back (or rollback failed) and an error
    answer; rolled back ⇒ nothing was written outside the transaction. -/
theorem transaction_discipline (rc : RunCfg) (htx : rc.tx = true) (s : MState) (op : Op) :
    ∃ t, traceOK TxSt.init (stepWith rc s op).2.2 = some t ∧ t.phase ≠ .inTx ∧ t.WF ∧
      (∀ p, op.prog s = some p → Post op.txn op.strict t (stepWith rc s op).2.1) := by
  cases hp : op.prog s with
  | none =>
    obtain ⟨h1, _, h3⟩ := stepWith_noprog rc s op hp
    rw [h1, h3]
    exact ⟨TxSt.init, rfl, by decide, TxSt.init_WF, fun p h => by cases h⟩
  | some p =>
    obtain ⟨hl, ho, _⟩ := stepWith_log rc s op p hp
    obtain ⟨t, h1, h2⟩ := txK_sound rc htx p (Post op.txn op.strict) T0 { ss := s.ss } (tx_op s op p hp)
    rw [hl, ho]
    exact ⟨t, h1, (Post_spec _ _ t _ h2).1, traceOK_WF _ _ _ h1 TxSt.init_WF, fun _ _ => h2⟩

/-- **begin is matched by exactly one commit or rollback** — as a statement about the log itself: at most
    one `beginTx` succeeds, and the log contains exactly as many transaction-ending entries (successful
    `commitTx`, or `rollbackTx` attempts) as successful `beginTx`. -/
theorem begin_matched_by_exactly_one_end (rc : RunCfg) (htx : rc.tx = true) (s : MState) (op : Op) :
    (stepWith rc s op).2.2.countP isBeginOk = (stepWith rc s op).2.2.countP isTxEnd ∧
    (stepWith rc s op).2.2.countP isBeginOk ≤ 1 := by
  obtain ⟨t, h1, h2, _⟩ := transaction_discipline rc htx s op
  exact traceOK_begin_matched t _ h1 h2

/-- **never a commit after a failed write**: a `commitTx` attempt happens only inside the open
    transaction with nothing dirtying before it … -/
theorem commit_only_in_clean_transaction (rc : RunCfg) (htx : rc.tx = true) (s : MState) (op : Op)
    (l1 l2 : List (Call × Res)) (r : Res) (h : (stepWith rc s op).2.2 = l1 ++ (Call.commitTx, r) :: l2) :
    ∃ t1, traceOK TxSt.init l1 = some t1 ∧ t1.phase = .inTx ∧ t1.dirty = false := by
  obtain ⟨t, h1, _⟩ := transaction_discipline rc htx s op
  rw [h, traceOK_append] at h1
  cases ha : traceOK TxSt.init l1 with
  | none => rw [ha] at h1; cases h1
  | some t1 =>
    rw [ha] at h1
    simp only [Option.bind_some, traceOK] at h1
    refine ⟨t1, rfl, ?_⟩
    cases hd : txStep t1 (Call.commitTx, r) with
    | none => rw [hd] at h1; cases h1
    | some td =>
      unfold txStep at hd
      simp only [txStepC] at hd
      split at hd
      · assumption
      · cases hd

/-- … as a statement about the log itself: between the successful `beginTx` and any later `commitTx`
    attempt no call answered an error (other than a tolerated not-found) and no commit attempt failed. -/
theorem no_commit_after_failed_write (rc : RunCfg) (htx : rc.tx = true) (s : MState) (op : Op)
    (l0 l1 l2 : List (Call × Res)) (r0 r : Res)
    (h : (stepWith rc s op).2.2 = l0 ++ (Call.beginTx, r0) :: (l1 ++ (Call.commitTx, r) :: l2)) (hr0 : r0.errKind = none) :
    ∀ e ∈ l1, dirtying e = false := by
  obtain ⟨t, h1, _⟩ := transaction_discipline rc htx s op
  rw [h] at h1
  exact traceOK_commit_clean TxSt.init t l0 l1 l2 r0 r h1 (cls_of_errKind_none r0 hr0)

/-- over a plain store `MaybeBeginTx` / `MaybeCommitTx` / `MaybeRollbackTx` are no storage calls -/
theorem no_transaction_calls_without_transactional_store (rc : RunCfg) (htx : rc.tx = false) (s : MState) (op : Op) :
    ∀ e ∈ (stepWith rc s op).2.2, e.1.isTx = false := by
  cases hp : op.prog s with
  | none =>
    obtain ⟨h1, _, h3⟩ := stepWith_noprog rc s op hp
    rw [h1, h3]; intro e he; cases he
  | some p =>
    rw [(stepWith_log rc s op p hp).1]
    clear hp
    generalize ({ ss := s.ss } : RState) = rs
    induction p generalizing rs with
    | ret a => intro e he; cases he
    | call c k ih =>
      intro e he
      simp only [runLog, List.mem_append] at he
      rcases he with he | he
      · unfold stepLog at he
        by_cases hs : c.isSilent = true
        · simp [hs] at he
        · simp only [hs, Bool.false_eq_true, if_false, htx, Bool.not_false, Bool.and_true] at he
          by_cases ht : c.isTx = true
          · simp [ht] at he
          · simp only [ht, Bool.false_eq_true, if_false, List.mem_singleton] at he
            rw [he]; simpa using ht
      · exact ih _ _ e he

/-! ## 3. A failure inside the issuing transaction leaves every record as it was -/

/-- **Atomicity.**  Transactional store: if the request's transaction was rolled back successfully
    (the log shows `rollbackTx = ok`; by `transaction_discipline` that happens exactly when something
    failed inside the issuing transaction, and the answer is an error), then every table of the store —
    codes, access and refresh tokens, both request-id indices, PKCE, OIDC, PAR, device — is exactly as
    before the request. -/
theorem failed_transaction_leaves_records_unchanged (rc : RunCfg) (htx : rc.tx = true) (s : MState) (op : Op)
    (h : (Call.rollbackTx, Res.ok) ∈ (stepWith rc s op).2.2) :
    (stepWith rc s op).1.ss.store = s.ss.store ∧ ∃ e, (stepWith rc s op).2.1 = .err e := by
  cases hp : op.prog s with
  | none =>
    obtain ⟨h1, _, h3⟩ := stepWith_noprog rc s op hp
    rw [h1, h3] at h; cases h
  | some p =>
    obtain ⟨hl, ho, hss⟩ := stepWith_log rc s op p hp
    obtain ⟨t, h1, h2⟩ := txK_sound rc htx p (Post op.txn op.strict) T0 { ss := s.ss } (tx_op s op p hp)
    rw [hl] at h
    have hph : t.phase = .rolledBack := traceOK_of_rollback_ok T0 t _ h1 .ok rfl h
    obtain ⟨_, _, _, h4, h5, _⟩ := Post_spec _ _ t _ h2
    refine ⟨?_, ?_⟩
    · rw [hss]
      exact rolledBack_store_unchanged rc htx p { ss := s.ss } t h1 hph (h5 hph)
    · have := h4 (Or.inl hph)
      rw [ho]
      cases hout : (run rc { ss := s.ss } p).2 <;> simp [hout, Out.isErr] at this
      exact ⟨_, rfl⟩

/-- the same with the automaton's words: the run ended in phase `rolledBack` -/
theorem rolled_back_leaves_records_unchanged (rc : RunCfg) (htx : rc.tx = true) (s : MState) (op : Op) (t : TxSt)
    (h : traceOK TxSt.init (stepWith rc s op).2.2 = some t) (hph : t.phase = .rolledBack) :
    (stepWith rc s op).1.ss.store = s.ss.store := by
  cases hp : op.prog s with
  | none =>
    obtain ⟨h1, _, h3⟩ := stepWith_noprog rc s op hp
    rw [h1, h3] at h; cases h; cases hph
  | some p =>
    obtain ⟨hl, _, hss⟩ := stepWith_log rc s op p hp
    obtain ⟨t', h1, h2⟩ := txK_sound rc htx p (Post op.txn op.strict) T0 { ss := s.ss } (tx_op s op p hp)
    rw [hl] at h
    have : t' = t := by
      have h1' : traceOK TxSt.init (runLog rc { ss := s.ss } p) = some t' := h1
      rw [h] at h1'; cases h1'; rfl
    subst this
    rw [hss]
    exact rolledBack_store_unchanged rc htx p { ss := s.ss } t' h1 hph ((Post_spec _ _ t' _ h2).2.2.2.2.1 hph)

/-- **Retry after a rolled-back failure** (`_partial`: what is proved is that the state after the failed
    request equals the state before it in everything except the mint counter `next`, which only grew,
    and that the retry runs the very same endpoint program; that the retry then *behaves* like the
    original request up to the renaming of freshly minted signatures is not proved here). -/
theorem retry_after_rollback_partial (rc : RunCfg) (htx : rc.tx = true) (s : MState) (op : Op)
    (h : (Call.rollbackTx, Res.ok) ∈ (stepWith rc s op).2.2) :
    (stepWith rc s op).1 = { s with ss := { s.ss with next := (stepWith rc s op).1.ss.next } } ∧
    s.ss.next ≤ (stepWith rc s op).1.ss.next ∧
    op.prog (stepWith rc s op).1 = op.prog s := by
  have hstore := (failed_transaction_leaves_records_unchanged rc htx s op h).1
  cases hp : op.prog s with
  | none =>
    obtain ⟨h1, _, h3⟩ := stepWith_noprog rc s op hp
    rw [h1, h3] at h; cases h
  | some p =>
    have hsw := stepWith_prog rc s op p hp
    obtain ⟨hc, hd, hn⟩ := run_frame rc p { ss := s.ss }
    have hss : (stepWith rc s op).1.ss = (run rc { ss := s.ss } p).1.ss := (stepWith_log rc s op p hp).2.2
    rw [hss] at hstore
    have hstate : (stepWith rc s op).1 = { s with ss := { s.ss with next := (stepWith rc s op).1.ss.next } } := by
      rw [hsw]
      simp only
      generalize (run rc { ss := s.ss } p).1.ss = ss' at hstore hc hd
      cases ss'
      simp only at hstore hc hd
      subst hstore hc hd
      rfl
    refine ⟨hstate, by rw [hss]; exact hn, ?_⟩
    rw [hstate, ← hp]
    cases op <;> rfl

/-! ## 4. Fail-closed in every other case: what was invalidated stays invalid -/

theorem codesBelow_preserved (rc : RunCfg) (s : MState) (op : Op) (h : CodesBelow s.ss) : CodesBelow (stepWith rc s op).1.ss :=
  stepWith_preserves rc CodesBelow exec_CodesBelow
    (fun _ _ h hn s rec hl => Nat.lt_of_lt_of_le (h s rec hl) hn)
    (fun s op _ h => step_preserves CodesBelow exec_CodesBelow (fun _ _ h => h) (fun _ _ _ h => h) s op h) s op h

/-- **A used authorization code stays used** under every fault plan, transactional store or not: no
    failure and no rollback resurrects it (the snapshot a rollback restores is taken inside the same
    request, so it already shows the code as used). -/
theorem fail_closed_code (rc : RunCfg) (s : MState) (op : Op) (sig : Nat) (hb : CodesBelow s.ss) (hd : CodeDead s.ss sig) :
    CodeDead (stepWith rc s op).1.ss sig :=
  (stepWith_preserves rc (fun ss => CodesBelow ss ∧ CodeDead ss sig)
    (fun ss c h => ⟨exec_CodesBelow ss c h.1, exec_CodeDead ss c sig h.1 h.2⟩)
    (fun ss n h hn => CodeDeadInv_next sig ss n h hn)
    (fun s op _ h => step_preserves (fun ss => CodesBelow ss ∧ CodeDead ss sig)
      (fun ss c h => ⟨exec_CodesBelow ss c h.1, exec_CodeDead ss c sig h.1 h.2⟩) (fun _ _ h => h) (fun _ _ _ h => h) s op h)
    s op ⟨hb, hd⟩).2

/-- **A rotated / revoked refresh token stays dead** under every fault plan, transactional or not. -/
theorem fail_closed_refresh_token (rc : RunCfg) (s : MState) (op : Op) (sig : Nat) (hd : RTDead s.ss sig) :
    RTDead (stepWith rc s op).1.ss sig :=
  stepWith_preserves rc (fun ss => RTDead ss sig) (fun ss c h => exec_RTDead ss c sig h)
    (fun ss n h hn => RTDead_next sig ss n h hn) (fun s op _ h => step_RTDead s op sig h) s op hd

/-- **A used device code stays dead** under every fault plan, transactional or not. -/
theorem fail_closed_device_code (rc : RunCfg) (s : MState) (op : Op) (sig : Nat) (hd : DevDead s.ss sig) :
    DevDead (stepWith rc s op).1.ss sig := by
  refine stepWith_preserves rc (fun ss => DevDead ss sig) (fun ss c h => exec_DevDead ss c sig h)
    (fun ss n h hn => DevDead_next sig ss n h hn) ?_ s op hd
  intro s op hp h
  cases op with
  | setCfg c => exact h
  | setClient c => exact h
  | advance d => exact h
  | deviceDecide sig' acc gs ga sub =>
    simp only [step]
    cases hl : alookup s.ss.store.device sig' with
    | none => exact h
    | some d =>
      refine ⟨h.1, ?_⟩
      intro d2 hl2
      simp only at hl2
      rw [alookup_aset] at hl2
      by_cases hs : sig = sig'
      · subst hs
        simp only [if_true] at hl2
        have hu := h.2 d hl
        cases hl2
        by_cases hacc : acc = true <;> simp [hacc, hu]
      · simp only [hs, if_false] at hl2; exact h.2 d2 hl2
  | _ => simp [Op.prog] at hp

/-- **A consumed request_uri stays consumed** under every fault plan, transactional or not. -/
theorem fail_closed_request_uri (rc : RunCfg) (s : MState) (op : Op) (u : Nat) (hd : ParDead s.ss u) :
    ParDead (stepWith rc s op).1.ss u := by
  refine stepWith_preserves rc (fun ss => ParDead ss u) (fun ss c h => exec_ParDead ss c u h)
    (fun ss n h hn => ParDead_next u ss n h hn) ?_ s op hd
  intro s op hp h
  cases op with
  | setCfg c => exact h
  | setClient c => exact h
  | advance d => exact h
  | deviceDecide sig' acc gs ga sub =>
    simp only [step]
    cases hl : alookup s.ss.store.device sig' with
    | none => exact h
    | some d => exact h
  | _ => simp [Op.prog] at hp

/-- **Without transactions an invalidation is final within the request too**: if the log shows that the
    code was invalidated, the code is dead afterwards whatever failed later in the same request (the
    request is refused by `storage_failure_never_yields_tokens`, and the code cannot be presented again). -/
theorem invalidated_code_stays_invalid_without_transactions (rc : RunCfg) (htx : rc.tx = false) (s : MState) (op : Op)
    (sig : Nat) (hb : CodesBelow s.ss) (h : (Call.invalidateCode (some sig), Res.ok) ∈ (stepWith rc s op).2.2) :
    CodeDead (stepWith rc s op).1.ss sig := by
  cases hp : op.prog s with
  | none =>
    obtain ⟨h1, _, h3⟩ := stepWith_noprog rc s op hp
    rw [h1, h3] at h; cases h
  | some p =>
    obtain ⟨hl, _, hss⟩ := stepWith_log rc s op p hp
    rw [hl] at h
    rw [hss]
    refine run_mark_persists rc htx CodesBelow (fun ss => CodeDead ss sig) exec_CodesBelow
      (fun ss c h => exec_CodeDead ss c sig h.1 h.2) _ _ (by intro e he; cases he) ?_ p { ss := s.ss } hb h
    intro ss _ hr
    obtain ⟨sig', rec, hk, _, hst⟩ := exec_invalidateCode_ok ss (some sig) (by rw [hr]; rfl)
    cases hk
    rw [hst]
    exact ⟨{ rec with active := false }, by simp [alookup_aset_self], rfl⟩

/-! ## 5. Non-vacuity: concrete runs (kernel evaluation) -/

def exClient : Client :=
  { id := "c1", grants := ["authorization_code", "refresh_token"], scopes := ["offline"], redirects := ["https://c1/cb"] }

/-- a registered client and one issued authorization code (signature 1, request id 0) -/
def exState : MState :=
  after {} [ .setClient exClient,
             .authorize { clientId := "c1", responseTypes := ["code"], redirect := "https://c1/cb", scopes := ["offline"],
                          grantScopes := ["offline"], subject := "u" } ]

def exRedeem : Op :=
  .redeem { clientId := "c1", credOk := true, code := { sig := some 1, exact := true }, redirect := "https://c1/cb" }

/-- … after the code has been redeemed: access token 3, refresh token 4 -/
def exState2 : MState := (step exState exRedeem).1

def exRefresh : Op := .refresh { clientId := "c1", credOk := true, token := { sig := some 4, exact := true } }

def isErrOut : Out → Bool | .err _ => true | _ => false
def isErrWith (e : Err) : Out → Bool | .err e' => e' == e | _ => false
def hasEntry (f : Call × Res → Bool) (l : List (Call × Res)) : Bool := l.any f
def isFailedCreateAccess : Call × Res → Bool | (.createAccess _, .fail _) => true | _ => false
def isRollbackOk : Call × Res → Bool | (.rollbackTx, .ok) => true | _ => false
def isFailedRotate : Call × Res → Bool | (.rotateRefresh _ _, .fail .serialization_failure) => true | _ => false
def codeActive (s : MState) (sig : Nat) : Option Bool := (alookup s.ss.store.codes sig).map (·.active)

/-- transactional store, `CreateAccessTokenSession` (storage call 6 of the request) fails -/
def rcTxFault : RunCfg := { plan := planOf [(6, .generic)], tx := true }
/-- plain store, `CreateAccessTokenSession` (storage call 5: the transaction calls are no storage calls) fails -/
def rcPlainFault : RunCfg := { plan := planOf [(5, .generic)], tx := false }
/-- transactional store, `RotateRefreshToken` (storage call 3) answers a serialization conflict -/
def rcSerialization : RunCfg := { plan := planOf [(3, .serialization_failure)], tx := true }

set_option maxRecDepth 100000 in
/-- the code is live before the request -/
example : codeActive exState 1 = some true := by decide

set_option maxRecDepth 100000 in
/-- **transactional store, fault at `createAccess`**: the fault hits, the transaction is rolled back, the
    request is refused, and the store — in particular the code — is exactly as before. -/
example :
    hasEntry isFailedCreateAccess (stepWith rcTxFault exState exRedeem).2.2 = true ∧
    hasEntry isRollbackOk (stepWith rcTxFault exState exRedeem).2.2 = true ∧
    isErrWith .server_error (stepWith rcTxFault exState exRedeem).2.1 = true ∧
    traceOK TxSt.init (stepWith rcTxFault exState exRedeem).2.2 = some { phase := .rolledBack, dirty := true, failed := true } ∧
    (stepWith rcTxFault exState exRedeem).1.ss.store = exState.ss.store ∧
    codeActive (stepWith rcTxFault exState exRedeem).1 1 = some true := by
  decide

set_option maxRecDepth 100000 in
/-- … and the fault-free retry succeeds -/
example : (step (stepWith rcTxFault exState exRedeem).1 exRedeem).2.1.bearsToken = true := by decide

set_option maxRecDepth 100000 in
/-- **plain store, same fault**: refused, no token record, and the code stays invalidated (fail-closed) -/
example :
    hasEntry isFailedCreateAccess (stepWith rcPlainFault exState exRedeem).2.2 = true ∧
    isErrWith .server_error (stepWith rcPlainFault exState exRedeem).2.1 = true ∧
    (stepWith rcPlainFault exState exRedeem).2.1.bearsToken = false ∧
    codeActive (stepWith rcPlainFault exState exRedeem).1 1 = some false ∧
    (stepWith rcPlainFault exState exRedeem).1.ss.store.access = [] ∧
    (stepWith rcPlainFault exState exRedeem).1.ss.store.refresh = [] := by
  decide

set_option maxRecDepth 100000 in
/-- **refresh, serialization conflict in the transaction**: `invalid_request` (retryable), rolled back,
    the presented refresh token is still active -/
example :
    hasEntry isFailedRotate (stepWith rcSerialization exState2 exRefresh).2.2 = true ∧
    isErrWith .invalid_request (stepWith rcSerialization exState2 exRefresh).2.1 = true ∧
    (stepWith rcSerialization exState2 exRefresh).1.ss.store = exState2.ss.store ∧
    (alookup exState2.ss.store.refresh 4).map (·.active) = some true := by
  decide

set_option maxRecDepth 100000 in
/-- **fault-free run over a transactional store**: accepted by the automaton, committed, tokens
    (`wroteOutside`: the PKCE session is deleted after the commit) -/
example :
    traceOK TxSt.init (stepWith { tx := true } exState exRedeem).2.2 = some { phase := .committed, wroteOutside := true } ∧
    (stepWith { tx := true } exState exRedeem).2.1.bearsToken = true ∧
    codeActive (stepWith { tx := true } exState exRedeem).1 1 = some false := by
  decide

set_option maxRecDepth 100000 in
/-- **two faults** (the write and the rollback): refused, transaction abandoned -/
example :
    isErrWith .server_error (stepWith { plan := planOf [(6, .generic), (7, .generic)], tx := true } exState exRedeem).2.1 = true ∧
    traceOK TxSt.init (stepWith { plan := planOf [(6, .generic), (7, .generic)], tx := true } exState exRedeem).2.2 =
      some { phase := .abandoned, dirty := true, failed := true } := by
  decide

/-! ## 6. Where the model (hence, if the replay confirms it, the code) falls short of the statement

  These are facts of the model, recorded as evaluated examples so that a change of behaviour breaks them. -/

def isFailedDeletePKCE : Call × Res → Bool | (.deletePKCE _, .fail _) => true | _ => false
def isFailedInvalidate : Call × Res → Bool | (.invalidateCode _, .fail .serialization_failure) => true | _ => false

set_option maxRecDepth 100000 in
/-- **authorization_code flow, serialization conflict inside the transaction**: rolled back, store
    unchanged — but the answer is `server_error`, not the retryable `invalid_request` the refresh flow
    gives (`rollbackThen .server_error`; Go: `flow_authorize_code_token.go` has no counterpart of
    `handleRefreshTokenEndpointStorageError`). -/
example :
    hasEntry isFailedInvalidate (stepWith { plan := planOf [(5, .serialization_failure)], tx := true } exState exRedeem).2.2 = true ∧
    isErrWith .server_error (stepWith { plan := planOf [(5, .serialization_failure)], tx := true } exState exRedeem).2.1 = true ∧
    (stepWith { plan := planOf [(5, .serialization_failure)], tx := true } exState exRedeem).1.ss.store = exState.ss.store := by
  decide

set_option maxRecDepth 100000 in
/-- **a failure AFTER the commit** (`DeletePKCERequestSession`, storage call 10; likewise `getOIDC` /
    `deleteOIDC`): the request is refused although the grant has been applied and committed — the code
    is used up, the token records exist, nothing is delivered.  Fail-closed, but the legitimate holder
    cannot retry. -/
example :
    hasEntry isFailedDeletePKCE (stepWith { plan := planOf [(10, .generic)], tx := true } exState exRedeem).2.2 = true ∧
    isErrWith .server_error (stepWith { plan := planOf [(10, .generic)], tx := true } exState exRedeem).2.1 = true ∧
    traceOK TxSt.init (stepWith { plan := planOf [(10, .generic)], tx := true } exState exRedeem).2.2 =
      some { phase := .committed, failed := true } ∧
    codeActive (stepWith { plan := planOf [(10, .generic)], tx := true } exState exRedeem).1 1 = some false ∧
    (stepWith { plan := planOf [(10, .generic)], tx := true } exState exRedeem).1.ss.store.access.length = 1 ∧
    (stepWith { plan := planOf [(10, .generic)], tx := true } exState exRedeem).1.ss.store.refresh.length = 1 := by
  decide

end Fosite.Props.C18

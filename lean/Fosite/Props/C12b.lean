/-
  C12 (continued) — hierarchic scope strategy and the two audience strategies decide exactly as
  documented.  Property theorems only; lemmas live in `Fosite/Proofs/{ScopeHier,Audience}.lean`,
  the documented meaning in `Fosite/Spec/{Scope,Audience}.lean`.
  (Same namespace as `Props/C12.lean`; separate file.)
-/
import Fosite.Proofs.ScopeHier
import Fosite.Proofs.Audience
namespace Fosite.Props.C12
open Fosite Fosite.Model

/-! ### Hierarchic scopes -/

/-- One registered scope against one requested scope: the Go loop (segment by segment, with its
    length guard) decides "equal, or registered scope + '.' is a prefix of the requested scope". -/
theorem hierarchic_one_eq_spec (h n : List Char) :
    hierarchicOne h n = (h == n || (h ++ ['.']).isPrefixOf n) :=
  Proofs.hierarchicOne_eq h n

/-- `HierarchicScopeStrategy` (model of the Go loop) decides exactly the documented relation, for
    every list of registered scopes and every needle. -/
theorem hierarchic_model_eq_spec (haystack : List (List Char)) (needle : List Char) :
    hierarchicScope haystack needle = Spec.hierarchic haystack needle :=
  Proofs.hierarchic_model_eq_spec haystack needle

/-- hierarchic parents cover dotted children … -/
theorem hierarchic_parent_covers_child (parent rest : List Char) :
    hierarchicScope [parent] (parent ++ '.' :: rest) = true := by
  rw [hierarchic_model_eq_spec]
  have h : (parent ++ ['.']).isPrefixOf (parent ++ '.' :: rest) = true := by
    rw [List.isPrefixOf_iff_prefix]
    exact ⟨rest, by simp⟩
  simp [Spec.hierarchic, h]

/-- … and nothing else: an accepted needle is a registered scope or a dotted child of one. -/
theorem hierarchic_accepts_only_children (haystack : List (List Char)) (needle : List Char)
    (h : hierarchicScope haystack needle = true) :
    ∃ p ∈ haystack, needle = p ∨ ∃ rest, needle = p ++ '.' :: rest := by
  rw [hierarchic_model_eq_spec] at h
  simp only [Spec.hierarchic, List.any_eq_true, Bool.or_eq_true, beq_iff_eq,
    List.isPrefixOf_iff_prefix] at h
  obtain ⟨p, hp, hc⟩ := h
  refine ⟨p, hp, ?_⟩
  rcases hc with e | ⟨r, e⟩
  · exact Or.inl e.symm
  · exact Or.inr ⟨r, by rw [← e]; simp⟩

/-- a child never covers its parent -/
theorem hierarchic_child_does_not_cover_parent (parent rest : List Char) :
    hierarchicScope [parent ++ '.' :: rest] parent = false := by
  rw [hierarchic_model_eq_spec]
  have h1 : (parent ++ '.' :: rest == parent) = false := by
    rw [beq_eq_false_iff_ne]
    intro e
    have := congrArg List.length e
    simp only [List.length_append, List.length_cons] at this
    omega
  have h2 : ((parent ++ '.' :: rest) ++ ['.']).isPrefixOf parent = false := by
    cases hp : ((parent ++ '.' :: rest) ++ ['.']).isPrefixOf parent with
    | false => rfl
    | true =>
      have := Proofs.isPrefixOf_length_le _ _ hp
      simp only [List.length_append, List.length_cons, List.length_nil] at this
      omega
  simp only [Spec.hierarchic, List.any_cons, List.any_nil, h1, h2, Bool.or_false]

-- README examples ("Scopes"; non-vacuity: the relation is neither empty nor full)
example : hierarchicScope ["photos".toList] "photos".toList = true := by decide
example : hierarchicScope ["photos".toList] "photos.read".toList = true := by decide
example : hierarchicScope ["photos".toList] "photos.read.own".toList = true := by decide
example : hierarchicScope ["photos.read".toList] "photos".toList = false := by decide
example : hierarchicScope ["photos.read".toList] "photos.write".toList = false := by decide
example : hierarchicScope ["photos".toList] "photosx".toList = false := by decide
example : hierarchicScope ["photos".toList] "photos.".toList = true := by decide
example : hierarchicScope ["photos.".toList] "photos.read".toList = false := by decide
example : hierarchicScope ["foo".toList, "photos".toList] "photos.read".toList = true := by decide
example : hierarchicScope [] "photos".toList = false := by decide
example : hierarchicScope ["".toList] ".a".toList = true := by decide
example : hierarchicScope ["".toList] "a".toList = false := by decide

/-! ### Audience -/

/-- The condition inside `DefaultAudienceMatchingStrategy`, on the components `url.Parse` produced
    (Go: `nu.Path[:len(allowedPath)+1]`, `TrimRight`), is the documented rule — same scheme, same
    host, and `p = hp ∨ p = trim hp ∨ (trim hp ++ "/")` a prefix of `p` — for all component values. -/
theorem audience_default_one_eq_spec (hu nu : URLParts) :
    audDefaultOne hu nu = Spec.audienceOne hu nu :=
  Proofs.audDefaultOne_eq hu nu

/-- `Spec.trimSlashes` really is "remove the trailing slashes": the string is the trim followed by
    slashes only, and the trim does not end in a slash; these two facts determine it. -/
theorem trim_characterised (s : List Char) :
    (∃ k, s = Spec.trimSlashes s ++ List.replicate k '/') ∧
      (Spec.trimSlashes s).getLast? ≠ some '/' ∧
      ∀ t k, s = t ++ List.replicate k '/' → t.getLast? ≠ some '/' → Spec.trimSlashes s = t :=
  ⟨Proofs.trimSlashes_decompose s, Proofs.trimSlashes_getLast s,
    fun t k h1 h2 => Proofs.trimSlashes_unique s t k h1 h2⟩

/-- `ExactAudienceMatchingStrategy`: accepted iff every requested audience is in the whitelist. -/
theorem audience_exact_eq_spec (haystack needles : List String) :
    audExact haystack needles = Spec.audienceExact haystack needles :=
  Proofs.audExact_eq haystack needles

/-- `DefaultAudienceMatchingStrategy`, parse-error-free case (every string parses): accepted iff every
    requested audience matches some whitelisted entry under the documented rule. -/
theorem audience_default_eq_spec (parse : String → URLParts) (haystack needles : List String) :
    audDefault (fun s => some (parse s)) haystack needles =
      Spec.audienceDefaultTotal parse haystack needles :=
  Proofs.audDefault_total_eq parse haystack needles

/-- `DefaultAudienceMatchingStrategy` with an arbitrary (partial) parser: the documented rule plus
    the parse-error behaviour of `Spec.audienceDefault`. -/
theorem audience_default_partial_eq_spec (parse : String → Option URLParts)
    (haystack needles : List String) :
    audDefault parse haystack needles = Spec.audienceDefault parse haystack needles :=
  Proofs.audDefault_eq parse haystack needles

/-- acceptance in quantifier form -/
theorem audience_default_accepts_iff (parse : String → Option URLParts)
    (haystack needles : List String) :
    audDefault parse haystack needles = none ↔
      ∀ n ∈ needles, ∃ nu, parse n = some nu ∧ (∀ h ∈ haystack, (parse h).isSome = true) ∧
        ∃ h ∈ haystack, ∃ hu, parse h = some hu ∧ Spec.audienceOne hu nu = true := by
  rw [audience_default_partial_eq_spec]; exact Proofs.audienceDefault_eq_none_iff _ _ _

/-- every refusal of the default strategy is `invalid_request` -/
theorem audience_default_refusal (parse : String → Option URLParts) (haystack needles : List String) :
    audDefault parse haystack needles = none ∨
      audDefault parse haystack needles = some .invalid_request := by
  rw [audience_default_partial_eq_spec]; exact Proofs.audienceDefault_cases _ _ _

/-- parse errors: an unparsable requested audience is refused -/
theorem audience_default_needle_parse_error (parse : String → Option URLParts)
    (haystack needles : List String) (n : String) (hn : n ∈ needles) (he : parse n = none) :
    audDefault parse haystack needles = some .invalid_request :=
  Proofs.audDefault_needle_parse_error parse haystack needles n hn he

/-- parse errors: with something requested, one unparsable whitelist entry refuses everything -/
theorem audience_default_haystack_parse_error (parse : String → Option URLParts)
    (haystack needles : List String) (hns : needles ≠ []) (h : String) (hh : h ∈ haystack)
    (he : parse h = none) : audDefault parse haystack needles = some .invalid_request :=
  Proofs.audDefault_haystack_parse_error parse haystack needles hns h hh he

/-- nothing requested: accepted (the whitelist is not even parsed) -/
theorem audience_default_no_needles (parse : String → Option URLParts) (haystack : List String) :
    audDefault parse haystack [] = none :=
  Proofs.audDefault_no_needles parse haystack

/-- the whitelisted path covers everything below it at a segment boundary -/
theorem audience_covers_subpaths (s h : String) (hp rest : List Char) :
    audDefaultOne ⟨s, h, String.ofList hp⟩
      ⟨s, h, String.ofList (Spec.trimSlashes hp ++ '/' :: rest)⟩ = true := by
  rw [audience_default_one_eq_spec]
  have hpre : (Spec.trimSlashes hp ++ ['/']).isPrefixOf (Spec.trimSlashes hp ++ '/' :: rest) = true := by
    rw [List.isPrefixOf_iff_prefix]; exact ⟨rest, by simp⟩
  simp [Spec.audienceOne, Spec.audiencePath, String.toList_ofList, hpre]

/-- different scheme or host (port and letter case included: plain string comparison) never match -/
theorem audience_needs_same_origin (hu nu : URLParts)
    (h : nu.scheme ≠ hu.scheme ∨ nu.host ≠ hu.host) : audDefaultOne hu nu = false := by
  rw [audience_default_one_eq_spec]
  rcases h with h | h <;> simp [Spec.audienceOne, h]

-- Examples on the components `url.Parse` yields (scheme, host, path).
private def u (scheme host path : String) : URLParts := ⟨scheme, host, path⟩

-- identical; trailing slash on either side
example : audDefaultOne (u "https" "api" "/v1") (u "https" "api" "/v1") = true := by decide
example : audDefaultOne (u "https" "api" "/v1") (u "https" "api" "/v1/") = true := by decide
example : audDefaultOne (u "https" "api" "/v1/") (u "https" "api" "/v1") = true := by decide
example : audDefaultOne (u "https" "api" "/v1//") (u "https" "api" "/v1") = true := by decide
example : audDefaultOne (u "https" "api" "/v1/") (u "https" "api" "/v1//") = true := by decide
-- sub-path at a segment boundary
example : audDefaultOne (u "https" "api" "/v1") (u "https" "api" "/v1/users/7") = true := by decide
example : audDefaultOne (u "https" "api" "") (u "https" "api" "/anything") = true := by decide
example : audDefaultOne (u "https" "api" "/") (u "https" "api" "/anything") = true := by decide
-- non-boundary prefix: https://api/v1 does not cover https://api/v10
example : audDefaultOne (u "https" "api" "/v1") (u "https" "api" "/v10") = false := by decide
example : audDefaultOne (u "https" "api" "/v1/") (u "https" "api" "/v10") = false := by decide
-- the parent is not covered by the child; an empty requested path only by an all-slash whitelist path
example : audDefaultOne (u "https" "api" "/v1/users") (u "https" "api" "/v1") = false := by decide
example : audDefaultOne (u "https" "api" "/v1") (u "https" "api" "") = false := by decide
example : audDefaultOne (u "https" "api" "/") (u "https" "api" "") = true := by decide
-- port difference, host case difference, scheme difference
example : audDefaultOne (u "https" "api" "/v1") (u "https" "api:443" "/v1") = false := by decide
example : audDefaultOne (u "https" "api:8080" "/v1") (u "https" "api:8081" "/v1") = false := by decide
example : audDefaultOne (u "https" "api" "/v1") (u "https" "API" "/v1") = false := by decide
example : audDefaultOne (u "https" "api" "/v1") (u "http" "api" "/v1") = false := by decide
-- the spec gives the same answers (independent formulation)
example : Spec.audienceOne (u "https" "api" "/v1") (u "https" "api" "/v1/") = true := by decide
example : Spec.audienceOne (u "https" "api" "/v1") (u "https" "api" "/v10") = false := by decide

-- List level, with a table standing in for `url.Parse` (`none` = parse error).
private def tbl : String → Option URLParts
  | "https://api/v1" => some (u "https" "api" "/v1")
  | "https://api/v1/" => some (u "https" "api" "/v1/")
  | "https://api/v10" => some (u "https" "api" "/v10")
  | "https://api/v1/x" => some (u "https" "api" "/v1/x")
  | "https://other/" => some (u "https" "other" "/")
  | "uuid-1" => some (u "" "" "uuid-1")
  | _ => none

example : audDefault tbl ["https://api/v1"] ["https://api/v1/", "https://api/v1/x"] = none := by decide
example : audDefault tbl ["https://other/", "https://api/v1"] ["https://api/v1/x"] = none := by decide
example : audDefault tbl ["https://api/v1"] ["https://api/v1/x", "https://api/v10"] = some .invalid_request := by decide
example : audDefault tbl ["https://api/v1"] [] = none := by decide
example : audDefault tbl [] ["https://api/v1"] = some .invalid_request := by decide
example : audDefault tbl ["uuid-1"] ["uuid-1"] = none := by decide
-- parse errors: "http://[::1" is refused both as requested and as whitelisted entry
example : audDefault tbl ["https://api/v1"] ["http://[::1"] = some .invalid_request := by decide
example : audDefault tbl ["https://api/v1", "http://[::1"] ["https://api/v1"] = some .invalid_request := by decide
example : audDefault tbl ["http://[::1"] [] = none := by decide
example : audExact ["a", "b"] ["b", "a", "b"] = none := by decide
example : audExact ["a", "b"] ["b", "c"] = some .invalid_request := by decide
example : audExact ["https://api/v1"] ["https://api/v1/"] = some .invalid_request := by decide
example : audExact [] [] = none := by decide

end Fosite.Props.C12

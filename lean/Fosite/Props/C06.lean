/-
  C06 — only server-minted, untampered tokens are accepted (opaque / HMAC half).
  Property theorems only; lemmas live in `Fosite/Proofs/HMAC.lean`.

  Every statement is for ALL secrets, key lists, tokens and for an arbitrary `Crypto`
  (MAC, base64 encoder / decoder).  Where a cryptographic fact is needed it is an explicit
  hypothesis (`Lawful`, `DotFree`, `MacCollisionFree`, `Unforgeable`), never an axiom; the
  `example`s at the end show the hypotheses are jointly satisfiable.

  "Part" of a token means the *decoded* random part / signature part (the reading that demands
  less): `WellFormed C tok r s` says `tok = a.b` with `r = dec a`, `s = dec b`.
-/
import Fosite.Proofs.HMAC
namespace Fosite.Props.C06
open Fosite Fosite.Model.HMAC Fosite.Spec.HMAC

/-! ### `Validate`: the loop is the declarative verdict -/

/-- `HMACStrategy.Validate` (model of the Go loop with its early exit) decides exactly the
    declarative verdict, for every global secret, rotated list, token and crypto. -/
theorem validate_eq_spec (C : Crypto) (g : Bytes) (rot : List Bytes) (tok : Str) :
    validate C g rot tok = verdict C (keyList g rot) tok :=
  Proofs.HMAC.validate_eq_verdict C g rot tok

/-- Acceptance, exactly: the token is well-formed and some key `k` of `[global] ++ rotated` has
    at least 32 bytes, authenticates the random part against the signature part with its first 32
    bytes, and every earlier key is at least 32 bytes long and merely mismatches. -/
theorem validate_iff (C : Crypto) (g : Bytes) (rot : List Bytes) (tok : Str) :
    validate C g rot tok = .ok ↔
      ∃ r s k, WellFormed C tok r s ∧ Accepting C (keyList g rot) r s k := by
  rw [validate_eq_spec]
  exact Proofs.HMAC.verdict_ok_iff C (keyList g rot) tok

/-- Accepted only if the random part authenticates against the signature part under the current
    or a rotated global secret of at least 32 bytes. -/
theorem accepted_only_if_authentic (C : Crypto) (g : Bytes) (rot : List Bytes) (tok : Str)
    (h : validate C g rot tok = .ok) :
    ∃ r s k, WellFormed C tok r s ∧ ((k = g ∧ g ≠ []) ∨ k ∈ rot) ∧ 32 ≤ k.length ∧ C.mac (k.take 32) r = s := by
  obtain ⟨r, s, k, hw, pre, post, hk, _, hlen, hmac⟩ := (validate_iff C g rot tok).mp h
  refine ⟨r, s, k, hw, ?_, hlen, hmac⟩
  have hm : k ∈ keyList g rot := by rw [hk]; simp
  unfold keyList at hm
  by_cases hg : g.length > 0
  · simp only [hg, if_true, List.cons_append, List.nil_append, List.mem_cons] at hm
    cases hm with
    | inl e => exact .inl ⟨e, fun e' => by simp [e'] at hg⟩
    | inr e => exact .inr e
  · simp only [hg, if_false, List.nil_append] at hm
    exact .inr hm

/-- A token that is not of the form `a.b` with non-empty, decodable parts is never accepted. -/
theorem malformed_rejected (C : Crypto) (g : Bytes) (rot : List Bytes) (tok : Str)
    (h : ¬ ∃ r s, WellFormed C tok r s) : validate C g rot tok ≠ .ok := by
  intro hv
  obtain ⟨r, s, _, hw, _⟩ := (validate_iff C g rot tok).mp hv
  exact h ⟨r, s, hw⟩

/-! ### short or missing secrets -/

/-- `Generate` refuses a global secret shorter than 32 bytes. -/
theorem generate_short_secret_refused (C : Crypto) (g : Bytes) (e : Int) (rng : Nat → Bytes)
    (h : g.length < 32) : generate C g e rng = .error .err_short_secret := by
  unfold generate minimumSecretLength
  simp [h]

/-- `Generate` succeeds iff the global secret has at least 32 bytes. -/
theorem generate_ok_iff (C : Crypto) (g : Bytes) (e : Int) (rng : Nat → Bytes) :
    (∃ t, generate C g e rng = .ok t) ↔ 32 ≤ g.length := by
  unfold generate minimumSecretLength
  by_cases h : g.length < 32
  · simp [h]
  · simp [h]; omega

/-- No secret at all: every token is refused. -/
theorem no_keys_refused (C : Crypto) (rot : List Bytes) (tok : Str) (h : rot = []) :
    validate C [] rot tok = .err_no_keys := by
  subst h
  simp [validate, keyList]

/-- If the first key of `[global] ++ rotated` is shorter than 32 bytes, every token is refused. -/
theorem short_first_key_refused (C : Crypto) (g : Bytes) (rot : List Bytes) (tok : Str)
    (k0 : Bytes) (ks : List Bytes) (hk : keyList g rot = k0 :: ks) (h : k0.length < 32) :
    validate C g rot tok = .err_short_secret := by
  rw [validate_eq_spec, hk]
  exact Proofs.HMAC.verdict_short_first C k0 ks tok h

/-- A non-empty global secret shorter than 32 bytes refuses every token, whatever the rotated
    secrets are. -/
theorem short_global_secret_refused (C : Crypto) (g : Bytes) (rot : List Bytes) (tok : Str)
    (h0 : 0 < g.length) (h : g.length < 32) : validate C g rot tok = .err_short_secret :=
  short_first_key_refused C g rot tok g rot (by simp [keyList, h0]) h

/-- A short key that is reached (every earlier key is long enough and mismatches) refuses a
    well-formed token, even if a later key would authenticate it. -/
theorem short_secret_refused_before_match (C : Crypto) (g : Bytes) (rot : List Bytes) (tok : Str)
    (r s : Bytes) (pre post : List Bytes) (k : Bytes)
    (hw : WellFormed C tok r s) (hkeys : keyList g rot = pre ++ k :: post) (hk : k.length < 32)
    (hpre : ∀ k' ∈ pre, 32 ≤ k'.length ∧ C.mac (k'.take 32) r ≠ s) :
    validate C g rot tok = .err_short_secret := by
  rw [validate_eq_spec, hkeys]
  exact Proofs.HMAC.verdict_short_before_match C pre post k tok r s hw hk hpre

/-- Consequently a short secret never authenticates anything: the accepting key has ≥ 32 bytes
    and so has every key consulted before it. -/
theorem short_secret_never_accepts (C : Crypto) (g : Bytes) (rot : List Bytes) (tok : Str)
    (pre post : List Bytes) (k : Bytes) (hkeys : keyList g rot = pre ++ k :: post) (hk : k.length < 32)
    (hpre : ∀ k' ∈ pre, ∀ r s, WellFormed C tok r s → C.mac (k'.take 32) r ≠ s) :
    validate C g rot tok ≠ .ok := by
  intro hv
  obtain ⟨r, s, k₁, hw, p₁, q₁, h₁, hp₁, hlen₁, hmac₁⟩ := (validate_iff C g rot tok).mp hv
  rw [hkeys] at h₁
  -- the accepting key cannot lie in `pre` (those mismatch), cannot be `k` (short), cannot lie
  -- after `k` (then `k` would be among the earlier keys, all of which are long)
  rcases List.append_eq_append_iff.mp h₁ with ⟨m, hm1, hm2⟩ | ⟨m, hm1, hm2⟩
  · -- p₁ = pre ++ m,  k :: post = m ++ k₁ :: q₁
    cases m with
    | nil =>
      simp only [List.nil_append, List.cons.injEq] at hm2
      rw [hm2.1] at hk
      omega
    | cons x xs =>
      simp only [List.cons_append, List.cons.injEq] at hm2
      have : k ∈ p₁ := by rw [hm1, ← hm2.1]; simp
      have := (hp₁ k this).1
      omega
  · -- pre = p₁ ++ m,  k₁ :: q₁ = m ++ k :: post
    cases m with
    | nil =>
      simp only [List.nil_append, List.cons.injEq] at hm2
      rw [← hm2.1] at hk
      omega
    | cons x xs =>
      simp only [List.cons_append, List.cons.injEq] at hm2
      have : k₁ ∈ pre := by rw [hm1, hm2.1]; simp
      exact hpre k₁ this r s hw hmac₁

/-! ### what `Generate` mints is accepted, and has the signature it returns -/

/-- `Generate` is the documented layout: refused under a short secret, otherwise
    `b64(r) . b64(mac key[:32] r)` with `r` the `max(entropy, 32)` random bytes. -/
theorem generate_eq_spec (C : Crypto) (g : Bytes) (e : Int) (rng : Nat → Bytes) :
    generate C g e rng = mint C g e rng :=
  Proofs.HMAC.generate_eq_mint C g e rng

/-- The number of random bytes requested is `max(configured entropy, 32)`. -/
theorem mint_entropy (e : Int) : entropyBytes e = (max e 32).toNat ∧ 32 ≤ entropyBytes e := by
  refine ⟨Proofs.HMAC.entropyBytes_eq e, ?_⟩
  unfold entropyBytes minimumEntropy
  split <;> omega

/-- The random part of a minted token decodes to exactly those `max(entropy, 32)` bytes. -/
theorem mint_carries_entropy (C : Crypto) (hC : Lawful C) (g : Bytes) (e : Int) (rng : Nat → Bytes)
    (hr : ∀ n, (rng n).length = n) (tok sig : Str) (h : generate C g e rng = .ok (tok, sig)) :
    ∃ r s, WellFormed C tok r s ∧ r.length = (max e 32).toNat ∧ 32 ≤ r.length := by
  rw [generate_eq_spec] at h
  unfold mint at h
  by_cases hu : usable g = true
  · simp only [hu, if_true, Except.ok.injEq] at h
    have h1 : (layout C (g.take 32) (rng (max e 32).toNat)).1 = tok := by rw [h]
    have hlen : (rng (max e 32).toNat).length = (max e 32).toNat := hr _
    have h32 : 32 ≤ (max e 32).toNat := by omega
    have hne : rng (max e 32).toNat ≠ [] := by
      intro hnil
      rw [hnil] at hlen
      simp at hlen
      omega
    refine ⟨rng (max e 32).toNat, C.mac (g.take 32) (rng (max e 32).toNat), ?_, hlen, by omega⟩
    rw [← h1]
    exact Proofs.HMAC.layout_wellFormed C hC (g.take 32) _ hne
  · simp [hu] at h

/-- A token minted under secret `k` is accepted under every configuration whose key list contains
    `k` with only keys of at least 32 bytes before it (whether or not those also match). -/
theorem generated_token_validates (C : Crypto) (hC : Lawful C) (k : Bytes) (e : Int) (rng : Nat → Bytes)
    (hr : ∀ n, (rng n).length = n) (tok sig : Str) (hgen : generate C k e rng = .ok (tok, sig))
    (g : Bytes) (rot pre post : List Bytes) (hkeys : keyList g rot = pre ++ k :: post)
    (hpre : ∀ k' ∈ pre, 32 ≤ k'.length) :
    validate C g rot tok = .ok := by
  rw [generate_eq_spec] at hgen
  unfold mint at hgen
  by_cases hu : usable k = true
  · simp only [hu, if_true, Except.ok.injEq] at hgen
    have hgen1 : (layout C (k.take 32) (rng (max e 32).toNat)).1 = tok := by rw [hgen]
    have hk : 32 ≤ k.length := by simpa [usable] using hu
    have hlen : (rng (max e 32).toNat).length = (max e 32).toNat := hr _
    have hne : rng (max e 32).toNat ≠ [] := by
      intro hnil
      rw [hnil] at hlen
      simp at hlen
      omega
    have hw := Proofs.HMAC.layout_wellFormed C hC (k.take 32) _ hne
    rw [hgen1] at hw
    rw [validate_eq_spec, hkeys]
    exact Proofs.HMAC.verdict_ok_of_usable_prefix C pre post k tok _ _ hw hk rfl hpre
  · simp [hu] at hgen

/-- In particular: accepted by the configuration that minted it, whatever the rotated secrets. -/
theorem generated_token_validates_same_config (C : Crypto) (hC : Lawful C) (g : Bytes) (e : Int)
    (rng : Nat → Bytes) (hr : ∀ n, (rng n).length = n) (tok sig : Str)
    (hgen : generate C g e rng = .ok (tok, sig)) (rot : List Bytes) :
    validate C g rot tok = .ok := by
  have hg : 32 ≤ g.length := (generate_ok_iff C g e rng).mp ⟨_, hgen⟩
  have h0 : g.length > 0 := by omega
  exact generated_token_validates C hC g e rng hr tok sig hgen g rot [] rot
    (by simp [keyList, h0]) (by simp)

/-- …and after rotation: the old secret moved to the rotated list behind a new ≥ 32-byte secret. -/
theorem generated_token_validates_after_rotation (C : Crypto) (hC : Lawful C) (old new : Bytes) (e : Int)
    (rng : Nat → Bytes) (hr : ∀ n, (rng n).length = n) (tok sig : Str)
    (hgen : generate C old e rng = .ok (tok, sig)) (hnew : 32 ≤ new.length) (rest : List Bytes) :
    validate C new (old :: rest) tok = .ok := by
  have h0 : new.length > 0 := by omega
  exact generated_token_validates C hC old e rng hr tok sig hgen new (old :: rest) [new] rest
    (by simp [keyList, h0]) (by simpa using hnew)

/-- `Signature` of a minted token is the signature `Generate` returned, i.e. `b64(mac key[:32] r)`. -/
theorem signature_of_generated (C : Crypto) (hC : Lawful C) (g : Bytes) (e : Int) (rng : Nat → Bytes)
    (tok sig : Str) (hgen : generate C g e rng = .ok (tok, sig)) :
    signature tok = sig ∧ sig = C.enc (C.mac (g.take 32) (rng (max e 32).toNat)) := by
  rw [generate_eq_spec] at hgen
  unfold mint at hgen
  by_cases hu : usable g = true
  · simp only [hu, if_true, Except.ok.injEq, Prod.mk.injEq, layout] at hgen
    refine ⟨?_, hgen.2.symm⟩
    rw [← hgen.1, ← hgen.2]
    have : C.enc (rng (max e 32).toNat) ++ ['.'] ++ C.enc (C.mac (g.take 32) (rng (max e 32).toNat))
        = C.enc (rng (max e 32).toNat) ++ '.' :: C.enc (C.mac (g.take 32) (rng (max e 32).toNat)) := by simp
    rw [this]
    exact Proofs.HMAC.signature_two_parts _ _ (hC.enc_nodot _) (hC.enc_nodot _)
  · simp [hu] at hgen

/-- `Signature` is "the part after the dot when there is exactly one dot, else empty". -/
theorem signature_eq_spec (tok : Str) : signature tok = signatureOf tok :=
  Proofs.HMAC.signature_eq_spec tok

/-- An accepted token has a non-empty `Signature`, namely its part after the dot (so the
    lookup-by-signature that precedes validation at every endpoint uses the authenticated part);
    needs only that the decoder rejects strings containing a dot. -/
theorem accepted_has_signature (C : Crypto) (hD : DotFree C) (g : Bytes) (rot : List Bytes) (tok : Str)
    (h : validate C g rot tok = .ok) :
    ∃ a b s, tok = a ++ '.' :: b ∧ signature tok = b ∧ b ≠ [] ∧ C.dec b = some s := by
  obtain ⟨r, s, _, ⟨a, b, h1, h2, _, hb, _, hdb⟩, _⟩ := (validate_iff C g rot tok).mp h
  have hnb : '.' ∉ b := fun hm => by simp [hD b hm] at hdb
  exact ⟨a, b, s, h1, h1 ▸ Proofs.HMAC.signature_two_parts a b h2 hnb, hb, hdb⟩

/-! ### tampering -/

/-- Altered signature part: a well-formed token whose signature part is not the MAC of its random
    part under any usable configured key is rejected (no cryptographic hypothesis needed). -/
theorem tampered_sig_rejected (C : Crypto) (g : Bytes) (rot : List Bytes) (tok' : Str) (r s' : Bytes)
    (hw : WellFormed C tok' r s')
    (hs : ∀ k ∈ keyList g rot, 32 ≤ k.length → C.mac (k.take 32) r ≠ s') :
    validate C g rot tok' ≠ .ok := by
  intro hv
  obtain ⟨r₁, s₁, k, hw₁, pre, post, hk, _, hlen, hmac⟩ := (validate_iff C g rot tok').mp hv
  obtain ⟨rfl, rfl⟩ := Proofs.HMAC.wellFormed_unique C tok' r s' r₁ s₁ hw hw₁
  exact hs k (by rw [hk]; simp) hlen hmac

/-- With a single configured secret: any change of the signature part of an accepted token is
    rejected. -/
theorem tampered_sig_rejected_single_key (C : Crypto) (g : Bytes) (tok tok' : Str) (r s s' : Bytes)
    (hv : validate C g [] tok = .ok) (hw : WellFormed C tok r s) (hw' : WellFormed C tok' r s')
    (hne : s' ≠ s) : validate C g [] tok' ≠ .ok := by
  obtain ⟨r₁, s₁, k, hw₁, hg, hlen, hmac⟩ := accepted_only_if_authentic C g [] tok hv
  obtain ⟨rfl, rfl⟩ := Proofs.HMAC.wellFormed_unique C tok r s r₁ s₁ hw hw₁
  have hkg : k = g := by
    cases hg with
    | inl e => exact e.1
    | inr e => simp at e
  apply tampered_sig_rejected C g [] tok' r s' hw'
  intro k' hk' _
  have : k' = g := by
    unfold keyList at hk'
    by_cases h0 : g.length > 0 <;> simp [h0] at hk'
    exact hk'
  rw [this, ← hkg, hmac]
  exact fun e => hne e.symm

/-- Altered random part / a stored signature presented with a different random part: rejected,
    provided the MAC is injective in its message for the configured keys (`MacCollisionFree`,
    an explicit hypothesis). -/
theorem tampered_rand_rejected (C : Crypto) (g : Bytes) (rot : List Bytes)
    (hcf : MacCollisionFree C (keyList g rot)) (tok tok' : Str) (r r' s : Bytes)
    (hv : validate C g rot tok = .ok) (hw : WellFormed C tok r s) (hw' : WellFormed C tok' r' s)
    (hne : r' ≠ r) : validate C g rot tok' ≠ .ok := by
  intro hv'
  obtain ⟨r₁, s₁, k₁, hw₁, p₁, q₁, hk₁, _, hlen₁, hmac₁⟩ := (validate_iff C g rot tok).mp hv
  obtain ⟨r₂, s₂, k₂, hw₂, p₂, q₂, hk₂, _, hlen₂, hmac₂⟩ := (validate_iff C g rot tok').mp hv'
  obtain ⟨rfl, rfl⟩ := Proofs.HMAC.wellFormed_unique C tok r s r₁ s₁ hw hw₁
  obtain ⟨rfl, rfl⟩ := Proofs.HMAC.wellFormed_unique C tok' r' s r₂ s₂ hw' hw₂
  exact hne (hcf k₂ (by rw [hk₂]; simp) k₁ (by rw [hk₁]; simp) hlen₂ hlen₁ r' r (hmac₂.trans hmac₁.symm))

/-- The same statement in the words of the property: a signature that belongs to an accepted
    (stored) token, presented with any other random part, is rejected. -/
theorem stored_sig_with_other_rand_rejected (C : Crypto) (g : Bytes) (rot : List Bytes)
    (hcf : MacCollisionFree C (keyList g rot)) (stored presented : Str) (r r' s : Bytes)
    (hstored : validate C g rot stored = .ok) (hw : WellFormed C stored r s)
    (hw' : WellFormed C presented r' s) (hne : r' ≠ r) : validate C g rot presented ≠ .ok :=
  tampered_rand_rejected C g rot hcf stored presented r r' s hstored hw hw' hne

/-- A token minted under a secret that is not configured is rejected, provided no usable
    configured key produces the foreign key's tag on that random part. -/
theorem foreign_key_rejected (C : Crypto) (hC : Lawful C) (foreign : Bytes) (e : Int) (rng : Nat → Bytes)
    (hr : ∀ n, (rng n).length = n) (tok sig : Str) (hgen : generate C foreign e rng = .ok (tok, sig))
    (g : Bytes) (rot : List Bytes)
    (hsep : ∀ k ∈ keyList g rot, 32 ≤ k.length → ∀ r, C.mac (k.take 32) r ≠ C.mac (foreign.take 32) r) :
    validate C g rot tok ≠ .ok := by
  rw [generate_eq_spec] at hgen
  unfold mint at hgen
  by_cases hu : usable foreign = true
  · simp only [hu, if_true, Except.ok.injEq] at hgen
    have hgen1 : (layout C (foreign.take 32) (rng (max e 32).toNat)).1 = tok := by rw [hgen]
    have hlen : (rng (max e 32).toNat).length = (max e 32).toNat := hr _
    have hne : rng (max e 32).toNat ≠ [] := by
      intro hnil
      rw [hnil] at hlen
      simp at hlen
      omega
    have hw := Proofs.HMAC.layout_wellFormed C hC (foreign.take 32) _ hne
    rw [hgen1] at hw
    exact tampered_sig_rejected C g rot tok _ _ hw (fun k hk hl => hsep k hk hl _)
  · simp [hu] at hgen

/-- Under `Unforgeable` (whatever authenticates under a usable configured key was minted by the
    server): every accepted token carries a server-minted (random part, signature part) pair. -/
theorem accepted_only_minted (C : Crypto) (g : Bytes) (rot : List Bytes) (minted : Bytes → Bytes → Prop)
    (hunf : Unforgeable C (keyList g rot) minted) (tok : Str) (h : validate C g rot tok = .ok) :
    ∃ r s, WellFormed C tok r s ∧ minted r s := by
  obtain ⟨r, s, k, hw, pre, post, hk, _, hlen, hmac⟩ := (validate_iff C g rot tok).mp h
  exact ⟨r, s, hw, hmac ▸ hunf k (by rw [hk]; simp) hlen r⟩

/-- …so a well-formed presentation whose pair was never minted is rejected. -/
theorem unminted_rejected (C : Crypto) (g : Bytes) (rot : List Bytes) (minted : Bytes → Bytes → Prop)
    (hunf : Unforgeable C (keyList g rot) minted) (tok : Str) (r s : Bytes)
    (hw : WellFormed C tok r s) (hnot : ¬ minted r s) : validate C g rot tok ≠ .ok := by
  intro hv
  obtain ⟨r', s', hw', hm⟩ := accepted_only_minted C g rot minted hunf tok hv
  obtain ⟨rfl, rfl⟩ := Proofs.HMAC.wellFormed_unique C tok r s r' s' hw hw'
  exact hnot hm

/-! ### minted values never repeat (given fresh randomness) -/

/-- Different random parts give different tokens (base64 is injective by its round trip). -/
theorem mint_injective (C : Crypto) (hC : Lawful C) (key₁ key₂ r₁ r₂ : Bytes) (hne : r₁ ≠ r₂) :
    (layout C key₁ r₁).1 ≠ (layout C key₂ r₂).1 := by
  intro h
  have hw₁ : cutDot (layout C key₁ r₁).1 = some (C.enc r₁, C.enc (C.mac key₁ r₁)) := by
    simp only [layout, List.append_assoc, List.singleton_append]
    exact Proofs.HMAC.cutDot_append _ _ (hC.enc_nodot _)
  have hw₂ : cutDot (layout C key₂ r₂).1 = some (C.enc r₂, C.enc (C.mac key₂ r₂)) := by
    simp only [layout, List.append_assoc, List.singleton_append]
    exact Proofs.HMAC.cutDot_append _ _ (hC.enc_nodot _)
  rw [h, hw₂] at hw₁
  simp only [Option.some.injEq, Prod.mk.injEq] at hw₁
  exact hne (Proofs.HMAC.enc_injective C hC _ _ hw₁.1).symm

/-- `Generate` twice with different random bytes never yields the same token. -/
theorem generate_injective (C : Crypto) (hC : Lawful C) (g : Bytes) (e : Int) (rng₁ rng₂ : Nat → Bytes)
    (t₁ t₂ s₁ s₂ : Str) (h₁ : generate C g e rng₁ = .ok (t₁, s₁)) (h₂ : generate C g e rng₂ = .ok (t₂, s₂))
    (hne : rng₁ (entropyBytes e) ≠ rng₂ (entropyBytes e)) : t₁ ≠ t₂ := by
  rw [generate_eq_spec] at h₁ h₂
  rw [Proofs.HMAC.entropyBytes_eq] at hne
  unfold mint at h₁ h₂
  by_cases hu : usable g = true
  · simp only [hu, if_true, Except.ok.injEq] at h₁ h₂
    have e₁ : (layout C (g.take 32) (rng₁ (max e 32).toNat)).1 = t₁ := by rw [h₁]
    have e₂ : (layout C (g.take 32) (rng₂ (max e 32).toNat)).1 = t₂ := by rw [h₂]
    rw [← e₁, ← e₂]
    exact mint_injective C hC _ _ _ _ hne
  · simp [hu] at h₁

/-- The signatures (the storage keys) are distinct as well, when the MAC is injective in its
    message for the signing key. -/
theorem mint_signature_injective (C : Crypto) (hC : Lawful C) (g : Bytes) (hg : 32 ≤ g.length)
    (hcf : MacCollisionFree C [g]) (r₁ r₂ : Bytes) (hne : r₁ ≠ r₂) :
    (layout C (g.take 32) r₁).2 ≠ (layout C (g.take 32) r₂).2 := by
  intro h
  have := Proofs.HMAC.enc_injective C hC _ _ h
  exact hne (hcf g (by simp) g (by simp) hg hg r₁ r₂ this)

/-! ### prefixed strategies (`ory_at_`, `ory_rt_`, `ory_ac_`, `ory_dc_`) -/

/-- The prefixed `Validate*` is `Validate` on the token with the kind's prefix dropped if present. -/
theorem validatePrefixed_eq_spec (C : Crypto) (kind : Kind) (g : Bytes) (rot : List Bytes) (tok : Str) :
    validatePrefixed C kind g rot tok = verdict C (keyList g rot) (strip kind tok) := by
  unfold validatePrefixed
  rw [validate_eq_spec, Proofs.HMAC.strip_eq_trimPrefix]

/-- The prefix carries no authority: with it the decision is that of the bare token… -/
theorem validatePrefixed_with_prefix (C : Crypto) (kind : Kind) (g : Bytes) (rot : List Bytes) (tok : Str) :
    validatePrefixed C kind g rot (getPrefix kind.part ++ tok) = validate C g rot tok := by
  unfold validatePrefixed
  rw [Proofs.HMAC.trimPrefix_append]

/-- …and without it too (`strings.TrimPrefix` does not require the prefix). -/
theorem validatePrefixed_without_prefix (C : Crypto) (kind : Kind) (g : Bytes) (rot : List Bytes) (tok : Str)
    (h : ¬ getPrefix kind.part <+: tok) :
    validatePrefixed C kind g rot tok = validate C g rot tok := by
  unfold validatePrefixed
  rw [Proofs.HMAC.trimPrefix_of_not_prefix _ _ h]

/-- So acceptance by a prefixed strategy still means: authenticates under a configured secret. -/
theorem prefixed_accepted_only_if_authentic (C : Crypto) (kind : Kind) (g : Bytes) (rot : List Bytes) (tok : Str)
    (h : validatePrefixed C kind g rot tok = .ok) :
    ∃ r s k, WellFormed C (trimPrefix tok (getPrefix kind.part)) r s ∧
      ((k = g ∧ g ≠ []) ∨ k ∈ rot) ∧ 32 ≤ k.length ∧ C.mac (k.take 32) r = s :=
  accepted_only_if_authentic C g rot _ h

/-- A prefixed minted token is accepted by its strategy and has the returned signature. -/
theorem prefixed_generated_validates (C : Crypto) (hC : Lawful C) (kind : Kind) (g : Bytes) (e : Int)
    (rng : Nat → Bytes) (hr : ∀ n, (rng n).length = n) (tok sig : Str)
    (hgen : generatePrefixed C kind g e rng = .ok (tok, sig)) (rot : List Bytes) :
    validatePrefixed C kind g rot tok = .ok ∧ signaturePrefixed kind tok = sig := by
  unfold generatePrefixed at hgen
  cases hg : generate C g e rng with
  | error err => simp [hg] at hgen
  | ok p =>
    obtain ⟨t, s⟩ := p
    simp only [hg, Except.ok.injEq, Prod.mk.injEq] at hgen
    obtain ⟨ht, hs⟩ := hgen
    have hval := generated_token_validates_same_config C hC g e rng hr t s hg rot
    have hsig := (signature_of_generated C hC g e rng t s hg).1
    -- the minted token is non-empty, so `setPrefix` really prepends
    have hg' := hg
    rw [generate_eq_spec] at hg'
    unfold mint at hg'
    by_cases hu : usable g = true
    · simp only [hu, if_true, Except.ok.injEq, Prod.mk.injEq, layout] at hg'
      have hne : t ≠ [] := by rw [← hg'.1]; simp
      have hset : setPrefix t kind.part = getPrefix kind.part ++ t := by simp [setPrefix, hne]
      rw [hset] at ht
      subst ht
      subst hs
      refine ⟨by rw [validatePrefixed_with_prefix]; exact hval, ?_⟩
      unfold signaturePrefixed
      rw [← hg'.1]
      have hassoc : getPrefix kind.part ++ (C.enc (rng (max e 32).toNat) ++ ['.'] ++ C.enc (C.mac (g.take 32) (rng (max e 32).toNat)))
          = (getPrefix kind.part ++ C.enc (rng (max e 32).toNat)) ++ '.' :: C.enc (C.mac (g.take 32) (rng (max e 32).toNat)) := by simp
      rw [hassoc, Proofs.HMAC.signature_two_parts _ _ _ (hC.enc_nodot _)]
      · exact hg'.2
      · intro hm
        rcases List.mem_append.mp hm with hm | hm
        · exact Proofs.HMAC.getPrefix_nodot kind hm
        · exact hC.enc_nodot _ hm
    · simp [hu] at hg'

/-! ### the hypotheses are satisfiable, the statements not vacuous -/

section Examples

/-- a toy instance: `mac k m = 0 :: k ++ m`, bytes encoded as the characters 256 … 511 -/
def toyEnc (b : Bytes) : Str := b.map (fun u => Char.ofNat (u.toNat + 256))
def toyDec (s : Str) : Option Bytes :=
  if s.all (fun c => 256 ≤ c.toNat && c.toNat < 512) then some (s.map (fun c => UInt8.ofNat (c.toNat - 256))) else none
def toy : Crypto := { mac := fun k m => 0 :: (k ++ m), enc := toyEnc, dec := toyDec }

theorem toy_char (u : UInt8) : (Char.ofNat (u.toNat + 256)).toNat = u.toNat + 256 := by
  have hlt := UInt8.toNat_lt u
  have hv : (u.toNat + 256).isValidChar := by left; omega
  simp [Char.ofNat, hv, Char.ofNatAux, Char.toNat]
  omega

theorem toy_lawful : Lawful toy where
  dec_enc b := by
    have hall : (toyEnc b).all (fun c => 256 ≤ c.toNat && c.toNat < 512) = true := by
      simp only [toyEnc, List.all_map, List.all_eq_true]
      intro u _
      have hlt := UInt8.toNat_lt u
      simp [toy_char]
      omega
    show toyDec (toyEnc b) = some b
    unfold toyDec
    rw [if_pos hall]
    simp only [toyEnc, List.map_map, Option.some.injEq]
    conv => rhs; rw [← List.map_id b]
    apply List.map_congr_left
    intro u _
    simp [toy_char]
  enc_nodot b := by
    show '.' ∉ toyEnc b
    simp only [toyEnc, List.mem_map, not_exists, not_and]
    intro u _ h
    have := congrArg Char.toNat h
    rw [toy_char] at this
    have h46 : ('.' : Char).toNat = 46 := by decide
    omega
  enc_ne_nil b hb := by
    show toyEnc b ≠ []
    simpa [toyEnc] using hb
  mac_ne_nil k m := by simp [toy]

theorem toy_dotFree : DotFree toy := by
  intro s hs
  show toyDec s = none
  unfold toyDec
  have : s.all (fun c => 256 ≤ c.toNat && c.toNat < 512) = false := by
    rw [List.all_eq_false]
    exact ⟨'.', hs, by decide⟩
  simp [this]

theorem toy_collisionFree (keys : List Bytes) : MacCollisionFree toy keys := by
  intro k₁ _ k₂ _ h₁ h₂ r₁ r₂ h
  simp only [toy, List.cons.injEq, true_and] at h
  have hl : (k₁.take 32).length = (k₂.take 32).length := by
    simp only [List.length_take]; omega
  exact (List.append_inj h hl).2

/-- `Lawful`, `DotFree`, `MacCollisionFree` and `Unforgeable` hold together for the toy instance. -/
example (keys : List Bytes) :
    Lawful toy ∧ DotFree toy ∧ MacCollisionFree toy keys ∧
      Unforgeable toy keys (fun r s => ∃ k ∈ keys, 32 ≤ k.length ∧ s = toy.mac (k.take 32) r) :=
  ⟨toy_lawful, toy_dotFree, toy_collisionFree keys, fun k hk hl _ => ⟨k, hk, hl, rfl⟩⟩

def key32a : Bytes := List.replicate 32 7
def key32b : Bytes := List.replicate 40 9
def rand3 : Bytes := [1, 2, 3]
def tokA : Str := toyEnc rand3 ++ '.' :: toyEnc (toy.mac (key32a.take 32) rand3)

-- a minted token is accepted by its own secret, after rotation, and behind another usable key
example : validate toy key32a [] tokA = .ok := by decide
example : validate toy key32b [key32a] tokA = .ok := by decide
example : validate toy [] [key32b, key32a] tokA = .ok := by decide
-- not under another secret, not without secrets, not behind a short secret
example : validate toy key32b [] tokA = .signature_mismatch := by decide
example : validate toy [] [] tokA = .err_no_keys := by decide
example : validate toy [] [[1, 2, 3], key32a] tokA = .err_short_secret := by decide
example : validate toy [1] [key32a] tokA = .err_short_secret := by decide
-- tampering with either part, swapping, malformed shapes
example : validate toy key32a [] (toyEnc [1, 2, 4] ++ '.' :: toyEnc (toy.mac (key32a.take 32) rand3)) = .signature_mismatch := by decide
example : validate toy key32a [] (toyEnc rand3 ++ '.' :: toyEnc (toy.mac (key32b.take 32) rand3)) = .signature_mismatch := by decide
example : validate toy key32a [] (toyEnc rand3) = .invalid_format := by decide
example : validate toy key32a [] ('.' :: toyEnc rand3) = .invalid_format := by decide
example : validate toy key32a [] (toyEnc rand3 ++ ['.']) = .invalid_format := by decide
example : validate toy key32a [] (tokA ++ '.' :: toyEnc rand3) = .b64_error := by decide
example : validate toy key32a [] ("abc".toList ++ '.' :: toyEnc rand3) = .b64_error := by decide
-- Generate / Signature / prefixes
example : generate toy [1, 2, 3] 32 (fun n => List.replicate n 5) = .error .err_short_secret := by rfl
example : (generate toy key32a 0 (fun n => List.replicate n 5)).toOption.map (fun p => signature p.1 == p.2) = some true := by decide
example : signature "a.b.c".toList = [] := by decide
example : signature "ab".toList = [] := by decide
example : signature "ory_at_ab.cd".toList = "cd".toList := by decide
example : validatePrefixed toy .access key32a [] ("ory_at_".toList ++ tokA) = .ok := by decide
example : validatePrefixed toy .access key32a [] tokA = .ok := by decide
example : validatePrefixed toy .refresh key32a [] ("ory_at_".toList ++ tokA) = .b64_error := by decide
example : entropyBytes 0 = 32 ∧ entropyBytes 16 = 32 ∧ entropyBytes 64 = 64 ∧ entropyBytes (-5) = 32 := by decide

end Examples

/-- A user code is never handed out without its signature: with a global secret shorter than 32 bytes
    `GenerateUserCode` fails (and returns neither code nor signature), otherwise the code has the configured
    length.  (Before repair affaba5 the signing error was dropped and an empty code with an empty signature was
    returned as a success.) -/
theorem user_code_needs_usable_secret (g : Fosite.Model.HMAC.Bytes) (n : Nat) :
    (Fosite.Model.HMAC.generateUserCode g n).isSome ↔ 32 ≤ g.length := by
  unfold Fosite.Model.HMAC.generateUserCode Fosite.Model.HMAC.minimumSecretLength
  by_cases h : g.length < 32
  · simp [h]
  · simp [h]; omega

end Fosite.Props.C06

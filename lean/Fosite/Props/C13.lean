/-
  C13 — authorization requests are validated and tokens never travel in the query string.
  Property theorems only; lemmas live in `Fosite/Proofs/Authz.lean`.

  Every theorem quantifies over ALL inputs of the endpoint model (`Model.Authz.Input`): every
  configuration, client table and registration, every parameter list, every session, every consent
  decision, and every behaviour of the library parameters in `Lib` (URL parser, `strings.ToLower`,
  JWS facts, HTTP fetch, audience verdict, integer parsing).  `authorize` is
  `NewAuthorizeRequest` → `NewAuthorizeResponse` as `compose.ComposeAllEnabled` wires them; `respond`
  adds the writer (`WriteAuthorizeResponse` / `WriteAuthorizeError`).  `ar.form` is the parameter list in
  force (the request's own, or — theorem `request_object_needs_registered_key_and_alg` — the one merged
  with a verified request object).
-/
import Fosite.Proofs.Authz
namespace Fosite.Props.C13
open Fosite Fosite.Model Fosite.Model.Authz
open Fosite.Proofs.Authz Fosite.Spec.Authz

/-! ### acceptance -/

/-- The endpoint accepts a request only if: the body parsed and the client exists; the response_type is
    non-empty and `Arguments.Matches` one registered combination; the response_mode (if any) is one the
    client may use; the state has the configured minimum length; an OpenID Connect request carries a
    redirect_uri; a response that carries an ID token answers a request with a nonce of minimum length. -/
theorem accepted_request_is_valid (i : Input) (ar : AR) (ps : List Param) (h : authorize i = .success ar ps) :
    i.formOK = true ∧
    ∃ c, i.clients (i.form.get "client_id") = some c ∧ ar.client = some c ∧
      ar.responseTypes = words (ar.form.get "response_type") ∧ ar.responseTypes ≠ [] ∧
      (∃ t ∈ c.getResponseTypes, argsMatches i.lib.lower ar.responseTypes (words t) = true) ∧
      responseModeAllowed c (ar.form.get "response_mode") ∧
      ar.state = ar.form.get "state" ∧ i.cfg.minEntropy ≤ blen (ar.form.get "state") ∧
      (isOIDC i.lib.lower ar.form → ar.form.get "redirect_uri" ≠ "") ∧
      ((∃ v, ("id_token", v) ∈ ps) → i.cfg.minEntropy ≤ blen (ar.form.get "nonce")) := by
  obtain ⟨hf, _, c, a0, hc, hacc, ⟨fr, _, gt⟩, _, _⟩ := authorize_success h
  obtain ⟨a1, hro, hform, hstate⟩ := hacc.ro
  have hst : a0.state = a0.form.get "state" := by rw [hstate, hform]; exact requestObject_state hro
  refine ⟨hf, c, hc, by rw [fr.client]; exact hacc.client, ?_, ?_, ?_, ?_, ?_, ?_, ?_, ?_⟩
  · rw [fr.rts, fr.form]; exact hacc.rts
  · rw [fr.rts]; exact hacc.rtsNonempty
  · rw [fr.rts]
    obtain ⟨t, ht, hm⟩ := List.any_eq_true.1 hacc.rtsRegistered
    exact ⟨t, ht, hm⟩
  · rw [fr.form]; exact hacc.modeAllowed
  · rw [fr.state, fr.form]; exact hst
  · rw [fr.form, ← hst]; exact hacc.state
  · rw [fr.form]
    intro ho hr
    apply hacc.oidcRedirect
    refine ⟨hr, ?_⟩
    rw [hacc.scopes]
    exact argsHas_single_iff.2 ho
  · intro hid
    rw [fr.form]
    exact (gt.idt (pHas_iff.2 hid)).1

/-- "…is one of the client's registered combinations (as a set)": the accepted response_type equals one of
    the registered combinations as a set (names compared without regard to case).  Before repair f1e5ad8
    this needed the hypothesis that no registered combination lists a name twice in different case. -/
theorem response_type_is_registered_set (i : Input) (ar : AR) (ps : List Param) (h : authorize i = .success ar ps)
    (c : Client) (hc : i.clients (i.form.get "client_id") = some c) :
    responseTypeRegistered i.lib.lower c (ar.form.get "response_type") := by
  obtain ⟨_, c', hc', _, hrts, hne, ⟨t, ht, hm⟩, _⟩ := accepted_request_is_valid i ar ps h
  rw [hc] at hc'
  cases hc'
  rw [hrts] at hne hm
  exact ⟨hne, t, ht, argsMatches_sameSet hm⟩

/-- REGRESSION (f1e5ad8): `Arguments.Matches` used to count the distinct registered names by exact spelling,
    so a registration `"code Code"` matched the request `"code token"`; it no longer does. -/
theorem degenerate_registration_refused :
    argsMatches (fun s => if s = "Code" then "code" else s) ["code", "token"] ["code", "Code"] = false := by
  decide

/-- An OpenID Connect request without `redirect_uri` is never accepted — not even by
    `NewAuthorizeRequest` alone, and whatever the registration. -/
theorem oidc_requires_redirect_uri (cfg : Cfg) (lib : Lib) (clients : String → Option Client) (formOK : Bool)
    (form : Form) (ar : AR) (h : newAuthorizeRequest cfg lib clients formOK form = (ar, none))
    (ho : isOIDC lib.lower ar.form) : ar.form.get "redirect_uri" ≠ "" := by
  obtain ⟨_, _, c, _, hacc⟩ := newAuthorizeRequest_ok h
  intro hr
  apply hacc.oidcRedirect
  refine ⟨hr, ?_⟩
  rw [hacc.scopes]
  exact argsHas_single_iff.2 ho

/-! ### request objects -/

/-- Parameters of an accepted request differ from the plain ones only by the claims of a request object that
    `Spec.Authz.honoured` allows: the request is an OpenID Connect request naming exactly one object (by
    value, or through a pre-registered and fetchable `request_uri`), the object parses, its algorithm is the
    registered one (or none is registered), and — unless the algorithm is `none` — its signature was produced
    by a key registered for the client; its time claims are valid. -/
theorem request_object_needs_registered_key_and_alg (i : Input) (ar : AR) (ps : List Param)
    (h : authorize i = .success ar ps) :
    ∃ c, i.clients (i.form.get "client_id") = some c ∧
      (ar.form = i.form ∨
       ∃ t, honoured i.lib c i.form = some t ∧ signedAsRegistered c t ∧ t.claimsValid = true ∧
         ∃ sc, ar.form = (t.claims.foldl (fun f kv => f.set kv.1 kv.2) i.form).set "scope" sc) := by
  obtain ⟨_, _, c, a0, hc, hacc, ⟨fr, _, _⟩, _, _⟩ := authorize_success h
  obtain ⟨a1, hro, hform, _⟩ := hacc.ro
  refine ⟨c, hc, ?_⟩
  rcases requestObject_honoured hro with ⟨he, _⟩ | ⟨t, ht, hv, sc, hsc⟩
  · left; rw [fr.form, hform, he]
  · right
    refine ⟨t, ht, ?_, hv, sc, by rw [fr.form, hform, hsc]⟩
    -- `honoured` only returns objects that are signed as registered
    unfold honoured at ht
    split at ht
    · split at ht
      · rename_i t' _
        split at ht
        · rename_i hs; cases ht; exact hs
        · cases ht
      · cases ht
    · cases ht

/-- An accepted OpenID Connect request that names a request object had it verified: a request is never
    accepted while a named object is unsigned-but-not-permitted, signed with an unregistered key or
    algorithm, malformed, expired or unobtainable. -/
theorem named_request_object_is_verified (i : Input) (ar : AR) (ps : List Param)
    (h : authorize i = .success ar ps) (ho : isOIDC i.lib.lower i.form)
    (hn : i.form.get "request" ≠ "" ∨ i.form.get "request_uri" ≠ "") :
    ∃ c t, i.clients (i.form.get "client_id") = some c ∧ honoured i.lib c i.form = some t := by
  obtain ⟨_, _, c, a0, hc, hacc, _, _, _⟩ := authorize_success h
  obtain ⟨a1, hro, _, _⟩ := hacc.ro
  rcases requestObject_honoured hro with ⟨_, hno | hnone⟩ | ⟨t, ht, _⟩
  · exact absurd ho hno
  · rcases hn with hn | hn
    · exact absurd hnone.1 hn
    · exact absurd hnone.2 hn
  · exact ⟨c, t, hc, ht⟩

/-- A `request_uri` is used only if it is pre-registered for the client. -/
theorem request_uri_must_be_registered (i : Input) (ar : AR) (ps : List Param)
    (h : authorize i = .success ar ps) (ho : isOIDC i.lib.lower i.form) (hn : i.form.get "request_uri" ≠ "") :
    ∃ c, i.clients (i.form.get "client_id") = some c ∧ requestURIRegistered c (i.form.get "request_uri") := by
  obtain ⟨c, t, hc, ht⟩ := named_request_object_is_verified i ar ps h ho (Or.inr hn)
  refine ⟨c, hc, ?_⟩
  unfold honoured at ht
  split at ht
  · rename_i hcond; exact hcond.2.2 hn
  · cases ht

/-! ### grants -/

/-- Tokens at the authorization endpoint need the `implicit` grant: an access token always, an ID token
    whenever no authorization code is requested alongside (reading of DESIGN §C13: fosite serves
    `code id_token` to a client that holds the authorization_code grant only). -/
theorem implicit_grant_required_for_tokens_at_authorize (i : Input) (ar : AR) (ps : List Param)
    (h : authorize i = .success ar ps) :
    ∃ c, i.clients (i.form.get "client_id") = some c ∧
      ((∃ v, ("access_token", v) ∈ ps) → hasGrant i.lib.lower c "implicit") ∧
      ((∃ v, ("id_token", v) ∈ ps) → ¬ memCI i.lib.lower "code" ar.responseTypes → hasGrant i.lib.lower c "implicit") := by
  obtain ⟨_, _, c, a0, hc, _, ⟨fr, _, gt⟩, _, _⟩ := authorize_success h
  refine ⟨c, hc, ?_, ?_⟩
  · intro ha
    exact argsHas_single_iff.1 (gt.atk (pHas_iff.2 ha))
  · intro hid hnc
    have := (gt.idt (pHas_iff.2 hid)).2
    apply argsHas_single_iff.1
    apply this
    cases hx : argsHas i.lib.lower a0.responseTypes ["code"]
    · exact hx
    · rw [← fr.rts] at hx
      exact absurd (argsHas_single_iff.1 hx) hnc

/-- Hybrid flow: an authorization code next to other response types is issued only to a client that holds
    the `authorization_code` grant.  (For the plain code flow the grant is checked when the code is redeemed:
    `Proofs/Redeem.lean`, `RedeemOk.ex`, used by C02.) -/
theorem code_needs_authorization_code_grant (i : Input) (ar : AR) (ps : List Param)
    (h : authorize i = .success ar ps) (hcode : ∃ v, ("code", v) ∈ ps) (hhybrid : 2 ≤ ar.responseTypes.length) :
    ∃ c, i.clients (i.form.get "client_id") = some c ∧ hasGrant i.lib.lower c "authorization_code" := by
  obtain ⟨_, _, c, a0, hc, _, ⟨fr, _, gt⟩, _, _⟩ := authorize_success h
  refine ⟨c, hc, argsHas_single_iff.1 (gt.code (pHas_iff.2 hcode) ?_)⟩
  rw [← fr.rts]; exact hhybrid

/-! ### delivery -/

/-- which parameters a successful response can carry -/
theorem response_parameters_known (i : Input) (ar : AR) (ps : List Param) (h : authorize i = .success ar ps)
    (k : String) (v : Option String) (hm : (k, v) ∈ ps) :
    k ∈ ["code", "state", "scope", "access_token", "expires_in", "token_type", "id_token"] := by
  obtain ⟨_, _, c, a0, _, _, ⟨_, dl, _⟩, _, _⟩ := authorize_success h
  exact namesOK_mem dl.names hm

/-- Whatever the endpoint writes — success or error, any request, any registration —: if `access_token` or
    `id_token` is among the written parameters, they are not placed in the query string. -/
theorem tokens_never_in_query (i : Input)
    (ht : ∃ v, ("access_token", v) ∈ (respond i).params ∨ ("id_token", v) ∈ (respond i).params) :
    (respond i).placement ≠ .query := by
  cases ha : authorize i with
  | failure ar e =>
    -- an error response carries `error`, `error_description`, `state` and nothing else
    exfalso
    unfold respond at ht
    rw [ha] at ht
    obtain ⟨v, hv⟩ := ht
    simp only [writeAuthorizeError] at hv
    revert hv
    repeat' split
    all_goals simp
  | success ar ps =>
    obtain ⟨hp, hq, _⟩ := respond_success i ar ps ha
    rw [hp] at ht
    intro hpl
    exact (success_shape i ar ps ha).2.2 ht (hq.1 hpl)

/-- Success: the response carries `state`, every `state` it carries is the request's, unchanged, and it is
    delivered at the validated redirect URI (query, fragment or form post). -/
theorem state_echoed_on_success (i : Input) (ar : AR) (ps : List Param) (h : authorize i = .success ar ps) :
    ar.state = ar.form.get "state" ∧ (∃ v, ("state", v) ∈ ps) ∧ (∀ v, ("state", v) ∈ ps → v = some ar.state) ∧
    (respond i).params = ps ∧
    ((respond i).placement = .query ∨ (respond i).placement = .fragment ∨ (respond i).placement = .formPost) := by
  have hvalid := accepted_request_is_valid i ar ps h
  obtain ⟨_, _, c, a0, _, hacc, ⟨fr, dl, _⟩, hd, _⟩ := authorize_success h
  obtain ⟨c', _, _, _, _, _, _, hst, _⟩ := hvalid.2
  obtain ⟨hp, _, hpl⟩ := respond_success i ar ps h
  refine ⟨hst, pHas_iff.1 (dl.hst (didHandleAll_handled hd)), ?_, hp, hpl⟩
  intro v hv
  rw [fr.state]
  exact allState_mem dl.st hv

/-- Errors: whenever the error is redirected (query, fragment or form post — i.e. not rendered directly),
    it carries the request's state unchanged. -/
theorem state_echoed_on_redirected_error (i : Input) (ar : AR) (e : Err) (h : authorize i = .failure ar e)
    (hr : (respond i).placement ≠ .json) :
    ("state", some ar.state) ∈ (respond i).params ∧ ar.state = ar.form.get "state" := by
  unfold respond at hr ⊢
  rw [h] at hr ⊢
  simp only at hr ⊢
  -- the request carries a validated redirect URL
  have hvalid : isRedirectURIValid i.lib ar = true := by
    cases hv : isRedirectURIValid i.lib ar
    · simp [writeAuthorizeError, hv] at hr
    · rfl
  obtain ⟨s, hs⟩ : ∃ s, ar.redirect = some s := by
    cases hred : ar.redirect with
    | none => simp [isRedirectURIValid, hred] at hvalid
    | some s => exact ⟨s, rfl⟩
  have hst : ar.state = ar.form.get "state" := by
    obtain ⟨oe, hreq⟩ := authorize_failure_request h
    exact (newAuthorizeRequest_redirect hreq hs).choose_spec.2.2.2.2
  refine ⟨?_, hst⟩
  simp only [writeAuthorizeError, hvalid, hs]
  simp only [Bool.not_true, Bool.false_eq_true, ↓reduceIte]
  repeat' split
  all_goals simp

/-- "the state is echoed unchanged on success and on redirected errors" -/
theorem state_echoed (i : Input) :
    (∀ ar ps, authorize i = .success ar ps →
      (∃ v, ("state", v) ∈ (respond i).params) ∧
      (∀ v, ("state", v) ∈ (respond i).params → v = some (ar.form.get "state")) ∧ (respond i).placement ≠ .json) ∧
    (∀ ar e, authorize i = .failure ar e → (respond i).placement ≠ .json →
      ("state", some (ar.form.get "state")) ∈ (respond i).params) := by
  constructor
  · intro ar ps h
    obtain ⟨hst, hex, hall, hp, hpl⟩ := state_echoed_on_success i ar ps h
    rw [hp]
    refine ⟨hex, ?_, ?_⟩
    · intro v hv; rw [← hst]; exact hall v hv
    · rcases hpl with h | h | h <;> rw [h] <;> decide
  · intro ar e h hpl
    obtain ⟨hm, hst⟩ := state_echoed_on_redirected_error i ar e h hpl
    rw [← hst]; exact hm

/-! ### non-vacuity: concrete runs of the model -/

namespace Example

def purl (s scheme host path : String) : PURL :=
  { parseOk := true, str := s, scheme := scheme, user := "", host := host, hostname := host, port := "",
    path := path, rawQuery := "", fragment := "", opaquePart := "", hostIsLoopbackIP := false, isRequestURL := true }

def cb : String := "https://app.example/cb"

def lib : Lib :=
  { P := fun s => if s == cb then purl cb "https" "app.example" "/cb" else PURL.bad
    lower := fun s => if s = "Code" then "code" else s
    jwtOf := fun s =>
      if s == "signed" then .parsed { alg := "RS256", kid := "k1", signedBy := "rsa1", claimsValid := true, claims := [("state", "from-the-object")] }
      else if s == "forged" then .parsed { alg := "RS256", kid := "k1", signedBy := "rsa2", claimsValid := true, claims := [("state", "from-the-object")] }
      else if s == "unsigned" then .parsed { alg := "none", kid := "", signedBy := "", claimsValid := true, claims := [("state", "from-the-object")] }
      else .malformed
    fetch := fun _ => .transportError
    audienceOK := fun _ => true
    parseInt := fun _ => 0
    hintOf := fun _ => .invalid
    queryKeys := fun _ => []
    formActionKept := fun _ => true }

def client (grants : List String) (alg : String) : Client :=
  { id := "c1", responseTypes := ["code", "token", "id_token token", "code id_token"], grantTypes := grants,
    scopes := ["openid", "a"], redirectURIs := [cb], isPublic := false, responseModes := some ["query", "fragment", "form_post"],
    oidc := some { jwks := some [{ kid := "k1", use := "sig", kty := .rsa, keyId := "rsa1" }], jwksURI := "", remoteJWKS := none,
                   requestURIs := [], requestObjectSigningAlg := alg } }

def input (c : Client) (form : Form) : Input :=
  { cfg := {}, lib := lib, clients := fun id => if id == "c1" then some c else none, formOK := true, form := form,
    sess := { subject := "peter", authTime := some (-100), requestedAt := some (-20) }, grant := id }

def baseForm (rt mode : String) : Form :=
  [("client_id", "c1"), ("response_type", rt), ("scope", "openid a"), ("state", "12345678"), ("redirect_uri", cb),
   ("nonce", "abcdefgh"), ("response_mode", mode)]

/-- wire rendering, to compare with `decide` -/
def show_ (i : Input) : String :=
  let r := respond i
  let v := match authorize i with
    | .success _ _ => "accept"
    | .failure _ e => "reject " ++ e.name
  let p := match r.placement with
    | .query => "query" | .fragment => "fragment" | .formPost => "form_post" | .json => "json" | .nothing => "none"
  v ++ " " ++ p ++ " " ++ " ".intercalate (r.params.map (·.1))

def both : List String := ["authorization_code", "implicit"]

end Example

open Example in
example : show_ (input (client both "") (baseForm "code" "")) = "accept query code state scope" := by decide
open Example in
example : show_ (input (client both "") (baseForm "token" "")) = "accept fragment access_token expires_in token_type state scope" := by decide
open Example in
example : show_ (input (client both "") (baseForm "token" "query")) = "reject unsupported_response_mode query error error_description state" := by decide
open Example in
example : show_ (input (client both "") (baseForm "token id_token" "form_post")) =
    "accept form_post access_token expires_in token_type state scope id_token" := by decide
open Example in
example : show_ (input (client ["authorization_code"] "") (baseForm "token" "")) = "reject invalid_grant fragment error error_description state" := by decide
open Example in
example : show_ (input (client ["implicit"] "") (baseForm "code id_token" "")) = "reject invalid_grant fragment error error_description state" := by decide
open Example in
example : show_ (input (client ["authorization_code"] "") (baseForm "code id_token" "")) = "accept fragment code state id_token" := by decide
open Example in
example : show_ (input (client both "") (("state", "1234567") :: baseForm "code" "")) = "reject invalid_state query error error_description state" := by decide
open Example in
example : show_ (input (client both "") (("redirect_uri", "https://evil.example/cb") :: baseForm "code" "")) =
    "reject invalid_request json error error_description" := by decide
open Example in
example : show_ (input (client both "") (("request", "signed") :: baseForm "code" "")) = "accept query code state scope" := by decide
open Example in
example : show_ (input (client both "") (("request", "forged") :: baseForm "code" "")) = "reject invalid_request_object json error error_description" := by decide
open Example in
example : show_ (input (client both "RS256") (("request", "unsigned") :: baseForm "code" "")) = "reject invalid_request_object json error error_description" := by decide
open Example in
example : show_ (input (client both "none") (("request", "unsigned") :: baseForm "code" "")) = "accept query code state scope" := by decide

end Fosite.Props.C13

/-
  C04 — refresh tokens rotate: each can be exchanged successfully at most once.
  Property theorems only.  Statements quantify over every state satisfying the grant invariant
  (which holds initially and is preserved by every operation — including the device-code grant and
  the authorization endpoint with a pushed `request_uri`, whose request ids come from the device /
  PAR tables the invariant tracks), every history of operations and every token.
-/
import Fosite.Proofs.GrantHistory
namespace Fosite.Props.C04
open Fosite.Model

/-- the operation is a refresh presenting a credential whose signature is `sig`, and it returned tokens -/
def isRefreshSuccess (sig : Nat) : Op × Out → Bool
  | (.refresh q, .tokens _ _ _ _ _) => q.token.sig == some sig
  | _ => false

/-- the invariant the theorems assume holds in the initial state and after every operation -/
theorem invariant_initially : GInv ({} : MState).ss := init_GInv
theorem invariant_preserved (s : MState) (op : Op) (h : GInv s.ss) : GInv (step s op).1.ss := step_GInv s op h
theorem invariant_after (ops : List Op) (s : MState) (h : GInv s.ss) : GInv (after s ops).ss := after_GInv ops s h

/-- One step: a refresh that returns tokens was presented an exact (MAC-verified) copy of a refresh
    token whose record was *active*, by the client it was issued to, and leaves that token dead:
    rotation by request id hits exactly the presented token. -/
theorem refresh_success_needs_active_and_rotates (s : MState) (hinv : GInv s.ss) (q : RefreshReq) (a r i e sc)
    (h : (step s (.refresh q)).2.1 = .tokens a r i e sc) :
    ∃ sig rec, q.token.sig = some sig ∧ q.token.exact = true ∧
      alookup s.ss.store.refresh sig = some rec ∧ rec.active = true ∧
      rec.req.client.id = q.clientId ∧
      RTDead (step s (.refresh q)).1.ss sig := by
  have hp := step_prog s (.refresh q) (refreshProg s.cfg s.now q) rfl
  rw [hp.2] at h
  obtain ⟨sig, rec, client, hsig, hrec, hact, hex, _, hcid, _, _, _, _, hown, _, _, _, hpost⟩ :=
    (refresh_success {} plain_default.1 s.cfg s.now q { ss := s.ss } a r i e sc h).ex
  refine ⟨sig, rec, hsig, hex, hrec, hact, by rw [hown, hcid], ?_⟩
  rw [hp.1]
  simp only at hpost
  obtain ⟨_, _, _, hss'⟩ := hpost
  rw [hss']
  have hidx : alookup (s.ss.exec .newId).1.store.rtIdx rec.req.id = some sig := by
    rw [(exec_newId_ss s.ss).1]; exact hinv.idx sig rec hrec hact
  have hrec1 : alookup (s.ss.exec .newId).1.store.refresh sig = some rec := by
    rw [(exec_newId_ss s.ss).1]; exact hrec
  obtain ⟨er, _, _, en⟩ := exec_rotate_effect (s.ss.exec .newId).1 rec.req.id sig (some sig) rec hidx hrec1
  have hlt : sig < s.ss.next := (hinv.refreshBelow sig rec hrec).1
  refine ⟨?_, ?_⟩
  · rw [(exec_createRefresh_effect _ _ _).2.2.2, (exec_createAccess_frame _ _).2.2.2, en, exec_newId_next]; omega
  · intro rec' hl
    rw [(exec_createRefresh_effect _ _ _).2.1, alookup_aset, (exec_createAccess_frame _ _).1,
      (exec_createAccess_frame _ _).2.2.2, en, exec_newId_next] at hl
    have hne : sig ≠ s.ss.next + 1 + 1 := by omega
    simp only [hne, if_false] at hl
    rw [er, alookup_aset_self] at hl
    cases hl; rfl

/-- A dead refresh token stays dead through every operation. -/
theorem dead_refresh_token_stays_dead (s : MState) (op : Op) (sig : Nat) (hd : RTDead s.ss sig) :
    RTDead (step s op).1.ss sig := step_RTDead s op sig hd

/-- After a refresh token is dead no operation of any history exchanges it. -/
theorem dead_refresh_token_never_exchanged (ops : List Op) (s : MState) (sig : Nat)
    (hinv : GInv s.ss) (hd : RTDead s.ss sig) : ((trace s ops).filter (isRefreshSuccess sig)).length = 0 := by
  induction ops generalizing s with
  | nil => rfl
  | cons op ops ih =>
    simp only [trace, List.filter_cons]
    have hno : isRefreshSuccess sig (op, (step s op).2.1) = false := by
      cases hop : op with
      | refresh q =>
        cases hout : (step s (.refresh q)).2.1 with
        | tokens a r i e sc =>
          obtain ⟨sig', rec, hs, _, hrec, hact, _, _⟩ := refresh_success_needs_active_and_rotates s hinv q a r i e sc hout
          simp only [isRefreshSuccess, hs]
          by_cases heq : sig' = sig
          · subst heq; have := hd.2 rec hrec; rw [hact] at this; cases this
          · simp [heq]
        | _ => simp [isRefreshSuccess]
      | _ => simp [isRefreshSuccess]
    rw [hno]
    exact ih _ (step_GInv s op hinv) (step_RTDead s op sig hd)

/-- **C04 (one use each).** In any history, from any state satisfying the invariant, a given
    refresh token is exchanged successfully at most once. -/
theorem refresh_token_exchanged_at_most_once (ops : List Op) (s : MState) (sig : Nat) (hinv : GInv s.ss) :
    ((trace s ops).filter (isRefreshSuccess sig)).length ≤ 1 := by
  induction ops generalizing s with
  | nil => simp [trace]
  | cons op ops ih =>
    have hinv' := step_GInv s op hinv
    simp only [trace, List.filter_cons]
    by_cases hsucc : isRefreshSuccess sig (op, (step s op).2.1) = true
    · rw [if_pos hsucc]
      have hdead : RTDead (step s op).1.ss sig := by
        cases hop : op with
        | refresh q =>
          rw [hop] at hsucc
          cases hout : (step s (.refresh q)).2.1 with
          | tokens a r i e sc =>
            obtain ⟨sig', rec, hs, _, _, _, _, hd⟩ := refresh_success_needs_active_and_rotates s hinv q a r i e sc hout
            rw [hout] at hsucc
            simp only [isRefreshSuccess, hs] at hsucc
            have : sig' = sig := by simpa using hsucc
            subst this; exact hd
          | _ => rw [hout] at hsucc; simp [isRefreshSuccess] at hsucc
        | _ => rw [hop] at hsucc; simp [isRefreshSuccess] at hsucc
      rw [List.length_cons, dead_refresh_token_never_exchanged ops _ sig hinv' hdead]; omega
    · rw [if_neg hsucc]; exact ih _ hinv'

theorem refresh_token_exchanged_at_most_once_from_init (ops : List Op) (sig : Nat) :
    ((trace {} ops).filter (isRefreshSuccess sig)).length ≤ 1 :=
  refresh_token_exchanged_at_most_once ops {} sig init_GInv

/-! ### non-vacuity: histories through the device-code grant and a pushed `request_uri` in which
    the refresh token they lead to is exchanged exactly once (the second attempt is refused) -/

def exDeviceHistory : List Op :=
  [ .setCfg { refreshScopes := [] },
    .setClient { id := "c", isPublic := true, grants := [deviceGrant, "refresh_token"] },
    .deviceAuthorize { clientId := "c", credOk := true, formClientId := "c" },
    .deviceDecide 1 true [] [] "u",
    .devicePoll { clientId := "c", credOk := true, code := { sig := some 1, exact := true } },
    .refresh { clientId := "c", credOk := true, token := { sig := some 5, exact := true } },
    .refresh { clientId := "c", credOk := true, token := { sig := some 5, exact := true } } ]

def exParHistory : List Op :=
  [ .setCfg { refreshScopes := [] },
    .setClient { id := "c", isPublic := true, grants := ["refresh_token", "authorization_code"], responseTypes := ["code"] },
    .parPush { credOk := true, q := { clientId := "c", responseTypes := ["code"] } },
    .authorizePar { clientId := "c", uri := some 1 },
    .redeem { clientId := "c", credOk := true, code := { sig := some 2, exact := true } },
    .refresh { clientId := "c", credOk := true, token := { sig := some 5, exact := true } },
    .refresh { clientId := "c", credOk := true, token := { sig := some 5, exact := true } } ]

example : ((trace {} exDeviceHistory).filter (isRefreshSuccess 5)).length = 1 := by decide
example : ((trace {} exParHistory).filter (isRefreshSuccess 5)).length = 1 := by decide

end Fosite.Props.C04

/-
  "Every individual store operation takes effect atomically" as the once-only properties use it (C01 a code is
  invalidated once, C04 a refresh token rotates once, C08 a revocation is complete, C15 a jti is recorded once,
  C16 a device code is used once, C17 a request_uri is consumed once): the history and interleaving theorems
  treat one storage call of the reference store as one atomic step.  That is a fact about `storage/memory.go`
  and is decided here, by the kernel, over the lock / unlock / map-access events the go/ast extractor regenerates
  from the source on every run (`Gen/Facts.lean`): every method holds the mutex of every table it touches while
  it touches it (in write mode for a write), takes each mutex at most once per invocation (one critical section),
  releases what it took, and never takes a mutex it holds.  The proofs are C19's; they are restated here so that
  the checks of those properties re-establish them against the current source.
-/
import Fosite.Props.C19
namespace Fosite.Props.StoreAtomic
open Fosite.Model.Locks Fosite.Proofs.Lockset

theorem store_operations_hold_their_locks : Disciplined Fosite.Gen.lockFacts :=
  Fosite.Props.C19.memory_store_disciplined

theorem store_operations_are_single_critical_sections : SingleSection Fosite.Gen.lockFacts :=
  Fosite.Props.C19.memory_store_single_section

theorem store_operations_release_what_they_take : Balanced Fosite.Gen.lockFacts :=
  Fosite.Props.C19.memory_store_balanced

theorem store_operations_never_reacquire : NoReacquire Fosite.Gen.lockFacts :=
  Fosite.Props.C19.memory_store_no_reacquire

end Fosite.Props.StoreAtomic

/-
  C03 — PKCE binding.  What the PKCE handler demands of a redemption, for every state and
  request; and the machine-checked witness that, as the code stands, the binding does not
  survive a failed attempt (finding F1).
-/
import Fosite.Proofs.History
import Fosite.Props.C02
namespace Fosite.Props.C03
open Fosite.Model

/-- a verifier of 43–128 unreserved characters -/
def wellFormedVerifier (v : String) : Prop :=
  43 ≤ v.length ∧ v.length ≤ 128 ∧ v.toList.all verifierCharOk = true

theorem pkceVerify_none (cfg : Config) (ch m v : String) (hch : ch.length ≠ 0) (h : pkceVerify cfg ch m v = none) :
    wellFormedVerifier v ∧ (if m = "S256" then s256 v = ch else v = ch) := by
  unfold pkceVerify at h
  simp only at h
  have hc0 : (ch.length == 0) = false := by simpa using hch
  simp only [hc0, Bool.and_false, Bool.false_and, Bool.false_eq_true, if_false] at h
  by_cases h1 : v.length < 43
  · simp [h1] at h
  · simp only [h1, if_false] at h
    by_cases h2 : v.length > 128
    · simp [h2] at h
    · simp only [h2, if_false] at h
      by_cases h3 : v.toList.all verifierCharOk = true
      · simp only [h3, Bool.not_true, Bool.false_eq_true, if_false] at h
        refine ⟨⟨by omega, by omega, h3⟩, ?_⟩
        by_cases hm : m = "S256"
        · simp only [hm, beq_self_eq_true, if_true] at h ⊢
          by_cases hs : s256 v = ch
          · exact hs
          · simp [hs] at h
        · have : (m == "S256") = false := by simpa using hm
          simp only [this, Bool.false_eq_true, if_false] at h
          simp only [hm, if_false]
          by_cases hs : v = ch
          · exact hs
          · simp [hs] at h
      · simp [h3] at h

/-- **Binding (while the PKCE session is in place).** If the code's PKCE session is still stored with
    a non-empty challenge, a redemption succeeds only with a well-formed verifier that transforms to
    that challenge under the method fixed at authorization time. -/
theorem pkce_binding_partial (s : MState) (q : RedeemReq) (a r i e sc)
    (h : (step s (.redeem q)).2.1 = .tokens a r i e sc) :
    ∃ sig, q.code.sig = some sig ∧
      ∀ pr, alookup s.ss.store.pkce sig = some pr → (pr.formGet "code_challenge").length ≠ 0 →
        wellFormedVerifier q.verifier ∧
        (if pr.formGet "code_challenge_method" = "S256" then s256 q.verifier = pr.formGet "code_challenge"
         else q.verifier = pr.formGet "code_challenge") := by
  obtain ⟨sig, rec, client, hsig, _, _, _, _, _, _, _, _, _, _, hpk, _⟩ := (C02.redeem_success_facts s q a r i e sc h).ex
  refine ⟨sig, hsig, ?_⟩
  intro pr hpr hch
  rw [hpr] at hpk
  exact pkceVerify_none s.cfg _ _ _ hch hpk.2

/-- `plain` (or an absent method) is accepted only if explicitly enabled. -/
theorem plain_only_if_enabled (s : MState) (q : RedeemReq) (a r i e sc)
    (h : (step s (.redeem q)).2.1 = .tokens a r i e sc) :
    ∃ sig, q.code.sig = some sig ∧
      ∀ pr, alookup s.ss.store.pkce sig = some pr → (pr.formGet "code_challenge").length ≠ 0 →
        pr.formGet "code_challenge_method" ≠ "S256" → s.cfg.enablePlain = true := by
  obtain ⟨sig, rec, client, hsig, _, _, _, _, _, _, _, _, _, _, hpk, _⟩ := (C02.redeem_success_facts s q a r i e sc h).ex
  refine ⟨sig, hsig, ?_⟩
  intro pr hpr hch hm
  rw [hpr] at hpk
  have hv := hpk.1
  unfold pkceValidate at hv
  have hc0 : ((pr.formGet "code_challenge").length == 0) = false := by simpa using hch
  have hm' : (pr.formGet "code_challenge_method" == "S256") = false := by simpa using hm
  simp only [hc0, hm', Bool.false_eq_true, if_false] at hv
  by_cases hp : (pr.formGet "code_challenge_method" == "plain" || pr.formGet "code_challenge_method" == "") = true
  · simp only [hp, if_true] at hv
    by_cases he : s.cfg.enablePlain = true
    · exact he
    · simp [he] at hv
  · simp [hp] at hv

/-- When PKCE is enforced, a code without a stored PKCE session is never redeemable. -/
theorem enforced_no_challenge_never_redeemable (s : MState) (q : RedeemReq) (a r i e sc)
    (henf : s.cfg.enforcePKCE = true)
    (h : (step s (.redeem q)).2.1 = .tokens a r i e sc) :
    ∃ sig, q.code.sig = some sig ∧ (alookup s.ss.store.pkce sig).isSome = true := by
  obtain ⟨sig, rec, client, hsig, _, _, _, _, _, _, _, _, _, _, hpk, _⟩ := (C02.redeem_success_facts s q a r i e sc h).ex
  refine ⟨sig, hsig, ?_⟩
  cases hl : alookup s.ss.store.pkce sig with
  | some pr => rfl
  | none =>
    rw [hl] at hpk
    have := hpk.2
    simp [validateNoPKCE, henf] at this

/-- … and likewise for public clients under public-client enforcement. -/
theorem enforced_public_no_challenge_never_redeemable (s : MState) (q : RedeemReq) (a r i e sc)
    (henf : s.cfg.enforcePKCEPublic = true)
    (h : (step s (.redeem q)).2.1 = .tokens a r i e sc) :
    ∃ sig client, q.code.sig = some sig ∧ client ∈ s.ss.clients ∧ client.id = q.clientId ∧
      (client.isPublic = true → (alookup s.ss.store.pkce sig).isSome = true) := by
  obtain ⟨sig, rec, client, hsig, _, _, _, hm, hid, _, _, _, _, _, hpk, _⟩ := (C02.redeem_success_facts s q a r i e sc h).ex
  refine ⟨sig, client, hsig, hm, hid, ?_⟩
  intro hpub
  cases hl : alookup s.ss.store.pkce sig with
  | some pr => rfl
  | none =>
    rw [hl] at hpk
    have := hpk.2
    simp [validateNoPKCE, henf, hpub] at this

end Fosite.Props.C03

namespace Fosite.Props.C03
open Fosite.Model

/-! ### the full statement (proved so far for states where the PKCE session is in place: `pkce_binding_partial`) -/

/-- the codes issued with a non-empty challenge in a trace: (signature, challenge, method) -/
def challenged : List (Op × Out) → List (Nat × String × String)
  | [] => []
  | (.authorize q, .authz (some c) _ _) :: t => (if q.challenge != "" then [(c, q.challenge, q.method)] else []) ++ challenged t
  | _ :: t => challenged t

def verifierMatches (ch m v : String) : Bool :=
  43 ≤ v.length && v.length ≤ 128 && v.toList.all verifierCharOk && (if m == "S256" then s256 v == ch else v == ch)

/-- every successful redemption of a challenged code carried the matching verifier -/
def pkceRespected (tr : List (Op × Out)) : Bool :=
  tr.all (fun
    | (.redeem q, .tokens _ _ _ _ _) =>
      (challenged tr).all (fun (c, ch, m) => q.code.sig != some c || verifierMatches ch m q.verifier)
    | _ => true)

/-- **C03, full strength**: in every history, a code issued with a challenge is redeemed only with
    the matching verifier — also after failed attempts. -/
def PkceBindingFull : Prop := ∀ ops : List Op, pkceRespected (trace {} ops) = true

def vOK : String := "vvvvvvvvvvvvvvvvvvvvvvvvvvvvvvvvvvvvvvvvvvv"
def vBad : String := "wwwwwwwwwwwwwwwwwwwwwwwwwwwwwwwwwwwwwwwwwww"
def witnessClient : Client := { id := "c1", grants := ["authorization_code"], scopes := ["a"], redirects := ["https://c1/cb"] }
/-- authorize with an S256 challenge; a wrong verifier (refused, but the PKCE session is deleted
    before the verifier is examined); then no verifier at all -/
def witness : List Op :=
  [ .setClient witnessClient,
    .authorize { clientId := "c1", responseTypes := ["code"], redirect := "https://c1/cb", scopes := ["a"], grantScopes := ["a"],
                 subject := "u", challenge := s256 vOK, method := "S256" },
    .redeem { clientId := "c1", credOk := true, code := { sig := some 1, exact := true }, redirect := "https://c1/cb", verifier := vBad },
    .redeem { clientId := "c1", credOk := true, code := { sig := some 1, exact := true }, redirect := "https://c1/cb", verifier := "" } ]

/-- a second witness: two requests without any verifier (what the check found on the implementation) -/
def witness2 : List Op :=
  [ .setClient witnessClient,
    .authorize { clientId := "c1", responseTypes := ["code"], redirect := "https://c1/cb", scopes := ["a"], grantScopes := ["a"],
                 subject := "u", challenge := s256 vOK, method := "S256" },
    .redeem { clientId := "c1", credOk := true, code := { sig := some 1, exact := true }, redirect := "https://c1/cb", verifier := "" },
    .redeem { clientId := "c1", credOk := true, code := { sig := some 1, exact := true }, redirect := "https://c1/cb", verifier := "" },
    .redeem { clientId := "c1", credOk := true, code := { sig := some 1, exact := true }, redirect := "https://c1/cb", verifier := vOK } ]

def isTokens : Out → Bool
  | .tokens .. => true
  | _ => false

set_option maxRecDepth 100000 in
/-- Regression for finding F1 (fixed by "fix: keep the PKCE session until the code has been
    exchanged"): on the repaired handler the witness histories respect the binding — the verifier-less
    requests are refused however many attempts preceded them, and the rightful holder still succeeds. -/
theorem witness_histories_respect_binding :
    pkceRespected (trace {} witness) = true ∧ pkceRespected (trace {} witness2) = true ∧
    ((trace {} witness).map (fun p => isTokens p.2)) = [false, false, false, false] ∧
    ((trace {} witness2).map (fun p => isTokens p.2)) = [false, false, false, false, true] := by
  decide

end Fosite.Props.C03

/-
  C04, the family clauses — "the exchange returns a new access/refresh pair and makes the presented
  refresh token and the access token issued alongside it inactive.  Presenting an already-used refresh
  token is refused with invalid_grant and makes every token issued by the token endpoint for that grant
  (the newest refresh token and access token included) inactive, while tokens of other grants are
  unaffected."

  Reading.  The grant of a refresh token is the request id its record carries; every token the token
  endpoint issues for a grant carries that id (`redeem_tokens`, `refresh_tokens`, restated below).
  "Inactive": `ATGone` / `RTDead` (see `Props/C01b`).  "Already used": the presented signature names a
  record that is inactive.  Fault-free histories; faults are C18's subject.
-/
import Fosite.Proofs.FamilyHistory
import Fosite.Props.C04
namespace Fosite.Props.C04b
open Fosite.Model

/-- the starting-state invariants (hold initially, preserved by every operation) -/
structure WF (ss : SState) : Prop where
  ginv : GInv ss
  nodup : KeysNodup ss
  sound : IdxSound ss

theorem init_WF : WF ({} : MState).ss := ⟨init_GInv, init_KeysNodup, init_IdxSound⟩
theorem step_WF (s : MState) (op : Op) (h : WF s.ss) : WF (step s op).1.ss :=
  ⟨step_GInv s op h.ginv, step_KeysNodup s op h.nodup, step_IdxSound s op h.sound⟩
theorem after_WF (ops : List Op) (s : MState) (h : WF s.ss) : WF (after s ops).ss := by
  induction ops generalizing s with
  | nil => exact h
  | cons op ops ih => exact ih _ (step_WF s op h)

/-- **Rotation.** A refresh that returns tokens leaves, of the presented token's grant, exactly the new
    pair usable: the pair carries the grant's request id; every access token of the grant other than the
    new one is gone — in particular the one issued alongside the presented refresh token — and every
    refresh token of the grant other than the new one is inactive. -/
theorem rotation_leaves_only_the_new_pair (s : MState) (hinv : GInv s.ss) (q : RefreshReq) (a r i e sc)
    (h : (step s (.refresh q)).2.1 = .tokens a r i e sc) :
    ∃ sig rec, q.token.sig = some sig ∧ alookup s.ss.store.refresh sig = some rec ∧ rec.active = true ∧
      TokensOf s.ss (step s (.refresh q)).1.ss rec.req.id a r ∧
      (∀ a' x, alookup (step s (.refresh q)).1.ss.store.access a' = some x → x.id = rec.req.id → a' = a) ∧
      (∀ t rec', alookup (step s (.refresh q)).1.ss.store.refresh t = some rec' →
          rec'.req.id = rec.req.id → rec'.active = true → r = some t) := by
  have hp := step_prog s (.refresh q) (refreshProg s.cfg s.now q) rfl
  rw [hp.2] at h
  rw [hp.1]
  exact refresh_tokens {} plain_default.1 s.cfg s.now q { ss := s.ss } hinv a r i e sc h

/-- … so the access token that was issued alongside the presented refresh token (any access token of
    the same grant minted before this exchange) is gone afterwards, and stays gone. -/
theorem rotation_kills_sibling_access_token (ops : List Op) (s : MState) (hwf : WF s.ss) (q : RefreshReq) (a r i e sc)
    (h : (step s (.refresh q)).2.1 = .tokens a r i e sc)
    (sig : Nat) (rec : RefreshRec) (hsig : q.token.sig = some sig) (hrec : alookup s.ss.store.refresh sig = some rec)
    (a0 : Nat) (ha0 : a0 < s.ss.next) (x0 : Req) (hx0 : alookup s.ss.store.access a0 = some x0) (hid : x0.id = rec.req.id) :
    ATGone (after (step s (.refresh q)).1 ops).ss a0 := by
  apply after_ATGone
  obtain ⟨sig', rec', hsig', hrec', _, htok, huniq, _⟩ := rotation_leaves_only_the_new_pair s hwf.ginv q a r i e sc h
  rw [hsig] at hsig'; cases hsig'
  rw [hrec] at hrec'; cases hrec'
  have hm : s.ss.next ≤ (step s (.refresh q)).1.ss.next := Nat.le_of_lt (Nat.lt_of_le_of_lt htok.1 htok.2.1)
  refine ⟨Nat.lt_of_lt_of_le ha0 hm, ?_⟩
  cases hl : alookup (step s (.refresh q)).1.ss.store.access a0 with
  | none => rfl
  | some x =>
    -- a surviving record of the grant would have to be the new one, which was minted later
    have hcarry : Carry s.ss [a0] [] rec.req.id :=
      ⟨fun a' ha' => by
          simp only [List.mem_singleton] at ha'; subst ha'
          exact ⟨ha0, fun x' hx' => by rw [hx0] at hx'; cases hx'; exact hid⟩,
        fun t ht => by cases ht⟩
    have hx := ((step_Carry s (.refresh q) [a0] [] rec.req.id hwf.nodup hcarry).1 a0 (List.mem_singleton.mpr rfl)).2 x hl
    have := huniq a0 x hl hx
    have := htok.1
    omega

/-- **Reuse is refused and kills the grant, and only that grant** (one step): an authenticated client
    registered for the grant type presents a refresh token whose record is inactive; the answer is
    `invalid_grant`; afterwards no access token of that grant is stored and none of its refresh tokens is
    active (the newest pair included); access tokens, refresh tokens of every other grant and all codes
    are exactly as before. -/
theorem reuse_refused_and_kills_only_that_grant (s : MState) (hwf : WF s.ss) (q : RefreshReq) (client : Client)
    (sig : Nat) (rec : RefreshRec)
    (hauth : authVerdict s.ss.clients q.clientId q.credOk = .ok client)
    (hgrant : client.grants.contains "refresh_token" = true)
    (hsig : q.token.sig = some sig) (hrec : alookup s.ss.store.refresh sig = some rec) (hdead : rec.active = false) :
    (step s (.refresh q)).2.1 = .err .invalid_grant ∧
    GrantDead (step s (.refresh q)).1.ss rec.req.id ∧
    (∀ a x, alookup s.ss.store.access a = some x → x.id ≠ rec.req.id →
        alookup (step s (.refresh q)).1.ss.store.access a = some x) ∧
    (∀ t y, alookup s.ss.store.refresh t = some y → y.req.id ≠ rec.req.id →
        alookup (step s (.refresh q)).1.ss.store.refresh t = some y) ∧
    (step s (.refresh q)).1.ss.store.codes = s.ss.store.codes := by
  have hp := step_prog s (.refresh q) (refreshProg s.cfg s.now q) rfl
  rw [hp.1, hp.2]
  obtain ⟨h1, h2, h3⟩ := run_refresh_reuse {} plain_default s.cfg s.now q { ss := s.ss } hwf.ginv client sig rec hauth hgrant hsig hrec hdead
  refine ⟨h1, h3, ?_⟩
  rw [h2]
  exact reuse_frame s.ss hwf.sound sig rec.req.id rec hrec rfl

/-- **Reuse kills every token of the grant for good.**  Whatever set of tokens is known to belong to the
    grant (`Carry`: signatures handed out by the token endpoint whose records carry the grant's request
    id — every pair returned by `redeem_tokens` / `refresh_tokens` for it), after the refused reuse each
    of them is unusable, and remains so through every continuation of the history. -/
theorem reuse_kills_the_grants_tokens_for_good (ops : List Op) (s : MState) (hwf : WF s.ss) (q : RefreshReq) (client : Client)
    (sig : Nat) (rec : RefreshRec)
    (hauth : authVerdict s.ss.clients q.clientId q.credOk = .ok client)
    (hgrant : client.grants.contains "refresh_token" = true)
    (hsig : q.token.sig = some sig) (hrec : alookup s.ss.store.refresh sig = some rec) (hdead : rec.active = false)
    (A R : List Nat) (hcarry : Carry s.ss A R rec.req.id) :
    (∀ a ∈ A, ATGone (after (step s (.refresh q)).1 ops).ss a) ∧
    (∀ t ∈ R, RTDead (after (step s (.refresh q)).1 ops).ss t) := by
  obtain ⟨_, hgd, _⟩ := reuse_refused_and_kills_only_that_grant s hwf q client sig rec hauth hgrant hsig hrec hdead
  have hc := step_Carry s (.refresh q) A R rec.req.id hwf.nodup hcarry
  obtain ⟨hA, hR⟩ := dead_of_carry _ A R rec.req.id hc hgd
  exact ⟨fun a ha => after_ATGone ops _ a (hA a ha), fun t ht => after_RTDead ops _ t (hR t ht)⟩

/-- The token endpoint's pairs are such known tokens: what a redemption or a refresh returns carries the
    grant's request id (`TokensOf`), so it can be added to any `Carry` set of that grant. -/
theorem issued_pair_is_carried (ss ss' : SState) (rid a : Nat) (r : Option Nat) (A R : List Nat)
    (htok : TokensOf ss ss' rid a r) (hc : Carry ss' A R rid) : Carry ss' (a :: A) (r.toList ++ R) rid := by
  obtain ⟨_, halt, ⟨x, hx, hxid⟩, hr⟩ := htok
  refine ⟨?_, ?_⟩
  · intro a' ha'
    rcases List.mem_cons.mp ha' with h | h
    · subst h; exact ⟨halt, fun x' hx' => by rw [hx] at hx'; cases hx'; exact hxid⟩
    · exact hc.1 a' h
  · intro t ht
    rcases List.mem_append.mp ht with h | h
    · cases r with
      | none => cases h
      | some t' =>
        simp only [Option.toList, List.mem_singleton] at h
        subst h
        obtain ⟨_, htlt, y, hy, hyid⟩ := hr t rfl
        exact ⟨htlt, fun y' hy' => by rw [hy] at hy'; cases hy'; exact hyid⟩
    · exact hc.2 t h

/-! ### non-vacuity: code → tokens (3, 4) → refresh → (6, 7); reuse of 4 kills 6 and 7, a second grant survives -/

def exHistory : List Op :=
  [ .setCfg { refreshScopes := [] },
    .setClient { id := "c", isPublic := true, grants := ["refresh_token", "authorization_code"], responseTypes := ["code"] },
    .authorize { clientId := "c", responseTypes := ["code"] },
    .redeem { clientId := "c", credOk := true, code := { sig := some 1, exact := true } },
    .authorize { clientId := "c", responseTypes := ["code"] },
    .redeem { clientId := "c", credOk := true, code := { sig := some 6, exact := true } },
    .refresh { clientId := "c", credOk := true, token := { sig := some 4, exact := true } } ]

def exReuse : RefreshReq := { clientId := "c", credOk := true, token := { sig := some 4, exact := true } }

example : ((alookup (after {} exHistory).ss.store.refresh 4).map (·.active)) = some false := by decide
example : (match (step (after {} exHistory) (.refresh exReuse)).2.1 with | .err e => some e | _ => none) = some .invalid_grant := by decide
/-- the newest pair of the grant (11, 12) was live before the reuse and is dead after it … -/
example : (alookup (after {} exHistory).ss.store.access 11).isSome = true ∧
    ((alookup (after {} exHistory).ss.store.refresh 12).map (·.active)) = some true := by decide
example : (alookup (step (after {} exHistory) (.refresh exReuse)).1.ss.store.access 11).isSome = false ∧
    ((alookup (step (after {} exHistory) (.refresh exReuse)).1.ss.store.refresh 12).map (·.active)) = some false := by decide
/-- … while the other grant's pair (8, 9) is untouched -/
example : (alookup (step (after {} exHistory) (.refresh exReuse)).1.ss.store.access 8).isSome = true ∧
    ((alookup (step (after {} exHistory) (.refresh exReuse)).1.ss.store.refresh 9).map (·.active)) = some true := by decide

end Fosite.Props.C04b

/-
  C13 (and the writer half of C11) — capstone: the monitor `Spec.Authz.violations` (every clause of C13 and of
  C11's writer half, evaluated on one request and the observation of its response) never reports a violation
  on the model's own response.

  Covers ALL clauses of the monitor at once, under the readings of `Spec/Authz.lean`:
    C13:client_exists, response_type_registered (as a set, case-insensitively), response_mode_allowed,
    state_min_length, oidc_redirect_uri, nonce_min_length, implicit_grant (access token; ID token without a code),
    hybrid_code_grant, request_object_signature / request_uri_registered, tokens_in_query, state_echo;
    C11:response_not_delivered, error_redirect_without_valid_uri, target_not_validated_uri.
  The parameters "in force" the monitor computes by itself (`Spec.Authz.effective`: claims of the request object
  it honours supersede the plain ones) are proved to be the ones the model works with.

  `modelObs i` is the response of the endpoint model (`authorize` + `respond`, the functions `pureModelAuthz`
  evaluates) read as a `Spec.Authz.Obs` with the driver's own field functions (`Proofs/AuthzCap.lean`).  Not
  covered: the text round trip `decObs (renderOutcome i)` of the driver (escaping, `String.splitOn`, which the
  kernel does not reduce) — evaluated on concrete op lines by `#guard roundTrip …` in `Proofs/AuthzCap.lean`.

  The theorems hold for ALL inputs: every configuration, client table and registration, parameter list,
  session, consent decision and every behaviour of the library parameters in `Lib` — `strings.ToLower` included,
  no injectivity is assumed.  Hypotheses (`CapHyp`), both about library parameters and both necessary (witnesses
  below):
    ownKeys      `url.ParseQuery` of the redirect URI the response is written to: none of its own query keys is
                 named access_token, id_token or code (the monitor cannot tell such a key from a parameter)
    actionKept   html/template keeps the form action (scheme http / https / mailto) — otherwise the document
                 posts to itself: the finding reported with C11b
  The unknown-client part needs no hypothesis.
-/
import Fosite.Proofs.AuthzCap
namespace Fosite.Props.C13b
open Fosite Fosite.Model Fosite.Model.Authz Fosite.Spec.Authz Fosite.Proofs.AuthzCap

/-- **Capstone.** For every input of the endpoint: the monitor, evaluated on the request and on the observation
    of the response the model writes for it, reports no violated clause. -/
theorem monitor_silent_on_model (i : Input) (h : CapHyp i) : violations i (modelObs i) = [] :=
  silent i h

/-- the parts: unknown client (no hypothesis at all), accepted request, refused request -/
theorem monitor_silent_on_model_unknown_client (i : Input) (hc : i.clients (i.form.get "client_id") = none) :
    violations i (modelObs i) = [] :=
  silent_unknown i hc

theorem monitor_silent_on_model_accepted (i : Input) (h : CapHyp i) (c : Client)
    (hc : i.clients (i.form.get "client_id") = some c) (ar : AR) (ps : List Param)
    (ha : authorize i = .success ar ps) : violations i (modelObs i) = [] :=
  silent_success i h c hc ar ps ha

theorem monitor_silent_on_model_refused (i : Input) (h : CapHyp i) (c : Client)
    (hc : i.clients (i.form.get "client_id") = some c) (ar : AR) (e : Err)
    (ha : authorize i = .failure ar e) : violations i (modelObs i) = [] :=
  silent_failure i h c hc ar e ha

/-- The parameter list of an accepted request reads, for every parameter but `scope`, like the list the monitor
    computes on its own from the registration and the request (`Spec.Authz.effective`); its `scope` names every
    scope in force (the object's and the plain ones). -/
theorem accepted_parameters_are_the_effective_ones (i : Input) (ar : AR) (ps : List Param)
    (ha : authorize i = .success ar ps) (c : Client) (hc : i.clients (i.form.get "client_id") = some c) :
    (∀ k, k ≠ "scope" → ar.form.get k = (effective i.lib c i.form).get k) ∧
    (∀ x, x ∈ effectiveScopes i.lib c i.form → x ∈ words (ar.form.get "scope")) :=
  accepted_form_eff i ar ps ha c hc

/-! ## non-vacuity -/

section Examples
open Fosite.Props.C13.Example

/-- the hypotheses hold for the example endpoint of `Props/C13.lean` (its `Lib` reports no own query keys and
    keeps every form action), whatever the registration and the request -/
theorem exHyp (c : Client) (form : Form) : CapHyp (input c form) where
  ownKeys := fun _ _ _ hk => by cases hk
  actionKept := actionKept_of_lib (fun _ => rfl)

/-- accepted requests that DO produce a response — code (query), `id_token token` (fragment, with an ID token
    and an access token), hybrid in a form post, and one whose state comes from a verified request object —
    and the monitor, evaluated, answers `[]` -/
example :
    (modelObs (input (client both "") (baseForm "code" ""))).accepted = true ∧
    (modelObs (input (client both "") (baseForm "id_token token" ""))).params =
      ["access_token", "expires_in", "id_token", "scope", "state", "token_type"] ∧
    (modelObs (input (client both "") (baseForm "id_token token" ""))).placement = "fragment" ∧
    (modelObs (input (client both "") (("request", "signed") :: baseForm "code" ""))).state = some "from-the-object" ∧
    violations (input (client both "") (baseForm "code" "")) (modelObs (input (client both "") (baseForm "code" ""))) = [] ∧
    violations (input (client both "") (baseForm "id_token token" ""))
      (modelObs (input (client both "") (baseForm "id_token token" ""))) = [] ∧
    violations (input (client ["authorization_code"] "") (baseForm "code id_token" "form_post"))
      (modelObs (input (client ["authorization_code"] "") (baseForm "code id_token" "form_post"))) = [] ∧
    violations (input (client both "") (("request", "signed") :: baseForm "code" ""))
      (modelObs (input (client both "") (("request", "signed") :: baseForm "code" ""))) = [] := by
  decide

/-- refused requests: redirected error (state echoed), error rendered directly, forged request object -/
example :
    (modelObs (input (client both "") (baseForm "token" "query"))).accepted = false ∧
    (modelObs (input (client both "") (baseForm "token" "query"))).state = some "12345678" ∧
    violations (input (client both "") (baseForm "token" "query"))
      (modelObs (input (client both "") (baseForm "token" "query"))) = [] ∧
    violations (input (client both "") (("redirect_uri", "https://evil.example/cb") :: baseForm "code" ""))
      (modelObs (input (client both "") (("redirect_uri", "https://evil.example/cb") :: baseForm "code" ""))) = [] ∧
    violations (input (client both "") (("request", "forged") :: baseForm "code" ""))
      (modelObs (input (client both "") (("request", "forged") :: baseForm "code" ""))) = [] := by
  decide

/-- the monitor is not trivially silent: deliberately wrong observations for the same requests -/
example :
    let i := input (client both "") (baseForm "id_token token" "")
    let good := modelObs i
    violations i good = [] ∧
    violations i { good with placement := "query" } = ["C13:tokens_in_query"] ∧
    violations i { good with state := some "other" } = ["C13:state_echo"] ∧
    violations i { good with state := none } = ["C13:state_echo"] ∧
    violations i { good with target := "https://evil.example/cb" } = ["C11:target_not_validated_uri"] ∧
    violations i { good with placement := "json" } = ["C11:response_not_delivered"] ∧
    -- an acceptance the statement forbids: client without the implicit grant, short state, unregistered type
    violations (input (client ["authorization_code"] "") (baseForm "id_token token" "")) good =
      ["C13:implicit_grant", "C13:implicit_grant"] ∧
    violations (input (client both "") (("state", "short") :: baseForm "id_token token" "")) good =
      ["C13:state_min_length", "C13:state_echo"] ∧
    violations (input (client both "") (baseForm "code token" "")) good = ["C13:response_type_registered"] ∧
    violations (input (client both "") (("request", "forged") :: baseForm "id_token token" "")) good =
      ["C13:request_object_signature"] := by
  decide

/-- `actionKept` cannot be dropped: in form-post mode with a redirect URI whose scheme html/template refuses,
    the model's own response is reported (the finding of C11b seen through the monitor) -/
example :
    let i := Fosite.Props.C11.WriterExample.input
      (Fosite.Props.C11.WriterExample.form Fosite.Props.C11.WriterExample.app "12345678" "form_post")
    (respond i).actionBlocked = true ∧ violations i (modelObs i) = ["C11:target_not_validated_uri"] := by
  decide

/-- `ownKeys` cannot be dropped: a redirect URI whose own query has a key `id_token` makes the monitor report the
    plain code response (it sees the name in the query string) -/
example :
    let i : Input := { input (client both "") (baseForm "code" "") with
                       lib := { lib with queryKeys := fun _ => ["id_token"] } }
    (modelObs i).accepted = true ∧ violations i (modelObs i) = ["C13:tokens_in_query"] := by
  decide

end Examples

end Fosite.Props.C13b

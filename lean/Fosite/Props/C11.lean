/-
  C11 — the authorization endpoint never redirects to an unregistered URI (pure decision part).
  Property theorems only; lemmas live in `Fosite/Proofs/Redirect.lean`.

  Every theorem quantifies over ALL parsers `P : String → PURL` (the observations of net/url,
  net.ParseIP and govalidator are parameters), all requested strings and all registrations.
  The only parser assumption used anywhere is `ParserFaithful` (named hypothesis, checked by the
  harness on every generated case); it is needed solely to turn "the request-URL validator accepts
  u.String()" into "u.Scheme is non-empty".
-/
import Fosite.Proofs.Redirect
namespace Fosite.Props.C11
open Fosite Fosite.Model
open Fosite.Proofs.Redirect

/-- `url_parse_faithful` (DESIGN §1.3), the part C11 needs: a URL whose `String()` passes
    `govalidator.IsRequestURL` has a non-empty `Scheme`. -/
def ParserFaithful (u : PURL) : Prop := u.isRequestURL = true → u.scheme ≠ ""

/-! ### MatchRedirectURIWithClientRedirectURIs -/

/-- The model of `MatchRedirectURIWithClientRedirectURIs` decides exactly the documented relation:
    it returns the target `Spec.matchTarget` names, and `invalid_request` when there is none. -/
theorem redirect_match_model_eq_spec (P : Parser) (raw : String) (regs : List String) :
    matchRedirectURI P raw regs =
      match Spec.matchTarget P raw regs with
      | some s => .ok s
      | none => .error "invalid_request" :=
  match_eq P raw regs

/-- Soundness: an accepted target is string-identical to a registered URI (requested explicitly, or
    the single registered one when the parameter is omitted), or it is the requested string and that
    is an http loopback-IP variant of a registered URI. -/
theorem redirect_match_sound (P : Parser) (raw : String) (regs : List String) (s : String)
    (h : matchRedirectURI P raw regs = .ok s) : Spec.matchSound P raw regs s := by
  rw [match_eq] at h
  cases hm : Spec.matchTarget P raw regs with
  | none => rw [hm] at h; cases h
  | some t =>
    rw [hm] at h
    injection h with h
    subst h
    exact (matchTarget_sound P raw regs t hm).1

/-- The returned target is in the registration, unless the loopback rule was used. -/
theorem redirect_match_target_registered_or_loopback (P : Parser) (raw : String) (regs : List String)
    (s : String) (h : matchRedirectURI P raw regs = .ok s) :
    s ∈ regs ∨ (s = raw ∧ (P raw).scheme = "http" ∧ (P raw).hostIsLoopbackIP = true ∧
      ∃ r ∈ regs, (P r).hostname = (P raw).hostname ∧ (P r).path = (P raw).path ∧
        (P r).rawQuery = (P raw).rawQuery) := by
  rcases redirect_match_sound P raw regs s h with ⟨_, hs, hm⟩ | ⟨_, hr⟩ | ⟨_, hs, r, hr, hl⟩
  · exact Or.inl (hs ▸ hm)
  · exact Or.inl (by simp [hr])
  · exact Or.inr ⟨hs, hl.1, hl.2.1, r, hr, hl.2.2.2.1, hl.2.2.2.2.1, hl.2.2.2.2.2⟩

/-- The returned target parsed and passed `IsValidRedirectURI`. -/
theorem redirect_match_target_valid (P : Parser) (raw : String) (regs : List String) (s : String)
    (h : matchRedirectURI P raw regs = .ok s) :
    (P s).parseOk = true ∧ isValidRedirectURI (P s) = true := by
  rw [match_eq] at h
  cases hm : Spec.matchTarget P raw regs with
  | none => rw [hm] at h; cases h
  | some t =>
    rw [hm] at h
    injection h with h
    subst h
    have := (matchTarget_sound P raw regs t hm).2
    exact ⟨this.1, (isValid_iff _).2 this.2⟩

/-- `IsValidRedirectURI` accepts only URLs that pass the request-URL validator (absolute) and have no
    fragment. -/
theorem valid_is_absolute_no_fragment (u : PURL) (hf : ParserFaithful u)
    (h : isValidRedirectURI u = true) : u.isAbs = true ∧ u.scheme ≠ "" ∧ u.fragment = "" := by
  have := (isValid_iff u).1 h
  have hs := hf this.1
  exact ⟨by simp [PURL.isAbs, hs], hs, this.2⟩

theorem valid_rejects_fragment (u : PURL) (h : u.fragment ≠ "") : isValidRedirectURI u = false :=
  valid_false_of_not u (fun hh => h hh.2)

theorem valid_rejects_non_request_url (u : PURL) (h : u.isRequestURL = false) :
    isValidRedirectURI u = false :=
  valid_false_of_not u (fun hh => by simp [h] at hh)

/-- The target handed to the authorize endpoint is absolute and has no fragment of its own. -/
theorem redirect_match_target_absolute_no_fragment (P : Parser) (raw : String) (regs : List String)
    (s : String) (hf : ParserFaithful (P s)) (h : matchRedirectURI P raw regs = .ok s) :
    (P s).scheme ≠ "" ∧ (P s).fragment = "" :=
  (valid_is_absolute_no_fragment (P s) hf (redirect_match_target_valid P raw regs s h).2).2

/-- Completeness, exact case: a registered, parseable, valid URI requested verbatim is accepted and
    returned verbatim. -/
theorem redirect_match_exact_registered_accepts (P : Parser) (raw : String) (regs : List String)
    (hne : raw ≠ "") (hm : raw ∈ regs) (hp : (P raw).parseOk = true)
    (hv : isValidRedirectURI (P raw) = true) : matchRedirectURI P raw regs = .ok raw := by
  rw [match_eq]
  have hw : Spec.wellFormedTarget (P raw) := ⟨hp, (isValid_iff _).1 hv⟩
  have hq : Spec.qualifies P raw regs := Or.inl hm
  simp [Spec.matchTarget, hne, hw, hq]

/-- Completeness, loopback case (RFC 8252 §7.3): any port is accepted. -/
theorem redirect_match_loopback_variant_accepts (P : Parser) (raw r : String) (regs : List String)
    (hne : raw ≠ "") (hr : r ∈ regs) (hl : Spec.loopbackVariant (P raw) (P r))
    (hp : (P raw).parseOk = true) (hv : isValidRedirectURI (P raw) = true) :
    matchRedirectURI P raw regs = .ok raw := by
  rw [match_eq]
  have hw : Spec.wellFormedTarget (P raw) := ⟨hp, (isValid_iff _).1 hv⟩
  have hq : Spec.qualifies P raw regs := Or.inr ⟨r, hr, hl⟩
  simp [Spec.matchTarget, hne, hw, hq]

/-- The loopback test does not read the port (nor `Host`, userinfo or the serialisation). -/
theorem loopback_test_ignores_port (u reg : PURL) (port host user str : String) :
    isMatchingAsLoopback { u with port := port, host := host, user := user, str := str } reg =
      isMatchingAsLoopback u reg := rfl

/-- Omitted `redirect_uri`: the single registered URI is used (when it is itself well formed). -/
theorem redirect_match_missing_uses_single (P : Parser) (r : String) (hp : (P r).parseOk = true)
    (hv : isValidRedirectURI (P r) = true) : matchRedirectURI P "" [r] = .ok r := by
  rw [match_eq]
  have hw : Spec.wellFormedTarget (P r) := ⟨hp, (isValid_iff _).1 hv⟩
  simp [Spec.matchTarget, hw]

/-- Omitted `redirect_uri` while none or several are registered: error, no target. -/
theorem redirect_match_missing_needs_single (P : Parser) (regs : List String) (h : regs.length ≠ 1) :
    matchRedirectURI P "" regs = .error "invalid_request" := by
  rw [match_eq]
  match regs, h with
  | [], _ => simp [Spec.matchTarget, errInvalidRequest]
  | [_], h => simp at h
  | _ :: _ :: _, _ => simp [Spec.matchTarget, errInvalidRequest]

/-- A requested URI that is not registered verbatim and is not an http URI on a loopback IP literal
    is never accepted — whatever else the parser says about it. -/
theorem redirect_match_rejects_unregistered (P : Parser) (raw : String) (regs : List String)
    (hne : raw ≠ "") (hm : raw ∉ regs)
    (hl : ¬ ((P raw).scheme = "http" ∧ (P raw).hostIsLoopbackIP = true)) :
    matchRedirectURI P raw regs = .error "invalid_request" := by
  rw [match_eq]
  have hq : ¬ Spec.qualifies P raw regs := by
    intro hq
    rcases hq with hq | ⟨r, _, hv⟩
    · exact hm hq
    · exact hl ⟨hv.1, hv.2.1⟩
  simp [Spec.matchTarget, hne, hq, errInvalidRequest]

/-- A loopback request whose host name, path or query differs from every registered URI is rejected. -/
theorem redirect_match_rejects_loopback_mismatch (P : Parser) (raw : String) (regs : List String)
    (hne : raw ≠ "") (hm : raw ∉ regs)
    (hd : ∀ r ∈ regs, ¬ ((P r).hostname = (P raw).hostname ∧ (P r).path = (P raw).path ∧
      (P r).rawQuery = (P raw).rawQuery)) :
    matchRedirectURI P raw regs = .error "invalid_request" := by
  rw [match_eq]
  have hq : ¬ Spec.qualifies P raw regs := by
    intro hq
    rcases hq with hq | ⟨r, hr, hv⟩
    · exact hm hq
    · exact hd r hr ⟨hv.2.2.2.1, hv.2.2.2.2.1, hv.2.2.2.2.2⟩
  simp [Spec.matchTarget, hne, hq, errInvalidRequest]

/-- A requested URI with a fragment, or one that does not parse, is never accepted. -/
theorem redirect_match_rejects_fragment_or_unparseable (P : Parser) (raw : String) (regs : List String)
    (hne : raw ≠ "") (h : (P raw).fragment ≠ "" ∨ (P raw).parseOk = false) :
    matchRedirectURI P raw regs = .error "invalid_request" := by
  rw [match_eq]
  have hw : ¬ Spec.wellFormedTarget (P raw) := by
    intro hw
    rcases h with h | h
    · exact h hw.2.2
    · rw [hw.1] at h; cases h
  simp [Spec.matchTarget, hne, hw, errInvalidRequest]

/-- The only error the matcher raises is `invalid_request`. -/
theorem redirect_match_error_is_invalid_request (P : Parser) (raw : String) (regs : List String) (e : String)
    (h : matchRedirectURI P raw regs = .error e) : e = "invalid_request" := by
  rw [match_eq] at h
  cases hm : Spec.matchTarget P raw regs with
  | none => rw [hm] at h; injection h with h; exact h.symm
  | some t => rw [hm] at h; cases h

/-! ### IsLocalhost / IsRedirectURISecure / IsRedirectURISecureStrict -/

theorem localhost_model_iff_spec (u : PURL) : isLocalhost u = true ↔ Spec.isLocal u :=
  isLocalhost_iff u

theorem secure_model_eq_spec (u : PURL) : isRedirectURISecure u = Spec.secure u := by
  unfold isRedirectURISecure Spec.secure
  rw [isLocalB_eq]
  by_cases h : u.scheme = "http" <;> cases isLocalhost u <;> simp [h]

theorem strict_model_eq_spec (u : PURL) : isRedirectURISecureStrict u = Spec.secureStrict u := by
  unfold isRedirectURISecureStrict Spec.secureStrict
  rw [isLocalB_eq]
  by_cases h : u.scheme = "http" <;> by_cases h' : u.scheme = "https" <;>
    cases isLocalhost u <;> simp [h, h']

/-- The default secure-checker of the code flow and of PAR accepts plain http only on
    loopback / localhost hosts. -/
theorem secure_http_only_local (u : PURL) (hs : u.scheme = "http")
    (h : isRedirectURISecure u = true) : Spec.isLocal u := by
  rw [← isLocalhost_iff]
  unfold isRedirectURISecure at h
  cases hl : isLocalhost u
  · simp [hs, hl] at h
  · rfl

theorem secure_rejects_remote_http (u : PURL) (hs : u.scheme = "http") (hl : ¬ Spec.isLocal u) :
    isRedirectURISecure u = false := by
  cases h : isRedirectURISecure u
  · rfl
  · exact absurd (secure_http_only_local u hs h) hl

/-- The strict checker accepts nothing but https, and http on loopback / localhost hosts. -/
theorem strict_only_https_or_local_http (u : PURL) (h : isRedirectURISecureStrict u = true) :
    u.scheme = "https" ∨ (u.scheme = "http" ∧ Spec.isLocal u) := by
  unfold isRedirectURISecureStrict at h
  simp only [Bool.or_eq_true, beq_iff_eq, Bool.and_eq_true] at h
  rcases h with h | ⟨h1, h2⟩
  · exact Or.inl h
  · exact Or.inr ⟨h1, (isLocalhost_iff u).1 h2⟩

theorem strict_implies_secure (u : PURL) (h : isRedirectURISecureStrict u = true) :
    isRedirectURISecure u = true := by
  rcases strict_only_https_or_local_http u h with h | ⟨h1, h2⟩
  · unfold isRedirectURISecure; simp [h]
  · unfold isRedirectURISecure; simp [h1, (isLocalhost_iff u).2 h2]

/-! ### Non-vacuity: concrete parser tables (components as net/url reports them) -/

/-- wire rendering of a result, to compare results with `decide` -/
private def res : Except String String → String
  | .ok s => "ok " ++ s
  | .error e => "err " ++ e

private def mk (str scheme host hostname port path query frag : String) (lb req : Bool) : PURL :=
  { parseOk := true, str := str, scheme := scheme, user := "", host := host, hostname := hostname,
    port := port, path := path, rawQuery := query, fragment := frag, opaquePart := "",
    hostIsLoopbackIP := lb, isRequestURL := req }

private def P0 : Parser := fun s =>
  if s = "https://app.example/cb" then mk s "https" "app.example" "app.example" "" "/cb" "" "" false true
  else if s = "https://app.example/cb#x" then mk s "https" "app.example" "app.example" "" "/cb" "" "x" false true
  else if s = "https://app.example.evil.io/cb" then mk s "https" "app.example.evil.io" "app.example.evil.io" "" "/cb" "" "" false true
  else if s = "http://127.0.0.1/cb" then mk s "http" "127.0.0.1" "127.0.0.1" "" "/cb" "" "" true true
  else if s = "http://127.0.0.1:51004/cb" then mk s "http" "127.0.0.1:51004" "127.0.0.1" "51004" "/cb" "" "" true true
  else if s = "http://127.0.0.1:51004/cb2" then mk s "http" "127.0.0.1:51004" "127.0.0.1" "51004" "/cb2" "" "" true true
  else if s = "https://127.0.0.1:51004/cb" then mk s "https" "127.0.0.1:51004" "127.0.0.1" "51004" "/cb" "" "" true true
  else if s = "http://localhost:51004/cb" then mk s "http" "localhost:51004" "localhost" "51004" "/cb" "" "" false true
  else if s = "http://localhost/cb" then mk s "http" "localhost" "localhost" "" "/cb" "" "" false true
  else if s = "http://app.example/cb" then mk s "http" "app.example" "app.example" "" "/cb" "" "" false true
  else if s = "http://x.localhost/cb" then mk s "http" "x.localhost" "x.localhost" "" "/cb" "" "" false true
  else if s = "http://localhost.evil.io/cb" then mk s "http" "localhost.evil.io" "localhost.evil.io" "" "/cb" "" "" false true
  else if s = "/cb" then mk s "" "" "" "" "/cb" "" "" false false
  else PURL.bad

private def regs0 : List String := ["https://app.example/cb", "http://127.0.0.1/cb", "http://localhost/cb"]

example : res (matchRedirectURI P0 "https://app.example/cb" regs0) = "ok https://app.example/cb" := by decide
example : res (matchRedirectURI P0 "http://127.0.0.1:51004/cb" regs0) = "ok http://127.0.0.1:51004/cb" := by decide
example : res (matchRedirectURI P0 "http://127.0.0.1:51004/cb2" regs0) = "err invalid_request" := by decide
example : res (matchRedirectURI P0 "https://127.0.0.1:51004/cb" regs0) = "err invalid_request" := by decide
example : res (matchRedirectURI P0 "http://localhost:51004/cb" regs0) = "err invalid_request" := by decide
example : res (matchRedirectURI P0 "https://app.example.evil.io/cb" regs0) = "err invalid_request" := by decide
example : res (matchRedirectURI P0 "https://app.example/cb#x" ("https://app.example/cb#x" :: regs0)) = "err invalid_request" := by decide
example : res (matchRedirectURI P0 "/cb" ["/cb"]) = "err invalid_request" := by decide
example : res (matchRedirectURI P0 "" regs0) = "err invalid_request" := by decide
example : res (matchRedirectURI P0 "" ["https://app.example/cb"]) = "ok https://app.example/cb" := by decide
example : res (matchRedirectURI P0 "" ["/cb"]) = "err invalid_request" := by decide
example : res (matchRedirectURI P0 "" []) = "err invalid_request" := by decide
example : res (matchRedirectURI P0 "%zz" ["%zz"]) = "err invalid_request" := by decide
example : isRedirectURISecure (P0 "http://app.example/cb") = false := by decide
example : isRedirectURISecure (P0 "http://localhost.evil.io/cb") = false := by decide
example : isRedirectURISecure (P0 "http://x.localhost/cb") = true := by decide
example : isRedirectURISecure (P0 "http://localhost/cb") = true := by decide
example : isRedirectURISecure (P0 "http://127.0.0.1:51004/cb") = true := by decide
example : isRedirectURISecure (P0 "https://app.example/cb") = true := by decide
example : isRedirectURISecureStrict (P0 "https://app.example/cb") = true := by decide
example : isRedirectURISecureStrict (P0 "http://app.example/cb") = false := by decide
example : isRedirectURISecureStrict (P0 "/cb") = false := by decide
example : ParserFaithful (P0 "https://app.example/cb") := by unfold ParserFaithful; decide
example : ParserFaithful (P0 "/cb") := by unfold ParserFaithful; decide

end Fosite.Props.C11

/-
  C20 (storage half) — "Nothing handed to the storage layer by any handler, as a key or inside a stored request
  form, is a usable secret in cleartext: no client secret, user password, S256 code verifier, client assertion, or
  complete authorization code, device code, refresh token or access token (only their signatures)."

  Property theorems only; the calculus (`allCalls`, `cleanProg`), the walker tactic and the per-handler lemmas
  `clean_<handler>Prog` live in `Fosite/Proofs/Taint.lean`.

  READING.  A handler hands data to storage only through the `Call`s of its program.  A secret can reach a stored
  request form only as the value of the request parameter it was sent under, and both `Request.Sanitize` and the
  PAR handler keep or drop whole entries BY NAME; so the theorems are about parameter names (the Go harness's taint
  scan, `hist.taint`, is about values: the two coincide for a client that sends each credential under its protocol
  name; a client that puts its secret into, say, `scope` has it stored on both sides — not a secret "handed over by
  the handler").  `secretParams` = client_secret, client_assertion, password, code_verifier, code, refresh_token,
  device_code, token, access_token.

  `Call.clean c` — per call, the form inside the record handed over avoids:
    * createAccess / createRefresh (token endpoint: code, refresh, client_credentials, password, device_code grants;
      authorization endpoint: implicit / hybrid `token`)        ALL of `secretParams`
      [Go: `requester.Sanitize([]string{})` everywhere ⇒ keys ⊆ {grant_type, response_type, scope, client_id}];
    * createDevice (device authorization endpoint)              ALL  [`dar.Sanitize(nil)`];
    * createPKCE                                                ALL  [whitelist code_challenge, code_challenge_method:
      the CHALLENGE is stored, never the verifier];
    * createOIDC                                                ALL  [whitelist `oidcParameters` = grant_type, max_age,
      prompt, acr_values, id_token_hint, nonce — `id_token_hint` is an ID token, not one of the property's secrets];
    * createCode (code and hybrid flows)                        ALL BUT `code`  [`GetSanitationWhiteList` defaults to
      {code, redirect_uri}; the model fixes the default, `Config.SanitationWhiteList` is not modelled.  At the
      authorization endpoint `code` is not a protocol parameter; an entry under it is whatever the user agent put in
      the query, never the code being minted (that is generated after the form was parsed and is not written into
      it).  The exception is tight: see `createCode_keeps_code_param` below];
    * createPAR (pushed authorization request)                  client_secret, client_assertion, client_assertion_type
      [fix a85a3e2; the pushed request is stored WHOLE otherwise — see §PAR];
    * every other call (lookups, flagging, deletion, revocation, transactions, `authenticateUser`) carries no form.
  KEYS.  Every key position of `Call` is a signature (`Nat` in mint order — the model has no complete token to hand
  over), or a request id / client id / user name.  The ONE exception is the key of createOIDC / getOIDC / deleteOIDC
  in the code and hybrid flows, which in Go is the COMPLETE authorization code (known finding
  `C20:storage-sees-secret:{create,get,delete}OIDC:key:complete_authorization_code`, upstream's storage contract).
  `Call.clean` says NOTHING about that key; §OIDC states the finding as a theorem of the model.
  `authenticateUser` hands over the user name; the password argument of the store's `Authenticate` (whose purpose is
  to check it) is outside the reading, as in the harness scan.  `deviceDecide` (the consent application's write of
  the decision and of the device-flow OIDC session) is not a handler and issues no storage call.

  "Any path": `cleanProg` quantifies over every result the storage layer may return to every call (found, not
  found, inactive, any record, any injected failure), for every configuration, time and request — whatever the
  request's form contains.
-/
import Fosite.Proofs.Taint
import Fosite.Proofs.History
namespace Fosite.Props.C20b
open Fosite Fosite.Model

/-! ## 1. Every storage call of every endpoint is clean -/

/-- **Capstone (program level).**  Whatever API operation is run in whatever model state (configuration, clock,
    store), every storage call its endpoint program can issue — on every path, i.e. whatever the storage layer
    answers to each earlier call — is clean.  Covers "inside a stored request form" for every handler; the reading
    of "clean" per call is in the header. -/
theorem every_storage_call_clean (s : MState) (op : Op) (p : Prog Out) (h : op.prog s = some p) : cleanProg p :=
  allCalls_clean_prog s op p h

/-- **Run level.**  Every entry of the storage-call log of one operation is clean — from every state, under every
    fault plan (`rc.plan`), over a plain or a transactional store (`rc.tx`).  Since `s` is arbitrary this holds at
    every point of every history. -/
theorem storage_log_clean (rc : RunCfg) (s : MState) (op : Op) : ∀ e ∈ (stepWith rc s op).2.2, e.1.clean :=
  stepWith_log_all Call.clean allCalls_clean_prog rc s op

/-- the fault-free instance -/
theorem storage_log_clean_step (s : MState) (op : Op) : ∀ e ∈ (step s op).2.2, e.1.clean := by
  rw [← stepWith_plain]; exact storage_log_clean {} s op

/-- Apart from the authorize-code record and the pushed-request record, every logged record avoids ALL
    secret-bearing names: no `client_secret`, `client_assertion`, `password`, `code_verifier`, `code`,
    `refresh_token`, `device_code`, `token`, `access_token` in any access-token, refresh-token, PKCE, OIDC or
    device-authorization record, under any run configuration. -/
theorem storage_log_strict_except_code_and_par (rc : RunCfg) (s : MState) (op : Op) :
    ∀ e ∈ (stepWith rc s op).2.2, e.1.relaxed = false → e.1.strict :=
  fun e he hr => strict_of_clean e.1 hr (storage_log_clean rc s op e he)

/-- the token endpoint, grant by grant, for all configurations, times and requests (the per-handler theorems;
    authorization endpoint, device authorization, PAR, revocation and introspection are
    `clean_authorizeProg`, `clean_deviceAuthProg`, `clean_parPushProg`, `clean_authorizeParProg`, `clean_revokeProg`,
    `clean_introspectProg`, `clean_introspectEndpointProg` in `Proofs/Taint.lean`) -/
theorem token_endpoint_clean (cfg : Config) (now : Time) :
    (∀ q, cleanProg (redeemProg cfg now q)) ∧ (∀ q, cleanProg (refreshProg cfg now q)) ∧
    (∀ q, cleanProg (clientCredentialsProg cfg now q)) ∧ (∀ q, cleanProg (passwordProg cfg now q)) ∧
    (∀ q, cleanProg (devicePollProg cfg now q)) :=
  ⟨clean_redeemProg cfg now, clean_refreshProg cfg now, clean_clientCredentialsProg cfg now,
   clean_passwordProg cfg now, clean_devicePollProg cfg now⟩

/-- revocation and introspection hand no record to storage at all and never touch the OIDC-session table -/
theorem revoke_introspect_hand_over_nothing (cfg : Config) (now : Time) :
    (∀ q, allCalls Quiet (revokeProg q)) ∧ (∀ q, allCalls Quiet (introspectProg cfg now q)) ∧
    (∀ r, allCalls Quiet (introspectEndpointProg cfg now r)) :=
  ⟨quiet_revokeProg, quiet_introspectProg cfg now, quiet_introspectEndpointProg cfg now⟩

/-! ### examples: a redeem request whose form carries the client secret, the verifier and the code -/

def exClient_tn : Client :=
  { id := "c1", grants := ["authorization_code", "refresh_token"], scopes := ["offline", "openid"],
    redirects := ["https://c1/cb"] }

def exVerifier : String := "abcdefghijklmnopqrstuvwxyzABCDEFGHIJKLMNOPQRSTUVWXYZ0123456789-._~"

/-- a registered client and one OpenID Connect authorization code (signature 1) bound to an S256 challenge -/
def exState_tn : MState :=
  after {} [ .setClient exClient_tn,
             .authorize { clientId := "c1", responseTypes := ["code"], redirect := "https://c1/cb",
                          scopes := ["offline", "openid"], grantScopes := ["offline", "openid"], subject := "u",
                          challenge := s256 exVerifier, method := "S256" } ]

/-- the token request as the client sends it: every secret of the exchange is in the form -/
def exRedeem_tn : Op :=
  .redeem { clientId := "c1", credOk := true, code := { sig := some 1, exact := true }, redirect := "https://c1/cb",
            verifier := exVerifier,
            form := [("grant_type", "authorization_code"), ("code", "RANDOM.SIG1"), ("redirect_uri", "https://c1/cb"),
                     ("client_id", "c1"), ("client_secret", "s3cret"), ("code_verifier", exVerifier)] }

def isTokens_tn : Out → Bool | .tokens .. => true | _ => false
def formsOf (l : List (Call × Res)) : List (List (String × String)) := l.filterMap (fun e => e.1.storedForm)

/-- the exchange succeeds (access token, refresh token, ID token) … -/
example : isTokens_tn (step exState_tn exRedeem_tn).2.1 = true := by decide
/-- … two records are handed over (access, refresh), each with exactly the whitelisted entries … -/
example : formsOf (step exState_tn exRedeem_tn).2.2 =
    [[("grant_type", "authorization_code"), ("client_id", "c1")],
     [("grant_type", "authorization_code"), ("client_id", "c1")]] := by decide
/-- … and the whole log is clean, evaluated (this is `storage_log_clean_step` on the instance) -/
example : ∀ e ∈ (step exState_tn exRedeem_tn).2.2, e.1.clean := by decide
/-- the same under a fault at `createAccess` over a transactional store -/
example : ∀ e ∈ (stepWith { plan := planOf [(6, .generic)], tx := true } exState_tn exRedeem_tn).2.2, e.1.clean := by decide
/-- the authorization request before it: code record, OIDC session, PKCE session (challenge, not verifier) -/
example : formsOf (step (after {} [.setClient exClient_tn])
      (.authorize { clientId := "c1", responseTypes := ["code"], redirect := "https://c1/cb",
                    scopes := ["offline", "openid"], grantScopes := ["offline", "openid"], subject := "u",
                    challenge := s256 exVerifier, method := "S256" })).2.2 =
    [[("response_type", "code"), ("client_id", "c1"), ("redirect_uri", "https://c1/cb"), ("scope", "offline openid")],
     [("response_type", "code"), ("client_id", "c1"), ("scope", "offline openid")],
     [("response_type", "code"), ("client_id", "c1"), ("scope", "offline openid"),
      ("code_challenge", s256 exVerifier), ("code_challenge_method", "S256")]] := by decide

/-! ### the predicate and the calculus are not vacuous: dirty calls, a dirty program -/

/-- storing the unsanitised token-request form would be caught … -/
example : ¬ Call.clean (.createAccess { form := [("grant_type", "authorization_code"), ("client_secret", "s3cret")] }) := by
  decide
example : ¬ Call.clean (.createRefresh 3 { form := [("code_verifier", exVerifier)] }) := by decide
example : ¬ Call.clean (.createCode { form := [("password", "secret")] }) := by decide
example : ¬ Call.clean (.createPAR { req := { form := [("client_assertion", "eyJ…")] } }) := by decide
example : ¬ Call.clean (.createDevice { req := { form := [("client_secret", "s3cret")] } }) := by decide
/-- … also when it happens only on one path of a program, after any number of clean calls -/
example : ¬ cleanProg (do
    let r ← call (.getCode (some 1))
    match r with
    | .req ar => let _ ← call (.createAccess ar); return ()      -- the stored record as found, unsanitised: fine
    | _ => let _ ← call (.createAccess { form := [("password", "secret")] }); return () : Prog Unit) :=
  fun h => absurd (h.2 .notFound).1 (by decide)

/-! ## 2. §PAR — the pushed-request record, honestly

  `CreatePARSession` receives the complete pushed authorize request.  After fix a85a3e2 the handler deletes
  `client_secret`, `client_assertion`, `client_assertion_type` from its form first; nothing else is filtered.  In
  the model a push consists of typed authorization parameters (`ParPushReq.q : AuthzReq`, whose form has only the
  names response_type, client_id, redirect_uri, scope, state, nonce, audience, code_challenge, code_challenge_method:
  there is no field for a verifier — `code_verifier` is never part of an authorization request, `code_challenge`
  is) plus arbitrary extra body parameters (`extraForm`). -/

/-- The record handed to `createPAR` is EXACTLY the pushed form minus the three client-authentication parameters, and
    it is the only record a push hands over (any fault plan, transactions or not). -/
theorem par_record_exact (rc : RunCfg) (s : MState) (p : ParPushReq) :
    ∀ e ∈ (stepWith rc s (.parPush p)).2.2, parRecordIs p e.1 :=
  stepWith_log_of_prog _ rc s _ _ rfl (parRecord_parPushProg s.cfg s.now p)

/-- the authorization parameters themselves never contribute a secret-bearing name -/
theorem pushed_authorization_parameters_clean (q : AuthzReq) : formAvoids secretParams q.form = true :=
  authzForm_avoids q

/-- Hence: a push whose EXTRA body parameters have no secret-bearing name stores no secret-bearing name at all
    (hypothesis: `formAvoids secretParams p.extraForm` — decidable; `extraForm := []`, or any non-credential
    parameters, meet it). -/
theorem par_record_strict_of_extra (rc : RunCfg) (s : MState) (p : ParPushReq)
    (h : formAvoids secretParams p.extraForm = true) : ∀ e ∈ (stepWith rc s (.parPush p)).2.2, e.1.strict :=
  stepWith_log_of_prog _ rc s _ _ rfl (strict_parPushProg s.cfg s.now p h)

/-- The case the fix is about: extra body parameters that are client-authentication parameters and otherwise
    harmless.  Hypothesis: every extra entry is either one of the three removed names or not secret-bearing. -/
theorem par_record_strict_of_extra_auth (rc : RunCfg) (s : MState) (p : ParPushReq)
    (h : p.extraForm.all (fun kv => parRemovedParams.contains kv.1 || !secretParams.contains kv.1) = true) :
    ∀ e ∈ (stepWith rc s (.parPush p)).2.2, e.1.strict := by
  intro e he
  have hx := par_record_exact rc s p e he
  exact strict_of_parRecordIs_auth p h e.1 hx

def exPushQ : AuthzReq :=
  { clientId := "c1", responseTypes := ["code"], redirect := "https://c1/cb", scopes := ["offline"],
    challenge := s256 exVerifier, method := "S256" }

/-- non-vacuity of both hypotheses; the secret sent for client authentication is not in the record -/
def exPushAuth : ParPushReq :=
  { credOk := true, q := exPushQ, extraForm := [("client_secret", "s3cret"), ("client_assertion_type", "x"), ("foo", "bar")] }
def exPushPlain : ParPushReq := { credOk := true, q := exPushQ, extraForm := [("foo", "bar"), ("resource", "https://rs")] }
example : formAvoids secretParams exPushPlain.extraForm = true := by decide
example : (formsOf (step (after {} [.setClient exClient_tn]) (.parPush exPushPlain)).2.2).length = 1 := by decide
example : exPushAuth.extraForm.all (fun kv => parRemovedParams.contains kv.1 || !secretParams.contains kv.1) = true := by
  decide
example : formsOf (step (after {} [.setClient exClient_tn]) (.parPush exPushAuth)).2.2 =
    [[("response_type", "code"), ("client_id", "c1"), ("redirect_uri", "https://c1/cb"), ("scope", "offline"),
      ("code_challenge", s256 exVerifier), ("code_challenge_method", "S256"), ("foo", "bar")]] := by decide

/-- **What the theorem does NOT say** (the hypothesis of `par_record_strict_of_extra` is needed): the PAR record is
    not whitelisted, so any other parameter a client pushes is stored verbatim.  A client that (wrongly) pushes its
    `code_verifier` — or a `password` — has it persisted in cleartext until the request_uri is used or expires. -/
def exPushLeaky : ParPushReq :=
  { credOk := true, q := exPushQ, extraForm := [("client_secret", "s3cret"), ("code_verifier", exVerifier)] }

example : formsOf (step (after {} [.setClient exClient_tn]) (.parPush exPushLeaky)).2.2 =
    [[("response_type", "code"), ("client_id", "c1"), ("redirect_uri", "https://c1/cb"), ("scope", "offline"),
      ("code_challenge", s256 exVerifier), ("code_challenge_method", "S256"), ("code_verifier", exVerifier)]] := by decide
/-- clean in the PAR reading, not strict -/
example : (∀ e ∈ (step (after {} [.setClient exClient_tn]) (.parPush exPushLeaky)).2.2, e.1.clean) ∧
    ¬ (∀ e ∈ (step (after {} [.setClient exClient_tn]) (.parPush exPushLeaky)).2.2, e.1.strict) := by decide

/-- When the request_uri is used, everything created from the pushed record is sanitised again: the verifier of the
    leaky push is in none of the records of `authorizePar`; the only non-whitelisted name that can survive into the
    code record is `code` (here sent as a query parameter next to the request_uri). -/
theorem createCode_keeps_code_param :
    formsOf (step (after {} [.setClient exClient_tn, .parPush exPushLeaky])
      (.authorizePar { clientId := "c1", uri := some 1, extra := [("code", "JUNK")], grantScopes := ["offline"],
                       subject := "u" })).2.2 =
    [[("code", "JUNK"), ("response_type", "code"), ("client_id", "c1"), ("redirect_uri", "https://c1/cb"),
      ("scope", "offline")],
     [("response_type", "code"), ("client_id", "c1"), ("scope", "offline"),
      ("code_challenge", s256 exVerifier), ("code_challenge_method", "S256")]] := by decide

/-! ## 3. §OIDC — the key of the OpenID Connect session (known finding, stated) -/

/-- **Code flow.**  Every `getOIDC` / `deleteOIDC` the token endpoint issues for an authorization_code request uses
    the key `q.code.completeKey` = "the signature, if the COMPLETE presented code is the minted one, else nothing":
    the storage layer is asked about the complete authorization code, not about its signature (Go:
    `GetOpenIDConnectSession(ctx, code, …)` / `DeleteOpenIDConnectSession(ctx, code)` with the raw `code` form
    value; `CreateOpenIDConnectSession(ctx, resp.GetCode(), …)` at the authorization endpoint).  This is the one
    key `Call.clean` excludes — `Call.keyIsCompleteCode` marks the three calls. -/
theorem oidc_session_key_is_complete_code (rc : RunCfg) (s : MState) (q : RedeemReq) :
    ∀ e ∈ (stepWith rc s (.redeem q)).2.2, oidcKeyIs q.code.completeKey e.1 :=
  stepWith_log_of_prog _ rc s _ _ rfl (oidcKey_redeemProg s.cfg s.now q)

/-- **Device flow** (after fix a1ba3bd): the OIDC session is read and deleted under the device-code SIGNATURE,
    independently of the rest of the presented device code. -/
theorem oidc_session_key_device_is_signature (rc : RunCfg) (s : MState) (q : DevicePollReq) :
    ∀ e ∈ (stepWith rc s (.devicePoll q)).2.2, oidcKeyIs q.code.sig e.1 :=
  stepWith_log_of_prog _ rc s _ _ rfl (oidcKey_devicePollProg s.cfg s.now q)

/-- the finding on the instance: the authorization and the exchange issue the three complete-code-keyed calls -/
example : ((step (after {} [.setClient exClient_tn])
      (.authorize { clientId := "c1", responseTypes := ["code"], redirect := "https://c1/cb",
                    scopes := ["offline", "openid"], grantScopes := ["offline", "openid"], subject := "u",
                    challenge := s256 exVerifier, method := "S256" })).2.2.filter (·.1.keyIsCompleteCode)).length = 1 ∧
    ((step exState_tn exRedeem_tn).2.2.filter (·.1.keyIsCompleteCode)).length = 2 := by decide

end Fosite.Props.C20b

/-
  C06, JWT half — "A JWT access token is accepted only with a valid signature from the configured key
  and an asymmetric algorithm (never none or a symmetric one) … for every JWT header/payload/signature
  manipulation."
  Property theorems only; lemmas live in `Fosite/Proofs/JWTAT.lean`.  Every theorem is prefixed `jwt_`.

  Every theorem quantifies over ALL key configurations (`KeyCfg`: what the key getter returns, by
  dynamic Go type), ALL tokens (`Token`: the facts about one presented string — serialization, number
  of parts, base64 / JSON well-formedness, header `alg`, `crit`, the crypto facts `signedBy` / `macBy`,
  the three `Valid()` bits, subject and scopes), all scope verdicts and all required-scope lists.
  "Accepted somewhere" covers the three entry points: `DefaultJWTStrategy.ValidateAccessToken`,
  `DefaultSigner.Validate`, and `(*Fosite).IntrospectToken` over the stateless JWT validator.

  ONE part of the statement is FALSE for the code: "a JWT" is a compact JWS of three parts, but
  go-jose's `ParseSigned` also takes the JWS JSON serialization (any string that starts with "{"
  after whitespace is stripped), fosite's `Decode` path never looks at the text again, and so
  `ValidateAccessToken` and stateless introspection accept `{"protected":…,"payload":…,"signature":…}`
  re-wrappings of a valid token — with an attacker-chosen UNPROTECTED header merged into the header
  fosite hands on (`unsignedHdr`: introspection puts those members into the session's
  `JWTHeader.Extra` next to the signed ones).  `DefaultSigner.Validate` counts the dots afterwards and
  so refuses the plain re-wrapping, but accepts one whose unprotected header contains two dots.
  The model is faithful; `jwt_json_form_counterexample` is the witness, `jwt_validate_eq_spec_any_form`
  / `jwt_validate_eq_spec_compact` are the exact statements.  The signature, algorithm and key
  clauses hold for every serialization.
-/
import Fosite.Proofs.JWTAT
namespace Fosite.Props.C06
open Fosite.Model.JWTAT Fosite.Spec.JWTAT Fosite.Proofs.JWTAT

/-! ### 1. model = specification -/

/-- `ValidateAccessToken` accepts exactly: a well-formed JWS (either serialization) with one
    signature and a claims object, signed — for an asymmetric algorithm of the key's type — by the
    configured key, no unsupported `crit`, claims in time. -/
theorem jwt_validate_eq_spec_any_form (cfg : KeyCfg) (t : Token) :
    validateAccessToken cfg t = .ok ↔ AcceptsAnyForm cfg t := validate_ok_iff

/-- On strings that are not the JSON serialization the strategy accepts exactly what C06 allows. -/
theorem jwt_validate_eq_spec_compact (cfg : KeyCfg) (t : Token) (hc : t.json = false) :
    validateAccessToken cfg t = .ok ↔ Accepts cfg t := by
  rw [accepts_iff_anyForm_compact]
  constructor
  · intro h
    have ha := validate_ok_iff.mp h
    refine ⟨ha, hc, ?_⟩
    have hf := ha.1.1
    rw [hc] at hf
    exact hf.1
  · intro ⟨ha, _, _⟩
    exact validate_ok_iff.mpr ha

/-- The signer-level `Validate` (decode, then "three parts") accepts exactly what C06 allows on
    strings that are not the JSON serialization. -/
theorem jwt_signer_validate_eq_spec_compact (cfg : KeyCfg) (t : Token) (hc : t.json = false) :
    signerValidate cfg t = .ok () ↔ Accepts cfg t := by
  rw [signerValidate_ok_iff, ← validate_ok_iff_decode, ← jwt_validate_eq_spec_compact cfg t hc]
  constructor
  · intro h; exact h.1
  · intro h
    exact ⟨h, ((accepts_iff_anyForm_compact).mp ((jwt_validate_eq_spec_compact cfg t hc).mp h)).2.2⟩

/-- Introspection answers `ok` exactly for acceptable tokens whose scopes cover every non-empty
    required scope, and then reports the token's own subject and scopes. -/
theorem jwt_introspect_eq_spec_compact (cfg : KeyCfg) (t : Token) (cover : String → Bool)
    (need : List String) (sub : String) (scopes uh : List String) (hc : t.json = false) :
    introspect cfg t cover need = .ok sub scopes uh ↔
      Accepts cfg t ∧ scopesCovered cover need ∧ sub = t.sub ∧ scopes = t.scopes ∧ uh = t.unsignedHdr := by
  rw [introspect_ok_iff, ← jwt_validate_eq_spec_compact cfg t hc]
  rfl

/-- THE FINDING, in general form: any acceptable token re-serialized as JWS JSON is accepted by the
    strategy although it is not a JWT. -/
theorem jwt_json_form_accepted (cfg : KeyCfg) (t : Token) (hj : t.json = true)
    (h : AcceptsAnyForm cfg t) : validateAccessToken cfg t = .ok ∧ ¬ Accepts cfg t := by
  refine ⟨validate_ok_iff.mpr h, ?_⟩
  intro ha
  have := ha.1.1
  rw [hj] at this
  cases this

/-- the witness: RS256 token of key "R1", flattened JSON serialization (no dots: one part) with an
    unprotected header `{"admin":true}` -/
def jsonWitness : Token :=
  { json := true, jsonOK := true, nseg := 1, b64OK := false, hdrOK := true, nsig := 1, alg := "RS256",
    critOK := true, payloadOK := true, signedBy := some "R1", macBy := none, content := "c",
    claims := ⟨false, false, false⟩, sub := "peter", scopes := ["a"], unsignedHdr := ["admin"] }

theorem jwt_json_form_counterexample :
    ∃ cfg t, validateAccessToken cfg t = .ok ∧
      introspect cfg t (fun _ => true) [] = .ok t.sub t.scopes ["admin"] ∧ ¬ Accepts cfg t := by
  refine ⟨.direct (.rsaPriv "R1"), jsonWitness, by decide, by decide, ?_⟩
  intro h
  have := h.1.1
  simp [jsonWitness] at this

/-- the signer-level `Validate` does look at the text, so the plain JSON re-wrapping is refused there … -/
example : signerValidate (.direct (.rsaPriv "R1")) jsonWitness = .error .plain := by decide
/-- … but not one with two dots somewhere in the JSON text (e.g. an unprotected `{"x":"a.b.c"}`) -/
example : signerValidate (.direct (.rsaPriv "R1")) { jsonWitness with nseg := 3 } = .ok () := by decide

/-! ### 2. the signature of the configured key -/

/-- Whatever is accepted, anywhere, carries a signature that verifies under the configured key
    (and there is a configured key). -/
theorem jwt_accepted_needs_configured_key_signature (cfg : KeyCfg) (t : Token)
    (h : AcceptedSomewhere cfg t) :
    ∃ k ty, configured cfg = some (k, ty) ∧ t.signedBy = some k ∧ t.critOK = true := by
  obtain ⟨_, k, ty, hc, _, hs, hcr, _⟩ := accepted_anyForm h
  exact ⟨k, ty, hc, hs, hcr⟩

/-- A token whose signature verifies under no key, or under a foreign key, is never accepted. -/
theorem jwt_foreign_or_missing_signature_rejected (cfg : KeyCfg) (t : Token)
    (h : ∀ k ty, configured cfg = some (k, ty) → t.signedBy ≠ some k) : ¬ AcceptedSomewhere cfg t := by
  intro ha
  obtain ⟨k, ty, hc, hs, _⟩ := jwt_accepted_needs_configured_key_signature cfg t ha
  exact h k ty hc hs

/-- Under a configuration without a usable verification key nothing is accepted. -/
theorem jwt_no_configured_key_nothing_accepted (cfg : KeyCfg) (t : Token) (h : configured cfg = none) :
    ¬ AcceptedSomewhere cfg t := by
  intro ha
  obtain ⟨k, ty, hc, _⟩ := jwt_accepted_needs_configured_key_signature cfg t ha
  rw [h] at hc
  cases hc

/-! ### 3. never `none`, never symmetric, the algorithm matches the key type -/

/-- The algorithm of an accepted token is of the configured key's family: RS*/PS* for an RSA key,
    ES* for an ECDSA key (exact spellings). -/
theorem jwt_alg_must_match_key_type (cfg : KeyCfg) (t : Token) (h : AcceptedSomewhere cfg t) :
    ∃ k ty, configured cfg = some (k, ty) ∧ algFamily t.alg = ty.family := by
  obtain ⟨_, k, ty, hc, hf, _⟩ := accepted_anyForm h
  exact ⟨k, ty, hc, hf⟩

/-- an accepted algorithm is asymmetric -/
theorem jwt_accepted_alg_asymmetric (cfg : KeyCfg) (t : Token) (h : AcceptedSomewhere cfg t) :
    algFamily t.alg = .rsa ∨ algFamily t.alg = .ec := by
  obtain ⟨_, ty, _, hf⟩ := jwt_alg_must_match_key_type cfg t h
  cases ty with
  | rsa => exact Or.inl hf
  | ec => exact Or.inr hf

/-- `alg: none` is never accepted — whatever the key configuration, the signature part (empty or
    not: all values of every other fact), the serialization, the claims. -/
theorem jwt_none_never_accepted (cfg : KeyCfg) (t : Token) (h : t.alg = "none") :
    ¬ AcceptedSomewhere cfg t := by
  intro ha
  have hf : algFamily t.alg = .none := by rw [h]; decide
  rcases jwt_accepted_alg_asymmetric cfg t ha with h1 | h1 <;> rw [hf] at h1 <;> cases h1

/-- Anything that is not one of the nine asymmetric spellings is never accepted: "None", "NONE",
    "rs256", "", "EdDSA", "ES256K", … -/
theorem jwt_unknown_alg_never_accepted (cfg : KeyCfg) (t : Token) (h : algFamily t.alg = .other) :
    ¬ AcceptedSomewhere cfg t := by
  intro ha
  rcases jwt_accepted_alg_asymmetric cfg t ha with h1 | h1 <;> rw [h] at h1 <;> cases h1

/-- HS256/384/512 are never accepted — in particular not when the MAC key is an encoding of the
    configured PUBLIC key (`macBy = some k`: the key-confusion attack). -/
theorem jwt_symmetric_never_accepted (cfg : KeyCfg) (t : Token) (h : algFamily t.alg = .hmac) :
    ¬ AcceptedSomewhere cfg t := by
  intro ha
  rcases jwt_accepted_alg_asymmetric cfg t ha with h1 | h1 <;> rw [h] at h1 <;> cases h1

/-- The refusal happens at the algorithm / key-type switch, before any MAC could be compared: the
    verdict is the same function of the token with the MAC fact replaced by anything, and for a
    parseable HS* token under a usable key it is `token_signature_mismatch`. -/
theorem jwt_symmetric_rejected_before_mac (cfg : KeyCfg) (t : Token) (m : Option KeyId) :
    validateAccessToken cfg { t with macBy := m } = validateAccessToken cfg t := by
  unfold validateAccessToken validate
  rw [decode_ignores_mac]

theorem jwt_symmetric_error (cfg : KeyCfg) (t : Token) (vk : VKey) (hk : verificationKey cfg = some vk)
    (hp : joseParse t = true) (hpl : t.payloadOK = true) (hn : t.nsig = 1)
    (h : algFamily t.alg = .hmac ∨ algFamily t.alg = .none ∨ algFamily t.alg = .other) :
    validateAccessToken cfg t = .err .token_signature_mismatch := by
  have hv : verifies vk t = false := by
    cases hvv : verifies vk t with
    | false => rfl
    | true =>
      obtain ⟨k, ty, _, hf, _⟩ := verifies_true hvv
      cases ty <;> rcases h with h | h | h <;> rw [hf] at h <;> cases h
  simp [validateAccessToken, validate, decode, hk, parseWithClaims, hp, hpl, hn, hv, toRFCErr]

/-! ### 4. altered header or payload -/

/-- The assumption about the crypto fact, stated for one token: if its signature verifies under key
    pair `k`, then the holder of `k`'s private key signed exactly this (decoded protected header,
    decoded payload) — existential unforgeability of RS*/PS*/ES* plus correctness of the verifier.
    `signed k c` is "the private key of `k` was used on content `c`". -/
def VerifySound (signed : KeyId → String → Prop) (t : Token) : Prop :=
  ∀ k, t.signedBy = some k → signed k t.content

/-- A token whose decoded header or payload differs from everything the configured key ever signed
    is accepted nowhere: altering a byte of either part without re-signing with the configured
    private key means rejection. -/
theorem jwt_altered_payload_or_header_rejected (signed : KeyId → String → Prop) (cfg : KeyCfg)
    (t : Token) (hs : VerifySound signed t)
    (halt : ∀ k ty, configured cfg = some (k, ty) → ¬ signed k t.content) :
    ¬ AcceptedSomewhere cfg t := by
  intro ha
  obtain ⟨k, ty, hc, hsb, _⟩ := jwt_accepted_needs_configured_key_signature cfg t ha
  exact halt k ty hc (hs k hsb)

/-- Positive form: an accepted token's content was signed by the configured key. -/
theorem jwt_accepted_content_was_signed (signed : KeyId → String → Prop) (cfg : KeyCfg) (t : Token)
    (hs : VerifySound signed t) (ha : AcceptedSomewhere cfg t) :
    ∃ k ty, configured cfg = some (k, ty) ∧ signed k t.content := by
  obtain ⟨k, ty, hc, hsb, _⟩ := jwt_accepted_needs_configured_key_signature cfg t ha
  exact ⟨k, ty, hc, hs k hsb⟩

/-! ### 5. error classes -/

/-- no usable key: a plain error (rendered "error"/500) for every token, valid ones included -/
theorem jwt_error_unusable_key (cfg : KeyCfg) (t : Token) (h : verificationKey cfg = none) :
    validateAccessToken cfg t = .err .unrecognized := by
  simp [validateAccessToken, validate, decode, h]

/-- not parseable as a JWS (wrong number of parts, bad base64, bad header JSON): `invalid_token`/400 -/
theorem jwt_error_malformed (cfg : KeyCfg) (t : Token) (vk : VKey) (hk : verificationKey cfg = some vk)
    (h : joseParse t = false) : validateAccessToken cfg t = .err .invalid_token_format := by
  simp [validateAccessToken, validate, decode, hk, parseWithClaims, h, toRFCErr]

/-- in particular: a compact string with other than three parts -/
theorem jwt_error_segments (cfg : KeyCfg) (t : Token) (vk : VKey) (hk : verificationKey cfg = some vk)
    (hc : t.json = false) (h : t.nseg ≠ 3) : validateAccessToken cfg t = .err .invalid_token_format := by
  apply jwt_error_malformed cfg t vk hk
  simp [joseParse, hc, h]

/-- a claims part that is not a JSON object: `token_claim`/401 — decided BEFORE the signature -/
theorem jwt_error_payload_not_object (cfg : KeyCfg) (t : Token) (vk : VKey)
    (hk : verificationKey cfg = some vk) (hp : joseParse t = true) (h : t.payloadOK = false) :
    validateAccessToken cfg t = .err .token_claim := by
  simp [validateAccessToken, validate, decode, hk, parseWithClaims, hp, h, toRFCErr]

/-- wrong key, wrong algorithm, broken signature, unsupported `crit`: `token_signature_mismatch`/400,
    whatever the claims say (no claim is judged before the signature) -/
theorem jwt_error_signature (cfg : KeyCfg) (t : Token) (vk : VKey) (hk : verificationKey cfg = some vk)
    (hp : joseParse t = true) (hpl : t.payloadOK = true) (hn : t.nsig = 1) (hv : verifies vk t = false) :
    validateAccessToken cfg t = .err .token_signature_mismatch := by
  simp [validateAccessToken, validate, decode, hk, parseWithClaims, hp, hpl, hn, hv, toRFCErr]

/-- verified but expired: `invalid_token`/401 (also when iat / nbf fail as well) -/
theorem jwt_error_expired (cfg : KeyCfg) (t : Token) (vk : VKey) (hk : verificationKey cfg = some vk)
    (hp : joseParse t = true) (hpl : t.payloadOK = true) (hn : t.nsig = 1) (hv : verifies vk t = true)
    (he : t.claims.expired = true) : validateAccessToken cfg t = .err .token_expired := by
  simp [validateAccessToken, validate, decode, hk, parseWithClaims, hp, hpl, hn, hv, he, toRFCErr, Claims.valid]

/-- verified, not expired, iat or nbf in the future: `token_claim`/401 -/
theorem jwt_error_claim (cfg : KeyCfg) (t : Token) (vk : VKey) (hk : verificationKey cfg = some vk)
    (hp : joseParse t = true) (hpl : t.payloadOK = true) (hn : t.nsig = 1) (hv : verifies vk t = true)
    (he : t.claims.expired = false) (hc : t.claims.iatFuture = true ∨ t.claims.nbfFuture = true) :
    validateAccessToken cfg t = .err .token_claim := by
  rcases hc with hc | hc <;>
    simp [validateAccessToken, validate, decode, hk, parseWithClaims, hp, hpl, hn, hv, he, hc, toRFCErr, Claims.valid]

/-- a valid token that lacks a required scope: `invalid_scope`/400 -/
theorem jwt_error_scope (cfg : KeyCfg) (t : Token) (cover : String → Bool) (need : List String)
    (hv : validateAccessToken cfg t = .ok) (hs : ¬ scopesCovered cover need) :
    introspect cfg t cover need = .err .invalid_scope := by
  have hm : matchScopes cover need = false := by
    cases hmm : matchScopes cover need with
    | false => rfl
    | true =>
      rw [matchScopes_eq] at hmm
      exact absurd ((scopesCoveredB_iff cover need).mp hmm) hs
  unfold validateAccessToken at hv
  simp [introspect, hv, hm]

/-- introspection passes the validation error through unchanged -/
theorem jwt_introspect_error_is_validation_error (cfg : KeyCfg) (t : Token) (cover : String → Bool)
    (need : List String) (e : Err) (h : validateAccessToken cfg t = .err e) :
    introspect cfg t cover need = .err e := by
  unfold validateAccessToken at h
  simp [introspect, h]

/-- every refusal carries the documented class of some clause that fails -/
theorem jwt_error_class_sound (cfg : KeyCfg) (t : Token) (cover : String → Bool) (need : List String)
    (e : Err) (h : validateAccessToken cfg t = .err e) : e ∈ allowedErrors cfg t cover need := by
  unfold validateAccessToken validate at h
  split at h
  · cases h
  · rename_i hd
    injection h with h
    subst h
    have hn := verificationKey_none (decode_plain_iff.mp hd)
    simp [allowedErrors, hn]
  · rename_i v hd
    injection h with h
    subst h
    unfold decode at hd
    split at hd
    · cases hd
    · rename_i vk hvk
      split at hd
      · rename_i v' hp
        injection hd with hd
        injection hd with hd
        subst hd
        rcases parseWithClaims_error hp with ⟨hv, hm⟩ | ⟨hv, hj, hpl⟩ | ⟨hv, hj, hpl, hn, hver⟩ | ⟨hv, hj, hpl, hn, hver, hcl⟩
        · subst hv
          have : textMalformedB t = true := by
            unfold textMalformedB
            rcases hm with hm | ⟨_, hm⟩
            · unfold joseParse at hm
              cases hjs : t.json <;> cases hh : t.hdrOK <;> cases hb : t.b64OK <;> simp_all
            · have : (t.nsig != 1) = true := by simpa using hm
              simp [this]
          simp [allowedErrors, toRFCErr, this]
        · subst hv
          simp [allowedErrors, toRFCErr, hpl]
        · subst hv
          have : signedAndTimelyB cfg { t with claims := ⟨false, false, false⟩ } = false := by
            unfold signedAndTimelyB
            cases hcfg : configured cfg with
            | none => rfl
            | some p =>
              obtain ⟨k, ty⟩ := p
              cases ty with
              | rsa =>
                have hvk' := verificationKey_rsa.mpr hcfg
                rw [hvk] at hvk'
                injection hvk' with hvk'
                subst hvk'
                cases hb : (algFamily t.alg == KeyType.rsa.family && t.signedBy == some k && t.critOK) with
                | false => simp [hb]
                | true =>
                  simp only [Bool.and_eq_true, beq_iff_eq] at hb
                  have := verifies_rsa.mpr ⟨hb.2, hb.1.1, hb.1.2⟩
                  rw [this] at hver
                  cases hver
              | ec =>
                have hvk' := verificationKey_ec.mpr hcfg
                rw [hvk] at hvk'
                injection hvk' with hvk'
                subst hvk'
                cases hb : (algFamily t.alg == KeyType.ec.family && t.signedBy == some k && t.critOK) with
                | false => simp [hb]
                | true =>
                  simp only [Bool.and_eq_true, beq_iff_eq] at hb
                  have := verifies_ec.mpr ⟨hb.2, hb.1.1, hb.1.2⟩
                  rw [this] at hver
                  cases hver
          simp [allowedErrors, toRFCErr, this]
        · subst hv
          cases he : t.claims.expired
          · have : (t.claims.iatFuture || t.claims.nbfFuture) = true := by
              unfold Claims.valid at hcl
              rw [he] at hcl
              cases hi : t.claims.iatFuture <;> cases hn' : t.claims.nbfFuture <;> simp_all
            have hor : t.claims.iatFuture = true ∨ t.claims.nbfFuture = true := by simpa using this
            rcases hor with hor | hor <;> simp [allowedErrors, toRFCErr, he, hor]
          · simp [allowedErrors, toRFCErr, he]
      · cases hd

theorem jwt_introspect_error_class_sound (cfg : KeyCfg) (t : Token) (cover : String → Bool)
    (need : List String) (e : Err) (h : introspect cfg t cover need = .err e) :
    e ∈ allowedErrors cfg t cover need := by
  unfold introspect at h
  split at h
  · rename_i e' hv
    injection h with h
    subst h
    exact jwt_error_class_sound cfg t cover need _ hv
  · split at h
    · cases h
    · rename_i hm
      injection h with h
      subst h
      have : scopesCoveredB cover need = false := by
        rw [← matchScopes_eq]; simpa using hm
      simp [allowedErrors, this]

/-- `ErrRequestUnauthorized`, the default of `toRFCErr`, is unreachable -/
theorem jwt_request_unauthorized_never (cfg : KeyCfg) (t : Token) :
    validateAccessToken cfg t ≠ .err .request_unauthorized := by
  intro h
  have hm := jwt_error_class_sound cfg t (fun _ => true) [] _ h
  unfold allowedErrors at hm
  simp only [List.mem_append] at hm
  rcases hm with (((((hm | hm) | hm) | hm) | hm) | hm) | hm <;> split at hm <;> simp at hm

/-! ### 6. generation -/

/-- bare RSA / ECDSA private keys mint RS256 / ES256 only -/
theorem jwt_generate_bare_key_alg (m : Material) (alg : String) (h : generate (.direct m) = some alg)
    (hm : (∃ k, m = .rsaPriv k) ∨ (∃ k b, m = .ecPriv k b)) : alg = "RS256" ∨ alg = "ES256" := by
  rcases hm with ⟨k, rfl⟩ | ⟨k, b, rfl⟩
  · simp only [generate, directAlg] at h
    split at h
    · injection h with h; exact Or.inl h.symm
    · cases h
  · simp only [generate, directAlg] at h
    split at h
    · injection h with h; exact Or.inr h.symm
    · cases h

/-- without an opaque signer in the configuration, `Generate` never mints `alg: none` -/
theorem jwt_generate_never_none (cfg : KeyCfg) (alg : String) (h : generate cfg = some alg)
    (hno : ∀ pub algs, cfg.material ≠ some (.signer pub algs)) : alg ≠ "none" := by
  intro hn
  subst hn
  cases cfg with
  | getterError => cases h
  | direct m =>
    cases m with
    | signer pub algs => exact hno pub algs rfl
    | rsaPriv k => simp [generate, directAlg, signerSupports] at h
    | ecPriv k b => simp [generate, directAlg, signerSupports] at h
    | _ => simp [generate, directAlg] at h
  | jwkPtr m a u =>
    cases m with
    | signer pub algs => exact hno pub algs rfl
    | rsaPriv k =>
      simp only [generate] at h
      split at h
      · injection h with h; subst h; rename_i hs
        have hnone : algFamily "none" = .none := by decide
        simp [jwkSignerSupports, signerSupports, hnone] at hs
      · cases h
    | ecPriv k b =>
      simp only [generate] at h
      split at h
      · injection h with h; subst h; rename_i hs; simp [jwkSignerSupports, signerSupports] at hs
      · cases h
    | secret =>
      simp only [generate] at h
      split at h
      · injection h with h; subst h; rename_i hs
        have hnone : algFamily "none" = .none := by decide
        simp [jwkSignerSupports, signerSupports, hnone] at hs
      · cases h
    | _ => simp [generate, jwkSignerSupports, signerSupports] at h
  | jwkVal m a u =>
    cases m with
    | signer pub algs => exact hno pub algs rfl
    | rsaPriv k =>
      simp only [generate] at h
      split at h
      · injection h with h; subst h; rename_i hs
        have hnone : algFamily "none" = .none := by decide
        simp [jwkSignerSupports, signerSupports, hnone] at hs
      · cases h
    | ecPriv k b =>
      simp only [generate] at h
      split at h
      · injection h with h; subst h; rename_i hs; simp [jwkSignerSupports, signerSupports] at hs
      · cases h
    | secret =>
      simp only [generate] at h
      split at h
      · injection h with h; subst h; rename_i hs
        have hnone : algFamily "none" = .none := by decide
        simp [jwkSignerSupports, signerSupports, hnone] at hs
      · cases h
    | _ => simp [generate, jwkSignerSupports, signerSupports] at h

/-- round trip: what a bare private key or a `*jose.JSONWebKey` around one mints — a compact,
    well-formed token naming the minted algorithm, signed by that key, claims in time — is accepted
    by the same configuration -/
theorem jwt_generate_roundtrip (cfg : KeyCfg) (alg : String) (k : KeyId) (t : Token)
    (hcfg : (cfg = .direct (.rsaPriv k) ∨ ∃ b, cfg = .direct (.ecPriv k b)) ∨
            (∃ a u, cfg = .jwkPtr (.rsaPriv k) a u) ∨ (∃ b a u, cfg = .jwkPtr (.ecPriv k b) a u))
    (hg : generate cfg = some alg) (ha : t.alg = alg) (hs : t.signedBy = some k)
    (hw : compactWellFormed t) (hc : t.critOK = true) (hv : t.claims.valid = true) :
    validateAccessToken cfg t = .ok := by
  apply validate_ok_iff.mpr
  obtain ⟨hj, hn, hb, hh, hsg, hp⟩ := hw
  refine ⟨⟨by rw [hj]; exact ⟨hn, hb⟩, hh, hsg, hp⟩, ?_⟩
  rcases hcfg with (rfl | ⟨b, rfl⟩) | ⟨a, u, rfl⟩ | ⟨b, a, u, rfl⟩
  · refine ⟨k, .rsa, rfl, ?_, hs, hc, hv⟩
    simp only [generate, directAlg] at hg
    split at hg
    · injection hg with hg; rw [ha, ← hg]; decide
    · cases hg
  · refine ⟨k, .ec, rfl, ?_, hs, hc, hv⟩
    simp only [generate, directAlg] at hg
    split at hg
    · injection hg with hg; rw [ha, ← hg]; decide
    · cases hg
  · refine ⟨k, .rsa, rfl, ?_, hs, hc, hv⟩
    simp only [generate] at hg
    split at hg
    · rename_i hsup
      injection hg with hg
      rw [ha, ← hg]
      have : algFamily a = .rsa := by simpa [jwkSignerSupports, signerSupports] using hsup
      exact this
    · cases hg
  · refine ⟨k, .ec, rfl, ?_, hs, hc, hv⟩
    simp only [generate] at hg
    split at hg
    · rename_i hsup
      injection hg with hg
      rw [ha, ← hg]
      simp only [jwkSignerSupports, signerSupports, Bool.or_eq_true, Bool.and_eq_true, beq_iff_eq] at hsup
      rcases hsup with (⟨h1, _⟩ | ⟨h1, _⟩) | ⟨h1, _⟩ <;> rw [h1] <;> decide
    · cases hg

/-- a `jose.JSONWebKey` VALUE (not a pointer) mints tokens and accepts none — its own included -/
theorem jwt_jwk_value_mints_but_never_validates (m : Material) (a u : String) (t : Token) :
    ¬ AcceptedSomewhere (.jwkVal m a u) t :=
  jwt_no_configured_key_nothing_accepted _ t rfl

example : generate (.jwkVal (.rsaPriv "R1") "RS256" "sig") = some "RS256" := by decide

/-! ### 7. non-vacuity and recorded behaviour (closed examples) -/

/-- a good RS256 token of key R1 -/
def good : Token :=
  { json := false, jsonOK := false, nseg := 3, b64OK := true, hdrOK := true, nsig := 1, alg := "RS256",
    critOK := true, payloadOK := true, signedBy := some "R1", macBy := none, content := "c",
    claims := ⟨false, false, false⟩, sub := "peter", scopes := ["a", "b"], unsignedHdr := [] }

def rsa1 : KeyCfg := .direct (.rsaPriv "R1")
def ec1 : KeyCfg := .direct (.ecPriv "E1" 256)

example : validateAccessToken rsa1 good = .ok := by decide
example : signerValidate rsa1 good = .ok () := by decide
example : introspect rsa1 good (fun s => s == "a") ["a", ""] = .ok "peter" ["a", "b"] [] := by decide
example : introspect rsa1 good (fun s => s == "a") ["a", "c"] = .err .invalid_scope := by decide
example : validateAccessToken (.jwkPtr (.rsaPriv "R1") "RS256" "sig") good = .ok := by decide
example : validateAccessToken (.direct (.signer (.rsaPub "R1") ["RS256"])) good = .ok := by decide
/-- foreign key of the same type -/
example : validateAccessToken (.direct (.rsaPriv "R2")) good = .err .token_signature_mismatch := by decide
/-- key of the other type -/
example : validateAccessToken ec1 good = .err .token_signature_mismatch := by decide
/-- `none`, empty and non-empty signature part (the fact `signedBy` is whatever it is) -/
example : validateAccessToken rsa1 { good with alg := "none", signedBy := none } = .err .token_signature_mismatch := by decide
example : validateAccessToken rsa1 { good with alg := "none" } = .err .token_signature_mismatch := by decide
/-- key confusion: HS256 keyed with the public key of R1 -/
example : validateAccessToken rsa1 { good with alg := "HS256", signedBy := none, macBy := some "R1" }
    = .err .token_signature_mismatch := by decide
/-- wrong case, missing algorithm -/
example : validateAccessToken rsa1 { good with alg := "rs256" } = .err .token_signature_mismatch := by decide
example : validateAccessToken rsa1 { good with alg := "" } = .err .token_signature_mismatch := by decide
/-- segment counts -/
example : validateAccessToken rsa1 { good with nseg := 2 } = .err .invalid_token_format := by decide
example : validateAccessToken rsa1 { good with nseg := 4 } = .err .invalid_token_format := by decide
/-- claims -/
example : validateAccessToken rsa1 { good with claims := ⟨true, false, true⟩ } = .err .token_expired := by decide
example : validateAccessToken rsa1 { good with claims := ⟨false, false, true⟩ } = .err .token_claim := by decide
/-- an expired token with a broken signature is a signature error -/
example : validateAccessToken rsa1 { good with claims := ⟨true, false, false⟩, signedBy := none }
    = .err .token_signature_mismatch := by decide
/-- unusable configurations -/
example : validateAccessToken (.jwkVal (.rsaPriv "R1") "RS256" "sig") good = .err .unrecognized := by decide
example : validateAccessToken (.direct .pubKey) good = .err .unrecognized := by decide
example : validateAccessToken (.jwkPtr .secret "HS256" "sig") { good with alg := "HS256", macBy := some "R1" }
    = .err .unrecognized := by decide
/-- recorded behaviour: the `Algorithm` (and `Use`) of a configured `*jose.JSONWebKey` restricts
    minting only — a PS512 token of the same key is accepted under an "RS256" JWK -/
example : validateAccessToken (.jwkPtr (.rsaPriv "R1") "RS256" "enc") { good with alg := "PS512" } = .ok := by decide
/-- recorded behaviour: ES384 is an ECDSA-family algorithm; whether a P-256 key's signature counts
    for it is inside the `signedBy` fact (go-jose's verifier does not compare curve and algorithm) -/
example : validateAccessToken ec1 { good with alg := "ES384", signedBy := some "E1" } = .ok := by decide
/-- the JSON re-wrapping is remarked upon, not a violation of C06 (it carries a valid signature of the
    configured key under an asymmetric algorithm) -/
example : acceptViolations rsa1 jsonWitness = [] := by decide
example : serializationRemarks jsonWitness = ["compact_form", "three_segments", "unsigned_header"] := by decide
example : acceptViolations rsa1 good = [] := by decide
example : violations rsa1 good (fun _ => true) [] true (.rejected "invalid_token" 400) = ["rejected_valid"] := by decide
example : violations rsa1 { good with alg := "none" } (fun _ => true) [] true (.rejected "token_signature_mismatch" 400) = [] := by decide
example : violations rsa1 { good with alg := "none" } (fun _ => true) [] true (.rejected "invalid_token" 401) = ["error_class"] := by decide
example : violations rsa1 { good with alg := "none", signedBy := none } (fun _ => true) [] true .accepted
    = ["alg_none", "alg_key_type", "signature"] := by decide

end Fosite.Props.C06

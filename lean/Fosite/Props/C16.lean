/-
  C16 — device grant: tokens only after approval, once, for the right client, in time.
-/
import Fosite.Proofs.DevicePar
namespace Fosite.Props.C16
open Fosite.Model

def isDeviceSuccess (sig : Nat) : Op × Out → Bool
  | (.devicePoll q, .tokens _ _ _ _ _) => q.code.sig == some sig
  | _ => false

/-- **Safety core.** A device code yields tokens only if its record is live (not used), the user code
    was approved, the code has not expired, an exact copy was presented, and the caller is the
    authenticated client that started the flow and is registered for the grant. -/
theorem device_tokens_only_if (s : MState) (q : DevicePollReq) (a r i e sc)
    (h : (step s (.devicePoll q)).2.1 = .tokens a r i e sc) :
    ∃ sig d client, q.code.sig = some sig ∧ alookup s.ss.store.device sig = some d ∧ d.used = false ∧
      d.state = 1 ∧ deviceExpired d s.cfg s.now = false ∧ q.code.exact = true ∧
      client ∈ s.ss.clients ∧ client.id = q.clientId ∧ (client.isPublic || q.credOk) = true ∧
      client.grants.contains deviceGrant = true ∧ d.req.client.id = client.id := by
  have hp := step_prog s (.devicePoll q) (devicePollProg s.cfg s.now q) rfl
  rw [hp.2] at h
  exact (devicePoll_success {} plain_default.1 s.cfg s.now q { ss := s.ss } a r i e sc h).ex

theorem init_devBelow : DevBelow ({} : MState).ss := by intro sig d h; simp [alookup] at h

theorem step_devBelow (s : MState) (op : Op) (h : DevBelow s.ss) : DevBelow (step s op).1.ss := by
  cases hp : op.prog s with
  | some p => rw [(step_prog s op p hp).1]; exact run_preserves {} plain_default DevBelow exec_DevBelow p _ h
  | none =>
    cases op with
    | setCfg c => exact h
    | setClient c => exact h
    | advance d => exact h
    | deviceDecide sig acc gs ga sub =>
      simp only [step]
      cases hl : alookup s.ss.store.device sig with
      | none => exact h
      | some d =>
        intro s2 d2 hl2
        simp only at hl2
        rw [alookup_aset] at hl2
        by_cases hs : s2 = sig
        · subst hs; exact h _ _ hl
        · simp only [hs, if_false] at hl2; exact h _ _ hl2
    | _ => simp [Op.prog] at hp

/-- a dead device code stays dead through every operation, including the consent application's decision -/
theorem dead_device_code_stays_dead (s : MState) (op : Op) (sig : Nat) (h : DevDead s.ss sig) : DevDead (step s op).1.ss sig := by
  cases hp : op.prog s with
  | some p =>
    rw [(step_prog s op p hp).1]
    exact run_preserves {} plain_default (fun ss => DevDead ss sig) (fun ss c h => exec_DevDead ss c sig h) p _ h
  | none =>
    cases op with
    | setCfg c => exact h
    | setClient c => exact h
    | advance d => exact h
    | deviceDecide sig' acc gs ga sub =>
      simp only [step]
      cases hl : alookup s.ss.store.device sig' with
      | none => exact h
      | some d =>
        refine ⟨h.1, ?_⟩
        intro d2 hl2
        simp only at hl2
        rw [alookup_aset] at hl2
        by_cases hs : sig = sig'
        · subst hs
          simp only [if_true] at hl2
          have hu := h.2 d hl
          cases hl2
          by_cases hacc : acc = true <;> simp [hacc, hu]
        · simp only [hs, if_false] at hl2; exact h.2 d2 hl2
    | _ => simp [Op.prog] at hp

theorem device_success_kills (s : MState) (hb : DevBelow s.ss) (q : DevicePollReq) (a r i e sc)
    (h : (step s (.devicePoll q)).2.1 = .tokens a r i e sc) :
    ∃ sig, q.code.sig = some sig ∧ DevDead (step s (.devicePoll q)).1.ss sig := by
  have hp := step_prog s (.devicePoll q) (devicePollProg s.cfg s.now q) rfl
  rw [hp.2] at h; rw [hp.1]
  exact run_HP_ok {} (devicePollH s.cfg s.now q) { ss := s.ss } _ _
    (devicePoll_kills {} plain_default s.cfg s.now q { ss := s.ss } hb) h (by intro e; simp) a r i e sc rfl

theorem dead_device_code_never_yields_tokens (ops : List Op) (s : MState) (sig : Nat) (hd : DevDead s.ss sig) :
    ((trace s ops).filter (isDeviceSuccess sig)).length = 0 := by
  induction ops generalizing s with
  | nil => rfl
  | cons op ops ih =>
    simp only [trace, List.filter_cons]
    have hno : isDeviceSuccess sig (op, (step s op).2.1) = false := by
      cases hop : op with
      | devicePoll q =>
        cases hout : (step s (.devicePoll q)).2.1 with
        | tokens a r i e sc =>
          obtain ⟨sig', d, _, hs, hl, hu, _⟩ := device_tokens_only_if s q a r i e sc hout
          simp only [isDeviceSuccess, hs]
          by_cases heq : sig' = sig
          · subst heq; have := hd.2 d hl; rw [hu] at this; cases this
          · simp [heq]
        | _ => simp [isDeviceSuccess]
      | _ => simp [isDeviceSuccess]
    rw [hno]
    exact ih _ (dead_device_code_stays_dead s op sig hd)

/-- **C16 (at most once).** In any history a device code yields tokens at most once — with the
    reference store (which deletes the record) and with a store that marks it as used alike. -/
theorem device_code_yields_tokens_at_most_once (ops : List Op) (s : MState) (sig : Nat) (hb : DevBelow s.ss) :
    ((trace s ops).filter (isDeviceSuccess sig)).length ≤ 1 := by
  induction ops generalizing s with
  | nil => simp [trace]
  | cons op ops ih =>
    have hb' := step_devBelow s op hb
    simp only [trace, List.filter_cons]
    by_cases hsucc : isDeviceSuccess sig (op, (step s op).2.1) = true
    · rw [if_pos hsucc]
      have hdead : DevDead (step s op).1.ss sig := by
        cases hop : op with
        | devicePoll q =>
          rw [hop] at hsucc
          cases hout : (step s (.devicePoll q)).2.1 with
          | tokens a r i e sc =>
            obtain ⟨sig', hs, hd⟩ := device_success_kills s hb q a r i e sc hout
            rw [hout] at hsucc
            simp only [isDeviceSuccess, hs] at hsucc
            have : sig' = sig := by simpa using hsucc
            subst this; exact hd
          | _ => rw [hout] at hsucc; simp [isDeviceSuccess] at hsucc
        | _ => rw [hop] at hsucc; simp [isDeviceSuccess] at hsucc
      rw [List.length_cons, dead_device_code_never_yields_tokens ops _ sig hdead]; omega
    · rw [if_neg hsucc]; exact ih _ hb'

theorem device_code_yields_tokens_at_most_once_from_init (ops : List Op) (sig : Nat) :
    ((trace {} ops).filter (isDeviceSuccess sig)).length ≤ 1 :=
  device_code_yields_tokens_at_most_once ops {} sig init_devBelow

end Fosite.Props.C16

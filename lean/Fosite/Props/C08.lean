/-
  C08 — revocation is effective, complete and restricted to the owning client.
  The endpoint refines the pure function `revokePure`; the theorems below read the property off it.
-/
import Fosite.Proofs.Revoke
import Fosite.Proofs.GrantHistory
namespace Fosite.Props.C08
open Fosite.Model

theorem revoke_refines_pure (s : MState) (q : RevokeReq) :
    (step s (.revoke q)).1.ss = (revokePure q s.ss).1 ∧ (step s (.revoke q)).2.1 = (revokePure q s.ss).2 := by
  have hp := step_prog s (.revoke q) (revokeProg q) rfl
  rw [hp.1, hp.2]
  exact run_revokeProg {} plain_default q { ss := s.ss }

/-- An unknown client, or a confidential client without a matching secret, is refused with
    `invalid_client` and nothing changes. -/
theorem unauthenticated_caller_changes_nothing (s : MState) (q : RevokeReq)
    (h : ∀ c ∈ s.ss.clients, c.id = q.clientId → c.isPublic = false ∧ q.credOk = false) :
    (step s (.revoke q)).2.1 = .err .invalid_client ∧ (step s (.revoke q)).1.ss = s.ss := by
  obtain ⟨h1, h2⟩ := revoke_refines_pure s q
  rw [h1, h2]
  unfold revokePure authVerdict
  cases hf : s.ss.clients.find? (fun c => c.id == q.clientId) with
  | none => exact ⟨rfl, rfl⟩
  | some c =>
    have hm := List.mem_of_find?_eq_some hf
    have hid : c.id = q.clientId := by simpa using List.find?_some hf
    obtain ⟨hp, hc⟩ := h c hm hid
    simp [hp, hc]

/-- A request by a client other than the owner of the (found) token is refused with
    `unauthorized_client` and nothing changes. -/
theorem foreign_client_refused_and_changes_nothing (s : MState) (q : RevokeReq) (client : Client) (ar : Req)
    (hauth : authVerdict s.ss.clients q.clientId q.credOk = .ok client)
    (hfound : revokeDiscover q s.ss.store = .ok ar) (hforeign : ar.client.id ≠ client.id) :
    (step s (.revoke q)).2.1 = .err .unauthorized_client ∧ (step s (.revoke q)).1.ss = s.ss := by
  obtain ⟨h1, h2⟩ := revoke_refines_pure s q
  rw [h1, h2]
  unfold revokePure
  have : (ar.client.id != client.id) = true := by simpa using hforeign
  simp [hauth, hfound, this]

/-- Unknown or already-invalid tokens are answered with success and nothing changes. -/
theorem unknown_token_is_success_and_changes_nothing (s : MState) (q : RevokeReq) (client : Client)
    (hauth : authVerdict s.ss.clients q.clientId q.credOk = .ok client)
    (hr : ∀ r, lookupRefresh s.ss.store q.token.sig ≠ .req r) (ha : ∀ r, lookupAccess s.ss.store q.token.sig ≠ .req r) :
    (step s (.revoke q)).2.1 = .ok ∧ (step s (.revoke q)).1.ss = s.ss := by
  obtain ⟨h1, h2⟩ := revoke_refines_pure s q
  rw [h1, h2]
  unfold revokePure revokeDiscover
  simp only [hauth]
  have benign : ∀ k, (∀ r, lookupRefresh s.ss.store k ≠ .req r) → benignRevocationErr (lookupRefresh s.ss.store k).errKind = true := by
    intro k hk
    unfold lookupRefresh at hk ⊢
    cases hb : k.bind (alookup s.ss.store.refresh) with
    | none => rfl
    | some rec =>
      rw [hb] at hk
      cases hact : rec.active with
      | false => simp [hact, Res.errKind, benignRevocationErr]
      | true => simp only [hact, if_true] at hk; exact absurd rfl (hk rec.req)
  have benignA : ∀ k, (∀ r, lookupAccess s.ss.store k ≠ .req r) → benignRevocationErr (lookupAccess s.ss.store k).errKind = true := by
    intro k hk
    unfold lookupAccess at hk ⊢
    cases hb : k.bind (alookup s.ss.store.access) with
    | none => rfl
    | some r => rw [hb] at hk; exact absurd rfl (hk r)
  have b1 := benign _ hr
  have b2 := benignA _ ha
  by_cases hh : (q.hint == Hint.access) = true
  · simp only [hh, if_true]
    cases hla : lookupAccess s.ss.store q.token.sig with
    | req r => exact absurd hla (ha r)
    | _ =>
      cases hlr : lookupRefresh s.ss.store q.token.sig with
      | req r => exact absurd hlr (hr r)
      | _ => simp_all [Res.errKind, benignRevocationErr]
  · simp only [hh, Bool.false_eq_true, if_false]
    cases hlr : lookupRefresh s.ss.store q.token.sig with
    | req r => exact absurd hlr (hr r)
    | _ =>
      cases hla : lookupAccess s.ss.store q.token.sig with
      | req r => exact absurd hla (ha r)
      | _ => simp_all [Res.errKind, benignRevocationErr]

/-- **Effective for refresh tokens.** When the owner presents a live refresh token (found first, i.e.
    without an `access_token` hint) the token is dead afterwards, in every state satisfying the
    grant invariant: revocation by request id hits exactly the presented token. -/
theorem owner_revocation_kills_refresh_token (s : MState) (hinv : GInv s.ss) (q : RevokeReq) (client : Client)
    (sig : Nat) (rec : RefreshRec)
    (hauth : authVerdict s.ss.clients q.clientId q.credOk = .ok client)
    (hhint : q.hint ≠ .access) (hsig : q.token.sig = some sig)
    (hrec : alookup s.ss.store.refresh sig = some rec) (hact : rec.active = true)
    (hown : rec.req.client.id = client.id) :
    RTDead (step s (.revoke q)).1.ss sig := by
  obtain ⟨h1, _⟩ := revoke_refines_pure s q
  rw [h1]
  have hh : (q.hint == Hint.access) = false := by cases hq : q.hint <;> simp_all
  have hfound : revokeDiscover q s.ss.store = .ok rec.req := by
    unfold revokeDiscover lookupRefresh
    simp [hh, hsig, hrec, hact]
  unfold revokePure
  have hne : (rec.req.client.id != client.id) = false := by simp [hown]
  simp only [hauth, hfound, hne, Bool.false_eq_true, if_false]
  have hidx := hinv.idx sig rec hrec hact
  have he := revokeAccessS_effect (revokeRefreshS s.ss.store rec.req.id).1 rec.req.id
  refine ⟨(hinv.refreshBelow sig rec hrec).1, ?_⟩
  intro rec' hl
  simp only at hl
  rw [he.1] at hl
  simp only [revokeRefreshS, hidx, hrec] at hl
  rw [alookup_aset_self] at hl
  cases hl; rfl

end Fosite.Props.C08

/-
  C10 / C03 — dispatch at the token endpoint.  "…a handler processes a request without client authentication
  only if it explicitly allows that": a token request is processed by a handler only if its `grant_type`, split
  at spaces with empty items dropped, is EXACTLY that handler's one grant type (`Arguments.ExactOne`; every token
  endpoint handler of `ComposeAllEnabled` — the code, refresh, client-credentials, password, device, JWT-bearer
  handlers and the PKCE / OpenID Connect companions of the code and refresh handlers — decides that way, so the
  companions see exactly the requests their main handler sees).  A request nobody is responsible for is answered
  `invalid_request` after the client look-up, whatever the credentials, and changes nothing.  The history driver
  sends such spellings (other case, doubled, combined with another grant type, unknown) through the real endpoint
  (op `wire gt=…`) and compares with `Op.progWired`.
-/
import Fosite.Model.Dispatch
namespace Fosite.Props.C10b
open Fosite.Model

-- the value is normalised as `RemoveEmpty(strings.Split(v, " "))` does: surrounding blanks do not matter; case,
-- repetition and company do (evaluated at build time: `String.splitOn` does not reduce in the kernel)
#guard grantTypesOf " authorization_code  " == ["authorization_code"]
#guard grantTypesOf "authorization_code\t" == ["authorization_code"]
#guard grantTypesOf "Authorization_Code" != ["authorization_code"]
#guard grantTypesOf "authorization_code authorization_code" != ["authorization_code"]
#guard grantTypesOf "authorization_code refresh_token" != ["authorization_code"]

/-- **Nobody's request issues nothing.**  Under every fault plan, with or without transactions, in every state:
    the answer is `invalid_request` and the store is what it was. -/
theorem unhandled_token_request_changes_nothing (rc : RunCfg) (rs : RState) (clientId : String) :
    (run rc rs (noHandlerProg clientId)).2 = .err .invalid_request ∧
    (run rc rs (noHandlerProg clientId)).1.ss.store = rs.ss.store :=
  noHandler_changes_nothing rc rs clientId

/-- A token operation sent with a `grant_type` that is not its own single grant type runs no handler program:
    whatever code, refresh token, device code, password or client credentials it carries is never looked at. -/
theorem odd_grant_type_reaches_no_handler (s : MState) (op : Op) (g w : String)
    (hg : op.grantType = some g) (hw : grantTypesOf w ≠ [g]) :
    op.progWired s (some w) = some (noHandlerProg op.clientId) := by
  unfold Op.progWired ownGrantType
  rw [hg]
  have : (grantTypesOf w == [g]) = false := by simpa using hw
  simp [this]

/-- With its own grant type (however padded with blanks) the operation is the ordinary one. -/
theorem own_grant_type_is_ordinary (s : MState) (op : Op) (g w : String)
    (hg : op.grantType = some g) (hw : grantTypesOf w = [g]) :
    op.progWired s (some w) = op.prog s := by
  unfold Op.progWired ownGrantType
  rw [hg]
  simp [hw]

end Fosite.Props.C10b

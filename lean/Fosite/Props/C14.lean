/-
  C14 — ID Tokens are bound to the right client, user, nonce and tokens.

  All theorems are about the model of `Fosite/Model/IDToken.lean` (`generateIDToken`, `toMap`, `computeHash`,
  `validatePrompt` and the issuance steps of the six openid handlers) and hold for ALL inputs: every claims
  object the application may hand over (including any `Extra` map and any pre-set expiry), every form, every
  time, lifespan, client id, configuration and — for the hash bindings — every hash function and encoder.
  The tie to the Go code is the `idtoken` correspondence driver.

  Hypothesis used where it is needed and stated there: `zeroTime < now` (the clock is after year 1; otherwise
  an expiry computed as `now + lifespan` could be the zero time, which `ToMap` does not emit).
-/
import Fosite.Proofs.IDToken
namespace Fosite.Props.C14
open Fosite.Model.IDToken Fosite.Spec.IDToken Fosite.Proofs.IDToken

/-- an ID token was delivered by a step -/
def Issued (r : Except RFCErr StepOut) (c' : Claims) : Prop := ∃ s, r = .ok s ∧ s.issued = some c'

/-! ## issued only with a subject (and, per flow, only with the granted `openid` scope) -/

/-- `GenerateIDToken` refuses an empty subject, whatever else the request says. -/
theorem id_token_requires_subject (cfg : Cfg) (now : Int) (L : Int) (cid : String) (f : Form) (c : Claims)
    (h : c.sub = "") : generateIDToken cfg now L cid f c = .error .serverError := by
  unfold generateIDToken
  simp only
  rw [if_pos h]

/-- Every issued token carries a non-empty subject claim. -/
theorem id_token_subject_nonempty {cfg : Cfg} {now : Int} {L : Int} {cid : String} {f : Form} {c c' : Claims}
    (h : generateIDToken cfg now L cid f c = .ok c') (u : String) :
    c.sub ≠ "" ∧ SubFromSession c (toMap u c') := by
  obtain ⟨hs, _, _, _, rfl⟩ := generate_ok h
  refine ⟨hs, ?_⟩
  unfold SubFromSession
  rw [toMap_sub, minted_sub]
  unfold optStr
  rw [if_pos hs]

/-- No handler issues an ID token unless `openid` was granted (token endpoint: unless a session was stored,
    which the authorize handlers do only with `openid` granted — `explicit_stores_only_with_openid`). -/
theorem id_token_requires_openid (e : Env) (now : Int) (f : Form) (c c' : Claims) (a code u : String)
    (wt wi : Bool) :
    ¬ Issued (implicitAuthorize e now false wt f c a) c' ∧
    ¬ Issued (hybridAuthorize e now false wi wt f c code a) c' ∧
    ¬ Issued (refreshToken e now false f c a u) c' ∧
    ¬ Issued (explicitToken e now false f c a) c' ∧
    ¬ Issued (deviceToken e now false f c a) c' := by
  refine ⟨?_, ?_, ?_, ?_, ?_⟩
  · rintro ⟨s, h, hi⟩; have := (implicitAuthorize_issued h hi).1; cases this
  · rintro ⟨s, h, hi⟩; have := (hybridAuthorize_issued h hi).1; cases this
  · rintro ⟨s, h, hi⟩; have := (refreshToken_issued h hi).1; cases this
  · rintro ⟨s, h, hi⟩; have := (explicitToken_issued h hi).1; cases this
  · rintro ⟨s, h, hi⟩; have := (deviceToken_issued h hi).1; cases this

/-- The authorize handlers store an OpenID Connect session only when `openid` was granted. -/
theorem explicit_stores_only_with_openid (e : Env) (now : Int) (f : Form) (c : Claims) (s : StepOut)
    (h : explicitAuthorize e now false f c = .ok s) : s.stored = false := by
  unfold explicitAuthorize at h
  simp at h
  subst h
  rfl

theorem hybrid_stores_only_with_openid (e : Env) (now : Int) (wi wt : Bool) (f : Form) (c : Claims)
    (code a : String) (s : StepOut) (h : hybridAuthorize e now false wi wt f c code a = .ok s) :
    s.stored = false := by
  unfold hybridAuthorize at h
  split at h
  · cases h
  · split at h
    · cases h
    · split at h
      · cases h
      · simp at h
        subst h
        rfl

/-! ## aud, sub, iss -/

theorem id_token_aud_contains_client {cfg : Cfg} {now : Int} {L : Int} {cid : String} {f : Form}
    {c c' : Claims} (h : generateIDToken cfg now L cid f c = .ok c') (u : String) :
    AudHasClient cid (toMap u c') := by
  obtain ⟨_, _, _, _, rfl⟩ := generate_ok h
  refine ⟨_, toMap_aud u _, ?_⟩
  rw [minted_aud]
  exact mem_unique _ _ (List.mem_append_right _ (List.mem_cons_self))

/-- …and nothing is added to the audience besides the client: it is the session's audience plus the client. -/
theorem id_token_aud_only_session_and_client {cfg : Cfg} {now : Int} {L : Int} {cid : String} {f : Form}
    {c c' : Claims} (h : generateIDToken cfg now L cid f c = .ok c') (x : String) (hx : x ∈ c'.aud) :
    x ∈ c.aud ∨ x = cid := by
  obtain ⟨_, _, _, _, rfl⟩ := generate_ok h
  rw [minted_aud] at hx
  have := uniqueAux_subset x _ _ hx
  rcases List.mem_append.mp this with h1 | h1
  · exact Or.inl h1
  · exact Or.inr (by simpa using h1)

theorem id_token_sub_iss_from_session {cfg : Cfg} {now : Int} {L : Int} {cid : String} {f : Form}
    {c c' : Claims} (h : generateIDToken cfg now L cid f c = .ok c') (u : String) :
    SubFromSession c (toMap u c') ∧ IssFromSession cfg.issuer c (toMap u c') := by
  refine ⟨(id_token_subject_nonempty h u).2, ?_⟩
  obtain ⟨_, _, _, _, rfl⟩ := generate_ok h
  unfold IssFromSession
  rw [toMap_iss, minted_iss]
  by_cases hi : c.iss = ""
  · rw [if_pos hi, if_neg (by simpa using hi)]
  · rw [if_neg hi, if_pos hi]

/-! ## nonce -/

theorem id_token_nonce_echoed {cfg : Cfg} {now : Int} {L : Int} {cid : String} {f : Form}
    {c c' : Claims} (h : generateIDToken cfg now L cid f c = .ok c') (u : String) :
    NonceEchoed f (toMap u c') ∧ (f.nonce ≠ "" → cfg.minEntropy ≤ (f.nonce.length : Int)) := by
  obtain ⟨_, _, _, hn, rfl⟩ := generate_ok h
  have hlen : f.nonce ≠ "" → f.nonce.length ≠ 0 := by
    intro hne h0
    exact hne (String.length_eq_zero_iff.mp h0)
  refine ⟨?_, ?_⟩
  · intro hne
    rw [toMap_nonce, minted_nonce, if_neg (hlen hne)]
    unfold optStr
    rw [if_pos hne]
  · intro hne
    have := hn (hlen hne)
    omega

/-- A nonce shorter than the configured minimum is refused. -/
theorem id_token_short_nonce_refused (cfg : Cfg) (now : Int) (L : Int) (cid : String) (f : Form) (c : Claims)
    (h0 : f.nonce ≠ "") (hshort : (f.nonce.length : Int) < cfg.minEntropy) :
    ∀ c', generateIDToken cfg now L cid f c ≠ .ok c' := by
  intro c' h
  have := (id_token_nonce_echoed h "").2 h0
  omega

/-- Without a nonce in the request the session's nonce claim is left alone. -/
theorem id_token_no_nonce_keeps_session {cfg : Cfg} {now : Int} {L : Int} {cid : String} {f : Form}
    {c c' : Claims} (h : generateIDToken cfg now L cid f c = .ok c') (h0 : f.nonce = "") :
    c'.nonce = c.nonce := by
  obtain ⟨_, _, _, _, rfl⟩ := generate_ok h
  rw [minted_nonce, if_pos (by rw [h0]; rfl)]

/-! ## expiry -/

/-- Expires in the future; without a pre-set expiry, within the lifespan (one hour where 0 is passed).
    Granularity of the claim: seconds. -/
theorem id_token_exp_future_and_bounded {cfg : Cfg} {now : Int} {L : Int} {cid : String} {f : Form}
    {c c' : Claims} (h : generateIDToken cfg now L cid f c = .ok c') (hnow : zeroTime < now) (u : String) :
    ExpFuture now (toMap u c') ∧ (c.exp = zeroTime → ExpBounded now L (toMap u c')) := by
  obtain ⟨_, _, hexp, _, rfl⟩ := generate_ok h
  rw [expDefault_exp] at hexp
  have hge : now ≤ (minted cfg now L cid f c).exp := by rw [minted_exp]; exact Int.not_lt.mp hexp
  have hnz : (minted cfg now L cid f c).exp ≠ zeroTime := by omega
  have hget : (toMap u (minted cfg now L cid f c)).get "exp" = some (.num (unix (minted cfg now L cid f c).exp)) := by
    rw [toMap_exp]; unfold optTime; rw [if_pos hnz]
  refine ⟨⟨_, hget, unix_mono hge⟩, ?_⟩
  intro hz
  refine ⟨_, hget, ?_⟩
  rw [minted_exp, if_pos hz]
  have := unix_mul_le (now + (if L = 0 then defaultExpiryTime else L))
  unfold effectiveLifetime
  unfold defaultExpiryTime at this
  exact this

/-- A pre-set expiry in the past is refused. -/
theorem id_token_preset_exp_past_refused (cfg : Cfg) (now : Int) (L : Int) (cid : String) (f : Form)
    (c : Claims) (hset : c.exp ≠ zeroTime) (hpast : c.exp < now) :
    ∀ c', generateIDToken cfg now L cid f c ≠ .ok c' := by
  intro c' h
  obtain ⟨_, _, hexp, _, _⟩ := generate_ok h
  rw [expDefault_exp, if_neg hset] at hexp
  exact hexp hpast

/-- A lifespan that does not reach the present (negative) is refused as well. -/
theorem id_token_negative_lifespan_refused (cfg : Cfg) (now : Int) (L : Int) (cid : String) (f : Form)
    (c : Claims) (hz : c.exp = zeroTime) (hneg : L < 0) :
    ∀ c', generateIDToken cfg now L cid f c ≠ .ok c' := by
  intro c' h
  obtain ⟨_, _, hexp, _, _⟩ := generate_ok h
  rw [expDefault_exp, if_pos hz] at hexp
  have hL : ¬ L = 0 := by omega
  rw [if_neg hL] at hexp
  omega

/-- A pre-set expiry that is not in the past is taken over unchanged. -/
theorem id_token_preset_exp_kept {cfg : Cfg} {now : Int} {L : Int} {cid : String} {f : Form}
    {c c' : Claims} (h : generateIDToken cfg now L cid f c = .ok c') (hset : c.exp ≠ zeroTime) :
    c'.exp = c.exp := by
  obtain ⟨_, _, _, _, rfl⟩ := generate_ok h
  rw [minted_exp, if_neg hset]

/-! ## at_hash, c_hash -/

theorem computeHash_eq (C : Crypto) (alg : AlgHeader) (tok : String) :
    computeHash C alg tok = halfHash C (hashBits alg) tok := rfl

/-- The alg → hash table: SHA-256 unless the header's tail is the number 384 or 512. -/
theorem hashBits_table :
    hashBits (.str "RS256") = 256 ∧ hashBits (.str "ES256") = 256 ∧ hashBits (.str "ES384") = 384 ∧
    hashBits (.str "ES512") = 512 ∧ hashBits (.str "RS384") = 384 ∧ hashBits (.str "PS512") = 512 ∧
    hashBits .absent = 256 ∧ hashBits .other = 256 ∧ hashBits (.str "none") = 256 := by
  decide

/-- For every algorithm of the table the statement names, a session whose `alg` header equals the JWS
    algorithm gets the hash that algorithm chooses. -/
theorem hashBits_agrees_with_alg (alg : String) (bits : Nat) (h : algBits alg = some bits) :
    hashBits (.str alg) = bits := by
  unfold algBits at h
  split at h
  · next hm =>
    injection h with h; subst h
    simp only [List.mem_cons, List.not_mem_nil, or_false] at hm
    rcases hm with rfl | rfl | rfl <;> decide
  · split at h
    · next hm =>
      injection h with h; subst h
      simp only [List.mem_cons, List.not_mem_nil, or_false] at hm
      rcases hm with rfl | rfl | rfl <;> decide
    · split at h
      · next hm =>
        injection h with h; subst h
        simp only [List.mem_cons, List.not_mem_nil, or_false] at hm
        rcases hm with rfl | rfl | rfl <;> decide
      · cases h

/-- at_hash of every token issued together with an access token is the left half of the hash of that access
    token: token endpoint (code, device), refresh, implicit `id_token token`, hybrid `code id_token token`. -/
theorem at_hash_is_left_half (e : Env) (now : Int) (f : Form) (c c' : Claims) (a code u : String)
    (stored openid wi : Bool) :
    (Issued (explicitToken e now stored f c a) c' → AtHashIs e.C (hashBits e.alg) a (toMap u c')) ∧
    (Issued (deviceToken e now stored f c a) c' → AtHashIs e.C (hashBits e.alg) a (toMap u c')) ∧
    (Issued (refreshToken e now openid f c a u) c' → AtHashIs e.C (hashBits e.alg) a (toMap u c')) ∧
    (Issued (implicitAuthorize e now openid true f c a) c' → AtHashIs e.C (hashBits e.alg) a (toMap u c')) ∧
    (Issued (hybridAuthorize e now openid wi true f c code a) c' → AtHashIs e.C (hashBits e.alg) a (toMap u c')) := by
  refine ⟨?_, ?_, ?_, ?_, ?_⟩
  · rintro ⟨s, h, hi⟩
    obtain ⟨_, hg, _⟩ := explicitToken_issued h hi
    obtain ⟨_, _, _, _, rfl⟩ := generate_ok hg
    unfold AtHashIs; rw [toMap_at_hash, minted_atHash]; rfl
  · rintro ⟨s, h, hi⟩
    obtain ⟨_, hg, _⟩ := deviceToken_issued h hi
    obtain ⟨_, _, _, _, rfl⟩ := generate_ok hg
    unfold AtHashIs; rw [toMap_at_hash, minted_atHash]; rfl
  · rintro ⟨s, h, hi⟩
    obtain ⟨_, hg, _⟩ := refreshToken_issued h hi
    obtain ⟨_, _, _, _, rfl⟩ := generate_ok hg
    unfold AtHashIs; rw [toMap_at_hash, minted_atHash]; rfl
  · rintro ⟨s, h, hi⟩
    obtain ⟨_, _, hg, _⟩ := implicitAuthorize_issued h hi
    obtain ⟨_, _, _, _, rfl⟩ := generate_ok hg
    unfold AtHashIs; rw [toMap_at_hash, minted_atHash]; rfl
  · rintro ⟨s, h, hi⟩
    obtain ⟨_, _, _, hg, _⟩ := hybridAuthorize_issued h hi
    obtain ⟨_, _, _, _, rfl⟩ := generate_ok hg
    unfold AtHashIs; rw [toMap_at_hash, minted_atHash]; rfl

/-- c_hash of every token issued together with a code (hybrid flow) is the left half of the hash of that code. -/
theorem c_hash_is_left_half (e : Env) (now : Int) (f : Form) (c c' : Claims) (a code u : String)
    (openid wi wt : Bool) (h : Issued (hybridAuthorize e now openid wi wt f c code a) c') :
    CHashIs e.C (hashBits e.alg) code (toMap u c') := by
  obtain ⟨s, h, hi⟩ := h
  obtain ⟨_, _, _, hg, _⟩ := hybridAuthorize_issued h hi
  obtain ⟨_, _, _, _, rfl⟩ := generate_ok hg
  unfold CHashIs; rw [toMap_c_hash, minted_cHash]
  cases wt <;> rfl

/-- Whatever the session carried before (for instance the c_hash of a hybrid response), the token minted on
    refresh has no c_hash, and its at_hash is that of the new access token (`at_hash_is_left_half`). -/
theorem refresh_id_token_has_no_c_hash (e : Env) (now : Int) (f : Form) (c c' : Claims) (a u : String)
    (openid : Bool) (h : Issued (refreshToken e now openid f c a u) c') (u' : String) :
    NoCHash (toMap u' c') := by
  obtain ⟨s, h, hi⟩ := h
  obtain ⟨_, hg, _⟩ := refreshToken_issued h hi
  obtain ⟨_, _, _, _, rfl⟩ := generate_ok hg
  unfold NoCHash; rw [toMap_c_hash, minted_cHash]; rfl

/-- The refresh handler discards a pre-set or inherited expiry: the new token's expiry is counted from the
    refresh. -/
theorem refresh_id_token_exp_reset (e : Env) (now : Int) (f : Form) (c c' : Claims) (a u : String)
    (openid : Bool) (h : Issued (refreshToken e now openid f c a u) c') (hnow : zeroTime < now) (u' : String) :
    ExpFuture now (toMap u' c') ∧ ExpBounded now (e.lifespan e.lifeRefresh) (toMap u' c') := by
  obtain ⟨s, h, hi⟩ := h
  obtain ⟨_, hg, _⟩ := refreshToken_issued h hi
  have := id_token_exp_future_and_bounded hg hnow u'
  exact ⟨this.1, this.2 rfl⟩

/-! ## requests the session does not satisfy -/

theorem max_age_violation_fails (cfg : Cfg) (now : Int) (L : Int) (cid : String) (f : Form) (c : Claims)
    (hg : f.grantType ≠ "refresh_token") (hv : MaxAgeViolated f c) :
    generateIDToken cfg now L cid f c = .error .serverError := by
  apply generate_request_refused _ _ _ _ _ _ hg
  intro c1 hrc
  obtain ⟨n, hn, hpos, hat, hrat, hlt⟩ := hv
  have hm := (requestChecks_ok hrc).2.2.1
  have hmo : maxAgeOf f = n := by unfold maxAgeOf; rw [hn]
  rw [hmo] at hm
  unfold maxAgeCheck at hm
  rw [if_pos hpos, if_neg hat, if_neg hrat] at hm
  have hw := wrap64_le (x := second * n) (by unfold second; omega)
  have hcond : c.authTime + wrap64 (second * n) < c.rat := by
    unfold second at hw ⊢
    omega
  rw [if_pos hcond] at hm
  cases hm

theorem prompt_none_after_login_fails (cfg : Cfg) (now : Int) (L : Int) (cid : String) (f : Form) (c : Claims)
    (hg : f.grantType ≠ "refresh_token") (hv : PromptNoneViolated f c) :
    generateIDToken cfg now L cid f c = .error .serverError := by
  apply generate_request_refused _ _ _ _ _ _ hg
  intro c1 hrc
  obtain ⟨hp, hlt⟩ := hv
  have hm := (requestChecks_ok hrc).2.2.2.2.1
  unfold promptSwitch at hm
  have hne : ¬ c.authTime = c.rat := by omega
  rw [if_pos hp, if_pos ⟨hne, hlt⟩] at hm
  cases hm

theorem prompt_login_without_reauth_fails (cfg : Cfg) (now : Int) (L : Int) (cid : String) (f : Form)
    (c : Claims) (hg : f.grantType ≠ "refresh_token") (hv : PromptLoginViolated f c) :
    generateIDToken cfg now L cid f c = .error .serverError := by
  apply generate_request_refused _ _ _ _ _ _ hg
  intro c1 hrc
  obtain ⟨hp, hlt⟩ := hv
  have hm := (requestChecks_ok hrc).2.2.2.2.1
  unfold promptSwitch at hm
  have hne : ¬ c.authTime = c.rat := by omega
  have hnn : ¬ f.prompt = "none" := by rw [hp]; decide
  rw [if_neg hnn, if_pos hp, if_pos ⟨hne, hlt⟩] at hm
  cases hm

theorem hint_subject_mismatch_fails (cfg : Cfg) (now : Int) (L : Int) (cid : String) (f : Form) (c : Claims)
    (hg : f.grantType ≠ "refresh_token") (hv : HintMismatch f c) :
    generateIDToken cfg now L cid f c = .error .serverError := by
  apply generate_request_refused _ _ _ _ _ _ hg
  intro c1 hrc
  obtain ⟨s, hs, hne⟩ := hv
  have hh := (requestChecks_ok hrc).2.2.2.2.2
  rw [hs] at hh
  unfold hintCheck at hh
  simp only at hh
  have hsub : (acrDefault f c).sub = c.sub := by unfold acrDefault; split <;> rfl
  rw [hsub] at hh
  by_cases h1 : s = ""
  · rw [if_pos h1] at hh; cases hh
  · rw [if_neg h1, if_pos hne] at hh; cases hh

/-- A hint that does not decode at all (for a reason other than expiry), or has no subject, fails too. -/
theorem hint_undecodable_fails (cfg : Cfg) (now : Int) (L : Int) (cid : String) (f : Form) (c : Claims)
    (hg : f.grantType ≠ "refresh_token") (hv : f.hint = .error ∨ f.hint = .decoded "") :
    generateIDToken cfg now L cid f c = .error .serverError := by
  apply generate_request_refused _ _ _ _ _ _ hg
  intro c1 hrc
  have hh := (requestChecks_ok hrc).2.2.2.2.2
  rcases hv with hv | hv <;> rw [hv] at hh <;> simp [hintCheck] at hh

/-- The same requests already stop the authorize endpoint: `ValidatePrompt` never accepts them (there the
    prompt parameter is a space-separated list). -/
theorem validatePrompt_rejects_unsatisfied (pub sec : Bool) (now : Int) (f : Form) (c : Claims)
    (hv : MaxAgeViolated f c ∨ (promptList f.prompt).contains "none" ∧ c.authTime > c.rat ∨
          (promptList f.prompt).contains "login" ∧ c.authTime < c.rat ∨ HintMismatch f c) :
    validatePrompt pub sec now f c ≠ .ok () := by
  intro h
  obtain ⟨_, hma, hpn, hpl, hh⟩ := validatePrompt_ok h
  rcases hv with ⟨n, hn, hpos, hat, hrat, hlt⟩ | ⟨hp, hlt⟩ | ⟨hp, hlt⟩ | ⟨s, hs, hne⟩
  · have hmo : maxAgeOf f = n := by unfold maxAgeOf; rw [hn]
    rw [hmo] at hma
    have hw := wrap64_le (x := second * n) (by unfold second; omega)
    apply hma
    refine ⟨hpos, ?_⟩
    unfold second at hw ⊢
    omega
  · exact hpn ⟨hp, by omega, hlt⟩
  · exact hpl ⟨hp, hlt⟩
  · rcases hh with hh | hh
    · rw [hs] at hh; cases hh
    · rw [hs] at hh; injection hh with hh; exact hne hh

/-- Flow level: none of the non-refresh handlers issues a token for such a request (they all go through
    `generateIDToken` with the request's form; `grant_type` of an authorize or device request is not
    "refresh_token" unless the request injects it, and then `ValidatePrompt` has refused already — see
    `validatePrompt_rejects_unsatisfied`; the hash fields they set first do not matter). -/
theorem unsatisfied_request_not_issued (e : Env) (now : Int) (f : Form) (c c' : Claims) (a code : String)
    (stored openid wi wt : Bool) (hg : f.grantType ≠ "refresh_token")
    (hv : MaxAgeViolated f c ∨ PromptNoneViolated f c ∨ PromptLoginViolated f c ∨ HintMismatch f c) :
    ¬ Issued (explicitToken e now stored f c a) c' ∧
    ¬ Issued (deviceToken e now stored f c a) c' ∧
    ¬ Issued (implicitAuthorize e now openid wt f c a) c' ∧
    ¬ Issued (hybridAuthorize e now openid wi wt f c code a) c' := by
  have key : ∀ (c0 : Claims) (L : Int), generateIDToken e.cfg now L e.clientId f c0 = .ok c' →
      c0.sub = c.sub → c0.authTime = c.authTime → c0.rat = c.rat → False := by
    intro c0 L hgen h1 h2 h3
    rcases hv with hv | hv | hv | hv
    · have : MaxAgeViolated f c0 := by
        obtain ⟨n, hn, hpos, hat, hrat, hlt⟩ := hv
        exact ⟨n, hn, hpos, by rw [h2]; exact hat, by rw [h3]; exact hrat, by rw [h2, h3]; exact hlt⟩
      rw [max_age_violation_fails _ _ _ _ _ _ hg this] at hgen; cases hgen
    · have : PromptNoneViolated f c0 := ⟨hv.1, by rw [h2, h3]; exact hv.2⟩
      rw [prompt_none_after_login_fails _ _ _ _ _ _ hg this] at hgen; cases hgen
    · have : PromptLoginViolated f c0 := ⟨hv.1, by rw [h2, h3]; exact hv.2⟩
      rw [prompt_login_without_reauth_fails _ _ _ _ _ _ hg this] at hgen; cases hgen
    · have : HintMismatch f c0 := by
        obtain ⟨s, hs, hne⟩ := hv
        exact ⟨s, hs, by rw [h1]; exact hne⟩
      rw [hint_subject_mismatch_fails _ _ _ _ _ _ hg this] at hgen; cases hgen
  refine ⟨?_, ?_, ?_, ?_⟩
  · rintro ⟨s, h, hi⟩
    exact key _ _ (explicitToken_issued h hi).2.1 rfl rfl rfl
  · rintro ⟨s, h, hi⟩
    exact key _ _ (deviceToken_issued h hi).2.1 rfl rfl rfl
  · rintro ⟨s, h, hi⟩
    have hgen := (implicitAuthorize_issued h hi).2.2.1
    cases wt
    · exact key _ _ hgen rfl rfl rfl
    · exact key _ _ hgen rfl rfl rfl
  · rintro ⟨s, h, hi⟩
    have hgen := (hybridAuthorize_issued h hi).2.2.2.1
    cases wt
    · exact key _ _ hgen rfl rfl rfl
    · exact key _ _ hgen rfl rfl rfl

/-! ## reserved claims cannot be overridden through `Extra` -/

/-- Whatever `Extra` says, every claim `ToMap` owns (sub, iss, aud, nonce, exp, iat, at_hash, c_hash — and also
    jti, rat, auth_time, acr, amr) has the value computed from the claims object, or is absent when that value
    is empty: `reservedValue` does not look at `Extra`. -/
theorem reserved_claims_not_overridable (u : String) (c : Claims) (k : String) (hk : k ∈ reservedKeys) :
    (toMap u c).get k = reservedValue u c k :=
  toMap_reserved u c k hk

/-- …so two claims objects that differ only in `Extra` emit the same reserved claims. -/
theorem reserved_claims_independent_of_extra (u : String) (c : Claims) (extra : List (String × Val)) (k : String)
    (hk : k ∈ reservedKeys) : (toMap u { c with extra := extra }).get k = (toMap u c).get k := by
  rw [toMap_reserved _ _ _ hk, toMap_reserved _ _ _ hk]
  rfl

/-- `generateIDToken` neither reads nor changes `Extra`. -/
theorem generate_keeps_extra {cfg : Cfg} {now : Int} {L : Int} {cid : String} {f : Form} {c c' : Claims}
    (h : generateIDToken cfg now L cid f c = .ok c') : c'.extra = c.extra := by
  obtain ⟨_, _, _, _, rfl⟩ := generate_ok h
  exact minted_extra _ _ _ _ _ _

/-- All other keys of `Extra` are emitted as they are. -/
theorem custom_claims_pass_through (u : String) (c : Claims) (k : String) (hk : k ∉ reservedKeys) :
    (toMap u c).get k = ClaimMap.get c.extra k :=
  toMap_extra u c k hk

/-- The statement's list in one place: for an issued token, whatever `Extra` says. -/
theorem issued_token_bindings {cfg : Cfg} {now : Int} {L : Int} {cid : String} {f : Form} {c c' : Claims}
    (h : generateIDToken cfg now L cid f c = .ok c') (hnow : zeroTime < now) (u : String) :
    SubFromSession c (toMap u c') ∧ IssFromSession cfg.issuer c (toMap u c') ∧ AudHasClient cid (toMap u c') ∧
    NonceEchoed f (toMap u c') ∧ ExpFuture now (toMap u c') ∧ (c.exp = zeroTime → ExpBounded now L (toMap u c')) ∧
    (toMap u c').get "iat" = some (.num (unix now)) ∧
    (toMap u c').get "at_hash" = optStr c.atHash ∧ (toMap u c').get "c_hash" = optStr c.cHash := by
  have h1 := id_token_sub_iss_from_session h u
  have h2 := id_token_aud_contains_client h u
  have h3 := (id_token_nonce_echoed h u).1
  have h4 := id_token_exp_future_and_bounded h hnow u
  refine ⟨h1.1, h1.2, h2, h3, h4.1, h4.2, ?_, ?_, ?_⟩
  all_goals obtain ⟨_, _, _, _, rfl⟩ := generate_ok h
  · rw [toMap_iat, minted_iat]; unfold optTime; rw [if_pos (by omega)]
  · rw [toMap_at_hash, minted_atHash]
  · rw [toMap_c_hash, minted_cHash]

/-! ## limits of the code, as the model has them (reported as findings; see the driver's generator) -/

/-- `ComputeHash` follows the `alg` value of the SESSION's ID-token headers, not the algorithm the token is
    signed with: with the default (empty) headers and an ES384 / ES512 key the hash is SHA-256 although the
    JWS algorithm chooses SHA-384 / SHA-512.  The harness keeps the header consistent (reading in DESIGN §3). -/
theorem hash_follows_session_header_not_jws_alg :
    algBits "ES384" = some 384 ∧ algBits "ES512" = some 512 ∧ hashBits .absent = 256 ∧ hashBits .other = 256 := by
  decide

/-- `GenerateIDToken` compares the prompt parameter verbatim: a list that contains `login` or `none` next to
    another value is not recognised there (`ValidatePrompt` does recognise it, but it does not run in the
    device flow, where the form is whatever the application stored). -/
theorem generate_compares_prompt_verbatim (c : Claims) :
    promptSwitch "login consent" c = none ∧ promptSwitch "consent none" c = none := by
  unfold promptSwitch
  refine ⟨?_, ?_⟩
  · rw [if_neg (by decide), if_neg (by decide)]
  · rw [if_neg (by decide), if_neg (by decide)]

/-- A form that says `grant_type=refresh_token` switches the request block of `GenerateIDToken` off. -/
theorem generate_skips_request_checks_on_refresh_grant (cfg : Cfg) (now L : Int) (cid : String) (f : Form)
    (c : Claims) (hg : f.grantType = "refresh_token") :
    generateIDToken cfg now L cid f c = generateIDToken cfg now L cid { f with maxAge := none, prompt := "", acrValues := "", hint := .absent } c := by
  unfold generateIDToken
  simp only
  have h1 : ¬ f.grantType ≠ "refresh_token" := by simp [hg]
  rw [if_neg h1, if_neg h1]
  rfl

/-! ## complete exchanges (authorize / device step, token step, refresh step over the shared session) -/

/-- Whatever the chain of steps, an ID token comes out only if `openid` was granted and the session names a
    subject, and it carries that subject. -/
theorem exchange_requires_openid_and_subject {e : Env} {x : Exchange} {c' : Claims} {t : Int} {a k : String}
    (h : exchange e x = .idToken c' t a k) :
    x.openid = true ∧ x.claims.sub ≠ "" ∧ c'.sub = x.claims.sub := by
  rcases exchange_inv h with ⟨_, s1, h1, hi, _⟩ | ⟨_, s1, s2, h1, h2, hi, _⟩ | ⟨_, s1, s2, s3, h1, h2, h3, hi, _⟩
  · exact (firstStep_ok h1).2.2 c' hi
  · obtain ⟨hs1, hst, _⟩ := firstStep_ok h1
    obtain ⟨_, hiss⟩ := secondStep_ok h2
    obtain ⟨hstored, hne, hsub, _⟩ := hiss c' hi
    exact ⟨hst hstored, by rw [← hs1]; exact hne, by rw [hsub, hs1]⟩
  · obtain ⟨hs1, _, _⟩ := firstStep_ok h1
    obtain ⟨hs2, _⟩ := secondStep_ok h2
    unfold thirdStep at h3
    obtain ⟨hop, hg, _⟩ := refreshToken_issued h3 hi
    have hs := generate_sub hg
    refine ⟨hop, ?_, ?_⟩
    · have : s2.claims.sub ≠ "" := hs.2
      rw [hs2, hs1] at this; exact this
    · rw [hs.1]; show s2.claims.sub = _; rw [hs2, hs1]

/-- A token minted on refresh has no c_hash — also when the session inherited one from a hybrid response —
    and its at_hash is the left half of the hash of the NEW access token. -/
theorem exchange_refresh_drops_c_hash {e : Env} {x : Exchange} {c' : Claims} {t : Int} {a k : String}
    (h : exchange e x = .idToken c' t a k) (hl : x.last = .refresh) (u : String) :
    NoCHash (toMap u c') ∧ AtHashIs e.C (hashBits e.alg) x.at2 (toMap u c') ∧ a = x.at2 ∧ k = "" := by
  rcases exchange_inv h with ⟨hl', _⟩ | ⟨hl', _⟩ | ⟨_, s1, s2, s3, h1, h2, h3, hi, _, ha, hk⟩
  · rw [hl] at hl'; cases hl'
  · rw [hl] at hl'; cases hl'
  · unfold thirdStep at h3
    exact ⟨refresh_id_token_has_no_c_hash _ _ _ _ _ _ _ _ ⟨s3, h3, hi⟩ u,
      (at_hash_is_left_half e _ _ s2.claims c' x.at2 "" x.fresh false x.openid false).2.2.1 ⟨s3, h3, hi⟩ |> fun hh => by
        unfold AtHashIs at hh ⊢; rw [toMap_at_hash] at hh ⊢; exact hh,
      ha, hk⟩

/-- The token endpoint's ID token carries the at_hash of the access token of that response; its c_hash is
    whatever the session carried after the first step: for a hybrid first step that is the hash of the very
    code being redeemed, otherwise the application's value (normally none). -/
theorem exchange_token_step_hashes {e : Env} {x : Exchange} {c' : Claims} {t : Int} {a k : String}
    (h : exchange e x = .idToken c' t a k) (hl : x.last = .token) (u : String) :
    a = x.at1 ∧ AtHashIs e.C (hashBits e.alg) x.at1 (toMap u c') ∧
    ((x.rt = .ci ∨ x.rt = .cit ∨ x.rt = .ct) → k = x.code ∧ CHashIs e.C (hashBits e.alg) x.code (toMap u c')) ∧
    ((x.rt = .code ∨ x.rt = .device) → (toMap u c').get "c_hash" = optStr x.claims.cHash) := by
  rcases exchange_inv h with ⟨hl', _⟩ | ⟨_, s1, s2, h1, h2, hi, _, ha, hk⟩ | ⟨hl', _⟩
  · rw [hl] at hl'; cases hl'
  · obtain ⟨_, hiss⟩ := secondStep_ok h2
    obtain ⟨_, _, _, hat, hch⟩ := hiss c' hi
    refine ⟨ha, ?_, ?_, ?_⟩
    · unfold AtHashIs; rw [toMap_at_hash, hat]; rfl
    · intro hrt
      have hc1 : s1.claims.cHash = computeHash e.C e.alg x.code := by
        unfold firstStep at h1
        rcases hrt with hrt | hrt | hrt <;> rw [hrt] at h1 <;> exact hybridAuthorize_cHash h1
      have hk' : k = x.code := by
        rw [hk]; rcases hrt with hrt | hrt | hrt <;> rw [hrt] <;> rfl
      refine ⟨hk', ?_⟩
      unfold CHashIs; rw [toMap_c_hash, hch, hc1]; rfl
    · intro hrt
      have hc1 : s1.claims.cHash = x.claims.cHash := by
        unfold firstStep at h1
        rcases hrt with hrt | hrt <;> rw [hrt] at h1 <;> simp only at h1
        · split at h1
          · cases h1
          · rw [(explicitAuthorize_ok h1).1]
        · injection h1 with h1; subst h1; rfl
      rw [toMap_c_hash, hch, hc1]
  · rw [hl] at hl'; cases hl'

/-! ## non-vacuity: concrete exchanges (hash = identity-like stand-in) -/

section Examples

def exBytes (bits : Nat) (s : String) : List UInt8 :=
  UInt8.ofNat (bits / 8) :: s.toList.map (fun c => UInt8.ofNat c.toNat)

/-- a stand-in "digest": tagged input twice, so that the left half is the tagged input -/
def exC : Crypto where
  hash := fun bits s => exBytes bits s ++ exBytes bits s
  b64 := fun b => String.ofList (b.map (fun x => Char.ofNat x.toNat))

def exEnv : Env where
  C := exC
  cfgIssuer := "https://as.example"
  minEntropyRaw := 0
  cfgLifespan := 0
  lifeCode := none
  lifeImplicit := none
  lifeRefresh := some 60000000000
  clientId := "client"
  clientPublic := false
  redirectSecure := true
  alg := .str "ES384"

def exClaims : Claims where
  sub := "alice"
  authTime := 946684700000000000
  rat := 946684760000000000
  extra := [("sub", .raw "mallory"), ("name", .raw "Alice"), ("at_hash", .raw "evil")]

def exForm : Form := { nonce := "nonce-nonce-1" }

def exX (rt : RT) (last : Last) : Exchange where
  rt := rt
  last := last
  openid := true
  now1 := 946684800500000000
  dt1 := 1000000000
  dt2 := 2000000000
  form := exForm
  refreshNonce := ""
  claims := exClaims
  code := "CODE"
  at0 := "AT0"
  at1 := "AT1"
  at2 := "AT2"
  fresh := "uuid"

/-- code flow, token endpoint: a token is issued, `sub` is the session's although Extra says otherwise, the
    nonce is echoed, aud is the client, exp is now + 1 h, at_hash present, no c_hash -/
example : (match exchange exEnv (exX .code .token) with
  | .idToken c t a k =>
    let m := toMap "u" c
    m.get "sub" == some (.str "alice") && m.get "nonce" == some (.str "nonce-nonce-1") &&
    m.get "aud" == some (.strs ["client"]) && m.get "exp" == some (.num (946684801 + 3600)) &&
    m.get "iat" == some (.num 946684801) && m.get "iss" == some (.str "https://as.example") &&
    m.get "name" == some (.raw "Alice") && (m.get "at_hash").isSome && m.get "at_hash" != some (.raw "evil") &&
    m.get "c_hash" == none && a == "AT1" && k == "CODE" && t == 946684801500000000
  | _ => false) = true := by decide

/-- hybrid `code id_token token`: at_hash and c_hash are the left halves of the SHA-384 stand-in -/
example : (match exchange exEnv (exX .cit .authz) with
  | .idToken c _ a k =>
    let m := toMap "u" c
    m.get "at_hash" == some (.str (halfHash exC 384 "AT0")) && m.get "c_hash" == some (.str (halfHash exC 384 "CODE")) &&
    a == "AT0" && k == "CODE"
  | _ => false) = true := by decide

/-- hybrid, then redeem, then refresh: the c_hash the session inherited is gone, exp counts from the refresh -/
example : (match exchange exEnv (exX .ci .refresh) with
  | .idToken c t a _ =>
    let m := toMap "u" c
    m.get "c_hash" == none && m.get "at_hash" == some (.str (halfHash exC 384 "AT2")) && a == "AT2" &&
    m.get "exp" == some (.num (946684803 + 60)) && t == 946684803500000000 && m.get "jti" == some (.str "uuid")
  | _ => false) = true := by decide

/-- implicit and device flows issue as well -/
example : (match exchange exEnv (exX .it .authz), exchange exEnv (exX .itt .authz), exchange exEnv (exX .device .token) with
  | .idToken _ _ _ _, .idToken _ _ _ _, .idToken _ _ _ _ => true
  | _, _, _ => false) = true := by decide

/-- `code token` delivers no ID token; without `openid` the code flow delivers none either -/
example : exchange exEnv (exX .ct .authz) = .noIDToken ∧
    exchange exEnv { exX .code .token with openid := false } = .noIDToken := by decide

/-- the refusals: empty subject, short nonce, max_age, prompt=none, prompt=login, hint, pre-set expiry in the past -/
example : exchange exEnv { exX .device .token with claims := { exClaims with sub := "" } } = .err .serverError "token" ∧
    exchange exEnv { exX .code .token with form := { nonce := "short" } } = .err .insufficientEntropy "token" ∧
    exchange exEnv { exX .code .token with form := { exForm with maxAge := some 59 } } = .err .loginRequired "authz" ∧
    exchange exEnv { exX .device .token with form := { exForm with maxAge := some 59 } } = .err .serverError "token" ∧
    exchange exEnv { exX .device .token with form := { exForm with prompt := "login" } } = .err .serverError "token" ∧
    exchange exEnv { { exX .it .authz with form := { exForm with prompt := "none" } } with
                      claims := { exClaims with authTime := 946684770000000000 } } = .err .loginRequired "authz" ∧
    exchange exEnv { exX .ci .authz with form := { exForm with hint := .decoded "bob" } } = .err .loginRequired "authz" ∧
    exchange exEnv { exX .device .token with form := { exForm with hint := .decoded "bob" } } = .err .serverError "token" ∧
    exchange exEnv { exX .itt .authz with claims := { exClaims with exp := 946684800000000000 } } = .err .serverError "authz" := by
  decide

/-- the hypotheses of the refusal theorems are satisfiable -/
example : MaxAgeViolated { exForm with maxAge := some 59 } exClaims ∧ PromptLoginViolated { exForm with prompt := "login" } exClaims ∧
    HintMismatch { exForm with hint := .decoded "bob" } exClaims :=
  ⟨⟨59, rfl, by decide, by decide, by decide, by decide⟩, ⟨rfl, by decide⟩, ⟨"bob", rfl, by decide⟩⟩

end Examples

end Fosite.Props.C14

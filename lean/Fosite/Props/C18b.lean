/-
  C18 — the "retry" clause: "… a failure inside the issuing transaction leaves every code and token
  record exactly as it was before the request, so the credential being exchanged is still usable by its
  legitimate holder and still protected by every other guarantee."

  `Props/C18.lean` proves that a rolled-back request leaves the state as it was except for the mint
  counter `SState.next` (`retry_after_rollback_partial`: the counter values the failed attempt burnt are
  gone).  What was missing is that the retry then BEHAVES like the original request.  It does, up to the
  renaming of the freshly minted signatures and request ids, and that is a theorem about every endpoint
  program of the model, every run configuration (every fault plan, transactional store or not), every
  state and every number `k` of burnt counter values:

  * `retry_equivalent_up_to_renaming` — one operation from the state with `k` counter values burnt is
    the operation from the original state with every name `≥ s.ss.next` moved up by `k`
    (`MState.sh` / `Out.sh` / `shLog` with `shN s.ss.next k`; `Proofs/Shift.lean`): the state after, the
    answer and the complete storage-call log.  Nothing else differs.
  * `retry_after_rollback` — the C18 clause: transactional store, the first attempt is rolled back
    (whatever failed, wherever); then the retry of the same request — under ANY run configuration, in
    particular the fault-free one, `retry_after_rollback_fault_free` — gives exactly what the request
    would have given without the failed attempt, with the fresh names moved up by the number of burnt
    counter values; `retry_succeeds_iff` / `retry_same_error`: it hands out tokens exactly if the
    request would have, and is refused with the same error otherwise.
  * `well_formed_is_invariant` / `reachable_well_formed`: the hypothesis on the state holds of every
    state reachable from the empty one, under every fault plan.

  Reading.  Names are natural numbers in minting order.  Hypotheses, both decidable:
  * `AllBelow s.ss`: every signature and request id stored anywhere in `s` (keys of the nine tables, ids
    and signatures inside records and index tables) is below the mint counter — the comment on
    `SState.next` made a definition; an invariant of the model (`well_formed_is_invariant`);
  * `op.Below s.ss.next`: the request presents only signatures that have been minted (codes, tokens,
    request URIs `< next`).  A presented number `≥ next` is a signature nobody has been given yet; the
    theorem would be false for it as stated (the log of the retry shows the number itself, not the
    number moved by `k`).  For the push endpoint the hypothesis also asks `0 < next` when no handler is
    responsible for the pushed response types: that answer carries the literal request URI `0`.
  * `createDevice` arguments: the `userSig` field of the argument is ignored by the store (it mints the
    user code itself), so `Call.sh` leaves it alone; the log is renamed accordingly.

  * `renamed_operation_from_renamed_state` / `future_after_rollback_is_renamed` — "still protected by every
    other guarantee": later requests may present what the retry issued, i.e. names the renaming moves.
    The renaming is therefore also applied to operations (`Op.sh`: the signatures they present), and the
    statement is lifted to whole histories in which every operation runs under its own fault plan
    (`afterWith` / `outsWith`): after the rolled-back attempt, the renamed history gives the renamed
    answers, logs and final state of the history without the failed attempt.
-/
import Fosite.Proofs.ShiftHandlers
import Fosite.Proofs.Refusals
import Fosite.Props.C18
namespace Fosite.Props.C18b
open Fosite.Model

/-! ## 1. One operation after `k` burnt counter values -/

/-- **Equivalence of the retry up to renaming.**  Every operation (every endpoint program, and the harness-level
    operations too), every run configuration, every `k`: from the state with `k` mint-counter values burnt the operation gives the
    state, the answer and the storage-call log it gives from `s`, with every name `≥ s.ss.next` moved up
    by `k`. -/
theorem retry_equivalent_up_to_renaming (rc : RunCfg) (s : MState) (op : Op) (k : Nat)
    (hb : AllBelow s.ss) (hop : op.Below s.ss.next) :
    stepWith rc (s.bump k) op =
      ((stepWith rc s op).1.sh s.ss.next k, (stepWith rc s op).2.1.sh s.ss.next k,
       shLog s.ss.next k (stepWith rc s op).2.2) := by
  rw [← MState.sh_of_allBelow k s hb]
  exact stepWith_sh_fixed rc s op s.ss.next k (Nat.le_refl _) hb (hop.fixed k)

/-- the fault-free, transaction-less instance (`step`) -/
theorem step_equivalent_up_to_renaming (s : MState) (op : Op) (k : Nat)
    (hb : AllBelow s.ss) (hop : op.Below s.ss.next) :
    step (s.bump k) op =
      ((step s op).1.sh s.ss.next k, (step s op).2.1.sh s.ss.next k, shLog s.ss.next k (step s op).2.2) := by
  rw [← stepWith_plain, ← stepWith_plain]
  exact retry_equivalent_up_to_renaming {} s op k hb hop

/-- the general form: any threshold `n ≤ next`, any `k`, and an operation that presents names the renaming
    moves — the RENAMED operation from the renamed state is the renamed operation (a later request that
    presents one of the retry's fresh signatures) -/
theorem renamed_operation_from_renamed_state (rc : RunCfg) (s : MState) (op : Op) (n k : Nat)
    (hn : n ≤ s.ss.next) (hb : AllBelow s.ss) (hl : op.LiteralOk n k) :
    stepWith rc (s.sh n k) (op.sh n k) =
      ((stepWith rc s op).1.sh n k, (stepWith rc s op).2.1.sh n k, shLog n k (stepWith rc s op).2.2) :=
  stepWith_sh rc s op n k hn hb hl

/-- the side condition on the push endpoint's literal request URI `0` holds as soon as anything has been minted -/
theorem literalOk_of_pos (n k : Nat) (op : Op) (h : 0 < n) : op.LiteralOk n k := by
  cases op <;> first | trivial | exact Or.inr (shN_lt h)

/-! ## 2. The state hypothesis is an invariant -/

/-- **Every signature and id in the state is below the mint counter** — preserved by every operation
    under every run configuration, whatever the operation presents. -/
theorem well_formed_is_invariant (rc : RunCfg) (s : MState) (op : Op) (hb : AllBelow s.ss) :
    AllBelow (stepWith rc s op).1.ss :=
  stepWith_AllBelow rc s op hb

/-- … hence it holds after every history from the empty state -/
theorem reachable_well_formed (ops : List Op) : AllBelow (after {} ops).ss :=
  after_AllBelow ops {} init_AllBelow

theorem reachable_well_formed_faulty (l : List (RunCfg × Op)) (s : MState) (hb : AllBelow s.ss) :
    AllBelow (afterWith s l).ss :=
  afterWith_AllBelow l s hb

/-! ## 3. The C18 clause: retry after a rolled-back failure -/

/-- the state a rolled-back request leaves is the state before it with the burnt counter values gone -/
theorem rolled_back_state_is_bumped (rc : RunCfg) (htx : rc.tx = true) (s : MState) (op : Op)
    (h : (Call.rollbackTx, Res.ok) ∈ (stepWith rc s op).2.2) :
    (stepWith rc s op).1 = s.bump ((stepWith rc s op).1.ss.next - s.ss.next) := by
  obtain ⟨h1, h2, _⟩ := C18.retry_after_rollback_partial rc htx s op h
  have : s.ss.next + ((stepWith rc s op).1.ss.next - s.ss.next) = (stepWith rc s op).1.ss.next := by omega
  unfold MState.bump
  rw [this]
  exact h1

/-- **Retry after a rolled-back failure** (transactional store).  If the first attempt was rolled back,
    the same request run again — under any run configuration `rc2` — gives the state, the answer and the
    log the request would have given from the state before the failed attempt, with the names minted by
    it moved up by the number of counter values the failed attempt burnt. -/
theorem retry_after_rollback (rc : RunCfg) (htx : rc.tx = true) (rc2 : RunCfg) (s : MState) (op : Op)
    (hb : AllBelow s.ss) (hop : op.Below s.ss.next)
    (h : (Call.rollbackTx, Res.ok) ∈ (stepWith rc s op).2.2) :
    stepWith rc2 (stepWith rc s op).1 op =
      ((stepWith rc2 s op).1.sh s.ss.next ((stepWith rc s op).1.ss.next - s.ss.next),
       (stepWith rc2 s op).2.1.sh s.ss.next ((stepWith rc s op).1.ss.next - s.ss.next),
       shLog s.ss.next ((stepWith rc s op).1.ss.next - s.ss.next) (stepWith rc2 s op).2.2) := by
  have hs := rolled_back_state_is_bumped rc htx s op h
  generalize (stepWith rc s op).1.ss.next - s.ss.next = K at hs ⊢
  rw [hs]
  exact retry_equivalent_up_to_renaming rc2 s op K hb hop

/-- … the fault-free retry against the fault-free original request -/
theorem retry_after_rollback_fault_free (rc : RunCfg) (htx : rc.tx = true) (s : MState) (op : Op)
    (hb : AllBelow s.ss) (hop : op.Below s.ss.next)
    (h : (Call.rollbackTx, Res.ok) ∈ (stepWith rc s op).2.2) :
    (stepWith { tx := true } (stepWith rc s op).1 op).2.1 =
      (stepWith { tx := true } s op).2.1.sh s.ss.next ((stepWith rc s op).1.ss.next - s.ss.next) ∧
    (step (stepWith rc s op).1 op).2.1 =
      (step s op).2.1.sh s.ss.next ((stepWith rc s op).1.ss.next - s.ss.next) := by
  constructor
  · rw [retry_after_rollback rc htx { tx := true } s op hb hop h]
  · rw [← stepWith_plain, ← stepWith_plain, retry_after_rollback rc htx {} s op hb hop h]

/-- the renaming changes no verdict: an answer hands out tokens / is an error exactly if the renamed one does -/
theorem sh_keeps_verdict (n k : Nat) (o : Out) :
    (o.sh n k).bearsToken = o.bearsToken ∧ (o.sh n k).issues = o.issues ∧ (o.sh n k).isErr = o.isErr ∧
    (∀ e, o.sh n k = .err e ↔ o = .err e) := by
  cases o <;> simp [Out.sh, Out.bearsToken, Out.issues, Out.isErr]

/-- on a token answer whose signatures are fresh (`≥ n`) the renaming is the plain shift `Out.shift k` of
    `Proofs/Refusals.lean` (the form `Props/C02b.lean` `refused_attempt_leaves_code_usable` uses for the one
    flow it covers) -/
theorem sh_is_shift_on_fresh_tokens (n k a : Nat) (rt : Option Nat) (idt : Bool) (e : Int) (sc : List String)
    (ha : n ≤ a) (hrt : ∀ r, rt = some r → n ≤ r) :
    (Out.tokens a rt idt e sc).sh n k = (Out.tokens a rt idt e sc).shift k := by
  cases rt with
  | none => simp only [Out.sh, Out.shift, shN_ge ha, Option.map_none]
  | some r => simp only [Out.sh, Out.shift, shN_ge ha, shN_ge (hrt r rfl), Option.map_some]

/-- **The credential is still usable**: after a rolled-back failure the retry hands out tokens exactly if
    the request would have without the failed attempt (any run configuration for the retry). -/
theorem retry_succeeds_iff (rc : RunCfg) (htx : rc.tx = true) (rc2 : RunCfg) (s : MState) (op : Op)
    (hb : AllBelow s.ss) (hop : op.Below s.ss.next)
    (h : (Call.rollbackTx, Res.ok) ∈ (stepWith rc s op).2.2) :
    (stepWith rc2 (stepWith rc s op).1 op).2.1.bearsToken = (stepWith rc2 s op).2.1.bearsToken ∧
    (stepWith rc2 (stepWith rc s op).1 op).2.1.issues = (stepWith rc2 s op).2.1.issues := by
  rw [retry_after_rollback rc htx rc2 s op hb hop h]
  exact ⟨(sh_keeps_verdict _ _ _).1, (sh_keeps_verdict _ _ _).2.1⟩

/-- … and is refused with the very same error otherwise ("still protected by every other guarantee":
    whatever the original request was refused for, the retry is refused for) -/
theorem retry_same_error (rc : RunCfg) (htx : rc.tx = true) (rc2 : RunCfg) (s : MState) (op : Op)
    (hb : AllBelow s.ss) (hop : op.Below s.ss.next)
    (h : (Call.rollbackTx, Res.ok) ∈ (stepWith rc s op).2.2) (e : Err) :
    (stepWith rc2 (stepWith rc s op).1 op).2.1 = .err e ↔ (stepWith rc2 s op).2.1 = .err e := by
  rw [retry_after_rollback rc htx rc2 s op hb hop h]
  exact (sh_keeps_verdict _ _ _).2.2.2 e

/-- the state after the retry is the renamed state the original request would have left, and is well-formed -/
theorem retry_state (rc : RunCfg) (htx : rc.tx = true) (rc2 : RunCfg) (s : MState) (op : Op)
    (hb : AllBelow s.ss) (hop : op.Below s.ss.next)
    (h : (Call.rollbackTx, Res.ok) ∈ (stepWith rc s op).2.2) :
    (stepWith rc2 (stepWith rc s op).1 op).1 =
      (stepWith rc2 s op).1.sh s.ss.next ((stepWith rc s op).1.ss.next - s.ss.next) ∧
    AllBelow (stepWith rc2 (stepWith rc s op).1 op).1.ss := by
  refine ⟨by rw [retry_after_rollback rc htx rc2 s op hb hop h], ?_⟩
  exact stepWith_AllBelow rc2 _ op (stepWith_AllBelow rc s op hb)

/-- **The whole future after the failed attempt is the renamed future**: take any history `l` from the state
    before the request — each operation under its own run configuration; e.g. the retry first, then requests
    presenting what the retry issued, replays, revocations, introspections — then after the rolled-back
    attempt the same history with the fresh names moved (`shHist`) gives the renamed answers, the renamed
    logs and the renamed final state.  So every guarantee that does not depend on the numeric value of
    freshly minted signatures holds after the failed attempt exactly as it would have held without it. -/
theorem future_after_rollback_is_renamed (rc : RunCfg) (htx : rc.tx = true) (s : MState) (op : Op)
    (hb : AllBelow s.ss) (h : (Call.rollbackTx, Res.ok) ∈ (stepWith rc s op).2.2)
    (l : List (RunCfg × Op))
    (hl : ∀ x ∈ l, x.2.LiteralOk s.ss.next ((stepWith rc s op).1.ss.next - s.ss.next)) :
    outsWith (stepWith rc s op).1 (shHist s.ss.next ((stepWith rc s op).1.ss.next - s.ss.next) l) =
      (outsWith s l).map (fun o => (o.1.sh s.ss.next ((stepWith rc s op).1.ss.next - s.ss.next),
                                    shLog s.ss.next ((stepWith rc s op).1.ss.next - s.ss.next) o.2)) ∧
    afterWith (stepWith rc s op).1 (shHist s.ss.next ((stepWith rc s op).1.ss.next - s.ss.next) l) =
      (afterWith s l).sh s.ss.next ((stepWith rc s op).1.ss.next - s.ss.next) := by
  have hs := rolled_back_state_is_bumped rc htx s op h
  generalize (stepWith rc s op).1.ss.next - s.ss.next = K at hs hl ⊢
  rw [hs, ← MState.sh_of_allBelow K s hb]
  obtain ⟨h1, h2⟩ := history_sh s.ss.next K l s (Nat.le_refl _) hb hl
  exact ⟨h2, h1⟩

/-- for states reachable from the empty one the state hypothesis is not needed -/
theorem reachable_retry_after_rollback (ops : List Op) (rc : RunCfg) (htx : rc.tx = true) (rc2 : RunCfg) (op : Op)
    (hop : op.Below (after {} ops).ss.next)
    (h : (Call.rollbackTx, Res.ok) ∈ (stepWith rc (after {} ops) op).2.2) :
    stepWith rc2 (stepWith rc (after {} ops) op).1 op =
      ((stepWith rc2 (after {} ops) op).1.sh (after {} ops).ss.next
          ((stepWith rc (after {} ops) op).1.ss.next - (after {} ops).ss.next),
       (stepWith rc2 (after {} ops) op).2.1.sh (after {} ops).ss.next
          ((stepWith rc (after {} ops) op).1.ss.next - (after {} ops).ss.next),
       shLog (after {} ops).ss.next ((stepWith rc (after {} ops) op).1.ss.next - (after {} ops).ss.next)
          (stepWith rc2 (after {} ops) op).2.2) :=
  retry_after_rollback rc htx rc2 (after {} ops) op (reachable_well_formed ops) hop h

/-! ## 4. Non-vacuity: a refresh that fails inside its transaction, is rolled back, and is retried -/

open C18 in
/-- the rolled-back marker the theorems ask for, from the evaluated log -/
theorem mem_of_isRollbackOk (l : List (Call × Res)) (h : hasEntry isRollbackOk l = true) :
    (Call.rollbackTx, Res.ok) ∈ l := by
  obtain ⟨e, he, hr⟩ := List.any_eq_true.mp h
  obtain ⟨c, r⟩ := e
  cases c <;> cases r <;> first | exact he | cases hr

/-- transactional store, `CreateAccessTokenSession` of the refresh (storage call 4 of the request) fails -/
def rcFailCreateAccess : RunCfg := { plan := planOf [(4, .generic)], tx := true }
/-- transactional store, `CreateRefreshTokenSession` (storage call 5) fails: the access-token signature is burnt too -/
def rcFailCreateRefresh : RunCfg := { plan := planOf [(5, .generic)], tx := true }

/-- the signatures in a token response -/
def outTokens : Out → Option (Nat × Option Nat)
  | .tokens a rt _ _ _ => some (a, rt)
  | _ => none

/-- `exState2` (a client, a code redeemed into access token 3 / refresh token 4; mint counter 5) is
    well-formed, and the refresh request presents a minted signature -/
example : AllBelow C18.exState2.ss ∧ C18.exRefresh.Below C18.exState2.ss.next ∧
    (C18.exRefresh.prog C18.exState2).isSome = true ∧ C18.exState2.ss.next = 5 := by
  decide +kernel

/-- **first attempt**: the fault hits `createAccess`, the transaction is rolled back, the request is refused,
    every table is as before, one counter value (the request id) is burnt -/
example :
    C18.hasEntry C18.isFailedCreateAccess (stepWith rcFailCreateAccess C18.exState2 C18.exRefresh).2.2 = true ∧
    C18.hasEntry C18.isRollbackOk (stepWith rcFailCreateAccess C18.exState2 C18.exRefresh).2.2 = true ∧
    C18.isErrWith .server_error (stepWith rcFailCreateAccess C18.exState2 C18.exRefresh).2.1 = true ∧
    (stepWith rcFailCreateAccess C18.exState2 C18.exRefresh).1.ss.store = C18.exState2.ss.store ∧
    (stepWith rcFailCreateAccess C18.exState2 C18.exRefresh).1.ss.next = 6 := by
  decide +kernel

/-- the hypothesis of the retry theorems holds of this run -/
example : (Call.rollbackTx, Res.ok) ∈ (stepWith rcFailCreateAccess C18.exState2 C18.exRefresh).2.2 :=
  mem_of_isRollbackOk _ (by decide +kernel)

/-- **the retry succeeds with the signatures moved by the burnt counter value**: without the failed attempt the
    request mints access token 6 / refresh token 7; the retry mints 7 / 8 — which is the renamed answer -/
example :
    outTokens (step C18.exState2 C18.exRefresh).2.1 = some (6, some 7) ∧
    outTokens (step (stepWith rcFailCreateAccess C18.exState2 C18.exRefresh).1 C18.exRefresh).2.1 = some (7, some 8) ∧
    outTokens ((step C18.exState2 C18.exRefresh).2.1.sh 5 1) = some (7, some 8) := by
  decide +kernel

/-- … as the theorem says (both sides are the evaluated runs) -/
example :
    (step (stepWith rcFailCreateAccess C18.exState2 C18.exRefresh).1 C18.exRefresh).2.1 =
      (step C18.exState2 C18.exRefresh).2.1.sh 5 1 := by
  have h := (retry_after_rollback_fault_free rcFailCreateAccess rfl C18.exState2 C18.exRefresh
    (by decide +kernel) (by decide +kernel) (mem_of_isRollbackOk _ (by decide +kernel))).2
  have h1 : C18.exState2.ss.next = 5 := by decide +kernel
  have h2 : (stepWith rcFailCreateAccess C18.exState2 C18.exRefresh).1.ss.next = 6 := by decide +kernel
  rw [h2, h1] at h
  exact h

/-- **a later failure burns more**: the fault hits `createRefresh` after `createAccess` has minted signature 6;
    rolled back, two counter values burnt; the retry mints 8 / 9 = the renamed 6 / 7 -/
example :
    C18.hasEntry C18.isRollbackOk (stepWith rcFailCreateRefresh C18.exState2 C18.exRefresh).2.2 = true ∧
    (stepWith rcFailCreateRefresh C18.exState2 C18.exRefresh).1.ss.store = C18.exState2.ss.store ∧
    (stepWith rcFailCreateRefresh C18.exState2 C18.exRefresh).1.ss.next = 7 ∧
    outTokens (step (stepWith rcFailCreateRefresh C18.exState2 C18.exRefresh).1 C18.exRefresh).2.1 = some (8, some 9) ∧
    outTokens ((step C18.exState2 C18.exRefresh).2.1.sh 5 2) = some (8, some 9) := by
  decide +kernel

/-- the renaming is not vacuous on stored records either: the store after the retry holds the new tokens under
    the moved signatures -/
example :
    ((step (stepWith rcFailCreateRefresh C18.exState2 C18.exRefresh).1 C18.exRefresh).1.ss.store.access.map (·.1)) = [8] ∧
    ((step C18.exState2 C18.exRefresh).1.ss.store.access.map (·.1)) = [6] ∧
    (((step C18.exState2 C18.exRefresh).1.sh 5 2).ss.store.access.map (·.1)) = [8] := by
  decide +kernel

/-- the hypothesis on the operation is needed: a presented signature that has not been minted (here `5 = next`)
    shows up unrenamed in the retry's log, so the two sides of the equation differ -/
example :
    let op : Op := .introspect { token := { sig := some 5, exact := true } }
    ¬ op.Below C18.exState2.ss.next ∧
    (stepWith {} (C18.exState2.bump 1) op).2.2.length = 2 ∧
    ((stepWith {} (C18.exState2.bump 1) op).2.2.map (fun e => match e.1 with | .getAccess k => k | _ => none)) = [some 5, none] ∧
    ((shLog 5 1 (stepWith {} C18.exState2 op).2.2).map (fun e => match e.1 with | .getAccess k => k | _ => none)) = [some 6, none] := by
  decide +kernel

/-- what an answer shows: its kind and the names in it -/
def outSummary : Out → String × List Nat
  | .tokens a rt _ _ _ => ("tokens", a :: rt.toList)
  | .active use r => (use, [r.id])
  | .err _ => ("err", [])
  | .inactive _ => ("inactive", [])
  | _ => ("other", [])

/-- a future: the retry, an introspection of the access token it issues, a replay of the rotated refresh token -/
def exFuture : List (RunCfg × Op) :=
  [({}, C18.exRefresh), ({}, .introspect { token := { sig := some 6, exact := true } }), ({}, C18.exRefresh)]

/-- **the future after the failed attempt**: the retry, then an introspection of the access token the retry
    issued, then a replay of the rotated refresh token.  Without the failed attempt: tokens 6 / 7, token 6 is
    active, the replay is refused.  After it, the same history with the fresh names moved (the introspection
    presents 7 instead of 6; the replayed token 4 is an old name and stays): tokens 7 / 8, token 7 is active,
    the replay is refused — the renamed answers, as `future_after_rollback_is_renamed` says. -/
example :
    ((shHist 5 1 exFuture).map (fun x => match x.2 with | .introspect q => q.token.sig | .refresh q => q.token.sig | _ => none)) =
      [some 4, some 7, some 4] ∧
    (outsWith C18.exState2 exFuture).map (fun o => outSummary o.1) =
      [("tokens", [6, 7]), ("access_token", [0]), ("err", [])] ∧
    (outsWith (stepWith rcFailCreateAccess C18.exState2 C18.exRefresh).1 (shHist 5 1 exFuture)).map (fun o => outSummary o.1) =
      [("tokens", [7, 8]), ("access_token", [0]), ("err", [])] ∧
    (∀ x ∈ exFuture, x.2.LiteralOk 5 1) := by
  decide +kernel

end Fosite.Props.C18b

/-
  C05 (continued) — the refresh-token ISSUANCE RULE, flow by flow and over histories.

  Clause covered (C05 statement, last sentence): "A refresh token is only ever issued when the grant
  contains one of the configured refresh scopes (if any are configured) and, in the code and device
  flows, only to clients registered for the refresh_token grant; it is never honoured for a client
  lacking that grant."
  * code flow: `Props/C05.lean` (`code_flow_refresh_token_iff_rule`);
  * device flow: `device_flow_refresh_token_iff_rule` — reading (DESIGN §3 C05): the scopes are those of
    the STORED device request (as granted by the user), the client is the CURRENT registration of the
    polling client, which `Props/C16` shows is the client that started the flow;
  * password flow: `password_flow_refresh_token_iff_scope_rule` — the scope half only; the statement does
    not demand the grant-type check there and the handler does not make it
    (`password_flow_ignores_refresh_grant_type`, a witness);
  * refresh flow: `refresh_flow_always_reissues_under_the_rule` (a refresh always hands out a new refresh
    token; it is only reached under the scope rule on the ORIGINAL grant and for a presenting client
    holding the `refresh_token` grant — the "never honoured" half, also `Props/C05.lean`);
  * client_credentials: `client_credentials_never_issues_refresh_token`;
  * all operations / histories: `refresh_token_only_by_rule` (one step, every state) and
    `every_refresh_token_in_a_history_obeys_the_rule` (every position of every history from every state).
  "Issued" is read as: returned in the token response (`Out.tokens _ (some rt) …`).  The record-level
  counterpart (no `createRefresh` CALL outside the rule, also on paths that end in an error after the
  call) is not stated here.  All theorems: every state, request, configuration; fault-free runs.
-/
import Fosite.Proofs.IssuanceRule
namespace Fosite.Props.C05b
open Fosite.Model

/-- **Device flow.** A refresh token accompanies the access token exactly when the user's grant contains
    one of the configured refresh scopes (if any are configured) and the polling client — the one the
    device code was issued to — is registered for the `refresh_token` grant. -/
theorem device_flow_refresh_token_iff_rule (s : MState) (q : DevicePollReq) (a r i e sc)
    (h : (step s (.devicePoll q)).2.1 = .tokens a r i e sc) :
    ∃ sig d client, q.code.sig = some sig ∧ alookup s.ss.store.device sig = some d ∧
      s.ss.clients.find? (fun c => c.id == q.clientId) = some client ∧ d.req.client.id = client.id ∧
      (r.isSome = true ↔
        ((s.cfg.refreshScopes.isEmpty = true ∨ hasOneOf d.req.grantedScopes s.cfg.refreshScopes = true) ∧
          client.grants.contains "refresh_token" = true)) := by
  obtain ⟨sig, d, client, hsig, hdev, _, _, hfind, hcid, hrt, _⟩ := (step_devicePoll_rt s q a r i e sc h).ex
  exact ⟨sig, d, client, hsig, hdev, hfind, hcid, by rw [hrt]; exact deviceWantRT_iff s.cfg client d⟩

/-- **Password flow.** A refresh token accompanies the access token exactly when no refresh scopes are
    configured or one of them is among the scopes granted — which are the scopes requested. -/
theorem password_flow_refresh_token_iff_scope_rule (s : MState) (q : DirectReq) (a r i e sc)
    (h : (step s (.password q)).2.1 = .tokens a r i e sc) :
    sc = appendAllUniq [] q.scopes ∧
    (r.isSome = true ↔ (s.cfg.refreshScopes.isEmpty = true ∨ hasOneOf q.scopes s.cfg.refreshScopes = true)) := by
  obtain ⟨client, _, _, _, _, _, _, hrt, hsc⟩ := (step_password s q a r i e sc h).ex
  exact ⟨hsc, by rw [hrt]; exact passwordWantRT_iff s.cfg q⟩

/-- **Refresh flow.** A successful refresh always returns a new refresh token, and it is only reached when
    the original grant obeys the scope rule and the presenting client — the token's owner — holds the
    `refresh_token` grant. -/
theorem refresh_flow_always_reissues_under_the_rule (s : MState) (q : RefreshReq) (a r i e sc)
    (h : (step s (.refresh q)).2.1 = .tokens a r i e sc) :
    r.isSome = true ∧
    ∃ sig rec client, q.token.sig = some sig ∧ alookup s.ss.store.refresh sig = some rec ∧
      client ∈ s.ss.clients ∧ client.id = q.clientId ∧ rec.req.client.id = client.id ∧
      (s.cfg.refreshScopes.isEmpty = true ∨ hasOneOf rec.req.grantedScopes s.cfg.refreshScopes = true) ∧
      client.grants.contains "refresh_token" = true := by
  obtain ⟨sig, rec, client, hsig, hrec, _, _, hm, hid, _, hgr, _, hrs, hown, _, _, _, _, _, hrt, _⟩ := (step_refresh s q a r i e sc h).ex
  refine ⟨by rw [hrt]; rfl, sig, rec, client, hsig, hrec, hm, hid, hown, ?_, hgr⟩
  simpa using hrs

/-- **client_credentials** never returns a refresh token. -/
theorem client_credentials_never_issues_refresh_token (s : MState) (q : DirectReq) (a r i e sc)
    (h : (step s (.clientCredentials q)).2.1 = .tokens a r i e sc) : r = none := by
  obtain ⟨client, _, _, _, _, _, _, hrt, _⟩ := (step_clientCredentials s q a r i e sc h).ex
  exact hrt

/-- only the five grants of the token endpoint ever answer with tokens -/
theorem only_token_endpoint_grants_return_tokens (s : MState) (op : Op) (a r i e sc)
    (h : (step s op).2.1 = .tokens a r i e sc) :
    (∃ q, op = .redeem q) ∨ (∃ q, op = .refresh q) ∨ (∃ q, op = .clientCredentials q) ∨
    (∃ q, op = .password q) ∨ (∃ q, op = .devicePoll q) := by
  cases op with
  | redeem q => exact Or.inl ⟨q, rfl⟩
  | refresh q => exact Or.inr (Or.inl ⟨q, rfl⟩)
  | clientCredentials q => exact Or.inr (Or.inr (Or.inl ⟨q, rfl⟩))
  | password q => exact Or.inr (Or.inr (Or.inr (Or.inl ⟨q, rfl⟩)))
  | devicePoll q => exact Or.inr (Or.inr (Or.inr (Or.inr ⟨q, rfl⟩)))
  | _ => exact absurd h (step_noTokens s _ (by simp) (by simp) (by simp) (by simp) (by simp) a r i e sc)

/-- **The rule, for every operation.** Whatever the state, an operation that returns a refresh token
    satisfied `RefreshTokenRule` for its flow: code — stored grant's scopes and the stored client's
    `refresh_token` grant; device — stored grant's scopes and the polling owner's `refresh_token` grant;
    password — the scope rule on the requested (= granted) scopes; refresh — the scope rule on the
    original grant and the owner's `refresh_token` grant; every other operation — never. -/
theorem refresh_token_only_by_rule (s : MState) (op : Op) (a rt i e sc)
    (h : (step s op).2.1 = .tokens a (some rt) i e sc) : RefreshTokenRule s op :=
  step_refresh_token_rule s op a rt i e sc h

/-- **The rule, over histories.** In any history from any state, every operation whose outcome carries a
    refresh token satisfied the rule of its flow in the state it ran in. -/
theorem every_refresh_token_in_a_history_obeys_the_rule (s : MState) (ops : List Op) (n : Nat) (op : Op) (a rt i e sc)
    (h : (trace s ops)[n]? = some (op, .tokens a (some rt) i e sc)) :
    ops[n]? = some op ∧ RefreshTokenRule (after s (ops.take n)) op := by
  obtain ⟨hop, hout⟩ := trace_getElem? s ops n op _ h
  exact ⟨hop, step_refresh_token_rule _ op a rt i e sc hout.symm⟩

/-! ### non-vacuity -/

def exClient_fl (grants : List String) : Client := { id := "c", isPublic := true, grants := grants }
def hasRT : Out → Option Bool
  | .tokens _ r _ _ _ => some r.isSome
  | _ => none

/-- device flow with default refresh scopes: the user grants "offline" — refresh token iff the client has the grant -/
def exDevice (grants granted : List String) : List Op :=
  [ .setClient { exClient_fl grants with scopes := ["offline", "a"] },
    .deviceAuthorize { clientId := "c", credOk := true, formClientId := "c", scopes := ["offline", "a"] },
    .deviceDecide 1 true granted [] "u" ]
def exDevPoll : Op := .devicePoll { clientId := "c", credOk := true, code := { sig := some 1, exact := true } }
example : hasRT (step (after {} (exDevice [deviceGrant, "refresh_token"] ["offline"])) exDevPoll).2.1 = some true := by decide
example : hasRT (step (after {} (exDevice [deviceGrant] ["offline"])) exDevPoll).2.1 = some false := by decide
example : hasRT (step (after {} (exDevice [deviceGrant, "refresh_token"] ["a"])) exDevPoll).2.1 = some false := by decide
example : hasRT (step (after {} (.setCfg { refreshScopes := [] } :: exDevice [deviceGrant, "refresh_token"] ["a"])) exDevPoll).2.1
    = some true := by decide

/-- password flow: the scope rule decides alone -/
def exPwd (scopes : List String) : Op := .password { clientId := "c", credOk := true, scopes := scopes, username := "u" }
def sPwd : MState := after {} [.setClient { exClient_fl ["password"] with scopes := ["offline", "a"] }]
example : hasRT (step sPwd (exPwd ["offline"])).2.1 = some true := by decide
example : hasRT (step sPwd (exPwd ["a"])).2.1 = some false := by decide
/-- the password flow hands a refresh token to a client that is NOT registered for the `refresh_token`
    grant (the property does not forbid it; the token cannot be used: `refresh_requires_owner_with_grant_type`) -/
theorem password_flow_ignores_refresh_grant_type :
    (exClient_fl ["password"]).grants.contains "refresh_token" = false ∧
    hasRT (step sPwd (exPwd ["offline"])).2.1 = some true ∧
    (match (step (step sPwd (exPwd ["offline"])).1
        (.refresh { clientId := "c", credOk := true, token := { sig := some 2, exact := true } })).2.1 with
      | .err .unauthorized_client => true | _ => false) = true := by
  decide

/-- a history with refresh tokens from three flows; the theorem applies at positions 2, 3 and 6 -/
def exHistory_fl : List Op :=
  [ .setCfg { refreshScopes := [] },
    .setClient { exClient_fl [deviceGrant, "refresh_token", "password"] with scopes := ["a"] },
    exPwd ["a"],
    .refresh { clientId := "c", credOk := true, token := { sig := some 2, exact := true } },
    .deviceAuthorize { clientId := "c", credOk := true, formClientId := "c" },
    .deviceDecide 7 true [] [] "u",
    .devicePoll { clientId := "c", credOk := true, code := { sig := some 7, exact := true } },
    .clientCredentials { clientId := "c", credOk := true } ]
example : (trace {} exHistory_fl).map (fun p => hasRT p.2) =
    [none, none, some true, some true, none, none, some true, none] := by decide

end Fosite.Props.C05b

/-
  C03, history level — "this stays true after any number of failed attempts", and the history-level
  form of the enforcement clause.  (`Props/C03.lean` has the one-step theorems and, as a regression
  witness, the histories that broke the binding before commit e4cc3e4 moved the deletion of the PKCE
  session to after a successful exchange.)

  Reading.  `PKCEBound ss sig ch m`: code `sig` is stored and unredeemed and its PKCE session records
  `code_challenge = ch ≠ ""`, `code_challenge_method = m` — what the authorization endpoint leaves
  behind for a request that carried a challenge (`authorize_establishes_binding`).

  * (i) `step_preserves_PKCEBound`: every operation that is not a redemption presenting `sig`
    preserves `PKCEBound`; so does a REFUSED redemption presenting `sig`, for every reason of refusal
    (wrong / malformed / absent verifier, other client, other redirect_uri, expired, …), provided the
    code's OIDC session is well-formed (`OidcSessionOk`, see `Props/C02b.lean`: otherwise a request can
    fail after the code has been consumed); in reachable states that is always so, and
    `reachable_step_preserves_PKCEBound` is (i) exactly as worded: every operation that is not a
    successful redemption of that very code.  `step_preserves_bound_or_spent` is the unconditional form:
    EVERY operation keeps "`sig` is consumed, or the binding is in place".
  * (ii) `pkce_binding_after_any_history`: from any state in which the binding is in place, after ANY
    sequence of operations — refused attempts with any verifiers, by any clients, configuration changes,
    other flows — a redemption of `sig` that returns tokens presented a verifier of 43–128 unreserved
    characters that transforms to `ch` under `m` (`S256`), or equals `ch` with `plain` enabled at
    that moment (any other recorded method).  `pkce_binding_in_trace` is the same over `trace`.
  * (iii) `unchallenged_code_never_redeemable_while_enforced`: a code with no challenge on record is
    not redeemable at any moment at which `EnforcePKCE` is on, whatever happened before;
    `unchallenged_code_never_redeemable` is the corollary for histories in which the flag stays on
    (it holds initially and in every configuration installed by a `setCfg`); the `…_public` variant
    covers enforcement for public clients.
  * `pkce_binding_full`: `C03.PkceBindingFull` — every history from the empty state respects the
    binding of every code issued with a challenge by the `authorize` operation.
-/
import Fosite.Proofs.PKCEHistory
import Fosite.Props.C03
namespace Fosite.Props.C03b
open Fosite.Model Fosite.Props.C03

/-- the verifier demanded by a binding `(ch, m)` under configuration `cfg` -/
def VerifierFor (cfg : Config) (ch m v : String) : Prop :=
  wellFormedVerifier v ∧ (if m = "S256" then s256 v = ch else v = ch ∧ cfg.enablePlain = true)

theorem verifierFor_of_accept (cfg : Config) (pr : Req) (v : String) (pub : Bool)
    (hch : pr.formGet "code_challenge" ≠ "")
    (h : pkceVerdict cfg (some pr) v pub = none) :
    VerifierFor cfg (pr.formGet "code_challenge") (pr.formGet "code_challenge_method") v := by
  obtain ⟨hval, hver⟩ := pkceVerdict_some cfg pr v pub h
  have hlen : (pr.formGet "code_challenge").length ≠ 0 := fun h0 => hch (String.length_eq_zero_iff.mp h0)
  obtain ⟨hwf, htr⟩ := pkceVerify_none cfg _ _ v hlen hver
  refine ⟨hwf, ?_⟩
  by_cases hm : pr.formGet "code_challenge_method" = "S256"
  · simpa only [hm, if_true] using htr
  · simp only [hm, if_false] at htr ⊢
    refine ⟨htr, ?_⟩
    unfold pkceValidate at hval
    have hc0 : ((pr.formGet "code_challenge").length == 0) = false := by simpa using hlen
    have hm' : (pr.formGet "code_challenge_method" == "S256") = false := by simpa using hm
    simp only [hc0, hm', Bool.false_eq_true, if_false] at hval
    by_cases hp : (pr.formGet "code_challenge_method" == "plain" || pr.formGet "code_challenge_method" == "") = true
    · simp only [hp, if_true] at hval
      by_cases he : cfg.enablePlain = true
      · exact he
      · simp [he] at hval
    · simp [hp] at hval

/-- the "minted" hypothesis `sig < next` of the theorems below follows from the store invariant
    `CodesBelow` (every stored code signature is below the mint counter; `GInv` contains it) -/
theorem PKCEBound_minted (ss : SState) (sig : Nat) (ch m : String) (hcb : CodesBelow ss)
    (hb : PKCEBound ss sig ch m) : sig < ss.next := by
  obtain ⟨_, ⟨rec, hr, _⟩, _⟩ := hb
  exact hcb sig rec hr

/-- **(i) `PKCEBound` is preserved** by every operation other than a successful redemption of that
    very code: operations that are not a redemption presenting `sig` preserve it outright; a
    redemption presenting `sig` preserves it when it is refused (the hypothesis asks this only of such
    operations), given a well-formed OIDC session for the code. -/
theorem step_preserves_PKCEBound (s : MState) (op : Op) (sig : Nat) (ch m : String)
    (hlt : sig < s.ss.next) (hb : PKCEBound s.ss sig ch m)
    (hop : ∀ q, op = .redeem q → q.code.sig = some sig →
      OidcSessionOk s.ss q ∧ (step s op).2.1.tokensIssued = false) :
    sig < (step s op).1.ss.next ∧ PKCEBound (step s op).1.ss sig ch m := by
  have h0 : AtSig sig (BoundAt ch m) s.ss := ⟨hlt, hb⟩
  by_cases hr : ∃ q, op = .redeem q
  · obtain ⟨q, rfl⟩ := hr
    by_cases hsig : q.code.sig = some sig
    · obtain ⟨hoidc, hout⟩ := hop q rfl hsig
      have hnr : NotReplay s.ss q := by
        intro rec hrec
        rw [hsig] at hrec
        obtain ⟨_, ⟨rec', hr', ha'⟩, _⟩ := hb
        simp only [Option.bind_some] at hrec
        rw [hr'] at hrec; cases hrec; exact ha'
      rw [(step_redeem_pure s q).2.1] at hout
      obtain ⟨e, _, hp⟩ := redeemPure_not_tokens s.cfg s.now q s.ss hnr hoidc hout
      rw [(step_redeem_pure s q).1, hp]
      exact ⟨Nat.lt_succ_of_lt hlt, hb⟩
    · rw [(step_redeem_pure s q).1]
      exact redeemPure_AtSig_other sig _ s.cfg s.now q s.ss hsig h0
  · exact step_AtSig_other sig _ s op (fun q hq => hr ⟨q, hq⟩) h0

/-- **(i) for reachable states, as worded**: in a state reachable from the empty state, every
    operation that is not a SUCCESSFUL redemption of that very code preserves `PKCEBound`. -/
theorem reachable_step_preserves_PKCEBound (ops : List Op) (op : Op) (sig : Nat) (ch m : String)
    (hlt : sig < (after {} ops).ss.next) (hb : PKCEBound (after {} ops).ss sig ch m)
    (hop : ∀ q, op = .redeem q → q.code.sig = some sig → (step (after {} ops) op).2.1.tokensIssued = false) :
    sig < (step (after {} ops) op).1.ss.next ∧ PKCEBound (step (after {} ops) op).1.ss sig ch m :=
  step_preserves_PKCEBound _ op sig ch m hlt hb (fun q hq hsig => ⟨reachable_sessionOk ops q, hop q hq hsig⟩)

/-- (i, unconditional form) **every** operation keeps "`sig` is consumed, or the binding is in place" -/
theorem step_preserves_bound_or_spent (s : MState) (op : Op) (sig : Nat) (ch m : String)
    (h : BoundOrSpent s.ss sig ch m) : BoundOrSpent (step s op).1.ss sig ch m :=
  step_SpentOr sig (BoundAt ch m) s op h

theorem after_preserves_bound_or_spent (s : MState) (ops : List Op) (sig : Nat) (ch m : String)
    (h : BoundOrSpent s.ss sig ch m) : BoundOrSpent (after s ops).ss sig ch m :=
  after_SpentOr sig (BoundAt ch m) ops s h

/-- one step: while "consumed or bound" holds, a token response for `sig` presented the verifier -/
theorem redeem_tokens_presented_verifier (s : MState) (q : RedeemReq) (sig : Nat) (ch m : String)
    (h : BoundOrSpent s.ss sig ch m) (hsig : q.code.sig = some sig)
    (htok : (step s (.redeem q)).2.1.tokensIssued = true) : VerifierFor s.cfg ch m q.verifier := by
  obtain ⟨client, _, hb, hpk⟩ := redeem_tokens_SpentOr sig (BoundAt ch m) s q h hsig htok
  obtain ⟨hch, _, pr, hpr, h1, h2⟩ := hb
  rw [hpr] at hpk
  have := verifierFor_of_accept s.cfg pr q.verifier client.isPublic (by rw [h1]; exact hch) hpk
  rw [h1, h2] at this
  exact this

/-- **(ii) The binding survives any history.**  From any state in which code `sig` is bound to
    `(ch, m)`, after any operations `pre` whatsoever, a redemption of `sig` that returns tokens
    presented a well-formed verifier that transforms to `ch` under `m` — `plain` (any recorded method
    other than `S256`) only with `EnablePlain` on at that moment. -/
theorem pkce_binding_after_any_history (s : MState) (sig : Nat) (ch m : String)
    (hlt : sig < s.ss.next) (hb : PKCEBound s.ss sig ch m)
    (pre : List Op) (q : RedeemReq) (hsig : q.code.sig = some sig)
    (htok : (step (after s pre) (.redeem q)).2.1.tokensIssued = true) :
    VerifierFor (after s pre).cfg ch m q.verifier :=
  redeem_tokens_presented_verifier (after s pre) q sig ch m
    (after_preserves_bound_or_spent s pre sig ch m ⟨hlt, Or.inr hb⟩) hsig htok

theorem verifierMatches_of (cfg : Config) (ch m v : String) (h : VerifierFor cfg ch m v) : verifierMatches ch m v = true := by
  obtain ⟨⟨h1, h2, h3⟩, h4⟩ := h
  unfold verifierMatches
  by_cases hm : m = "S256"
  · simp only [hm, if_true] at h4
    simp [h1, h2, h3, hm, h4]
  · simp only [hm, if_false] at h4
    obtain ⟨h4, _⟩ := h4
    subst h4
    simp [h1, h2, h3, hm]

/-- (ii) over traces: every token response for `sig` in the trace of any history carried the matching verifier -/
theorem pkce_binding_in_trace (s : MState) (sig : Nat) (ch m : String)
    (hlt : sig < s.ss.next) (hb : PKCEBound s.ss sig ch m) (ops : List Op) :
    ∀ q out, (Op.redeem q, out) ∈ trace s ops → q.code.sig = some sig → out.tokensIssued = true →
      verifierMatches ch m q.verifier = true := by
  intro q out hmem hsig htok
  obtain ⟨pre, post, _, hout⟩ := mem_trace s ops _ _ hmem
  rw [hout] at htok
  exact verifierMatches_of _ _ _ _ (pkce_binding_after_any_history s sig ch m hlt hb pre q hsig htok)

/-- "consumed, or no challenge on record" -/
def UnchallengedOrSpent (ss : SState) (sig : Nat) : Prop := sig < ss.next ∧ (CodeDead ss sig ∨ NoChallenge ss sig)

theorem after_preserves_unchallenged (s : MState) (ops : List Op) (sig : Nat)
    (h : UnchallengedOrSpent s.ss sig) : UnchallengedOrSpent (after s ops).ss sig :=
  after_SpentOr sig NoChallengeAt ops s h

/-- **(iii) A code obtained without a challenge is never redeemable while PKCE is enforced**: after
    any history, at any moment at which `EnforcePKCE` is on. -/
theorem unchallenged_code_never_redeemable_while_enforced (s : MState) (sig : Nat)
    (hlt : sig < s.ss.next) (hn : NoChallenge s.ss sig)
    (pre : List Op) (q : RedeemReq) (hsig : q.code.sig = some sig)
    (henf : (after s pre).cfg.enforcePKCE = true) :
    (step (after s pre) (.redeem q)).2.1.tokensIssued = false := by
  cases htok : (step (after s pre) (.redeem q)).2.1.tokensIssued with
  | false => rfl
  | true =>
    have h := after_preserves_unchallenged s pre sig ⟨hlt, Or.inr hn⟩
    obtain ⟨client, _, hb, hpk⟩ := redeem_tokens_SpentOr sig NoChallengeAt (after s pre) q h hsig htok
    obtain ⟨b, hv⟩ := pkceVerdict_noChallenge _ _ _ _ hb hpk
    simp [validateNoPKCE, henf] at hv

/-- … hence, when the flag is on initially and every later configuration keeps it on, no redemption
    of the code anywhere in the history returns tokens. -/
theorem unchallenged_code_never_redeemable (s : MState) (sig : Nat)
    (hlt : sig < s.ss.next) (hn : NoChallenge s.ss sig) (ops : List Op)
    (h0 : s.cfg.enforcePKCE = true) (hcfg : ∀ c, Op.setCfg c ∈ ops → c.enforcePKCE = true) :
    ∀ q out, (Op.redeem q, out) ∈ trace s ops → q.code.sig = some sig → out.tokensIssued = false := by
  intro q out hmem hsig
  obtain ⟨pre, post, hops, hout⟩ := mem_trace s ops _ _ hmem
  rw [hout]
  apply unchallenged_code_never_redeemable_while_enforced s sig hlt hn pre q hsig
  apply after_cfg_flag (fun c => c.enforcePKCE) pre s h0
  intro c hc
  exact hcfg c (by rw [hops]; exact List.mem_append_left _ hc)

/-- (iii) for public clients: with `EnforcePKCEForPublicClients` on at that moment, a token response
    for a code without a challenge on record means the client the PKCE handler looked at — the stored
    session's client, or with no session the authenticated one — is not public. -/
theorem unchallenged_code_public_client_never_redeemable (s : MState) (sig : Nat)
    (hlt : sig < s.ss.next) (hn : NoChallenge s.ss sig)
    (pre : List Op) (q : RedeemReq) (hsig : q.code.sig = some sig)
    (henf : (after s pre).cfg.enforcePKCEPublic = true)
    (htok : (step (after s pre) (.redeem q)).2.1.tokensIssued = true) :
    ∃ client, (after s pre).ss.clients.find? (fun c => c.id == q.clientId) = some client ∧
      match alookup (after s pre).ss.store.pkce sig with
      | some pr => pr.client.isPublic = false
      | none => client.isPublic = false := by
  have h := after_preserves_unchallenged s pre sig ⟨hlt, Or.inr hn⟩
  obtain ⟨client, hcl, hb, hpk⟩ := redeem_tokens_SpentOr sig NoChallengeAt (after s pre) q h hsig htok
  refine ⟨client, hcl, ?_⟩
  cases hl : alookup (after s pre).ss.store.pkce sig with
  | none =>
    rw [hl] at hpk
    simp only [pkceVerdict] at hpk
    split at hpk
    · cases hp : client.isPublic with
      | false => rfl
      | true => simp [validateNoPKCE, henf, hp] at hpk
    · cases hpk
  | some pr =>
    rw [hl] at hpk
    have h1 := (pkceVerdict_some _ pr _ _ hpk).1
    rw [hb pr hl] at h1
    cases hp : pr.client.isPublic with
    | false => exact hp
    | true => simp [pkceValidate, validateNoPKCE, henf, hp] at h1

/-- **What `authorize` establishes**: a returned code is freshly minted, stored and unredeemed, and —
    when the request carried a `code_challenge` — bound to that challenge and method. -/
theorem authorize_establishes_binding (s : MState) (q : AuthzReq) (c : Nat) (atk : Option Nat) (idt : Bool)
    (h : (step s (.authorize q)).2.1 = .authz (some c) atk idt) (hch : q.challenge ≠ "") :
    c < (step s (.authorize q)).1.ss.next ∧ PKCEBound (step s (.authorize q)).1.ss c q.challenge q.method := by
  obtain ⟨_, h2, _, h4⟩ := authorize_establishes s q c atk idt h
  exact ⟨h2, h4 hch⟩

/-- the whole life of a challenged code: issued by `authorize`, then any history; a token response
    for it presented the verifier for the challenge the authorization request carried -/
theorem pkce_binding_from_authorize (s : MState) (qa : AuthzReq) (c : Nat) (atk : Option Nat) (idt : Bool)
    (h : (step s (.authorize qa)).2.1 = .authz (some c) atk idt) (hch : qa.challenge ≠ "")
    (pre : List Op) (q : RedeemReq) (hsig : q.code.sig = some c)
    (htok : (step (after s (.authorize qa :: pre)) (.redeem q)).2.1.tokensIssued = true) :
    VerifierFor (after s (.authorize qa :: pre)).cfg qa.challenge qa.method q.verifier := by
  obtain ⟨hlt, hb⟩ := authorize_establishes_binding s qa c atk idt h hch
  exact pkce_binding_after_any_history (step s (.authorize qa)).1 c _ _ hlt hb pre q hsig htok

theorem challenged_eq_issued (tr : List (Op × Out)) : challenged tr = issuedWithChallenge tr := by
  induction tr with
  | nil => rfl
  | cons p t ih =>
    obtain ⟨op, out⟩ := p
    cases op <;> (try (cases out <;> (try (rename_i code _ _; cases code)))) <;>
      simp only [challenged, issuedWithChallenge, ih]

/-- **C03 at full strength** (`C03.PkceBindingFull`): in every history from the empty state, every
    code issued by `authorize` for a request with a challenge is redeemed only with the matching
    verifier — whatever happened in between. -/
theorem pkce_binding_full : PkceBindingFull := by
  intro ops
  have hgen := history_respects_bindings ops {} (by intro sig rec h; simp [alookup] at h) [] (by intro x hx; cases hx)
  unfold pkceRespected
  rw [List.all_eq_true]
  intro p hp
  obtain ⟨op, out⟩ := p
  cases op with
  | redeem q =>
    cases out with
    | tokens a r i e sc =>
      simp only
      rw [List.all_eq_true]
      intro x hx
      obtain ⟨c, ch, m⟩ := x
      simp only [Bool.or_eq_true, bne_iff_ne, ne_eq]
      by_cases hsig : q.code.sig = some c
      · right
        rw [challenged_eq_issued] at hx
        obtain ⟨hch, cfg, pub, hver, _⟩ := hgen q _ hp rfl (c, ch, m) (by simpa using hx) hsig
        have hlen : ch.length ≠ 0 := fun h0 => hch (String.length_eq_zero_iff.mp h0)
        obtain ⟨⟨h1, h2, h3⟩, h4⟩ := pkceVerify_none cfg ch m q.verifier hlen hver
        unfold verifierMatches
        by_cases hm : m = "S256"
        · simp only [hm, if_true] at h4
          simp [h1, h2, h3, hm, h4]
        · simp only [hm, if_false] at h4
          subst h4
          simp [h1, h2, h3, hm]
      · left; exact hsig
    | _ => rfl
  | _ => rfl

/-! ### non-vacuity: concrete histories -/

/-- `c1` obtains code 1 with an S256 challenge for `vOK` -/
def setup : List Op :=
  [ .setClient witnessClient,
    .authorize { clientId := "c1", responseTypes := ["code"], redirect := "https://c1/cb", scopes := ["a"], grantScopes := ["a"],
                 subject := "u", challenge := s256 vOK, method := "S256" } ]

def s1 : MState := after {} setup

def attempt (v : String) : RedeemReq :=
  { clientId := "c1", credOk := true, code := { sig := some 1, exact := true }, redirect := "https://c1/cb", verifier := v }

set_option maxRecDepth 4096 in
/-- the hypotheses of (i)/(ii) hold of `s1`: code 1 is minted and bound to `(s256 vOK, "S256")` -/
example : 1 < s1.ss.next ∧ PKCEBound s1.ss 1 (s256 vOK) "S256" :=
  ⟨by decide, by decide, ⟨(alookup s1.ss.store.codes 1).getD default, by decide, by decide⟩,
    ⟨(alookup s1.ss.store.pkce 1).getD default, by decide, by decide, by decide⟩⟩

set_option maxRecDepth 4096 in
/-- **Two wrong verifiers (one well-formed, one malformed), one attempt without any, then the right
    one succeeds** — the refused attempts are `invalid_grant`, and the conclusion of (ii) is not vacuous. -/
example :
    (trace {} (setup ++ [.redeem (attempt vBad), .redeem (attempt "short"), .redeem (attempt ""), .redeem (attempt vOK)])).map
      (fun p => (p.2.tokensIssued, p.2.error?)) =
      [(false, none), (false, none), (false, some .invalid_grant), (false, some .invalid_grant), (false, some .invalid_grant), (true, none)] ∧
    verifierMatches (s256 vOK) "S256" vOK = true := by decide

set_option maxRecDepth 4096 in
/-- (i) on a refused attempt: its side condition holds, and the binding is still in place afterwards -/
example : OidcSessionOk s1.ss (attempt vBad) ∧ (step s1 (.redeem (attempt vBad))).2.1.tokensIssued = false ∧
    PKCEBound (step s1 (.redeem (attempt vBad))).1.ss 1 (s256 vOK) "S256" := by
  have h : OidcSessionOk s1.ss (attempt vBad) ∧ (step s1 (.redeem (attempt vBad))).2.1.tokensIssued = false := by decide
  exact ⟨h.1, h.2, (step_preserves_PKCEBound s1 _ 1 _ _ (by decide)
    ⟨by decide, ⟨(alookup s1.ss.store.codes 1).getD default, by decide, by decide⟩,
      ⟨(alookup s1.ss.store.pkce 1).getD default, by decide, by decide, by decide⟩⟩
    (fun q hq _ => by cases hq; exact h)).2⟩

/-- a public client obtains code 1 without a challenge while PKCE is not enforced; enforcement is then switched on -/
def setupNoChallenge : List Op :=
  [ .setClient witnessClient,
    .authorize { clientId := "c1", responseTypes := ["code"], redirect := "https://c1/cb", scopes := ["a"], grantScopes := ["a"], subject := "u" } ]

def s2 : MState := after {} setupNoChallenge

set_option maxRecDepth 4096 in
/-- the hypotheses of (iii) hold of `s2`, the code is redeemable while enforcement is off, and refused
    (`invalid_request`) once it is on -/
example : 1 < s2.ss.next ∧ alookup s2.ss.store.pkce 1 = none ∧
    (trace s2 [.redeem (attempt "")]).map (fun p => p.2.tokensIssued) = [true] ∧
    (trace s2 [.setCfg { enforcePKCE := true }, .redeem (attempt ""), .redeem (attempt vOK)]).map (fun p => (p.2.tokensIssued, p.2.error?)) =
      [(false, none), (false, some .invalid_request), (false, some .invalid_grant)] := by decide

example : NoChallenge s2.ss 1 := by
  intro pr h
  have : alookup s2.ss.store.pkce 1 = none := by decide
  rw [this] at h; cases h

set_option maxRecDepth 4096 in
/-- non-vacuity of the public-client variant: with `EnforcePKCEForPublicClients` on, the confidential
    client `c1` still redeems its unchallenged code (the theorem then says: it is not public) -/
example : (after s2 [.setCfg { enforcePKCEPublic := true }]).cfg.enforcePKCEPublic = true ∧
    (step (after s2 [.setCfg { enforcePKCEPublic := true }]) (.redeem (attempt ""))).2.1.tokensIssued = true := by decide

set_option maxRecDepth 4096 in
/-- `s1 = after {} setup` is reachable: the hypotheses of `reachable_step_preserves_PKCEBound` for the refused attempt -/
example : 1 < (after {} setup).ss.next ∧ (step (after {} setup) (.redeem (attempt vBad))).2.1.tokensIssued = false := by decide

end Fosite.Props.C03b

/-
  C15 — JWT assertions are verified completely and each jti is accepted once.
  Property theorems only; lemmas live in `Fosite/Proofs/Assertion.lean`.

  Every theorem quantifies over ALL registrations, configurations, tokens (as `Wire` / `JWS`
  records: JWS parsing and signature verification are parameters, `signedBy` is the crypto fact),
  instants (`Int` nanoseconds), replay memories, histories and schedules.

  Two parts of the statement are FALSE for the code as it stands; the model is faithful, so each has
  a counterexample theorem next to a `_partial` theorem whose hypothesis excludes the witness:

    * exp = 0.  `MapClaims.Valid()` treats the number 0 as "no exp claim" (`verifyExp`: `exp == 0 →
      !required`), the later type switch accepts it, so a client assertion that expired in 1970
      authenticates — and its replay record is purged at the next `SetClientAssertionJWT`, so it can be
      replayed without bound.            `client_assertion_complete_counterexample`
    * the window [exp, exp + 1 s).  `Valid()` compares whole seconds (`⌊now⌋ ≤ exp`), the replay memory
      nanoseconds (`exp.After(now)`, purge `e.Before(now)`): a replay at exp + 0.5 s is accepted again,
      sequentially and concurrently.    `jti_once_client_assertion_counterexample`,
                                        `jti_once_concurrent_client_assertion_counterexample`

  The JWT-bearer path has neither defect (go-jose's `NumericDate` is compared at full resolution
  and `MarkJWTUsedForTime` refuses at equality).
-/
import Fosite.Proofs.Assertion
namespace Fosite.Props.C15
open Fosite.Model.Assertion Fosite.Spec.Assertion Fosite.Proofs.Assertion

/-! ### 1. client assertions are verified completely -/

/-- the expiry clause the code actually enforces: second 0 passes as "no exp" -/
def unexpiredOrZero (now : Int) (e : Int) : Prop := e = 0 ∨ nowSec now ≤ e

/-- UNCONDITIONAL: an authenticated client assertion is a JWS signed (for the algorithm its header
    names) by a `use = sig` key registered for the authenticated client; the algorithm is the
    client's registered one and asymmetric; iss = sub = client id; aud names a configured token URL;
    the exp second is not in the past (or is 0 — see the counterexample); the jti is a non-empty
    string without a live record in the memory, and it is recorded until exp afterwards. -/
theorem client_assertion_complete_but_exp_zero (cfg : Config) (clients : List ClientReg) (formId : String)
    (w : Wire) (now : Int) (st st' : JtiStore) (cid : String)
    (h : clientAssertionAuth cfg clients formId w now st = (.ok cid, st')) :
    ∃ j, w = .jws j ∧ ClientAssertionOKWith (unexpiredOrZero now) cfg clients j cid ∧
      JtiPresentFresh j st now ∧
      ∃ jti E, j.claims.jti = .str jti ∧ j.claims.exp.toInt64 = some E ∧ lookup st' jti = some (E * second) := by
  obtain ⟨t, E, hpre, hvalid, hE, hset, hfin⟩ := clientAuth_ok h
  obtain ⟨hw, ⟨cid', hcid, hget, hiss, hsub⟩, hkey, hver, hval, hurls, hjti, hjne⟩ := clientPre_ok hpre
  obtain ⟨hmem, hid⟩ := getClient_some hget
  obtain ⟨_, _, halg, hfam, hreg, huse, _, _⟩ := clientKey_ok hkey
  have hcc : cid = t.client.id := by
    unfold clientFin at hfin
    split at hfin
    · injection hfin with hfin; exact hfin.symm
    · cases hfin
  have haud : audMatchesAny t.jws.claims.aud cfg.tokenURLs = true := by
    unfold clientFin at hfin
    split at hfin
    · assumption
    · cases hfin
  have hcid' : cid' = cid := by rw [hcc, hid]
  subst hcid'
  have hexp := clientExpiry_ok hE
  obtain ⟨hset1, hset2⟩ := jtiSet_false hset
  refine ⟨t.jws, hw, ⟨t.client, hmem, hid, ⟨t.key, hreg, huse, hver⟩, halg.symm, hfam, (verifyIssuer_true hiss).1, hsub,
    audMatchesAny_contains haud, ?_⟩, ?_, t.jti, E, hjti, hexp, ?_⟩
  · unfold expSatisfies; rw [hexp]; exact claimsValid_exp hval hexp
  · unfold JtiPresentFresh; rw [hjti]
    refine ⟨hjne, fun e he => ?_⟩
    unfold jtiValid at hvalid
    rw [he] at hvalid
    simp at hvalid
    exact hvalid
  · rw [hset2]; simp [lookup]

/-- C15, first sentence, as stated (expiry at whole-second granularity, the lenient reading). -/
def ClientAssertionComplete : Prop :=
  ∀ (cfg : Config) (clients : List ClientReg) (formId : String) (w : Wire) (now : Int) (st st' : JtiStore)
    (cid : String), clientAssertionAuth cfg clients formId w now st = (.ok cid, st') →
    ∃ j, w = .jws j ∧ ClientAssertionOK cfg clients j now cid ∧ JtiPresentFresh j st now

/-- `_partial`: the full statement for every assertion whose exp is not the number 0 (or 0.x). -/
theorem client_assertion_complete_partial (cfg : Config) (clients : List ClientReg) (formId : String)
    (w : Wire) (now : Int) (st st' : JtiStore) (cid : String)
    (hz : ∀ j, w = .jws j → j.claims.exp.toInt64 ≠ some 0)
    (h : clientAssertionAuth cfg clients formId w now st = (.ok cid, st')) :
    ∃ j, w = .jws j ∧ ClientAssertionOK cfg clients j now cid ∧ JtiPresentFresh j st now := by
  obtain ⟨j, hw, hok, hfresh, _⟩ := client_assertion_complete_but_exp_zero cfg clients formId w now st st' cid h
  refine ⟨j, hw, ?_, hfresh⟩
  obtain ⟨c, hc, h1, h2, h3, h4, h5, h6, h7, h8⟩ := hok
  refine ⟨c, hc, h1, h2, h3, h4, h5, h6, h7, ?_⟩
  unfold expSatisfies at h8 ⊢
  cases he : j.claims.exp.toInt64 with
  | none => rw [he] at h8; exact h8
  | some e =>
    rw [he] at h8
    rcases h8 with h0 | h1
    · subst h0; exact absurd he (hz j hw)
    · exact h1

/-! the witness: client `c` (RS256, key `K` under kid `k`), token URL `u`, an assertion with `exp: 0`
    presented on 2000-01-01 -/

def wCfg : Config := ⟨["u"]⟩
def wClients : List ClientReg := [⟨"c", true, "private_key_jwt", "RS256", some [⟨"k", "sig", .rsa, "K"⟩]⟩]
def wToken (exp : Claim) : Wire :=
  .jws ⟨"RS256", "k", some "K", ⟨.str "c", .str "c", .str "u", exp, .absent, .absent, .str "j"⟩⟩
/-- 2000-01-01T00:00:00Z, where a synctest bubble starts -/
def y2k : Int := 946684800 * second

theorem exp_zero_accepted :
    clientAssertionAuth wCfg wClients "" (wToken (.int 0)) y2k [] = (.ok "c", [("j", 0)]) := by decide

/-- an assertion that expired in 1970 authenticates -/
theorem client_assertion_complete_counterexample : ¬ ClientAssertionComplete := by
  intro hall
  obtain ⟨j, hw, hok, _⟩ := hall wCfg wClients "" (wToken (.int 0)) y2k [] _ "c" exp_zero_accepted
  injection hw with hw
  subst hw
  revert hok
  decide

/-- … and is accepted again and again: its record is purged by the next `SetClientAssertionJWT` -/
theorem exp_zero_replayed_without_bound :
    runSeq (clientStep wCfg wClients .token)
      [(0, ("", wToken (.int 0))), (1, ("", wToken (.int 0))), (1000000000, ("", wToken (.int 0))),
       (3600000000000, ("", wToken (.int 0)))] y2k [] =
    [.ok "c", .ok "c", .ok "c", .ok "c"] := by decide

/-- through the endpoints: PAR only rewraps errors, the device endpoint only adds a rejection -/
theorem client_assertion_at_endpoint (cfg : Config) (clients : List ClientReg) (ep : Endpoint)
    (a : String × Wire) (now : Int) (st : JtiStore) (cid : String)
    (h : (clientStep cfg clients ep a now st).1 = .ok cid) :
    (clientAssertionAuth cfg clients a.1 a.2 now st).1 = .ok cid := by
  have h' : atEndpoint ep a.1 (clientAssertionAuth cfg clients a.1 a.2 now st).1 = .ok cid := h
  unfold atEndpoint at h'
  split at h'
  · split at h' <;> cases h'
  · split at h'
    · cases h'
    · rename_i r _ cid' heq _
      rw [heq]; exact h'
  · exact h'

/-! ### 2. JWT-bearer assertions are verified completely -/

/-- an accepted JWT-bearer grant: the assertion is a JWS signed by a key registered for its
    (iss, sub); aud names the token URL; `now ≤ exp ≤ iat-or-now + max`; nbf is in the past; iat is
    present unless optional; every requested scope is covered by THAT key's scopes; jti is present
    unless optional, and when present it has no live record and is recorded until exp afterwards. -/
theorem bearer_assertion_complete (cfg : BearerConfig) (strat : List String → String → Bool)
    (keys : List IssuerKey) (hwf : WellFormedKeys keys) (w : Wire) (requested : List String) (now : Int)
    (st st' : JtiStore) (sub : String)
    (h : jwtBearer cfg strat keys w requested now st = (.ok sub, st')) :
    ∃ j, w = .jws j ∧ BearerOK cfg strat keys j requested now sub ∧
      (∀ jti, j.claims.jti = .str jti → jti ≠ "" →
        jtiFresh st jti now ∧ ∃ E, j.claims.exp.toInt64 = some E ∧ lookup st' jti = some (E * second)) := by
  obtain ⟨t, hpre, hsub, hmid, hcase⟩ := bearer_ok h
  obtain ⟨hw, hdec, hissne, hsubne, hkey, hver, haud, hexp, hnow, hnbf, hiat, hmax, hjti⟩ := bearerPre_ok hpre
  obtain ⟨d1, d2, d3, d4, d5, d6, d7⟩ := decodeClaims_some hdec
  obtain ⟨hkm, hki, hks, _⟩ := findKey_some hkey
  obtain ⟨r, hrm, hri, hrs, hrk, hscopes⟩ := bearerMid_ok hmid
  -- the record `GetPublicKeyScopes` finds is the verifying key's record
  have hrkey : r = t.key := by
    apply hwf.2 r hrm t.key hkm (by rw [hri, hki]) (by rw [hrs, hks])
    rw [hrk]; exact (hwf.1 t.key hkm).symm
  subst hsub
  have hE : t.jws.claims.exp.toInt64 = some t.exp := by rw [hexp] at d4; exact decodeDate_some d4
  refine ⟨t.jws, hw, ?_, ?_⟩
  · unfold BearerOK
    rw [decodeStr_nonempty d1 hissne]
    refine ⟨decodeStr_nonempty d2 hsubne, ⟨t.key, hkm, hki, hks, hver, by rw [← hrkey]; exact hscopes⟩, ?_, ?_, ?_, ?_, ?_⟩
    · obtain ⟨u, hu, hc⟩ := haud
      exact ⟨u, hu, decodeAud_contains d3 hc⟩
    · unfold expSatisfies; rw [hE]
      refine ⟨hnow, ?_⟩
      cases hi : t.tc.iat with
      | none =>
        rw [hi] at d6 hmax
        rw [decodeDate_none d6]
        simpa [Claim.toInt64, issuedAt] using hmax
      | some i =>
        rw [hi] at d6 hmax
        rw [decodeDate_some d6]
        simpa [issuedAt] using hmax
    · cases hn : t.tc.nbf with
      | none => rw [hn] at d5; rw [decodeDate_none d5]; simp [Claim.toInt64]
      | some n =>
        have := hnbf n hn
        rw [hn] at d5; rw [decodeDate_some d5]
        simp only; omega
    · intro ho
      have := hiat ho
      cases hi : t.tc.iat with
      | none => rw [hi] at this; cases this
      | some i => rw [hi] at d6; rw [decodeDate_some d6]; rfl
    · intro ho
      have := hjti ho
      rw [decodeStr_nonempty d7 this]
      exact this
  · intro jti hj hne
    have hjt : t.tc.jti = jti := by rw [hj] at d7; simp [decodeStr] at d7; exact d7.symm
    rcases hcase with ⟨_, hvalid, hset⟩ | ⟨hempty, _⟩
    · rw [hjt] at hvalid hset
      obtain ⟨_, hset2⟩ := jtiSet_false hset
      refine ⟨fun e he => ?_, t.exp, hE, by rw [hset2]; simp [lookup]⟩
      unfold jtiValid at hvalid
      rw [he] at hvalid
      simp at hvalid
      exact hvalid
    · rw [hjt] at hempty; exact absurd hempty hne

/-- without the registration hypothesis: the scopes consulted are those of the record stored under
    the verifying key's own `kid` for the same (iss, sub) -/
theorem bearer_scopes_any_registration (cfg : BearerConfig) (strat : List String → String → Bool)
    (keys : List IssuerKey) (w : Wire) (requested : List String) (now : Int) (st st' : JtiStore) (sub : String)
    (h : jwtBearer cfg strat keys w requested now st = (.ok sub, st')) :
    ∃ j k r, w = .jws j ∧ k ∈ keys ∧ verifies j k.key k.type = true ∧ r ∈ keys ∧
      r.iss = k.iss ∧ r.sub = k.sub ∧ r.mapKid = k.jwkKid ∧ ∀ s ∈ requested, strat r.scopes s = true := by
  obtain ⟨t, hpre, _, hmid, _⟩ := bearer_ok h
  obtain ⟨hw, _, _, _, hkey, hver, _⟩ := bearerPre_ok hpre
  obtain ⟨hkm, hki, hks, _⟩ := findKey_some hkey
  obtain ⟨r, hrm, hri, hrs, hrk, hscopes⟩ := bearerMid_ok hmid
  exact ⟨t.jws, t.key, r, hw, hkm, hver, hrm, by rw [hri, hki], by rw [hrs, hks], hrk, hscopes⟩

/-! ### 3. a jti is accepted at most once — sequential histories -/

/-- JWT bearer, EVERY history (any assertions, any scopes, any time advances, any initial memory):
    among the presentations carrying jti `j` (non-empty) and exp second `E`, at most one is accepted. -/
theorem jti_once_sequential (cfg : BearerConfig) (strat : List String → String → Bool) (keys : List IssuerKey)
    (hist : List (Nat × (Wire × List String))) (now : Int) (st : JtiStore) (j : String) (E : Int) (hj : j ≠ "") :
    ((hist.zip (runSeq (bearerStep cfg strat keys) hist now st)).filter
      (fun x => hasTicket j E x.1.2.1 && x.2.isOk)).length ≤ 1 := by
  rw [← countOk_eq_filter (fun a : Wire × List String => hasTicket j E a.1)]
  refine count_le_one _ _ (Blocked j E) (fun _ _ => True) (fun _ _ _ h hn => blocked_mono h hn)
    (fun a st now h => bearerStep_keeps cfg strat keys j E a st now h)
    (fun a st now hp _ ho => bearerStep_accepts cfg strat keys j E hj a st now hp ho) hist now st ?_
  clear st
  induction hist generalizing now with
  | nil => trivial
  | cons x rest ih => exact ⟨fun _ => trivial, ih _⟩

/-- Why "one assertion" is the right unit (both paths): once a ticket (j, E) has been accepted it is
    `Blocked` for ever (`bearerStep_keeps`, `clientStep_keeps`, `blocked_mono`), and while it is
    blocked ANY assertion bearing the same jti — whatever its exp, signer or client — is accepted only
    strictly after E's instant, i.e. when the first assertion can no longer be replayed itself. -/
theorem same_jti_bearer_only_after_expiry (cfg : BearerConfig) (strat : List String → String → Bool)
    (keys : List IssuerKey) (x : JWS) (j : String) (hj : x.claims.jti = .str j) (hne : j ≠ "")
    (requested : List String) (now : Int) (st st' : JtiStore) (sub : String) (E : Int)
    (hb : Blocked j E st now)
    (h : jwtBearer cfg strat keys (.jws x) requested now st = (.ok sub, st')) : E * second < now := by
  obtain ⟨t, hpre, _, _, hcase⟩ := bearer_ok h
  obtain ⟨hw, hdec, _⟩ := bearerPre_ok hpre
  injection hw with hw
  obtain ⟨_, _, _, _, _, _, d7⟩ := decodeClaims_some hdec
  rw [← hw, hj] at d7
  simp [decodeStr] at d7
  rcases hcase with ⟨_, _, hset⟩ | ⟨hempty, _⟩
  · rw [← d7] at hset; exact jtiSet_ok_of_blocked hset hb
  · rw [← d7] at hempty; exact absurd hempty hne

theorem same_jti_client_only_after_expiry (cfg : Config) (clients : List ClientReg) (formId : String)
    (x : JWS) (j : String) (hj : x.claims.jti = .str j) (now : Int) (st st' : JtiStore) (cid : String)
    (E : Int) (hb : Blocked j E st now)
    (h : clientAssertionAuth cfg clients formId (.jws x) now st = (.ok cid, st')) : E * second < now := by
  obtain ⟨t, E', hpre, _, _, hset, _⟩ := clientAuth_ok h
  obtain ⟨hw, _, _, _, _, _, htj, _⟩ := clientPre_ok hpre
  injection hw with hw
  rw [← hw, hj] at htj
  injection htj with htj
  rw [← htj] at hset
  exact jtiSet_ok_of_blocked hset hb

/-- The same statement for client assertions (any endpoint). -/
def JtiOnceClientAssertion : Prop :=
  ∀ (cfg : Config) (clients : List ClientReg) (ep : Endpoint) (hist : List (Nat × (String × Wire)))
    (now : Int) (st : JtiStore) (j : String) (E : Int), j ≠ "" →
    ((hist.zip (runSeq (clientStep cfg clients ep) hist now st)).filter
      (fun x => hasTicket j E x.1.2.2 && x.2.isOk)).length ≤ 1

/-- F4: exp = T; first use at T − 10 s; replay at T + 0.5 s — accepted twice. -/
theorem f4_witness :
    runSeq (clientStep wCfg wClients .token)
      [(50000000000, ("", wToken (.int 946684860))), (10500000000, ("", wToken (.int 946684860)))] y2k [] =
    [.ok "c", .ok "c"] := by decide

theorem jti_once_client_assertion_counterexample : ¬ JtiOnceClientAssertion := by
  intro hall
  have := hall wCfg wClients .token
    [(50000000000, ("", wToken (.int 946684860))), (10500000000, ("", wToken (.int 946684860)))] y2k []
    "j" 946684860 (by decide)
  revert this
  decide

/-- `_partial`: for assertions with exp ≠ 0, in every history in which no presentation of the ticket
    falls strictly inside (exp, exp + 1 s), at most one presentation is accepted. -/
theorem jti_once_client_assertion_partial (cfg : Config) (clients : List ClientReg) (ep : Endpoint)
    (hist : List (Nat × (String × Wire))) (now : Int) (st : JtiStore) (j : String) (E : Int) (hE : E ≠ 0)
    (hwin : AllAt (fun (a : String × Wire) t => hasTicket j E a.2 = true → OutsideWindow E t) hist now) :
    ((hist.zip (runSeq (clientStep cfg clients ep) hist now st)).filter
      (fun x => hasTicket j E x.1.2.2 && x.2.isOk)).length ≤ 1 := by
  rw [← countOk_eq_filter (fun a : String × Wire => hasTicket j E a.2)]
  exact count_le_one _ _ (Blocked j E) (fun _ t => OutsideWindow E t) (fun _ _ _ h hn => blocked_mono h hn)
    (fun a st now h => clientStep_keeps cfg clients ep j E a st now h)
    (fun a st now hp hw ho => clientStep_accepts cfg clients ep j E hE a st now hp hw ho) hist now st hwin

/-- all presentations happen at whole-second instants -/
def WholeSeconds {α : Type} (hist : List (Nat × α)) : Prop := ∀ x ∈ hist, (x.1 : Int) % second = 0

/-- corollary: on a clock that only shows whole seconds the window is never hit -/
theorem jti_once_client_assertion_whole_seconds (cfg : Config) (clients : List ClientReg) (ep : Endpoint)
    (hist : List (Nat × (String × Wire))) (now : Int) (st : JtiStore) (j : String) (E : Int) (hE : E ≠ 0)
    (hnow : now % second = 0) (hws : WholeSeconds hist) :
    ((hist.zip (runSeq (clientStep cfg clients ep) hist now st)).filter
      (fun x => hasTicket j E x.1.2.2 && x.2.isOk)).length ≤ 1 := by
  apply jti_once_client_assertion_partial cfg clients ep hist now st j E hE
  clear st
  induction hist generalizing now with
  | nil => trivial
  | cons x rest ih =>
    obtain ⟨dt, a⟩ := x
    have hdt : (dt : Int) % second = 0 := hws (dt, a) List.mem_cons_self
    have hnext : (now + dt) % second = 0 := by unfold second at *; omega
    refine ⟨fun _ => ?_, ih _ hnext (fun y hy => hws y (List.mem_cons_of_mem _ hy))⟩
    unfold OutsideWindow second at *
    omega

/-! ### 4. a jti is accepted at most once — concurrent presentations

  `n` simultaneous presentations of one assertion at one instant; each is the three atomic steps
  [client/key lookup + pure checks, `jtiValid`, `jtiSet`] of `tstep`; the scheduler is an arbitrary
  function `Nat → Nat` (which thread takes global step k), run for any number of steps. -/

/-- JWT bearer: any number of copies, any scheduler, any memory: at most one is accepted
    (for an assertion whose jti is a non-empty string). -/
theorem jti_once_concurrent (cfg : BearerConfig) (strat : List String → String → Bool) (keys : List IssuerKey)
    (x : JWS) (jti : String) (hj : x.claims.jti = .str jti) (hne : jti ≠ "") (requested : List String)
    (now : Int) (st : JtiStore) (n : Nat) (sched : Nat → Nat) (fuel : Nat) :
    acceptedCount (runSched (bearerProto cfg strat keys (.jws x) requested now) now sched fuel
      ⟨List.replicate n .start, st⟩).pcs ≤ 1 := by
  unfold runSched
  apply schedule_at_most_one
  · unfold bearerProto
    cases hpre : bearerPre cfg keys (.jws x) now with
    | error e => rfl
    | ok t =>
      obtain ⟨hw, hdec, _⟩ := bearerPre_ok hpre
      injection hw with hw
      obtain ⟨_, _, _, _, _, _, d7⟩ := decodeClaims_some hdec
      rw [← hw, hj] at d7
      simp [decodeStr] at d7
      simp [← d7, hne]
  · unfold bearerProto
    cases hpre : bearerPre cfg keys (.jws x) now with
    | error e => intro hf; simp [Result.isOk] at hf
    | ok t =>
      intro _
      obtain ⟨_, _, _, _, _, _, _, _, hnow, _⟩ := bearerPre_ok hpre
      exact hnow

/-- the sequential function is one of the schedules -/
theorem bearer_sequential_is_a_schedule (cfg : BearerConfig) (strat : List String → String → Bool)
    (keys : List IssuerKey) (w : Wire) (requested : List String) (now : Int) (st : JtiStore) :
    runSchedule (bearerProto cfg strat keys w requested now) now ⟨[.start], st⟩ [0, 0, 0] =
      ⟨[.done (jwtBearer cfg strat keys w requested now st).1], (jwtBearer cfg strat keys w requested now st).2⟩ := by
  rw [bearer_eq_runProto]; exact runProto_is_a_schedule _ _ _

theorem client_sequential_is_a_schedule (cfg : Config) (clients : List ClientReg) (formId : String)
    (w : Wire) (now : Int) (st : JtiStore) :
    runSchedule (clientProto cfg clients formId w now) now ⟨[.start], st⟩ [0, 0, 0] =
      ⟨[.done (clientAssertionAuth cfg clients formId w now st).1], (clientAssertionAuth cfg clients formId w now st).2⟩ := by
  rw [clientAuth_eq_runProto]; exact runProto_is_a_schedule _ _ _

/-- The same statement for client assertions. -/
def JtiOnceConcurrentClientAssertion : Prop :=
  ∀ (cfg : Config) (clients : List ClientReg) (formId : String) (w : Wire) (now : Int) (st : JtiStore)
    (n : Nat) (sched : Nat → Nat) (fuel : Nat),
    acceptedCount (runSched (clientProto cfg clients formId w now) now sched fuel
      ⟨List.replicate n .start, st⟩).pcs ≤ 1

/-- two simultaneous presentations at exp + 0.5 s, one after the other: both accepted -/
theorem jti_once_concurrent_client_assertion_counterexample : ¬ JtiOnceConcurrentClientAssertion := by
  intro hall
  have := hall wCfg wClients "" (wToken (.int 946684860)) (y2k + 60500000000) [] 2 (fun k => k / 3) 6
  revert this
  decide

/-- `_partial`: outside the window (and exp ≠ 0) every interleaving accepts at most one copy. -/
theorem jti_once_concurrent_client_assertion_partial (cfg : Config) (clients : List ClientReg)
    (formId : String) (w : Wire) (now : Int) (st : JtiStore)
    (hwin : ∀ x E, w = .jws x → x.claims.exp.toInt64 = some E → E ≠ 0 ∧ OutsideWindow E now)
    (n : Nat) (sched : Nat → Nat) (fuel : Nat) :
    acceptedCount (runSched (clientProto cfg clients formId w now) now sched fuel
      ⟨List.replicate n .start, st⟩).pcs ≤ 1 := by
  unfold runSched
  apply schedule_at_most_one
  · unfold clientProto
    cases clientPre cfg clients formId w now with
    | error e => rfl
    | ok t => dsimp only; cases clientExpiry t.jws.claims <;> rfl
  · unfold clientProto
    cases hpre : clientPre cfg clients formId w now with
    | error e => intro hf; simp [Result.isOk] at hf
    | ok t =>
      dsimp only
      cases hE : clientExpiry t.jws.claims with
      | error e => intro hf; simp [Result.isOk] at hf
      | ok E =>
        intro _
        dsimp only
        obtain ⟨hw, _, _, _, hval, _⟩ := clientPre_ok hpre
        have hexp := clientExpiry_ok hE
        obtain ⟨h0, hout⟩ := hwin t.jws E hw hexp
        rcases claimsValid_exp hval hexp with hz | hs
        · exact absurd hz h0
        · have := nowSec_le hs
          rcases hout with ho | ho
          · exact ho
          · omega

/-! ### non-vacuity -/

/-- a complete assertion authenticates … -/
example : clientAssertionAuth wCfg wClients "" (wToken (.int 946684860)) y2k [] =
    (.ok "c", [("j", 946684860 * second)]) := by decide
/-- … its replay one nanosecond later does not … -/
example : (clientAssertionAuth wCfg wClients "" (wToken (.int 946684860)) (y2k + 1) [("j", 946684860 * second)]).1 =
    .err .jti_known := by decide
/-- … nor does a copy signed by an unregistered key, or with the wrong audience, or HS256 -/
example : (clientAssertionAuth wCfg wClients "" (.jws ⟨"RS256", "k", some "X",
    ⟨.str "c", .str "c", .str "u", .int 946684860, .absent, .absent, .str "j"⟩⟩) y2k []).1 = .err .invalid_client := by
  decide
example : clientAssertionAuth wCfg wClients "" (.jws ⟨"RS256", "k", some "K",
    ⟨.str "c", .str "c", .str "v", .int 946684860, .absent, .absent, .str "j"⟩⟩) y2k [] =
    (.err .invalid_client, [("j", 946684860 * second)]) := by decide
example : (clientAssertionAuth wCfg wClients "" (.jws ⟨"HS256", "k", some "K",
    ⟨.str "c", .str "c", .str "u", .int 946684860, .absent, .absent, .str "j"⟩⟩) y2k []).1 = .err .invalid_client := by
  decide

def wBCfg : BearerConfig := ⟨["u"], 3600 * second, false, false⟩
def wKeys : List IssuerKey := [⟨"i", "s", "k", "k", .ec, "K", ["a"]⟩]
def wBToken : Wire :=
  .jws ⟨"ES256", "k", some "K", ⟨.str "i", .str "s", .str "u", .int 946684860, .absent, .int 946684800, .str "j"⟩⟩
def exactScopes (hay : List String) (needle : String) : Bool := hay.contains needle

example : WellFormedKeys wKeys := by decide
example : jwtBearer wBCfg exactScopes wKeys wBToken ["a"] (y2k + 1) [] = (.ok "s", [("j", 946684860 * second)]) := by decide
example : (jwtBearer wBCfg exactScopes wKeys wBToken ["b"] (y2k + 1) []).1 = .err .invalid_scope := by decide
example : runSeq (bearerStep wBCfg exactScopes wKeys) [(1, (wBToken, ["a"])), (1, (wBToken, ["a"])),
    (59999999998, (wBToken, ["a"])), (1, (wBToken, ["a"]))] y2k [] =
    [.ok "s", .err .jti_known, .err .server_error, .err .invalid_grant] := by decide
/-- the window hypothesis is satisfiable: instants up to exp and from exp + 1 s on -/
example : OutsideWindow 946684860 (y2k + 60000000000) ∧ OutsideWindow 946684860 (y2k + 61000000000) ∧
    ¬ OutsideWindow 946684860 (y2k + 60500000000) := by
  refine ⟨?_, ?_, ?_⟩ <;> simp only [OutsideWindow, y2k, second] <;> omega

end Fosite.Props.C15

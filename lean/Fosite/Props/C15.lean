/-
  C15 — JWT assertions are verified completely and each jti is accepted once.
  Property theorems only; lemmas live in `Fosite/Proofs/Assertion.lean`.

  Every theorem quantifies over ALL registrations, configurations, tokens (as `Wire` / `JWS`
  records: JWS parsing and signature verification are parameters, `signedBy` is the crypto fact),
  instants (`Int` nanoseconds), replay memories, histories and schedules.

  Two parts of the statement were FALSE for the code at the pinned commit; the model was faithful and
  carried a counterexample theorem next to a `_partial` theorem for each.  Both are repaired in /repo
  and the model follows the repaired code, so the full statements are theorems now and the former
  witnesses are kept as regression theorems (they evaluate the model on the exact failing input):

    * exp = 0 (repair 72d22c6).  `MapClaims.Valid()` treats the number 0 as "no exp claim", the later type
      switch accepted it, so a client assertion that expired in 1970 authenticated — and its replay
      record was purged at the next `SetClientAssertionJWT`.       `exp_zero_refused`
    * the window [exp, exp + 1 s) (repair b819172).  `Valid()` compares whole seconds (`⌊now⌋ ≤ exp`), the
      replay memory nanoseconds: a replay at exp + 0.5 s was accepted again, sequentially and
      concurrently.  The record now lives until (exp + 1) s.      `f4_window_replay_refused`,
                                                                  `f4_window_concurrent_refused`

  The JWT-bearer path had neither defect (go-jose's `NumericDate` is compared at full resolution
  and `MarkJWTUsedForTime` refuses at equality).
-/
import Fosite.Proofs.Assertion
namespace Fosite.Props.C15
open Fosite.Model.Assertion Fosite.Spec.Assertion Fosite.Proofs.Assertion

/-! ### 1. client assertions are verified completely -/

/-- An authenticated client assertion is a JWS signed (for the algorithm its header names) by a
    `use = sig` key registered for the authenticated client; the algorithm is the client's registered
    one and asymmetric; iss = sub = client id; aud names a configured token URL; the exp second is
    positive and not in the past; the jti is a non-empty string without a live record in the memory,
    and it is recorded until the end of the exp second afterwards. -/
theorem client_assertion_complete_core (cfg : Config) (clients : List ClientReg) (formId : String)
    (w : Wire) (now : Int) (st st' : JtiStore) (cid : String)
    (h : clientAssertionAuth cfg clients formId w now st = (.ok cid, st')) :
    ∃ j, w = .jws j ∧ ClientAssertionOK cfg clients j now cid ∧
      JtiPresentFresh j st now ∧
      ∃ jti E, j.claims.jti = .str jti ∧ j.claims.exp.toInt64 = some E ∧ 0 < E ∧
        lookup st' jti = some ((E + 1) * second) := by
  obtain ⟨t, E, hpre, hvalid, hE, hset, hfin⟩ := clientAuth_ok h
  obtain ⟨hw, ⟨cid', hcid, hget, hiss, hsub⟩, hkey, hver, hval, hurls, hjti, hjne⟩ := clientPre_ok hpre
  obtain ⟨hmem, hid⟩ := getClient_some hget
  obtain ⟨_, _, halg, hfam, hreg, huse, _, _⟩ := clientKey_ok hkey
  have hcc : cid = t.client.id := by
    unfold clientFin at hfin
    split at hfin
    · injection hfin with hfin; exact hfin.symm
    · cases hfin
  have haud : audMatchesAny t.jws.claims.aud cfg.tokenURLs = true := by
    unfold clientFin at hfin
    split at hfin
    · assumption
    · cases hfin
  have hcid' : cid' = cid := by rw [hcc, hid]
  subst hcid'
  have hexp := clientExpiry_ok hE
  have hpos := clientExpiry_pos hE
  obtain ⟨hset1, hset2⟩ := jtiSet_false hset
  refine ⟨t.jws, hw, ⟨t.client, hmem, hid, ⟨t.key, hreg, huse, hver⟩, halg.symm, hfam, (verifyIssuer_true hiss).1, hsub,
    audMatchesAny_contains haud, ?_⟩, ?_, t.jti, E, hjti, hexp, hpos, ?_⟩
  · unfold expSatisfies; rw [hexp]
    rcases claimsValid_exp hval hexp with h0 | h1
    · omega
    · exact h1
  · unfold JtiPresentFresh; rw [hjti]
    refine ⟨hjne, fun e he => ?_⟩
    unfold jtiValid at hvalid
    rw [he] at hvalid
    simp at hvalid
    exact hvalid
  · rw [hset2]; simp [lookup]

/-- C15, first sentence, as stated (expiry at whole-second granularity, the lenient reading). -/
def ClientAssertionComplete : Prop :=
  ∀ (cfg : Config) (clients : List ClientReg) (formId : String) (w : Wire) (now : Int) (st st' : JtiStore)
    (cid : String), clientAssertionAuth cfg clients formId w now st = (.ok cid, st') →
    ∃ j, w = .jws j ∧ ClientAssertionOK cfg clients j now cid ∧ JtiPresentFresh j st now

/-- The full statement, for every assertion (before repair 72d22c6: only for exp ≠ 0). -/
theorem client_assertion_complete : ClientAssertionComplete := by
  intro cfg clients formId w now st st' cid h
  obtain ⟨j, hw, hok, hfresh, _⟩ := client_assertion_complete_core cfg clients formId w now st st' cid h
  exact ⟨j, hw, hok, hfresh⟩

/-! the former witness: client `c` (RS256, key `K` under kid `k`), token URL `u`, an assertion with
    `exp: 0` presented on 2000-01-01 -/

def wCfg : Config := ⟨["u"]⟩
def wClients : List ClientReg := [⟨"c", true, "private_key_jwt", "RS256", some [⟨"k", "sig", .rsa, "K"⟩]⟩]
def wToken (exp : Claim) : Wire :=
  .jws ⟨"RS256", "k", some "K", ⟨.str "c", .str "c", .str "u", exp, .absent, .absent, .str "j"⟩⟩
/-- 2000-01-01T00:00:00Z, where a synctest bubble starts -/
def y2k : Int := 946684800 * second

/-- REGRESSION (72d22c6): an assertion with `exp: 0` is refused and leaves no record (it used to
    authenticate: `(.ok "c", [("j", 0)])`). -/
theorem exp_zero_refused :
    clientAssertionAuth wCfg wClients "" (wToken (.int 0)) y2k [] = (.err .invalid_client, []) := by decide

/-- … at every later presentation too (it used to be accepted again and again) -/
theorem exp_zero_never_accepted :
    runSeq (clientStep wCfg wClients .token)
      [(0, ("", wToken (.int 0))), (1, ("", wToken (.int 0))), (1000000000, ("", wToken (.int 0))),
       (3600000000000, ("", wToken (.int 0)))] y2k [] =
    [.err .invalid_client, .err .invalid_client, .err .invalid_client, .err .invalid_client] := by decide

/-- through the endpoints: PAR only rewraps errors, the device endpoint only adds a rejection -/
theorem client_assertion_at_endpoint (cfg : Config) (clients : List ClientReg) (ep : Endpoint)
    (a : String × Wire) (now : Int) (st : JtiStore) (cid : String)
    (h : (clientStep cfg clients ep a now st).1 = .ok cid) :
    (clientAssertionAuth cfg clients a.1 a.2 now st).1 = .ok cid := by
  have h' : atEndpoint ep a.1 (clientAssertionAuth cfg clients a.1 a.2 now st).1 = .ok cid := h
  unfold atEndpoint at h'
  split at h'
  · split at h' <;> cases h'
  · split at h'
    · cases h'
    · rename_i r _ cid' heq _
      rw [heq]; exact h'
  · exact h'

/-! ### 2. JWT-bearer assertions are verified completely -/

/-- an accepted JWT-bearer grant: the assertion is a JWS signed by a key registered for its
    (iss, sub); aud names the token URL; `now ≤ exp ≤ iat-or-now + max`; nbf is in the past; iat is
    present unless optional; every requested scope is covered by THAT key's scopes; jti is present
    unless optional, and when present it has no live record and is recorded until exp afterwards. -/
theorem bearer_assertion_complete (cfg : BearerConfig) (strat : List String → String → Bool)
    (keys : List IssuerKey) (hwf : WellFormedKeys keys) (w : Wire) (requested : List String) (now : Int)
    (st st' : JtiStore) (sub : String)
    (h : jwtBearer cfg strat keys w requested now st = (.ok sub, st')) :
    ∃ j, w = .jws j ∧ BearerOK cfg strat keys j requested now sub ∧
      (∀ jti, j.claims.jti = .str jti → jti ≠ "" →
        jtiFresh st jti now ∧ ∃ E, j.claims.exp.toInt64 = some E ∧ lookup st' jti = some (E * second)) := by
  obtain ⟨t, hpre, hsub, hmid, hcase⟩ := bearer_ok h
  obtain ⟨hw, hdec, hissne, hsubne, hkey, hver, haud, hexp, hnow, hnbf, hiat, hmax, hjti⟩ := bearerPre_ok hpre
  obtain ⟨d1, d2, d3, d4, d5, d6, d7⟩ := decodeClaims_some hdec
  obtain ⟨hkm, hki, hks, _⟩ := findKey_some hkey
  obtain ⟨r, hrm, hri, hrs, hrk, hscopes⟩ := bearerMid_ok hmid
  -- the record `GetPublicKeyScopes` finds is the verifying key's record
  have hrkey : r = t.key := by
    apply hwf.2 r hrm t.key hkm (by rw [hri, hki]) (by rw [hrs, hks])
    rw [hrk]; exact (hwf.1 t.key hkm).symm
  subst hsub
  have hE : t.jws.claims.exp.toInt64 = some t.exp := by rw [hexp] at d4; exact decodeDate_some d4
  refine ⟨t.jws, hw, ?_, ?_⟩
  · unfold BearerOK
    rw [decodeStr_nonempty d1 hissne]
    refine ⟨decodeStr_nonempty d2 hsubne, ⟨t.key, hkm, hki, hks, hver, by rw [← hrkey]; exact hscopes⟩, ?_, ?_, ?_, ?_, ?_⟩
    · obtain ⟨u, hu, hc⟩ := haud
      exact ⟨u, hu, decodeAud_contains d3 hc⟩
    · unfold expSatisfies; rw [hE]
      refine ⟨hnow, ?_⟩
      cases hi : t.tc.iat with
      | none =>
        rw [hi] at d6 hmax
        rw [decodeDate_none d6]
        simpa [Claim.toInt64, issuedAt] using hmax
      | some i =>
        rw [hi] at d6 hmax
        rw [decodeDate_some d6]
        simpa [issuedAt] using hmax
    · cases hn : t.tc.nbf with
      | none => rw [hn] at d5; rw [decodeDate_none d5]; simp [Claim.toInt64]
      | some n =>
        have := hnbf n hn
        rw [hn] at d5; rw [decodeDate_some d5]
        simp only; omega
    · intro ho
      have := hiat ho
      cases hi : t.tc.iat with
      | none => rw [hi] at this; cases this
      | some i => rw [hi] at d6; rw [decodeDate_some d6]; rfl
    · intro ho
      have := hjti ho
      rw [decodeStr_nonempty d7 this]
      exact this
  · intro jti hj hne
    have hjt : t.tc.jti = jti := by rw [hj] at d7; simp [decodeStr] at d7; exact d7.symm
    rcases hcase with ⟨_, hvalid, hset⟩ | ⟨hempty, _⟩
    · rw [hjt] at hvalid hset
      obtain ⟨_, hset2⟩ := jtiSet_false hset
      refine ⟨fun e he => ?_, t.exp, hE, by rw [hset2]; simp [lookup]⟩
      unfold jtiValid at hvalid
      rw [he] at hvalid
      simp at hvalid
      exact hvalid
    · rw [hjt] at hempty; exact absurd hempty hne

/-- without the registration hypothesis: the scopes consulted are those of the record stored under
    the verifying key's own `kid` for the same (iss, sub) -/
theorem bearer_scopes_any_registration (cfg : BearerConfig) (strat : List String → String → Bool)
    (keys : List IssuerKey) (w : Wire) (requested : List String) (now : Int) (st st' : JtiStore) (sub : String)
    (h : jwtBearer cfg strat keys w requested now st = (.ok sub, st')) :
    ∃ j k r, w = .jws j ∧ k ∈ keys ∧ verifies j k.key k.type = true ∧ r ∈ keys ∧
      r.iss = k.iss ∧ r.sub = k.sub ∧ r.mapKid = k.jwkKid ∧ ∀ s ∈ requested, strat r.scopes s = true := by
  obtain ⟨t, hpre, _, hmid, _⟩ := bearer_ok h
  obtain ⟨hw, _, _, _, hkey, hver, _⟩ := bearerPre_ok hpre
  obtain ⟨hkm, hki, hks, _⟩ := findKey_some hkey
  obtain ⟨r, hrm, hri, hrs, hrk, hscopes⟩ := bearerMid_ok hmid
  exact ⟨t.jws, t.key, r, hw, hkm, hver, hrm, by rw [hri, hki], by rw [hrs, hks], hrk, hscopes⟩

/-! ### 3. a jti is accepted at most once — sequential histories -/

/-- JWT bearer, EVERY history (any assertions, any scopes, any time advances, any initial memory):
    among the presentations carrying jti `j` (non-empty) and exp second `E`, at most one is accepted. -/
theorem jti_once_sequential (cfg : BearerConfig) (strat : List String → String → Bool) (keys : List IssuerKey)
    (hist : List (Nat × (Wire × List String))) (now : Int) (st : JtiStore) (j : String) (E : Int) (hj : j ≠ "") :
    ((hist.zip (runSeq (bearerStep cfg strat keys) hist now st)).filter
      (fun x => hasTicket j E x.1.2.1 && x.2.isOk)).length ≤ 1 := by
  rw [← countOk_eq_filter (fun a : Wire × List String => hasTicket j E a.1)]
  refine count_le_one _ _ (Blocked j E) (fun _ _ => True) (fun _ _ _ h hn => blocked_mono h hn)
    (fun a st now h => bearerStep_keeps cfg strat keys j E a st now h)
    (fun a st now hp _ ho => bearerStep_accepts cfg strat keys j E hj a st now hp ho) hist now st ?_
  clear st
  induction hist generalizing now with
  | nil => trivial
  | cons x rest ih => exact ⟨fun _ => trivial, ih _⟩

/-- Why "one assertion" is the right unit (both paths): once a ticket (j, E) has been accepted it is
    `Blocked` for ever (`bearerStep_keeps`, `clientStep_keeps`, `blocked_mono`), and while it is
    blocked ANY assertion bearing the same jti — whatever its exp, signer or client — is accepted only
    strictly after E's instant, i.e. when the first assertion can no longer be replayed itself. -/
theorem same_jti_bearer_only_after_expiry (cfg : BearerConfig) (strat : List String → String → Bool)
    (keys : List IssuerKey) (x : JWS) (j : String) (hj : x.claims.jti = .str j) (hne : j ≠ "")
    (requested : List String) (now : Int) (st st' : JtiStore) (sub : String) (E : Int)
    (hb : Blocked j E st now)
    (h : jwtBearer cfg strat keys (.jws x) requested now st = (.ok sub, st')) : E * second < now := by
  obtain ⟨t, hpre, _, _, hcase⟩ := bearer_ok h
  obtain ⟨hw, hdec, _⟩ := bearerPre_ok hpre
  injection hw with hw
  obtain ⟨_, _, _, _, _, _, d7⟩ := decodeClaims_some hdec
  rw [← hw, hj] at d7
  simp [decodeStr] at d7
  rcases hcase with ⟨_, _, hset⟩ | ⟨hempty, _⟩
  · rw [← d7] at hset; exact jtiSet_ok_of_blocked hset hb
  · rw [← d7] at hempty; exact absurd hempty hne

theorem same_jti_client_only_after_expiry (cfg : Config) (clients : List ClientReg) (formId : String)
    (x : JWS) (j : String) (hj : x.claims.jti = .str j) (now : Int) (st st' : JtiStore) (cid : String)
    (E : Int) (hb : Blocked j E st now)
    (h : clientAssertionAuth cfg clients formId (.jws x) now st = (.ok cid, st')) : E * second < now := by
  obtain ⟨t, E', hpre, _, _, hset, _⟩ := clientAuth_ok h
  obtain ⟨hw, _, _, _, _, _, htj, _⟩ := clientPre_ok hpre
  injection hw with hw
  rw [← hw, hj] at htj
  injection htj with htj
  rw [← htj] at hset
  exact jtiSet_ok_of_blocked hset hb

/-- The same statement for client assertions (any endpoint). -/
def JtiOnceClientAssertion : Prop :=
  ∀ (cfg : Config) (clients : List ClientReg) (ep : Endpoint) (hist : List (Nat × (String × Wire)))
    (now : Int) (st : JtiStore) (j : String) (E : Int), j ≠ "" →
    ((hist.zip (runSeq (clientStep cfg clients ep) hist now st)).filter
      (fun x => hasTicket j E x.1.2.2 && x.2.isOk)).length ≤ 1

/-- Client assertions, EVERY history (any assertions, any endpoint, any time advances, any initial
    memory): among the presentations carrying jti `j` and exp second `E`, at most one is accepted.
    (Before repairs 72d22c6 / b819172 this needed `E ≠ 0` and no presentation inside (exp, exp + 1 s).) -/
theorem jti_once_client_assertion_all (cfg : Config) (clients : List ClientReg) (ep : Endpoint)
    (hist : List (Nat × (String × Wire))) (now : Int) (st : JtiStore) (j : String) (E : Int) :
    ((hist.zip (runSeq (clientStep cfg clients ep) hist now st)).filter
      (fun x => hasTicket j E x.1.2.2 && x.2.isOk)).length ≤ 1 := by
  rw [← countOk_eq_filter (fun a : String × Wire => hasTicket j E a.2)]
  refine count_le_one _ _ (Blocked j (E + 1)) (fun _ _ => True) (fun _ _ _ h hn => blocked_mono h hn)
    (fun a st now h => clientStep_keeps cfg clients ep j (E + 1) a st now h)
    (fun a st now hp _ ho => clientStep_accepts cfg clients ep j E a st now hp ho) hist now st ?_
  clear st
  induction hist generalizing now with
  | nil => trivial
  | cons x rest ih => exact ⟨fun _ => trivial, ih _⟩

theorem jti_once_client_assertion : JtiOnceClientAssertion :=
  fun cfg clients ep hist now st j E _ => jti_once_client_assertion_all cfg clients ep hist now st j E

/-- REGRESSION (b819172), F4: exp = T; first use at T − 10 s; replay at T + 0.5 s — the replay is refused
    (it used to be accepted: `[.ok "c", .ok "c"]`). -/
theorem f4_window_replay_refused :
    runSeq (clientStep wCfg wClients .token)
      [(50000000000, ("", wToken (.int 946684860))), (10500000000, ("", wToken (.int 946684860)))] y2k [] =
    [.ok "c", .err .jti_known] := by decide

/-! ### 4. a jti is accepted at most once — concurrent presentations

  `n` simultaneous presentations of one assertion at one instant; each is the three atomic steps
  [client/key lookup + pure checks, `jtiValid`, `jtiSet`] of `tstep`; the scheduler is an arbitrary
  function `Nat → Nat` (which thread takes global step k), run for any number of steps. -/

/-- JWT bearer: any number of copies, any scheduler, any memory: at most one is accepted
    (for an assertion whose jti is a non-empty string). -/
theorem jti_once_concurrent (cfg : BearerConfig) (strat : List String → String → Bool) (keys : List IssuerKey)
    (x : JWS) (jti : String) (hj : x.claims.jti = .str jti) (hne : jti ≠ "") (requested : List String)
    (now : Int) (st : JtiStore) (n : Nat) (sched : Nat → Nat) (fuel : Nat) :
    acceptedCount (runSched (bearerProto cfg strat keys (.jws x) requested now) now sched fuel
      ⟨List.replicate n .start, st⟩).pcs ≤ 1 := by
  unfold runSched
  apply schedule_at_most_one
  · unfold bearerProto
    cases hpre : bearerPre cfg keys (.jws x) now with
    | error e => rfl
    | ok t =>
      obtain ⟨hw, hdec, _⟩ := bearerPre_ok hpre
      injection hw with hw
      obtain ⟨_, _, _, _, _, _, d7⟩ := decodeClaims_some hdec
      rw [← hw, hj] at d7
      simp [decodeStr] at d7
      simp [← d7, hne]
  · unfold bearerProto
    cases hpre : bearerPre cfg keys (.jws x) now with
    | error e => intro hf; simp [Result.isOk] at hf
    | ok t =>
      intro _
      obtain ⟨_, _, _, _, _, _, _, _, hnow, _⟩ := bearerPre_ok hpre
      exact hnow

/-- the sequential function is one of the schedules -/
theorem bearer_sequential_is_a_schedule (cfg : BearerConfig) (strat : List String → String → Bool)
    (keys : List IssuerKey) (w : Wire) (requested : List String) (now : Int) (st : JtiStore) :
    runSchedule (bearerProto cfg strat keys w requested now) now ⟨[.start], st⟩ [0, 0, 0] =
      ⟨[.done (jwtBearer cfg strat keys w requested now st).1], (jwtBearer cfg strat keys w requested now st).2⟩ := by
  rw [bearer_eq_runProto]; exact runProto_is_a_schedule _ _ _

theorem client_sequential_is_a_schedule (cfg : Config) (clients : List ClientReg) (formId : String)
    (w : Wire) (now : Int) (st : JtiStore) :
    runSchedule (clientProto cfg clients formId w now) now ⟨[.start], st⟩ [0, 0, 0] =
      ⟨[.done (clientAssertionAuth cfg clients formId w now st).1], (clientAssertionAuth cfg clients formId w now st).2⟩ := by
  rw [clientAuth_eq_runProto]; exact runProto_is_a_schedule _ _ _

/-- The same statement for client assertions. -/
def JtiOnceConcurrentClientAssertion : Prop :=
  ∀ (cfg : Config) (clients : List ClientReg) (formId : String) (w : Wire) (now : Int) (st : JtiStore)
    (n : Nat) (sched : Nat → Nat) (fuel : Nat),
    acceptedCount (runSched (clientProto cfg clients formId w now) now sched fuel
      ⟨List.replicate n .start, st⟩).pcs ≤ 1

/-- Client assertions: any number of copies, any scheduler, any memory, any instant: every interleaving
    accepts at most one copy.  (Before the repairs: only outside the window and for exp ≠ 0.) -/
theorem jti_once_concurrent_client_assertion : JtiOnceConcurrentClientAssertion := by
  intro cfg clients formId w now st n sched fuel
  unfold runSched
  apply schedule_at_most_one
  · unfold clientProto
    cases clientPre cfg clients formId w now with
    | error e => rfl
    | ok t => dsimp only; cases clientExpiry t.jws.claims <;> rfl
  · unfold clientProto
    cases hpre : clientPre cfg clients formId w now with
    | error e => intro hf; simp [Result.isOk] at hf
    | ok t =>
      dsimp only
      cases hE : clientExpiry t.jws.claims with
      | error e => intro hf; simp [Result.isOk] at hf
      | ok E =>
        intro _
        dsimp only
        obtain ⟨hw, _, _, _, hval, _⟩ := clientPre_ok hpre
        have hexp := clientExpiry_ok hE
        have hpos := clientExpiry_pos hE
        rcases claimsValid_exp hval hexp with hz | hs
        · omega
        · have := nowSec_le hs
          omega

/-- REGRESSION (b819172): two simultaneous presentations at exp + 0.5 s of an assertion already used,
    one after the other — none is accepted (both used to be). -/
theorem f4_window_concurrent_refused :
    acceptedCount (runSched (clientProto wCfg wClients "" (wToken (.int 946684860)) (y2k + 60500000000))
      (y2k + 60500000000) (fun k => k / 3) 6 ⟨List.replicate 2 .start, [("j", 946684861 * second)]⟩).pcs = 0 := by
  decide

/-- … and two fresh simultaneous presentations at exp + 0.5 s: exactly one is accepted -/
theorem f4_window_concurrent_one :
    acceptedCount (runSched (clientProto wCfg wClients "" (wToken (.int 946684860)) (y2k + 60500000000))
      (y2k + 60500000000) (fun k => k / 3) 6 ⟨List.replicate 2 .start, []⟩).pcs = 1 := by
  decide

/-! ### non-vacuity -/

/-- a complete assertion authenticates … -/
example : clientAssertionAuth wCfg wClients "" (wToken (.int 946684860)) y2k [] =
    (.ok "c", [("j", 946684861 * second)]) := by decide
/-- … its replay one nanosecond later does not … -/
example : (clientAssertionAuth wCfg wClients "" (wToken (.int 946684860)) (y2k + 1) [("j", 946684861 * second)]).1 =
    .err .jti_known := by decide
/-- … nor does a copy signed by an unregistered key, or with the wrong audience, or HS256 -/
example : (clientAssertionAuth wCfg wClients "" (.jws ⟨"RS256", "k", some "X",
    ⟨.str "c", .str "c", .str "u", .int 946684860, .absent, .absent, .str "j"⟩⟩) y2k []).1 = .err .invalid_client := by
  decide
example : clientAssertionAuth wCfg wClients "" (.jws ⟨"RS256", "k", some "K",
    ⟨.str "c", .str "c", .str "v", .int 946684860, .absent, .absent, .str "j"⟩⟩) y2k [] =
    (.err .invalid_client, [("j", 946684861 * second)]) := by decide
example : (clientAssertionAuth wCfg wClients "" (.jws ⟨"HS256", "k", some "K",
    ⟨.str "c", .str "c", .str "u", .int 946684860, .absent, .absent, .str "j"⟩⟩) y2k []).1 = .err .invalid_client := by
  decide

def wBCfg : BearerConfig := ⟨["u"], 3600 * second, false, false⟩
def wKeys : List IssuerKey := [⟨"i", "s", "k", "k", .ec, "K", ["a"]⟩]
def wBToken : Wire :=
  .jws ⟨"ES256", "k", some "K", ⟨.str "i", .str "s", .str "u", .int 946684860, .absent, .int 946684800, .str "j"⟩⟩
def exactScopes (hay : List String) (needle : String) : Bool := hay.contains needle

example : WellFormedKeys wKeys := by decide
example : jwtBearer wBCfg exactScopes wKeys wBToken ["a"] (y2k + 1) [] = (.ok "s", [("j", 946684860 * second)]) := by decide
example : (jwtBearer wBCfg exactScopes wKeys wBToken ["b"] (y2k + 1) []).1 = .err .invalid_scope := by decide
example : runSeq (bearerStep wBCfg exactScopes wKeys) [(1, (wBToken, ["a"])), (1, (wBToken, ["a"])),
    (59999999998, (wBToken, ["a"])), (1, (wBToken, ["a"]))] y2k [] =
    [.ok "s", .err .jti_known, .err .server_error, .err .invalid_grant] := by decide
/-- the former window: instants up to exp and from exp + 1 s on are outside it -/
example : OutsideWindow 946684860 (y2k + 60000000000) ∧ OutsideWindow 946684860 (y2k + 61000000000) ∧
    ¬ OutsideWindow 946684860 (y2k + 60500000000) := by
  refine ⟨?_, ?_, ?_⟩ <;> simp only [OutsideWindow, y2k, second] <;> omega

end Fosite.Props.C15

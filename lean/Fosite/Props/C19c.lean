/-
  C19 — "One provider and the reference store are safe under concurrent requests":
  the INTERLEAVING half, continued (`Props/C19b.lean` has the theorems over the scheduler of
  `Model/Sched.lean`, where one storage call of the model is one atomic step and no call fails).
  This file removes the two restrictions C19b lists.

  A. SPLIT ROTATION (`split_*`).  `MemoryStore.RotateRefreshToken` is TWO locked sections:
     `RevokeRefreshToken` (refresh-token mutexes), then — only if that returned nil —
     `RevokeAccessToken` (access-token mutex); another goroutine may run between them.  `splitProg`
     rewrites every `rotateRefresh rid k` node of an endpoint program into `revokeRefresh rid` followed
     (only on `.ok`) by `revokeAccess rid`, handing the continuation exactly the answer
     `SState.exec (.rotateRefresh rid k)` composes.  `Sys.split` / `Sys.initSplit` run the split
     programs under the UNCHANGED scheduler `runSched`, so every schedule may place steps of other
     threads between the two halves.  Clause by clause:
       * "every individual store operation takes effect atomically … the final state is one that some
         sequential order of those steps produces": `split_final_state_is_sequential(_ops)` — the steps
         are now the locked sections; no step of a split run is a `rotateRefresh`
         (`split_never_rotates`).  The refinement is faithful: sequentially the split program is the
         same program (`split_program_same_sequentially`, `split_operation_same_as_step`), every
         atomic-rotation run is a split run (`split_semantics_covers_atomic`), and a finished request
         returned what its ORIGINAL program returns when each pair of halves is read as one rotation
         (`split_outcome_is_result_of_original_program`).
       * "token generation never returns the same value twice": `split_minted_values_distinct`,
         `split_minted_value_not_in_initial_store`, `split_fresh_invariant` (instances of the lemmas
         of `Proofs/Sched.lean`, which quantify over arbitrary thread programs).
       * "every token handed to a caller is either active or was invalidated by one of the concurrent
         requests": `split_handed_access_token_…`, `split_handed_refresh_token_…` — re-proved, because
         the per-thread ownership argument depends on the program text (`ownK_split`); the invalidating
         step of the other request is now a `delete…` or a `revoke…` call, never a rotation.
       * dead credentials stay dead: `split_dead_stays_dead`.
     WHAT CHANGES: only the vocabulary of the steps.  Between the halves another thread sees the grant's
     refresh token inactive while its access tokens are still stored (`split_intermediate_state`, and
     the evaluated schedules at the end: an introspection of the old access token scheduled between the
     halves answers "active").  No clause of C19 is about that: the state is one a sequential order of
     store operations produces, it satisfies every invariant the theorems use (`Fresh`, `GInv`, the
     `…Dead` predicates — `split_intermediate_state`), and the very same call sequence
     `revokeRefresh rid; revokeAccess rid` is what the revocation endpoint issues, non-atomically, in
     the atomic-rotation model already.  Every clause of C19 is proved for the split semantics, so no
     schedule of it falsifies one.

  B. FAULTS (`fault_*`).  `runSchedF`: every schedule entry carries a fault decision `Option Err`; a
     STORAGE call hit by a fault answers `.fail e` and leaves the shared store untouched (`newId` and
     the transaction markers of the plain store cannot fail — exactly the calls for which
     `RState.step` does not consult the plan).  This is the most general fault model: one fault plan
     per thread, indexed by the thread's own storage-call count as `RunCfg.plan` is, is the instance
     `runSchedP` (`fault_per_thread_plans_are_covered`); one `stepP` is one `RState.step` of the
     non-transactional interpreter on the shared store (`fault_step_is_interpreter_step`), and a thread
     scheduled alone runs exactly as `run { plan := … }` does (`fault_thread_alone_is_run`).  All
     theorems are for arbitrary thread programs, hence for the atomic-rotation threads (`Sys.init`) AND
     the split-rotation threads (`Sys.initSplit`; there a fault may also hit the second half alone,
     which over-approximates a harness that injects faults at the `RotateRefreshToken` interface).
     ALL FOUR groups carry over, with "the steps" = the steps NOT hit by a fault (`okTrace`):
       * sequential order: `fault_final_state_is_sequential`, `fault_failed_step_leaves_store_unchanged`;
       * minted values: `fault_minted_values_distinct`, `fault_minted_value_not_in_initial_store`;
       * handed tokens: `fault_handed_access_token_…`, `fault_handed_refresh_token_…` (the invalidating
         step of the other request is one that was not hit by a fault);
       * dead stays dead, `Fresh`: `fault_dead_stays_dead`, `fault_fresh_invariant`.

  C. TRANSACTIONS are deliberately NOT part of the interleaving theorems.  `storage.Transactional` is
     not implemented by fosite's `MemoryStore`; the harness wraps the store with a per-request
     snapshot/rollback (`RState.snap`: the whole `Store` at `beginTx`, restored by `rollbackTx`).  Under
     interleaving such a rollback would restore a snapshot of the WHOLE shared store and thereby undo the
     committed writes other requests made since the snapshot — it could resurrect a revoked refresh token
     or delete a token another request has just handed out.  That is a property of the harness wrapper
     (a global snapshot is not an isolated transaction), not of fosite; C19 speaks of "one reference
     in-memory store", whose `BeginTX/Commit/Rollback` do not exist (`MaybeBeginTx` is a no-op), which
     is the `tx := false` semantics used here (`fault_step_is_interpreter_step`).  The sequential
     transactional behaviour is C18's subject (`Proofs/Tx*.lean`).
-/
import Fosite.Proofs.SchedSplit

namespace Fosite.Props.C19
open Fosite.Model

/-! # A. split rotation -/

/-! ## A0. the split semantics refines the model faithfully -/

/-- **Sequentially the split program is the same program**: under the fault-free, non-transactional
    interpreter, from every interpreter state, same final store state and same result. -/
theorem split_program_same_sequentially {α : Type} (p : Prog α) (rs : RState) :
    (run {} rs (splitProg p)).1.ss = (run {} rs p).1.ss ∧ (run {} rs (splitProg p)).2 = (run {} rs p).2 :=
  run_split p rs

/-- … in particular the split endpoint program of an operation computes the `step` of the model -/
theorem split_operation_same_as_step (m : MState) (op : Op) (p : Prog Out) (h : op.prog m = some p) :
    (run {} { ss := m.ss } (splitProg p)).1.ss = (step m op).1.ss ∧
    (run {} { ss := m.ss } (splitProg p)).2 = (step m op).2.1 := by
  have a := run_split p { ss := m.ss }
  have b := step_prog m op p h
  exact ⟨a.1.trans b.1.symm, a.2.trans b.2.symm⟩

/-- the two halves compose to the atomic call exactly as `SState.exec` says: run back to back after a
    first half that answered `.ok` they ARE the rotation; a first half that answered an error IS the
    rotation -/
theorem split_halves_compose (ss : SState) (rid : Nat) (k : Option Nat) :
    ((ss.exec (.revokeRefresh rid)).2 = .ok →
      (ss.exec (.revokeRefresh rid)).1.exec (.revokeAccess rid) = ss.exec (.rotateRefresh rid k)) ∧
    ((ss.exec (.revokeRefresh rid)).2 ≠ .ok → ss.exec (.revokeRefresh rid) = ss.exec (.rotateRefresh rid k)) :=
  ⟨exec_halves_eq_rotate ss rid k, exec_firstHalf_err_eq_rotate ss rid k⟩

/-- **Every run of the atomic-rotation scheduler is a run of the split-rotation scheduler**: same final
    store state, every thread at the split version of where it is. -/
theorem split_semantics_covers_atomic (s : Sys) (sched : List Nat) :
    ∃ sched', (runSched s.split sched').ss = (runSched s sched).ss ∧
      (runSched s.split sched').thr.map Thr.prog = (runSched s sched).thr.map (fun t => splitProg t.prog) :=
  split_covers_atomic s sched

/-- no step of a split run is a `rotateRefresh`: the steps are the locked sections of the Go store -/
theorem split_never_rotates (s : Sys) (sched : List Nat) : ∀ e ∈ newTrace s.split sched, e.2.1.rotateId = none :=
  reach_noRotate (reach_newTrace s.split sched) (split_noRotate s)

/-! ## A1. The final state is the one a sequential order of the locked sections produces -/

/-- **Every schedule of the split threads is a sequential order of atomic store operations**, none of
    which is a rotation: final store = fold of `SState.exec` over the trace; every recorded answer is the
    store's answer at that point; every thread advanced along its own SPLIT program by its own
    sub-trace.  Every number of threads, every schedule, every initial state. -/
theorem split_final_state_is_sequential (s : Sys) (sched : List Nat) :
    (runSched s.split sched).trace = s.trace ++ newTrace s.split sched ∧
    (runSched s.split sched).ss = execAll s.ss (traceCalls (newTrace s.split sched)) ∧
    Genuine s.ss (newTrace s.split sched) ∧
    (runSched s.split sched).thr.length = s.thr.length ∧
    (∀ i t0, s.thr[i]? = some t0 →
      ∃ t, (runSched s.split sched).thr[i]? = some t ∧
        Prog.follows (splitProg t0.prog) (subTrace i (newTrace s.split sched)) t.prog) ∧
    (∀ e ∈ newTrace s.split sched, e.1 < s.thr.length ∧ e.2.1.rotateId = none) := by
  have R := reach_newTrace s.split sched
  refine ⟨R.trace, R.ss, R.genuine, by simpa using R.len, ?_, ?_⟩
  · intro i t0 h0
    have : s.split.thr[i]? = some t0.split := by rw [Sys.split_getElem?, h0]; rfl
    obtain ⟨t, ht, hf⟩ := R.thr i _ this
    exact ⟨t, ht, by simpa using hf⟩
  · intro e he
    exact ⟨by simpa using R.inRange e he, split_never_rotates s sched e he⟩

/-- the same for the split threads of a list of API operations started together -/
theorem split_final_state_is_sequential_ops (m : MState) (ops : List Op) (sched : List Nat) :
    let s := runSched (Sys.initSplit m ops) sched
    s.ss = execAll m.ss (traceCalls s.trace) ∧ Genuine m.ss s.trace ∧
    (∀ e ∈ s.trace, e.2.1.rotateId = none) ∧
    ∀ i p, (ops.filterMap (fun op => op.prog m))[i]? = some p →
      ∃ t, s.thr[i]? = some t ∧ Prog.follows (splitProg p) (subTrace i s.trace) t.prog := by
  have R := reach_newTrace (Sys.initSplit m ops) sched
  have hn := split_never_rotates (Sys.init m ops) sched
  rw [show (Sys.init m ops).split = Sys.initSplit m ops from rfl] at hn
  rw [newTrace_initSplit] at R hn
  refine ⟨R.ss, R.genuine, hn, ?_⟩
  intro i p hp
  obtain ⟨t, ht, hf⟩ := R.thr i _ (initSplit_getElem? m ops i p hp)
  exact ⟨t, ht, by simpa using hf⟩

/-- **a finished request of the split system returned what its ORIGINAL endpoint program returns** on
    the path `l'` obtained from its own sub-trace by reading `(revokeRefresh rid, ok), (revokeAccess rid, r)`
    resp. `(revokeRefresh rid, err)` as the rotation answering `r` resp. `err` (`SplitPath`) -/
theorem split_outcome_is_result_of_original_program (s : Sys) (sched : List Nat) (i : Nat) (t0 : Thr) (o : Out)
    (h0 : s.thr[i]? = some t0) (ho : (runSched s.split sched).outs[i]? = some (some o)) :
    Prog.follows (splitProg t0.prog) (subTrace i (newTrace s.split sched)) (.ret o) ∧
    ∃ l', Prog.follows t0.prog l' (.ret o) ∧ SplitPath l' (subTrace i (newTrace s.split sched)) := by
  obtain ⟨t, ht, hp⟩ := outs_getElem? _ i o ho
  obtain ⟨t', ht', hf⟩ := (split_final_state_is_sequential s sched).2.2.2.2.1 i t0 h0
  rw [ht] at ht'; cases ht'
  rw [hp] at hf
  exact ⟨hf, follows_split_ret _ _ _ hf⟩

/-! ## A2. Token generation never returns the same value twice (split threads) -/

theorem split_minted_values_distinct (s : Sys) (sched : List Nat) (a b i j : Nat) (c1 c2 : Call) (r1 r2 : Res)
    (hab : a < b)
    (ha : (newTrace s.split sched)[a]? = some (i, c1, r1)) (hb : (newTrace s.split sched)[b]? = some (j, c2, r2))
    (h1 : c1.mints = true) (h2 : c2.mints = true) :
    ∃ n1 n2, r1 = .nat n1 ∧ r2 = .nat n2 ∧ n1 ≠ n2 ∧ n1 + c1.mintWidth ≤ n2 ∧ s.ss.next ≤ n1 := by
  obtain ⟨l1, l2, l3, htr⟩ := split_at_two _ a b _ _ hab ha hb
  have hg := (reach_newTrace s.split sched).genuine
  rw [htr] at hg
  obtain ⟨n1, n2, e1, e2, h0, hw⟩ := minted_increasing s.ss l1 l2 l3 i j c1 c2 r1 r2 hg h1 h2
  refine ⟨n1, n2, e1, e2, ?_, hw, h0⟩
  have : 1 ≤ c1.mintWidth := by cases c1 <;> simp [Call.mintWidth]
  omega

theorem split_minted_value_not_in_initial_store (s : Sys) (hf : Fresh s.ss) (sched : List Nat) (a i : Nat) (c : Call) (r : Res)
    (ha : (newTrace s.split sched)[a]? = some (i, c, r)) (hm : c.mints = true) :
    ∃ n, r = .nat n ∧ ∀ k, n ≤ k →
      alookup s.ss.store.codes k = none ∧ alookup s.ss.store.access k = none ∧ alookup s.ss.store.refresh k = none ∧
      alookup s.ss.store.par k = none ∧ alookup s.ss.store.device k = none ∧
      (∀ sig d, alookup s.ss.store.device sig = some d → d.userSig ≠ k) ∧
      (∀ rid, alookup s.ss.store.atIdx rid ≠ some k) ∧ (∀ rid, alookup s.ss.store.rtIdx rid ≠ some k) := by
  obtain ⟨l1, l2, htr, _⟩ := split_at _ a _ ha
  have hg := (reach_newTrace s.split sched).genuine
  rw [htr] at hg
  obtain ⟨n, hr, hn⟩ := minted_single s.ss l1 l2 i c r hg hm
  exact ⟨n, hr, fun k hk => fresh_absent s.ss hf k (Nat.le_trans hn hk)⟩

theorem split_fresh_invariant (s : Sys) (sched : List Nat) (hf : Fresh s.ss) : Fresh (runSched s.split sched).ss := by
  rw [(reach_newTrace s.split sched).ss]; exact execAll_Fresh _ _ hf

/-! ## A3. Handed tokens are active or were invalidated by a concurrent request (split threads) -/

/-- **Access tokens.**  If split thread `i` finished handing out access token `atk`, thread `i` itself
    created it, and in the final store the record is present, or a LATER step of ANOTHER thread is
    `deleteAccess (some atk)` or `revokeAccess` of the record's request id (in particular: the second
    half of another request's rotation). -/
theorem split_handed_access_token_active_or_invalidated_by_other (m : MState) (ops : List Op) (sched : List Nat)
    (i : Nat) (o : Out) (atk : Nat)
    (hout : (runSched (Sys.initSplit m ops) sched).outs[i]? = some (some o)) (ha : o.handedAccess = some atk) :
    ∃ q l1 l2, (runSched (Sys.initSplit m ops) sched).trace = l1 ++ (i, .createAccess q, .nat atk) :: l2 ∧
      (alookup (runSched (Sys.initSplit m ops) sched).ss.store.access atk = some q ∨
        ∃ e ∈ l2, e.1 ≠ i ∧ (e.2.1 = .deleteAccess (some atk) ∨ e.2.1 = .revokeAccess q.id)) := by
  have hn := split_never_rotates (Sys.init m ops) sched
  rw [show (Sys.init m ops).split = Sys.initSplit m ops from rfl] at hn
  obtain ⟨q, l1, l2, htr, h⟩ := handed_access _ (initSplit_owned m ops) sched i o atk hout ha
  refine ⟨q, l1, l2, by rw [← newTrace_initSplit]; exact htr, ?_⟩
  rcases h with h | ⟨e, he, hi, hr⟩
  · exact Or.inl h
  · refine Or.inr ⟨e, he, hi, removesAccess_noRotate _ _ _ hr (hn e ?_)⟩
    rw [htr]; exact List.mem_append_right _ (List.mem_cons_of_mem _ he)

/-- **Refresh tokens.**  … present AND ACTIVE in the final store, or a later step of another thread is
    `deleteRefresh (some rt)` or `revokeRefresh` of the record's request id (in particular: the first
    half of another request's rotation). -/
theorem split_handed_refresh_token_active_or_invalidated_by_other (m : MState) (hf : Fresh m.ss) (ops : List Op)
    (sched : List Nat) (i : Nat) (o : Out) (rt : Nat)
    (hout : (runSched (Sys.initSplit m ops) sched).outs[i]? = some (some o)) (ha : o.handedRefresh = some rt) :
    ∃ a q l1 l2, (runSched (Sys.initSplit m ops) sched).trace = l1 ++ (i, .createRefresh a q, .nat rt) :: l2 ∧
      (alookup (runSched (Sys.initSplit m ops) sched).ss.store.refresh rt = some { active := true, atSig := a, req := q } ∨
        ∃ e ∈ l2, e.1 ≠ i ∧ (e.2.1 = .deleteRefresh (some rt) ∨ e.2.1 = .revokeRefresh q.id)) := by
  have hn := split_never_rotates (Sys.init m ops) sched
  rw [show (Sys.init m ops).split = Sys.initSplit m ops from rfl] at hn
  obtain ⟨a, q, l1, l2, htr, h⟩ := handed_refresh _ (initSplit_owned m ops) hf sched i o rt hout ha
  refine ⟨a, q, l1, l2, by rw [← newTrace_initSplit]; exact htr, ?_⟩
  rcases h with h | ⟨e, he, hi, hr⟩
  · exact Or.inl h
  · refine Or.inr ⟨e, he, hi, removesRefresh_noRotate _ _ _ hr (hn e ?_)⟩
    rw [htr]; exact List.mem_append_right _ (List.mem_cons_of_mem _ he)

/-- the per-handler fact behind both, for the SPLIT endpoint programs: whatever the store answers to
    each call (including each half of a rotation), the program hands out only tokens it created itself
    and for which it has issued no removing call since -/
theorem split_endpoint_never_removes_what_it_hands_out (m : MState) (op : Op) (p : Prog Out) (h : op.prog m = some p)
    (l : List (Call × Res)) (o : Out) (hf : Prog.follows (splitProg p) l (.ret o)) :
    (∀ atk, o.handedAccess = some atk → ∃ q m1 m2, l = m1 ++ (.createAccess q, .nat atk) :: m2 ∧
      ∀ e ∈ m2, e.1.removesAccess atk q.id = false) ∧
    (∀ rt, o.handedRefresh = some rt → ∃ a q m1 m2, l = m1 ++ (.createRefresh a q, .nat rt) :: m2 ∧
      ∀ e ∈ m2, e.1.removesRefresh rt q.id = false) := by
  have hH := ownK_sound {} _ Handed l o
    (ownK_split p Handed Handed_of_le {} {} (Own.le_refl _) (own_op m op p h)) hf
  constructor
  · intro atk ha
    obtain ⟨q, hq⟩ := hH.1 atk ha
    rcases ownAfter_acc {} l atk q hq with ⟨hm, _⟩ | ⟨m1, m2, hl, hcl⟩
    · cases hm
    · exact ⟨q, m1, m2, hl, hcl⟩
  · intro rt ha
    obtain ⟨a, q, hq⟩ := hH.2 rt ha
    rcases ownAfter_rts {} l rt a q hq with ⟨hm, _⟩ | ⟨m1, m2, hl, hcl⟩
    · cases hm
    · exact ⟨a, q, m1, m2, hl, hcl⟩

/-! ## A4. The state between the two halves; what was dead stays dead -/

/-- **The intermediate state of a rotation** (`mid`: after `RevokeRefreshToken`, before
    `RevokeAccessToken`): the access table and the mint counter are as before — so the grant's access
    tokens are still stored while its refresh token is already inactive — and `mid` satisfies every
    invariant the theorems of C19b / this file rest on: `Fresh`, the grant invariant `GInv`, `CodesBelow`
    and the four `…Dead` predicates all survive the first half (and the second). -/
theorem split_intermediate_state (ss : SState) (rid : Nat) :
    let mid := (ss.exec (.revokeRefresh rid)).1
    mid.store.access = ss.store.access ∧ mid.next = ss.next ∧
    (Fresh ss → Fresh mid ∧ Fresh (mid.exec (.revokeAccess rid)).1) ∧
    (GInv ss → GInv mid ∧ GInv (mid.exec (.revokeAccess rid)).1) ∧
    (∀ sig, RTDead ss sig → RTDead mid sig) ∧
    (∀ sig, CodesBelow ss → CodeDead ss sig → CodesBelow mid ∧ CodeDead mid sig) ∧
    (∀ sig, DevDead ss sig → DevDead mid sig) ∧ (∀ u, ParDead ss u → ParDead mid u) := by
  refine ⟨(exec_firstHalf_access ss rid).1, (exec_firstHalf_access ss rid).2, ?_, ?_, ?_, ?_, ?_, ?_⟩
  · intro h; exact ⟨exec_Fresh _ _ h, exec_Fresh _ _ (exec_Fresh _ _ h)⟩
  · intro h; exact ⟨exec_GInv_other _ _ h rfl, exec_GInv_other _ _ (exec_GInv_other _ _ h rfl) rfl⟩
  · intro sig h; exact exec_RTDead _ _ _ h
  · intro sig hb h; exact ⟨exec_CodesBelow _ _ hb, exec_CodeDead _ _ _ hb h⟩
  · intro sig h; exact exec_DevDead _ _ _ h
  · intro u h; exact exec_ParDead _ _ _ h

/-- **Used codes, rotated / revoked refresh tokens, used device codes and consumed request URIs stay dead
    under every schedule of every set of split threads** — in particular in every state between the two
    halves of a rotation (take the schedule up to that point). -/
theorem split_dead_stays_dead (s : Sys) (sched : List Nat) :
    (∀ sig, CodesBelow s.ss → CodeDead s.ss sig → CodeDead (runSched s.split sched).ss sig) ∧
    (∀ sig, RTDead s.ss sig → RTDead (runSched s.split sched).ss sig) ∧
    (∀ sig, DevDead s.ss sig → DevDead (runSched s.split sched).ss sig) ∧
    (∀ u, ParDead s.ss u → ParDead (runSched s.split sched).ss u) := by
  rw [(reach_newTrace s.split sched).ss]
  refine ⟨fun sig hb hd => ?_, fun sig hd => ?_, fun sig hd => ?_, fun u hd => ?_⟩
  · exact (execAll_preserves (fun ss => CodesBelow ss ∧ CodeDead ss sig)
      (fun ss c h => ⟨exec_CodesBelow ss c h.1, exec_CodeDead ss c sig h.1 h.2⟩) _ _ ⟨hb, hd⟩).2
  · exact execAll_preserves (fun ss => RTDead ss sig) (fun ss c h => exec_RTDead ss c sig h) _ _ hd
  · exact execAll_preserves (fun ss => DevDead ss sig) (fun ss c h => exec_DevDead ss c sig h) _ _ hd
  · exact execAll_preserves (fun ss => ParDead ss u) (fun ss c h => exec_ParDead ss c u h) _ _ hd

/-! # B. faults -/

/-! ## B0. the fault semantics is the interpreter's -/

/-- without faults `runSchedF` is `runSched` -/
theorem fault_free_is_runSched (s : Sys) (sched : List Nat) :
    runSchedF s (sched.map (fun i => (i, none))) = runSched s sched := runSchedF_noFault s sched

/-- one fault plan per thread (`RunCfg.plan`, indexed by the thread's own storage-call count) is an
    instance of `runSchedF`, so every theorem below covers it -/
theorem fault_per_thread_plans_are_covered (plans : Nat → Nat → Option Err) (s : Sys) (sched : List Nat) :
    ∃ sched', sched'.map Prod.fst = sched ∧ runSchedP plans s sched = runSchedF s sched' :=
  runSchedP_is_runSchedF plans s sched

/-- **one scheduler step under per-thread plans is one `RState.step` of the non-transactional
    interpreter** on the shared store, with the thread's plan and the thread's call counter: same store
    state afterwards, same answer to the continuation, same counter -/
theorem fault_step_is_interpreter_step (plans : Nat → Nat → Option Err) (s : Sys) (i : Nat) (t : Thr) (c : Call) (k : Res → Prog Out)
    (hi : s.thr[i]? = some t) (hp : t.prog = .call c k) (rs : RState) (hss : rs.ss = s.ss) (hix : rs.idx = thrIdx s i) :
    (s.stepP plans i).ss = (rs.step { plan := plans i, tx := false } c).1.ss ∧
    (s.stepP plans i).thr[i]? = some (Thr.ofProg (k (rs.step { plan := plans i, tx := false } c).2)) ∧
    thrIdx (s.stepP plans i) i = (rs.step { plan := plans i, tx := false } c).1.idx :=
  let h := stepP_is_RState_step plans s i t c k hi hp rs hss hix
  ⟨h.1, h.2.1, h.2.2.1⟩

/-- a thread scheduled alone (often enough) runs its program exactly as `run` does under its plan -/
theorem fault_thread_alone_is_run (plans : Nat → Nat → Option Err) (s : Sys) (i : Nat) (t : Thr) (hi : s.thr[i]? = some t) :
    ∃ n, ∀ m, n ≤ m →
      (runSchedP plans s (List.replicate m i)).ss
        = (run { plan := plans i, tx := false } { ss := s.ss, idx := thrIdx s i } t.prog).1.ss ∧
      (runSchedP plans s (List.replicate m i)).outs[i]?
        = some (some (run { plan := plans i, tx := false } { ss := s.ss, idx := thrIdx s i } t.prog).2) :=
  runSchedP_alone_is_run plans t.prog s i t _ hi rfl rfl rfl

/-! ## B1. The final state is the one the sequential order of the non-failed steps produces -/

/-- **A step hit by a fault leaves the shared store unchanged**; every other step is exactly one store
    operation.  (Only storage calls can be hit.) -/
theorem fault_failed_step_leaves_store_unchanged (s : Sys) (x : Nat × Option Err) :
    (s.stepF x = s) ∨
    (∃ c e, c.quiet = false ∧ x.2 = some e ∧ (s.stepF x).ss = s.ss ∧ (s.stepF x).trace = s.trace ++ [(x.1, c, .fail e)]) ∨
    (∃ c, (s.stepF x).ss = (s.ss.exec c).1 ∧ (s.stepF x).trace = s.trace ++ [(x.1, c, (s.ss.exec c).2)]) :=
  stepF_store_cases s x

/-- **Every schedule with every choice of faults is a sequential order of atomic store operations**:
    the final store is the fold of `SState.exec` over the calls of the steps NOT hit by a fault
    (`okTrace`), in trace order; each of their recorded answers is the store's answer at that point;
    a step hit by a fault is a storage call and recorded `.fail`; every thread advanced along its own
    program by its own sub-trace (failed calls included, with the answer `.fail e`).  Any threads
    (atomic or split rotation), any schedule, any faults, any initial state. -/
theorem fault_final_state_is_sequential (s : Sys) (sched : List (Nat × Option Err)) :
    (runSchedF s sched).trace = s.trace ++ newTraceF s sched ∧
    (runSchedF s sched).ss = execAll s.ss (traceCalls (okTrace (newTraceF s sched))) ∧
    Genuine s.ss (okTrace (newTraceF s sched)) ∧
    (∀ e ∈ newTraceF s sched, e.2.2.isFail = true → e.2.1.quiet = false) ∧
    (runSchedF s sched).thr.length = s.thr.length ∧
    (∀ i t0, s.thr[i]? = some t0 →
      ∃ t, (runSchedF s sched).thr[i]? = some t ∧ Prog.follows t0.prog (subTrace i (newTraceF s sched)) t.prog) ∧
    (∀ e ∈ newTraceF s sched, e.1 < s.thr.length) :=
  let R := reachF_newTraceF s sched
  ⟨R.trace, R.ss, R.genuine, R.faults, R.len, R.thr, R.inRange⟩

/-- split threads under faults never rotate either -/
theorem fault_split_never_rotates (s : Sys) (sched : List (Nat × Option Err)) :
    ∀ e ∈ newTraceF s.split sched, e.2.1.rotateId = none :=
  reachF_noRotate (reachF_newTraceF s.split sched) (split_noRotate s)

/-! ## B2. Token generation never returns the same value twice, faults or not -/

/-- any two minting steps that were not hit by a fault return different values (a step hit by a fault
    returns no value) -/
theorem fault_minted_values_distinct (s : Sys) (sched : List (Nat × Option Err)) (a b i j : Nat) (c1 c2 : Call) (r1 r2 : Res)
    (hab : a < b)
    (ha : (newTraceF s sched)[a]? = some (i, c1, r1)) (hb : (newTraceF s sched)[b]? = some (j, c2, r2))
    (h1 : c1.mints = true) (h2 : c2.mints = true) (f1 : r1.isFail = false) (f2 : r2.isFail = false) :
    ∃ n1 n2, r1 = .nat n1 ∧ r2 = .nat n2 ∧ n1 ≠ n2 ∧ n1 + c1.mintWidth ≤ n2 ∧ s.ss.next ≤ n1 := by
  obtain ⟨l1, l2, l3, htr⟩ := okTrace_two _ a b _ _ hab ha hb f1 f2
  have hg := (reachF_newTraceF s sched).genuine
  rw [htr] at hg
  obtain ⟨n1, n2, e1, e2, h0, hw⟩ := minted_increasing s.ss l1 l2 l3 i j c1 c2 r1 r2 hg h1 h2
  refine ⟨n1, n2, e1, e2, ?_, hw, h0⟩
  have : 1 ≤ c1.mintWidth := by cases c1 <;> simp [Call.mintWidth]
  omega

theorem fault_minted_value_not_in_initial_store (s : Sys) (hf : Fresh s.ss) (sched : List (Nat × Option Err))
    (a i : Nat) (c : Call) (r : Res)
    (ha : (newTraceF s sched)[a]? = some (i, c, r)) (hm : c.mints = true) (f : r.isFail = false) :
    ∃ n, r = .nat n ∧ ∀ k, n ≤ k →
      alookup s.ss.store.codes k = none ∧ alookup s.ss.store.access k = none ∧ alookup s.ss.store.refresh k = none ∧
      alookup s.ss.store.par k = none ∧ alookup s.ss.store.device k = none ∧
      (∀ sig d, alookup s.ss.store.device sig = some d → d.userSig ≠ k) ∧
      (∀ rid, alookup s.ss.store.atIdx rid ≠ some k) ∧ (∀ rid, alookup s.ss.store.rtIdx rid ≠ some k) := by
  obtain ⟨l1, l2, htr⟩ := okTrace_one _ a _ ha f
  have hg := (reachF_newTraceF s sched).genuine
  rw [htr] at hg
  obtain ⟨n, hr, hn⟩ := minted_single s.ss l1 l2 i c r hg hm
  exact ⟨n, hr, fun k hk => fresh_absent s.ss hf k (Nat.le_trans hn hk)⟩

theorem fault_fresh_invariant (s : Sys) (sched : List (Nat × Option Err)) (hf : Fresh s.ss) : Fresh (runSchedF s sched).ss := by
  rw [(reachF_newTraceF s sched).ss]; exact execAll_Fresh _ _ hf

/-! ## B3. Handed tokens are active or were invalidated by a concurrent request, faults or not -/

/-- **Access tokens**, for the atomic-rotation threads and for the split-rotation threads of any list of
    operations, any schedule, any faults: the finished thread created the token it hands out, and the
    record is present in the final store, or a later step of ANOTHER thread that was NOT hit by a fault
    is a removing call for it. -/
theorem fault_handed_access_token_active_or_invalidated_by_other (m : MState) (ops : List Op) (s0 : Sys)
    (hs : s0 = Sys.init m ops ∨ s0 = Sys.initSplit m ops) (sched : List (Nat × Option Err))
    (i : Nat) (o : Out) (atk : Nat)
    (hout : (runSchedF s0 sched).outs[i]? = some (some o)) (ha : o.handedAccess = some atk) :
    ∃ q l1 l2, (runSchedF s0 sched).trace = l1 ++ (i, .createAccess q, .nat atk) :: l2 ∧
      (alookup (runSchedF s0 sched).ss.store.access atk = some q ∨
        ∃ e ∈ l2, e.1 ≠ i ∧ e.2.2.isFail = false ∧ e.2.1.removesAccess atk q.id = true) := by
  have ho : s0.Owned := by rcases hs with rfl | rfl; exact init_owned m ops; exact initSplit_owned m ops
  have h0 : s0.trace = [] := by rcases hs with rfl | rfl <;> rfl
  rw [← newTraceF_of_empty s0 h0]
  exact handed_access_F s0 ho sched i o atk hout ha

/-- **Refresh tokens**, likewise: present AND ACTIVE in the final store, or removed / deactivated by a
    later, non-failed step of another thread. -/
theorem fault_handed_refresh_token_active_or_invalidated_by_other (m : MState) (hf : Fresh m.ss) (ops : List Op) (s0 : Sys)
    (hs : s0 = Sys.init m ops ∨ s0 = Sys.initSplit m ops) (sched : List (Nat × Option Err))
    (i : Nat) (o : Out) (rt : Nat)
    (hout : (runSchedF s0 sched).outs[i]? = some (some o)) (ha : o.handedRefresh = some rt) :
    ∃ a q l1 l2, (runSchedF s0 sched).trace = l1 ++ (i, .createRefresh a q, .nat rt) :: l2 ∧
      (alookup (runSchedF s0 sched).ss.store.refresh rt = some { active := true, atSig := a, req := q } ∨
        ∃ e ∈ l2, e.1 ≠ i ∧ e.2.2.isFail = false ∧ e.2.1.removesRefresh rt q.id = true) := by
  have ho : s0.Owned := by rcases hs with rfl | rfl; exact init_owned m ops; exact initSplit_owned m ops
  have h0 : s0.trace = [] := by rcases hs with rfl | rfl <;> rfl
  have hf0 : Fresh s0.ss := by rcases hs with rfl | rfl <;> exact hf
  rw [← newTraceF_of_empty s0 h0]
  exact handed_refresh_F s0 ho hf0 sched i o rt hout ha

/-! ## B4. What was dead stays dead, faults or not -/

/-- no interleaving and no fault resurrects a used code, a rotated / revoked refresh token, a used device
    code or a consumed request URI (non-transactional reference store: nothing is ever rolled back) -/
theorem fault_dead_stays_dead (s : Sys) (sched : List (Nat × Option Err)) :
    (∀ sig, CodesBelow s.ss → CodeDead s.ss sig → CodeDead (runSchedF s sched).ss sig) ∧
    (∀ sig, RTDead s.ss sig → RTDead (runSchedF s sched).ss sig) ∧
    (∀ sig, DevDead s.ss sig → DevDead (runSchedF s sched).ss sig) ∧
    (∀ u, ParDead s.ss u → ParDead (runSchedF s sched).ss u) := by
  rw [(reachF_newTraceF s sched).ss]
  refine ⟨fun sig hb hd => ?_, fun sig hd => ?_, fun sig hd => ?_, fun u hd => ?_⟩
  · exact (execAll_preserves (fun ss => CodesBelow ss ∧ CodeDead ss sig)
      (fun ss c h => ⟨exec_CodesBelow ss c h.1, exec_CodeDead ss c sig h.1 h.2⟩) _ _ ⟨hb, hd⟩).2
  · exact execAll_preserves (fun ss => RTDead ss sig) (fun ss c h => exec_RTDead ss c sig h) _ _ hd
  · exact execAll_preserves (fun ss => DevDead ss sig) (fun ss c h => exec_DevDead ss c sig h) _ _ hd
  · exact execAll_preserves (fun ss => ParDead ss u) (fun ss c h => exec_ParDead ss c u h) _ _ hd

/-! # Non-vacuity: concrete interleavings (kernel evaluation: `decide +kernel` has the kernel evaluate
    the `Decidable` instance; the elaborator's `decide` needs a recursion depth beyond 4096 for these runs) -/

def c19cClient : Client :=
  { id := "c1", grants := ["authorization_code", "refresh_token"], scopes := ["offline"], redirects := ["https://c1/cb"] }

/-- a registered client and one issued authorization code (signature 1, request id 0; mint counter 2) -/
def c19cState1 : MState :=
  after {} [ .setClient c19cClient,
             .authorize { clientId := "c1", responseTypes := ["code"], redirect := "https://c1/cb", scopes := ["offline"],
                          grantScopes := ["offline"], subject := "u" } ]

def c19cRedeem : Op :=
  .redeem { clientId := "c1", credOk := true, code := { sig := some 1, exact := true }, redirect := "https://c1/cb" }

/-- … after the code has been redeemed: access token 3, refresh token 4 of request id 0 (mint counter 5) -/
def c19cState : MState := (step c19cState1 c19cRedeem).1

def c19cRefresh : Op := .refresh { clientId := "c1", credOk := true, token := { sig := some 4, exact := true } }
def c19cIntroAT : Op := .introspect { token := { sig := some 3, exact := true } }
def c19cIntroRT : Op := .introspect { token := { sig := some 4, exact := true }, hint := .refresh }

def c19cHanded (s : Sys) : List (Option Nat × Option Nat) :=
  s.outs.map (fun o => match o with
    | some o => (o.handedAccess, o.handedRefresh)
    | none => (none, none))
def c19cIsActive : Option Out → Bool | some (.active _ _) => true | _ => false
def c19cIsErr : Option Out → Bool | some (.err _) => true | _ => false
def c19cAccess (s : Sys) : List Nat := s.ss.store.access.map (·.1)
def c19cRefreshT (s : Sys) : List (Nat × Bool) := s.ss.store.refresh.map (fun p => (p.1, p.2.active))
/-- 1 `revokeRefresh`, 2 `revokeAccess`, 3 `rotateRefresh`, 4 `getAccess`, 5 `getRefresh`, 6 `createAccess`,
    7 `createRefresh`, 8 `rollbackTx`, 0 anything else -/
def c19cTag : Call → Nat
  | .revokeRefresh _ => 1 | .revokeAccess _ => 2 | .rotateRefresh _ _ => 3 | .getAccess _ => 4 | .getRefresh _ => 5
  | .createAccess _ => 6 | .createRefresh _ _ => 7 | .rollbackTx => 8 | _ => 0
/-- (thread, call tag, hit by a fault) -/
def c19cTags (s : Sys) : List (Nat × Nat × Bool) := s.trace.map (fun e => (e.1, c19cTag e.2.1, e.2.2.isFail))
def c19cMinted (s : Sys) : List Nat :=
  s.trace.filterMap (fun e => if e.2.1.mints then (match e.2.2 with | .nat n => some n | _ => none) else none)

/-- the operations of the examples have endpoint programs (hypothesis of `split_operation_same_as_step`) -/
example : (∃ p, c19cRefresh.prog c19cState = some p) ∧ (∃ p, c19cIntroAT.prog c19cState = some p) := ⟨⟨_, rfl⟩, ⟨_, rfl⟩⟩

/-- the hypothesis `Fresh` of the refresh-token theorems holds of the example state -/
example : Fresh c19cState.ss := step_Fresh _ _ (after_Fresh _ _ fresh_empty)

/-- **refresh ‖ introspection of the grant's access token, the introspection scheduled BETWEEN the two
    halves of the rotation.**  After the first half (5 steps of thread 0) refresh token 4 is inactive
    and access token 3 is still stored; thread 0's next call is `revokeAccess`. -/
example :
    let s := runSched (Sys.initSplit c19cState [c19cRefresh, c19cIntroAT]) [0, 0, 0, 0, 0]
    c19cTags s = [(0, 0, false), (0, 0, false), (0, 5, false), (0, 0, false), (0, 1, false)] ∧
    c19cAccess s = [3] ∧ c19cRefreshT s = [(4, false)] ∧
    (s.thr.map (fun t => match t.prog with | .call c _ => c19cTag c | _ => 99)) = [2, 4] := by
  decide +kernel

/-- … the introspection then answers ACTIVE for access token 3 (whose refresh token is already dead);
    thread 0 goes on, removes 3, creates 6 and 7.  Ten steps, none a `rotateRefresh`; the final store is
    the fold of the ten store operations; the handed pair (6, 7) is present and active; the minted
    values 5 (request id), 6, 7 are distinct. -/
example :
    let s := runSched (Sys.initSplit c19cState [c19cRefresh, c19cIntroAT]) [0, 0, 0, 0, 0, 1, 0, 0, 0, 0]
    s.allDone = true ∧ c19cHanded s = [(some 6, some 7), (none, none)] ∧ s.outs.map c19cIsActive = [false, true] ∧
    c19cTags s = [(0, 0, false), (0, 0, false), (0, 5, false), (0, 0, false), (0, 1, false), (1, 4, false),
                  (0, 2, false), (0, 6, false), (0, 7, false), (0, 0, false)] ∧
    s.ss.store = (execAll c19cState.ss (traceCalls s.trace)).store ∧
    s.ss.next = (execAll c19cState.ss (traceCalls s.trace)).next ∧
    c19cAccess s = [6] ∧ c19cRefreshT s = [(4, false), (7, true)] ∧ c19cMinted s = [5, 6, 7] := by
  decide +kernel

/-- the same schedule under the ATOMIC rotation: after five steps of thread 0 the whole rotation is done,
    the introspection finds no access token 3 and answers inactive — the observation above is specific
    to the split semantics (no C19 clause speaks about it) -/
example :
    let s := runSched (Sys.init c19cState [c19cRefresh, c19cIntroAT]) [0, 0, 0, 0, 0, 1, 1, 0, 0, 0]
    s.allDone = true ∧ c19cHanded s = [(some 6, some 7), (none, none)] ∧ s.outs.map c19cIsActive = [false, false] ∧
    (c19cTags s).map (·.2.1) = [0, 0, 5, 0, 3, 4, 5, 6, 7, 0] := by
  decide +kernel

/-- refresh ‖ introspection of the REFRESH token between the two halves: inactive (the first half is the
    one that kills it) -/
example :
    let s := runSched (Sys.initSplit c19cState [c19cRefresh, c19cIntroRT]) [0, 0, 0, 0, 0, 1, 1, 0, 0, 0, 0]
    s.allDone = true ∧ c19cHanded s = [(some 6, some 7), (none, none)] ∧ s.outs.map c19cIsActive = [false, false] ∧
    (c19cTags s).map (·.2.1) = [0, 0, 5, 0, 1, 5, 4, 2, 6, 7, 0] := by
  decide +kernel

/-- **two split refreshes of the same refresh token, the halves interleaved**: thread 1's first half runs
    between thread 0's halves, and thread 1's SECOND half (`revokeAccess`, step 12) runs after thread 0
    created its new access token 7 (step 11) and before it created refresh token 8: both requests
    succeed; thread 0's access token 7 is gone at the end — removed by a `revokeAccess` step of the
    other thread after the creating step (second disjunct of
    `split_handed_access_token_active_or_invalidated_by_other`) — its refresh token 8 is live, thread 1's
    pair (9, 10) is live; the final store is the fold of the 18 operations. -/
example :
    let s := runSched (Sys.initSplit c19cState [c19cRefresh, c19cRefresh]) [0, 0, 0, 0, 1, 1, 1, 1, 0, 1, 0, 0, 1, 0, 0, 1, 1, 1]
    s.allDone = true ∧ c19cHanded s = [(some 7, some 8), (some 9, some 10)] ∧
    ((c19cTags s).drop 8).map (fun e => (e.1, e.2.1)) =
      [(0, 1), (1, 1), (0, 2), (0, 6), (1, 2), (0, 7), (0, 0), (1, 6), (1, 7), (1, 0)] ∧
    c19cAccess s = [9] ∧ c19cRefreshT s = [(4, false), (8, true), (10, true)] ∧
    s.ss.store = (execAll c19cState.ss (traceCalls s.trace)).store ∧ c19cMinted s = [5, 6, 7, 8, 9, 10] := by
  decide +kernel

/-- **a fault between the halves** (split threads: the second half `revokeAccess` is hit): the refresh
    request fails (`server_error`, after the no-op `rollbackTx` of the plain store), refresh token 4 stays
    inactive, access token 3 stays stored; the final store is the fold of the six steps not hit by the
    fault.  (A harness that injects faults at the `RotateRefreshToken` interface cannot produce this run;
    `runSchedF` over split threads over-approximates it.) -/
example :
    let s := runSchedF (Sys.initSplit c19cState [c19cRefresh])
      (List.replicate 5 (0, none) ++ [(0, some .generic)] ++ List.replicate 5 (0, none))
    s.allDone = true ∧ s.outs.map c19cIsErr = [true] ∧
    c19cTags s = [(0, 0, false), (0, 0, false), (0, 5, false), (0, 0, false), (0, 1, false), (0, 2, true), (0, 8, false)] ∧
    (okTrace s.trace).length = 6 ∧
    s.ss.store = (execAll c19cState.ss (traceCalls (okTrace s.trace))).store ∧
    c19cAccess s = [3] ∧ c19cRefreshT s = [(4, false)] := by
  decide +kernel

/-- **a fault on the atomic rotation** (the threads of `Sys.init`): nothing changes in the store -/
example :
    let s := runSchedF (Sys.init c19cState [c19cRefresh])
      (List.replicate 4 (0, none) ++ [(0, some .generic)] ++ List.replicate 5 (0, none))
    s.allDone = true ∧ s.outs.map c19cIsErr = [true] ∧
    c19cTags s = [(0, 0, false), (0, 0, false), (0, 5, false), (0, 0, false), (0, 3, true), (0, 8, false)] ∧
    s.ss.store = c19cState.ss.store ∧ c19cAccess s = [3] ∧ c19cRefreshT s = [(4, true)] := by
  decide +kernel

/-- a fault plan for thread 1 only: its third storage call fails -/
def c19cPlans : Nat → Nat → Option Err := fun i n => if i = 1 ∧ n = 2 then some .generic else none

/-- **per-thread fault plans, two refreshes of the same token, alternating**: thread 1's rotation (its
    third storage call; `newId` and `beginTx` do not count) fails, thread 0 succeeds and its pair (7, 8)
    is live; a thread scheduled alone under a plan ends exactly where the sequential faulty interpreter
    `stepWith { plan := … }` of C18 ends. -/
example :
    let s := runSchedP c19cPlans (Sys.init c19cState [c19cRefresh, c19cRefresh]) ((List.range 9).flatMap (fun _ => [0, 1]))
    s.allDone = true ∧ c19cHanded s = [(some 7, some 8), (none, none)] ∧ s.outs.map c19cIsErr = [false, true] ∧
    (c19cTags s).filter (·.2.2) = [(1, 3, true)] ∧
    s.ss.store = (execAll c19cState.ss (traceCalls (okTrace s.trace))).store ∧
    c19cAccess s = [7] ∧ c19cRefreshT s = [(4, false), (8, true)] ∧
    (runSchedP c19cPlans (Sys.init c19cState [c19cRefresh, c19cRefresh]) (List.replicate 9 1)).ss.store
      = (stepWith { plan := c19cPlans 1 } c19cState c19cRefresh).1.ss.store := by
  decide +kernel

end Fosite.Props.C19

/-
  C01, second half — "Every later presentation of the same code is refused (as invalid_grant once the
  caller has authenticated as a client), and from that moment every access and refresh token that was
  obtained by redeeming that code, directly or through later refreshes, is inactive."

  Reading.  "Obtained by redeeming that code, directly or through later refreshes" is the least set of
  tokens closed under: the pair returned by a successful redemption of the code; the pair returned by a
  successful refresh that presented a refresh token of the set (`family`, computed from the outcomes
  of the history alone).  "Inactive": an access token's record is gone (`ATGone`), a refresh token's
  record is inactive or gone (`RTDead`); introspection, the refresh flow and the revocation endpoint all
  decide from exactly these records (C09 `accessVerdict` / `refresh_success_needs_active`).
  "Once the caller has authenticated as a client": `authVerdict … = .ok client` and the client is
  registered for the authorization_code grant (otherwise the token endpoint answers unauthorized_client
  before it looks at the code).  Fault-free histories (`step`); storage faults are C18's subject.
-/
import Fosite.Proofs.FamilyHistory
import Fosite.Props.C01
namespace Fosite.Props.C01b
open Fosite.Model

/-- the tokens derived from code `c`, one outcome at a time: (access-token signatures, refresh-token signatures) -/
def famStep (c : Nat) (F : List Nat × List Nat) : Op × Out → List Nat × List Nat
  | (.redeem q, .tokens a r _ _ _) => if q.code.sig = some c then (a :: F.1, r.toList ++ F.2) else F
  | (.refresh q, .tokens a r _ _ _) =>
    match q.token.sig with
    | some t => if t ∈ F.2 then (a :: F.1, r.toList ++ F.2) else F
    | none => F
  | _ => F

/-- the family of code `c` after a trace, starting from `F` -/
def familyFrom (c : Nat) (F : List Nat × List Nat) (tr : List (Op × Out)) : List Nat × List Nat := tr.foldl (famStep c) F

/-- the family of code `c` in a history from the very beginning -/
def family (c : Nat) (tr : List (Op × Out)) : List Nat × List Nat := familyFrom c ([], []) tr

/-- the invariants the theorems assume of the starting state (they hold initially and every operation
    preserves them: `GInv` C04, `CodesBelow` C01, `KeysNodup` here) -/
structure WF (ss : SState) : Prop where
  ginv : GInv ss
  below : CodesBelow ss
  nodup : KeysNodup ss

theorem init_WF : WF ({} : MState).ss := ⟨init_GInv, Fosite.Props.C01.init_codesBelow, init_KeysNodup⟩

theorem step_WF (s : MState) (op : Op) (h : WF s.ss) : WF (step s op).1.ss :=
  ⟨step_GInv s op h.ginv, Fosite.Props.C01.step_codesBelow s op h.below, step_KeysNodup s op h.nodup⟩

theorem after_WF (ops : List Op) (s : MState) (h : WF s.ss) : WF (after s ops).ss := by
  induction ops generalizing s with
  | nil => exact h
  | cons op ops ih => exact ih _ (step_WF s op h)

/-- **Replay is refused and kills the grant** (one step, any state satisfying the invariant): an
    authenticated client entitled to the grant type presents a code that has been redeemed; the answer
    is `invalid_grant`, no access token of the code's authorization is stored any more and none of its
    refresh tokens is active. -/
theorem replay_refused_and_kills_grant (s : MState) (hinv : GInv s.ss) (q : RedeemReq) (client : Client)
    (c : Nat) (rec : CodeRec)
    (hauth : authVerdict s.ss.clients q.clientId q.credOk = .ok client)
    (hgrant : client.grants.contains "authorization_code" = true)
    (hsig : q.code.sig = some c) (hrec : alookup s.ss.store.codes c = some rec) (hdead : rec.active = false) :
    (step s (.redeem q)).2.1 = .err .invalid_grant ∧ GrantDead (step s (.redeem q)).1.ss rec.req.id := by
  have hp := step_prog s (.redeem q) (redeemProg s.cfg s.now q) rfl
  rw [hp.1, hp.2]
  exact run_redeem_replay {} plain_default s.cfg s.now q { ss := s.ss } hinv client c rec hauth hgrant hsig hrec hdead

/-- What one operation adds to the family carries the code's request id: family members are minted
    signatures whose records (while they exist) belong to the code's authorization. -/
theorem family_step_carries_request_id (s : MState) (op : Op) (c rid : Nat) (F : List Nat × List Nat)
    (hwf : WF s.ss) (hcode : ∀ rec, alookup s.ss.store.codes c = some rec → rec.req.id = rid)
    (hF : Carry s.ss F.1 F.2 rid) :
    Carry (step s op).1.ss (famStep c F (op, (step s op).2.1)).1 (famStep c F (op, (step s op).2.1)).2 rid := by
  have hcarry := step_Carry s op F.1 F.2 rid hwf.nodup hF
  -- extending the family by a pair that belongs to `rid`
  have extend : ∀ a r, TokensOf s.ss (step s op).1.ss rid a r →
      Carry (step s op).1.ss (a :: F.1) (r.toList ++ F.2) rid := by
    intro a r ⟨_, halt, ⟨x, hx, hxid⟩, hr⟩
    refine ⟨?_, ?_⟩
    · intro a' ha'
      rcases List.mem_cons.mp ha' with h | h
      · subst h; exact ⟨halt, fun x' hx' => by rw [hx] at hx'; cases hx'; exact hxid⟩
      · exact hcarry.1 a' h
    · intro t ht
      rcases List.mem_append.mp ht with h | h
      · cases r with
        | none => cases h
        | some t' =>
          simp only [Option.toList, List.mem_singleton] at h
          subst h
          obtain ⟨_, htlt, y, hy, hyid⟩ := hr t rfl
          exact ⟨htlt, fun y' hy' => by rw [hy] at hy'; cases hy'; exact hyid⟩
      · exact hcarry.2 t h
  cases op with
  | redeem q =>
    cases hout : (step s (.redeem q)).2.1 with
    | tokens a r i e sc =>
      simp only [famStep]
      by_cases hq : q.code.sig = some c
      · simp only [hq, if_true]
        have hp := step_prog s (.redeem q) (redeemProg s.cfg s.now q) rfl
        rw [hp.2] at hout
        obtain ⟨sig, rec, hsig, hrec, htok⟩ := redeem_tokens {} plain_default.1 s.cfg s.now q { ss := s.ss } a r i e sc hout
        rw [← hp.1] at htok
        rw [hq] at hsig; cases hsig
        rw [hcode rec hrec] at htok
        exact extend a r htok
      · simp only [hq, if_false]; exact hcarry
    | _ => exact hcarry
  | refresh q =>
    cases hout : (step s (.refresh q)).2.1 with
    | tokens a r i e sc =>
      simp only [famStep]
      cases hts : q.token.sig with
      | none => exact hcarry
      | some t =>
        simp only
        by_cases hm : t ∈ F.2
        · simp only [hm, if_true]
          have hp := step_prog s (.refresh q) (refreshProg s.cfg s.now q) rfl
          rw [hp.2] at hout
          obtain ⟨sig, rec, hsig, hrec, _, htok, _⟩ :=
            refresh_tokens {} plain_default.1 s.cfg s.now q { ss := s.ss } hwf.ginv a r i e sc hout
          rw [← hp.1] at htok
          rw [hts] at hsig; cases hsig
          rw [(hF.2 t hm).2 rec hrec] at htok
          exact extend a r htok
        · simp only [hm, if_false]; exact hcarry
    | _ => exact hcarry
  | _ => exact hcarry

theorem after_CodeOf (ops : List Op) (s : MState) (c rid : Nat) (hb : CodesBelow s.ss) (h : CodeOf s.ss c rid) :
    CodeOf (after s ops).ss c rid := by
  induction ops generalizing s with
  | nil => exact h
  | cons op ops ih => exact ih _ (Fosite.Props.C01.step_codesBelow s op hb) (step_CodeOf s op c rid hb h)

/-- Along any history, the family of `c` consists of minted signatures whose records carry the request
    id the code has (at the end of the history, hence at every moment it exists). -/
theorem family_carries_request_id (ops : List Op) (s : MState) (c rid : Nat) (F : List Nat × List Nat)
    (hwf : WF s.ss) (hF : Carry s.ss F.1 F.2 rid) (hend : CodeOf (after s ops).ss c rid) :
    Carry (after s ops).ss (familyFrom c F (trace s ops)).1 (familyFrom c F (trace s ops)).2 rid := by
  induction ops generalizing s F with
  | nil => exact hF
  | cons op ops ih =>
    have hcode : ∀ rec, alookup s.ss.store.codes c = some rec → rec.req.id = rid := by
      intro rec hl
      obtain ⟨rec', hl', hid'⟩ := after_CodeOf (op :: ops) s c rec.req.id hwf.below ⟨rec, hl, rfl⟩
      obtain ⟨rec'', hl'', hid''⟩ := hend
      rw [hl'] at hl''; cases hl''
      rw [← hid', hid'']
    exact ih (step s op).1 (famStep c F (op, (step s op).2.1)) (step_WF s op hwf)
      (family_step_carries_request_id s op c rid F hwf hcode hF) hend

/-- all members of `F` are unusable -/
def FamilyDead (ss : SState) (F : List Nat × List Nat) : Prop :=
  (∀ a ∈ F.1, ATGone ss a) ∧ (∀ t ∈ F.2, RTDead ss t)

/-- Once the code and every member of its family are dead, the family never grows again and stays dead,
    whatever operations follow. -/
theorem dead_family_is_final (ops : List Op) (s : MState) (c : Nat) (F : List Nat × List Nat)
    (hwf : WF s.ss) (hcode : CodeDead s.ss c) (hdead : FamilyDead s.ss F) :
    familyFrom c F (trace s ops) = F ∧ FamilyDead (after s ops).ss F := by
  induction ops generalizing s with
  | nil => exact ⟨rfl, hdead⟩
  | cons op ops ih =>
    have hsame : famStep c F (op, (step s op).2.1) = F := by
      cases op with
      | redeem q =>
        cases hout : (step s (.redeem q)).2.1 with
        | tokens a r i e sc =>
          simp only [famStep]
          by_cases hq : q.code.sig = some c
          · obtain ⟨sig, rec, hs, _, hrec, hact, _⟩ :=
              Fosite.Props.C01.redeem_success_needs_active_and_kills s q a r i e sc hout
            rw [hq] at hs; cases hs
            obtain ⟨rec', hrec', hina⟩ := hcode
            rw [hrec] at hrec'; cases hrec'
            rw [hact] at hina; cases hina
          · simp only [hq, if_false]
        | _ => rfl
      | refresh q =>
        cases hout : (step s (.refresh q)).2.1 with
        | tokens a r i e sc =>
          simp only [famStep]
          cases hts : q.token.sig with
          | none => rfl
          | some t =>
            simp only
            by_cases hm : t ∈ F.2
            · have hp := step_prog s (.refresh q) (refreshProg s.cfg s.now q) rfl
              rw [hp.2] at hout
              obtain ⟨sig, rec, hsig, hrec, hact, _⟩ :=
                refresh_tokens {} plain_default.1 s.cfg s.now q { ss := s.ss } hwf.ginv a r i e sc hout
              rw [hts] at hsig; cases hsig
              have := (hdead.2 t hm).2 rec hrec
              rw [hact] at this; cases this
            · simp only [hm, if_false]
        | _ => rfl
      | _ => rfl
    have hcode' : CodeDead (step s op).1.ss c := Fosite.Props.C01.dead_code_stays_dead s op c hwf.below hcode
    have hdead' : FamilyDead (step s op).1.ss F :=
      ⟨fun a ha => step_ATGone s op a (hdead.1 a ha), fun t ht => step_RTDead s op t (hdead.2 t ht)⟩
    have := ih (step s op).1 (step_WF s op hwf) hcode' hdead'
    simp only [trace, familyFrom, List.foldl_cons, after]
    rw [hsame]
    exact this

/-- **C01 (replay kills the family, for good).**  In any history `ops1 ++ replay :: ops2` from any state
    satisfying the invariants: if at the moment of the replay the presented code is known and has been
    redeemed, and the caller authenticates as a client registered for the grant type, then the replay is
    answered `invalid_grant`, and at the end of the history — for every continuation `ops2`, i.e. at every
    later moment — every access token and every refresh token that was obtained by redeeming that code,
    directly or through any chain of refreshes, before or after the replay, is unusable.  (After the
    replay the family cannot grow: `dead_family_is_final`.) -/
theorem replay_kills_family (ops1 ops2 : List Op) (s : MState) (hwf : WF s.ss) (c : Nat) (q : RedeemReq)
    (client : Client) (rec : CodeRec)
    (hsig : q.code.sig = some c)
    (hrec : alookup (after s ops1).ss.store.codes c = some rec) (hdead : rec.active = false)
    (hauth : authVerdict (after s ops1).ss.clients q.clientId q.credOk = .ok client)
    (hgrant : client.grants.contains "authorization_code" = true) :
    (step (after s ops1) (.redeem q)).2.1 = .err .invalid_grant ∧
    FamilyDead (after s (ops1 ++ .redeem q :: ops2)).ss (family c (trace s (ops1 ++ .redeem q :: ops2))) := by
  have hwf1 := after_WF ops1 s hwf
  obtain ⟨hout, hgd⟩ := replay_refused_and_kills_grant (after s ops1) hwf1.ginv q client c rec hauth hgrant hsig hrec hdead
  refine ⟨hout, ?_⟩
  -- phase 1: up to the replay the family carries the code's request id
  have hcarry1 := family_carries_request_id ops1 s c rec.req.id ([], []) hwf
    ⟨fun a (h : a ∈ ([] : List Nat)) => (by cases h), fun t (h : t ∈ ([] : List Nat)) => (by cases h)⟩ ⟨rec, hrec, rfl⟩
  -- the replay itself adds nothing and kills every member
  have hcarry2 := step_Carry (after s ops1) (.redeem q) _ _ rec.req.id hwf1.nodup hcarry1
  have hfd : FamilyDead (step (after s ops1) (.redeem q)).1.ss (familyFrom c ([], []) (trace s ops1)) := by
    refine ⟨?_, ?_⟩
    · intro a ha
      obtain ⟨hlt, hx⟩ := hcarry2.1 a ha
      refine ⟨hlt, ?_⟩
      cases hl : alookup (step (after s ops1) (.redeem q)).1.ss.store.access a with
      | none => rfl
      | some x => exact absurd (hx x hl) (hgd.1 a x hl)
    · intro t ht
      obtain ⟨hlt, hy⟩ := hcarry2.2 t ht
      exact ⟨hlt, fun y hl => hgd.2 t y hl (hy y hl)⟩
  have hcd : CodeDead (step (after s ops1) (.redeem q)).1.ss c :=
    Fosite.Props.C01.dead_code_stays_dead _ _ c hwf1.below ⟨rec, hrec, hdead⟩
  -- phase 2: nothing is derived any more, the dead stay dead
  obtain ⟨hfin, hdeadfin⟩ := dead_family_is_final ops2 (step (after s ops1) (.redeem q)).1 c _
    (step_WF _ _ hwf1) hcd hfd
  rw [after_append, trace_append]
  simp only [after, trace, family, familyFrom, List.foldl_append, List.foldl_cons]
  have hstep : famStep c (List.foldl (famStep c) ([], []) (trace s ops1)) (.redeem q, (step (after s ops1) (.redeem q)).2.1)
      = List.foldl (famStep c) ([], []) (trace s ops1) := by rw [hout]; rfl
  rw [hstep]
  simp only [familyFrom] at hfin hdeadfin
  rw [hfin]
  exact hdeadfin

/-- From the initial state. -/
theorem replay_kills_family_from_init (ops1 ops2 : List Op) (c : Nat) (q : RedeemReq) (client : Client) (rec : CodeRec)
    (hsig : q.code.sig = some c)
    (hrec : alookup (after {} ops1).ss.store.codes c = some rec) (hdead : rec.active = false)
    (hauth : authVerdict (after {} ops1).ss.clients q.clientId q.credOk = .ok client)
    (hgrant : client.grants.contains "authorization_code" = true) :
    (step (after {} ops1) (.redeem q)).2.1 = .err .invalid_grant ∧
    FamilyDead (after {} (ops1 ++ .redeem q :: ops2)).ss (family c (trace {} (ops1 ++ .redeem q :: ops2))) :=
  replay_kills_family ops1 ops2 {} init_WF c q client rec hsig hrec hdead hauth hgrant

end Fosite.Props.C01b

namespace Fosite.Props.C01b
open Fosite.Model

/-! ### non-vacuity: a code is redeemed, the refresh token is exchanged, then the code is replayed; the
    hypotheses of `replay_kills_family` hold at the replay and the family has four members -/

def exBefore : List Op :=
  [ .setCfg { refreshScopes := [] },
    .setClient { id := "c", isPublic := true, grants := ["refresh_token", "authorization_code"], responseTypes := ["code"] },
    .authorize { clientId := "c", responseTypes := ["code"] },
    .redeem { clientId := "c", credOk := true, code := { sig := some 1, exact := true } },
    .refresh { clientId := "c", credOk := true, token := { sig := some 4, exact := true } } ]

def exReplay : RedeemReq := { clientId := "c", credOk := true, code := { sig := some 1, exact := true } }

def exAfter : List Op :=
  [ .refresh { clientId := "c", credOk := true, token := { sig := some 7, exact := true } },
    .introspect { token := { sig := some 6, exact := true } } ]

example : family 1 (trace {} (exBefore ++ .redeem exReplay :: exAfter)) = ([6, 3], [7, 4]) := by decide
example : ((alookup (after {} exBefore).ss.store.codes 1).map (·.active)) = some false := by decide
example : (match authVerdict (after {} exBefore).ss.clients exReplay.clientId exReplay.credOk with
    | .ok client => client.grants.contains "authorization_code" | .error _ => false) = true := by decide
/-- before the replay the newest pair is live … -/
example : (alookup (after {} exBefore).ss.store.access 6).isSome = true ∧
    ((alookup (after {} exBefore).ss.store.refresh 7).map (·.active)) = some true := by decide
/-- … and the refresh attempted after the replay is refused -/
example : ((trace {} (exBefore ++ .redeem exReplay :: exAfter)).map (fun p => match p.2 with | .err e => some e | _ => none)).drop 5
    = [some .invalid_grant, some .invalid_grant, none] := by decide

end Fosite.Props.C01b

/-
  C01 — an authorization code yields tokens at most once; a used code never redeems again.
  Property theorems only (lemmas: `Fosite/Proofs`).  All statements quantify over every initial
  state satisfying the stated invariant, every history `ops : List Op` and every code.
-/
import Fosite.Proofs.History
namespace Fosite.Props.C01
open Fosite.Model

/-- the operation is a redemption presenting a credential whose signature is `sig`, and it returned tokens -/
def isRedeemSuccess (sig : Nat) : Op × Out → Bool
  | (.redeem q, .tokens _ _ _ _ _) => q.code.sig == some sig
  | _ => false

/-- The invariant the theorems assume of the starting state holds initially … -/
theorem init_codesBelow : CodesBelow ({} : MState).ss := by
  intro sig rec h; simp [alookup] at h

/-- … and is preserved by every operation. -/
theorem step_codesBelow (s : MState) (op : Op) (h : CodesBelow s.ss) : CodesBelow (step s op).1.ss :=
  step_preserves CodesBelow exec_CodesBelow (fun _ _ h => h) (fun _ _ _ h => h) s op h

/-- One step: whatever the request looks like, a redemption that returns tokens found the code
    record *active* and an exact (MAC-verified) copy of the code, and leaves the record inactive. -/
theorem redeem_success_needs_active_and_kills (s : MState) (q : RedeemReq) (a r i e sc)
    (h : (step s (.redeem q)).2.1 = .tokens a r i e sc) :
    ∃ sig rec, q.code.sig = some sig ∧ q.code.exact = true ∧
      alookup s.ss.store.codes sig = some rec ∧ rec.active = true ∧
      CodeDead (step s (.redeem q)).1.ss sig := by
  have hp := step_prog s (.redeem q) (redeemProg s.cfg s.now q) rfl
  rw [hp.2] at h
  obtain ⟨sig, rec, client, hsig, hrec, hact, hex, _, _, _, _, _, _, _, _, _, _, hdead⟩ :=
    (redeem_success {} plain_default.1 s.cfg s.now q { ss := s.ss } a r i e sc h).ex
  refine ⟨sig, rec, hsig, hex, hrec, hact, ?_⟩
  rw [hp.1]
  exact ⟨_, hdead, rfl⟩

/-- A dead code stays dead through every operation. -/
theorem dead_code_stays_dead (s : MState) (op : Op) (sig : Nat) (hb : CodesBelow s.ss) (hd : CodeDead s.ss sig) :
    CodeDead (step s op).1.ss sig :=
  (step_preserves (fun ss => CodesBelow ss ∧ CodeDead ss sig)
    (fun ss c h => ⟨exec_CodesBelow ss c h.1, exec_CodeDead ss c sig h.1 h.2⟩) (fun _ _ h => h) (fun _ _ _ h => h) s op ⟨hb, hd⟩).2

/-- Every later presentation of a used code is refused: after the code is dead, no operation of
    any history redeems it. -/
theorem dead_code_never_redeems (ops : List Op) (s : MState) (sig : Nat) (hb : CodesBelow s.ss) (hd : CodeDead s.ss sig) :
    ((trace s ops).filter (isRedeemSuccess sig)).length = 0 := by
  induction ops generalizing s with
  | nil => rfl
  | cons op ops ih =>
    have hb' := step_codesBelow s op hb
    have hd' := dead_code_stays_dead s op sig hb hd
    simp only [trace, List.filter_cons]
    have hno : isRedeemSuccess sig (op, (step s op).2.1) = false := by
      cases hop : op with
      | redeem q =>
        cases hout : (step s (.redeem q)).2.1 with
        | tokens a r i e sc =>
          obtain ⟨sig', rec, hs, _, hrec, hact, _⟩ := redeem_success_needs_active_and_kills s q a r i e sc hout
          simp only [isRedeemSuccess, hs]
          by_cases heq : sig' = sig
          · subst heq
            obtain ⟨rec', hrec', hina⟩ := hd
            rw [hrec] at hrec'; cases hrec'
            rw [hact] at hina; cases hina
          · simp [heq]
        | _ => simp [isRedeemSuccess]
      | _ => simp [isRedeemSuccess]
    rw [hno]
    exact ih _ hb' hd'

/-- **C01 (single use).** In any history, from any state satisfying the invariant, a given
    authorization code yields tokens at most once. -/
theorem code_redeemed_at_most_once (ops : List Op) (s : MState) (sig : Nat) (hb : CodesBelow s.ss) :
    ((trace s ops).filter (isRedeemSuccess sig)).length ≤ 1 := by
  induction ops generalizing s with
  | nil => simp [trace]
  | cons op ops ih =>
    have hb' := step_codesBelow s op hb
    simp only [trace, List.filter_cons]
    by_cases hsucc : isRedeemSuccess sig (op, (step s op).2.1) = true
    · rw [if_pos hsucc]
      -- the successful redemption killed the code, so the rest of the history has none
      have hdead : CodeDead (step s op).1.ss sig := by
        cases hop : op with
        | redeem q =>
          rw [hop] at hsucc
          cases hout : (step s (.redeem q)).2.1 with
          | tokens a r i e sc =>
            obtain ⟨sig', rec, hs, _, _, _, hd⟩ := redeem_success_needs_active_and_kills s q a r i e sc hout
            rw [hout] at hsucc
            simp only [isRedeemSuccess, hs] at hsucc
            have : sig' = sig := by simpa using hsucc
            subst this; exact hd
          | _ => rw [hout] at hsucc; simp [isRedeemSuccess] at hsucc
        | _ => rw [hop] at hsucc; simp [isRedeemSuccess] at hsucc
      rw [List.length_cons, dead_code_never_redeems ops _ sig hb' hdead]; omega
    · rw [if_neg hsucc]; exact ih _ hb'

/-- The theorem for histories from the initial state. -/
theorem code_redeemed_at_most_once_from_init (ops : List Op) (sig : Nat) :
    ((trace {} ops).filter (isRedeemSuccess sig)).length ≤ 1 :=
  code_redeemed_at_most_once ops {} sig init_codesBelow

end Fosite.Props.C01

/-
  C11, writer half — "every redirect issued by the authorization endpoint targets the validated URI; when the
  requested redirect_uri does not qualify the error is rendered directly and no redirect is issued."

  The decision functions are in `Props/C11.lean`; here are the two writers
  (`WriteAuthorizeResponse`, `WriteAuthorizeError`, `Model/AuthzWrite.lean`) composed with the endpoint
  (`Model/AuthzRequest.lean`).  All theorems hold for ALL inputs of the endpoint model and all library
  parameters.  `(respond i).base = some s` means: the `Location` header / the form action is the URL
  `url.Parse(s)` (fragment cleared or not) with the parameters added — URL serialisation is a parameter
  (`url_parse_faithful`), the harness compares the components of the written URL with those of `P s`.

  One deviation is visible in the model and reported as a finding: in form-post mode html/template replaces
  a redirect URI whose scheme is not http/https/mailto by `#ZgotmplZ` (`Lib.formActionKept s = false`); the
  document then posts to itself and not to the validated URI (`actionBlocked`, no `base`).
-/
import Fosite.Proofs.Authz
import Fosite.Props.C11
namespace Fosite.Props.C11
open Fosite Fosite.Model Fosite.Model.Authz
open Fosite.Proofs.Authz Fosite.Proofs.Redirect

/-- the request handed to the writer -/
def requestOf : Outcome → AR
  | .success ar _ => ar
  | .failure ar _ => ar

/-- whichever writer runs, a request that carries a redirect URL got it from a successful
    `validateAuthorizeRedirectURI` against the registration of its existing client -/
theorem outcome_redirect_validated (i : Input) (s : String) (hr : (requestOf (authorize i)).redirect = some s) :
    ∃ c, i.clients (i.form.get "client_id") = some c ∧ (requestOf (authorize i)).client = some c ∧
      matchRedirectURI i.lib.P ((requestOf (authorize i)).form.get "redirect_uri") c.redirectURIs = .ok s ∧
      isValidRedirectURI (i.lib.P s) = true := by
  cases ha : authorize i with
  | failure ar e =>
    rw [ha] at hr
    obtain ⟨oe, hreq⟩ := authorize_failure_request ha
    obtain ⟨c, hc, hcl, hm, hv, _⟩ := newAuthorizeRequest_redirect hreq hr
    exact ⟨c, hc, hcl, hm, hv⟩
  | success ar ps =>
    rw [ha] at hr
    obtain ⟨_, _, c, a0, hc, hacc, ⟨fr, _, _⟩, _, _⟩ := authorize_success ha
    obtain ⟨s', hm, hv, hred⟩ := hacc.redirect
    have : s' = s := by
      have h1 : ar.redirect = some s' := by rw [fr.redirect]; exact hred
      simp only [requestOf] at hr
      rw [h1] at hr; exact Option.some.inj hr
    subst this
    refine ⟨c, hc, ?_, ?_, hv⟩
    · simp only [requestOf]; rw [fr.client]; exact hacc.client
    · simp only [requestOf]; rw [fr.form]; exact hm

/-- `WriteAuthorizeError` redirects (query, fragment or form post) only when the request's redirect URI
    passed validation against the client's registration; in every other case — unknown client, unparseable
    body, a redirect_uri that does not qualify, an error before the URI was looked at — the error is a JSON
    document with the error's status code and nothing points anywhere. -/
theorem error_redirect_only_if_valid (i : Input) (ar : AR) (e : Err) (h : authorize i = .failure ar e) :
    ((respond i).placement ≠ .json →
      ∃ c s, i.clients (i.form.get "client_id") = some c ∧ ar.redirect = some s ∧
        matchRedirectURI i.lib.P (ar.form.get "redirect_uri") c.redirectURIs = .ok s ∧
        isValidRedirectURI (i.lib.P s) = true ∧
        ((respond i).base = some s ∨ ((respond i).base = none ∧ (respond i).actionBlocked = true))) ∧
    ((respond i).placement = .json → (respond i).base = none ∧ (respond i).status = e.code) := by
  have hreq : requestOf (authorize i) = ar := by rw [h]; rfl
  unfold respond
  rw [h]
  simp only
  constructor
  · intro hpl
    have hvalid : isRedirectURIValid i.lib ar = true := by
      cases hv : isRedirectURIValid i.lib ar
      · simp [writeAuthorizeError, hv] at hpl
      · rfl
    obtain ⟨s, hs⟩ : ∃ s, ar.redirect = some s := by
      cases hred : ar.redirect with
      | none => simp [isRedirectURIValid, hred] at hvalid
      | some s => exact ⟨s, rfl⟩
    obtain ⟨c, hc, _, hm, hv⟩ := outcome_redirect_validated i s (by rw [hreq]; exact hs)
    rw [hreq] at hm
    refine ⟨c, s, hc, hs, hm, hv, ?_⟩
    simp only [writeAuthorizeError, hvalid, hs, Bool.not_true, Bool.false_eq_true, ↓reduceIte]
    repeat' split
    all_goals simp
  · intro hpl
    unfold writeAuthorizeError at hpl ⊢
    revert hpl
    repeat' split
    all_goals simp

/-- When the requested redirect_uri does not qualify (`Spec.matchTarget` = "render the error directly"),
    no error is ever redirected. -/
theorem error_rendered_directly_when_uri_does_not_qualify (i : Input) (ar : AR) (e : Err)
    (h : authorize i = .failure ar e)
    (hq : ∀ c, i.clients (i.form.get "client_id") = some c →
      Spec.matchTarget i.lib.P (ar.form.get "redirect_uri") c.redirectURIs = none) :
    (respond i).placement = .json ∧ (respond i).base = none := by
  have hmain := error_redirect_only_if_valid i ar e h
  cases hpl : (respond i).placement with
  | json => exact ⟨rfl, (hmain.2 hpl).1⟩
  | query | fragment | formPost | nothing =>
    exfalso
    obtain ⟨c, s, hc, _, hm, _⟩ := hmain.1 (by rw [hpl]; decide)
    rw [match_eq, hq c hc] at hm
    cases hm

/-- No client, no redirect. -/
theorem unknown_client_error_is_direct (i : Input) (hc : i.clients (i.form.get "client_id") = none) :
    (respond i).placement = .json := by
  cases ha : authorize i with
  | success ar ps =>
    obtain ⟨_, _, c, _, hc', _⟩ := authorize_success ha
    rw [hc] at hc'; cases hc'
  | failure ar e =>
    exact (error_rendered_directly_when_uri_does_not_qualify i ar e ha (fun c h => by rw [hc] at h; cases h)).1

/-- Every URL the endpoint writes — `Location` of a success or error redirect, or form action — is built
    from the validated redirect URI: `s` is what `MatchRedirectURIWithClientRedirectURIs` returned for the
    request's redirect_uri and the client's registration, it passed `IsValidRedirectURI`, and the written URL
    carries no fragment of its own (cleared, or empty by validation). -/
theorem location_target_is_validated_uri (i : Input) (s : String) (hb : (respond i).base = some s) :
    ∃ c, i.clients (i.form.get "client_id") = some c ∧
      matchRedirectURI i.lib.P ((requestOf (authorize i)).form.get "redirect_uri") c.redirectURIs = .ok s ∧
      isValidRedirectURI (i.lib.P s) = true ∧
      (respond i).ownFragment i.lib = "" := by
  -- the base is the request's redirect URL
  have hred : (requestOf (authorize i)).redirect = some s := by
    unfold respond at hb
    cases ha : authorize i with
    | failure ar e =>
      rw [ha] at hb
      simp only [requestOf]
      simp only [writeAuthorizeError] at hb
      revert hb
      repeat' split
      all_goals simp_all
    | success ar ps =>
      rw [ha] at hb
      simp only [requestOf]
      simp only [writeAuthorizeResponse] at hb
      revert hb
      repeat' split
      all_goals simp_all
  obtain ⟨c, hc, _, hm, hv⟩ := outcome_redirect_validated i s hred
  refine ⟨c, hc, hm, hv, ?_⟩
  unfold HTTPResp.ownFragment
  rw [hb]
  simp only
  split
  · rfl
  · exact ((isValid_iff _).1 hv).2

/-- … hence the written URL is string-identical to a registered redirect URI, or is the requested http URI
    on a loopback IP literal that agrees with a registered URI on host name, path and query (any port). -/
theorem location_target_registered_or_loopback (i : Input) (s : String) (hb : (respond i).base = some s) :
    ∃ c, i.clients (i.form.get "client_id") = some c ∧
      (s ∈ c.redirectURIs ∨
       ((i.lib.P s).scheme = "http" ∧ (i.lib.P s).hostIsLoopbackIP = true ∧
        ∃ r ∈ c.redirectURIs, (i.lib.P r).hostname = (i.lib.P s).hostname ∧ (i.lib.P r).path = (i.lib.P s).path ∧
          (i.lib.P r).rawQuery = (i.lib.P s).rawQuery)) := by
  obtain ⟨c, hc, hm, _, _⟩ := location_target_is_validated_uri i s hb
  refine ⟨c, hc, ?_⟩
  rcases redirect_match_target_registered_or_loopback _ _ _ _ hm with h | ⟨hs, h1, h2, r, hr, h3⟩
  · exact Or.inl h
  · right
    rw [hs]
    exact ⟨h1, h2, r, hr, h3⟩

/-- A success response is always delivered at the validated URI (or, in form-post mode with a scheme the
    HTML template refuses, at the document itself — see the header). -/
theorem success_is_delivered_at_validated_uri (i : Input) (ar : AR) (ps : List Param)
    (h : authorize i = .success ar ps) :
    ∃ s, ar.redirect = some s ∧
      ((respond i).base = some s ∨ ((respond i).placement = .formPost ∧ (respond i).actionBlocked = true)) := by
  obtain ⟨⟨s, hs⟩, hmode, _⟩ := success_shape i ar ps h
  refine ⟨s, hs, ?_⟩
  unfold respond
  rw [h]
  simp only [writeAuthorizeResponse, hs]
  rcases hmode with hm | hm | hm
  · simp [hm]
  · simp [hm]
  · simp only [hm, beq_self_eq_true, ↓reduceIte]
    split <;> simp

/-! ### non-vacuity: concrete runs of the model -/

namespace WriterExample

def purl (s scheme host path : String) : PURL :=
  { parseOk := true, str := s, scheme := scheme, user := "", host := host, hostname := host, port := "",
    path := path, rawQuery := "", fragment := "", opaquePart := "", hostIsLoopbackIP := false, isRequestURL := true }

def cb : String := "https://app.example/cb"
def app : String := "myapp://cb/path"

def lib : Lib :=
  { P := fun s => if s == cb then purl cb "https" "app.example" "/cb"
                  else if s == app then purl app "myapp" "cb" "/path" else PURL.bad
    lower := id, jwtOf := fun _ => .malformed, fetch := fun _ => .transportError, audienceOK := fun _ => true
    parseInt := fun _ => 0, hintOf := fun _ => .invalid, queryKeys := fun _ => []
    formActionKept := fun s => s == cb }

def client : Client :=
  { id := "c1", responseTypes := ["code"], grantTypes := [], scopes := ["a"], redirectURIs := [cb, app], isPublic := false,
    responseModes := some ["form_post", "fragment"], oidc := none }

def input (form : Form) : Input :=
  { cfg := {}, lib := lib, clients := fun id => if id == "c1" then some client else none, formOK := true, form := form,
    sess := { subject := "peter", authTime := some (-100), requestedAt := some (-20) }, grant := id }

def form (redirect state mode : String) : Form :=
  [("client_id", "c1"), ("response_type", "code"), ("scope", "a"), ("state", state), ("redirect_uri", redirect),
   ("response_mode", mode)]

def shape (i : Input) : Nat × Placement × Option String × Bool :=
  ((respond i).status, (respond i).placement, (respond i).base, (respond i).actionBlocked)

end WriterExample

open WriterExample in
example : shape (input (form cb "12345678" "")) = (303, .query, some cb, false) := by decide
open WriterExample in
example : shape (input (form cb "short" "")) = (303, .query, some cb, false) := by decide            -- error, redirected
open WriterExample in
example : shape (input (form cb "short" "fragment")) = (303, .fragment, some cb, false) := by decide
open WriterExample in
example : shape (input (form cb "short" "form_post")) = (200, .formPost, some cb, false) := by decide
open WriterExample in
example : shape (input (form "https://evil.example/cb" "12345678" "")) = (400, .json, none, false) := by decide
open WriterExample in
example : shape (input (form "" "12345678" "")) = (400, .json, none, false) := by decide            -- two registered, none requested
open WriterExample in
example : shape (input (("client_id", "nobody") :: form cb "12345678" "")) = (401, .json, none, false) := by decide
open WriterExample in
example : shape (input (form app "12345678" "fragment")) = (303, .fragment, some app, false) := by decide
open WriterExample in
example : shape (input (form app "12345678" "form_post")) = (200, .formPost, none, true) := by decide   -- the finding

end Fosite.Props.C11

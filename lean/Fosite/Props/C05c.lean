/-
  C05 (continued) — the refresh-token issuance rule at the level of STORAGE CALLS, the counterpart
  `Props/C05b.lean` left open ("no `createRefresh` call outside the rule, also on paths that end in an
  error, is not stated; the theorems speak of tokens returned in the response").

  Clause covered (C05 statement, last sentence): "A refresh token is only ever issued when the grant contains
  one of the configured refresh scopes (if any are configured) and, in the code and device flows, only to
  clients registered for the refresh_token grant".  Reading here: "issued" = a refresh-token record is handed
  to the store (`createRefresh a r`), whether or not the operation then goes on to answer with tokens.

  The calculus (`Proofs/ParLinks.lean`, `wpP`): like `allCalls` / `cleanProg` it walks ALL paths of a program —
  the continuation of every call is quantified over every storage result (found / not found / inactive /
  injected failure / any record) — and the call predicate also sees the path so far (the calls made, with the
  results assumed for them).  The rule for a `createRefresh a r` call, per flow (`opRule`):
  * code (`codeRule`): `scopeRule cfg r.grantedScopes` (no refresh scopes configured, or one of them granted);
    and an earlier `getCode` call for the presented code on this path was answered with an authorize request
    `ar` whose granted scopes are `r`'s (up to de-duplication) and whose client — the snapshot stored with the
    code, which is what `canIssueRefreshToken` looks at — is registered for `refresh_token`;
  * device (`deviceRule`): `scopeRule` on `r`, `r.client` (the polling client) registered for `refresh_token`;
    `r`'s granted scopes are those of a device request an earlier `getDevice` call returned;
  * password (`passwordRule`): `scopeRule` on `r` — the scope half only (as in `C05b`);
  * refresh (`refreshRule`): always issued; `scopeRule` on `r` and on the ORIGINAL grant an earlier `getRefresh`
    call returned (whose granted scopes `r` carries), `r.client` (the presenting client) registered for `refresh_token`;
  * every other operation: no `createRefresh` call at all.

  * `every_createRefresh_call_obeys_the_rule` — every endpoint program, every path.
  * `createRefresh_log_entries_obey_the_rule` — run level, `stepWith rc` under ANY fault plan, with or without
    a transactional store: every entry of the storage-call log satisfies the rule with respect to the entries
    BEFORE it in the log; spelled out per flow in `code_flow_…`, `device_flow_…`, `password_flow_…`,
    `refresh_flow_…`, `other_operations_never_store_a_refresh_token`.
  Not claimed: that the request an earlier lookup entry of the log carries is the one the STORE holds (under
  a fault plan a logged `.req ar` answer is the store's — injected failures are logged as `.fail` — but this
  file does not relate it to `s.ss`; for fault-free runs `Props/C05b.lean` / `Props/C12c.lean` do).
-/
import Fosite.Proofs.ParLinks
namespace Fosite.Props.C05c
open Fosite.Model

/-- the calculus, spelled out: the predicate holds of every call, on every continuation -/
theorem wpP_call_def {α} (P : Path → Call → Prop) (h : Path) (c : Call) (k : Res → Prog α) (Q) :
    wpP P h (.call c k) Q ↔ (P h c ∧ ∀ res, wpP P ((c, res) :: h) (k res) Q) := Iff.rfl

/-- `scopeRule` (`Proofs/IssuanceRule.lean`), spelled out -/
theorem scopeRule_def (cfg : Config) (granted : List String) :
    scopeRule cfg granted ↔ (cfg.refreshScopes.isEmpty = true ∨ hasOneOf granted cfg.refreshScopes = true) := Iff.rfl

/-- **Every endpoint program, every path**: a `createRefresh` call is made only under the rule of the flow
    (`opRule`); programs of other operations make none. -/
theorem every_createRefresh_call_obeys_the_rule (s : MState) (op : Op) (p : Prog Out) (h : op.prog s = some p) :
    wpP (opRule s op) [] p (fun _ _ => True) :=
  prog_refresh_rule s op p h

/-- **Run level, any fault plan**: entry `n` of the storage-call log of `stepWith rc s op` satisfies the
    rule of the flow with respect to the entries before it. -/
theorem createRefresh_log_entries_obey_the_rule (rc : RunCfg) (s : MState) (op : Op) (n : Nat) (e : Call × Res)
    (h : (stepWith rc s op).2.2[n]? = some e) : opRule s op ((stepWith rc s op).2.2.take n) e.1 :=
  stepWith_refresh_rule rc s op n e h

/-- … for the fault-free `step` -/
theorem step_log_entries_obey_the_rule (s : MState) (op : Op) (n : Nat) (e : Call × Res)
    (h : (step s op).2.2[n]? = some e) : opRule s op ((step s op).2.2.take n) e.1 := by
  rw [← stepWith_plain] at h ⊢
  exact stepWith_refresh_rule {} s op n e h

/-- **code flow** -/
theorem code_flow_createRefresh_rule (rc : RunCfg) (s : MState) (q : RedeemReq) (n a : Nat) (r : Req) (res : Res)
    (h : (stepWith rc s (.redeem q)).2.2[n]? = some (.createRefresh a r, res)) :
    (s.cfg.refreshScopes.isEmpty = true ∨ hasOneOf r.grantedScopes s.cfg.refreshScopes = true) ∧
    ∃ ar, (Call.getCode q.code.sig, Res.req ar) ∈ (stepWith rc s (.redeem q)).2.2.take n ∧
      r.grantedScopes = appendAllUniq [] ar.grantedScopes ∧ ar.client.grants.contains "refresh_token" = true :=
  stepWith_refresh_rule rc s (.redeem q) n _ h

/-- **device flow** -/
theorem device_flow_createRefresh_rule (rc : RunCfg) (s : MState) (q : DevicePollReq) (n a : Nat) (r : Req) (res : Res)
    (h : (stepWith rc s (.devicePoll q)).2.2[n]? = some (.createRefresh a r, res)) :
    (s.cfg.refreshScopes.isEmpty = true ∨ hasOneOf r.grantedScopes s.cfg.refreshScopes = true) ∧
    r.client.grants.contains "refresh_token" = true ∧
    ∃ d, (Call.getDevice q.code.sig, Res.dev d) ∈ (stepWith rc s (.devicePoll q)).2.2.take n ∧
      r.grantedScopes = appendAllUniq [] d.req.grantedScopes :=
  stepWith_refresh_rule rc s (.devicePoll q) n _ h

/-- **password flow** (the scope half) -/
theorem password_flow_createRefresh_rule (rc : RunCfg) (s : MState) (q : DirectReq) (n a : Nat) (r : Req) (res : Res)
    (h : (stepWith rc s (.password q)).2.2[n]? = some (.createRefresh a r, res)) :
    s.cfg.refreshScopes.isEmpty = true ∨ hasOneOf r.grantedScopes s.cfg.refreshScopes = true :=
  stepWith_refresh_rule rc s (.password q) n _ h

/-- **refresh flow**: the rule was checked on the original grant -/
theorem refresh_flow_createRefresh_rule (rc : RunCfg) (s : MState) (q : RefreshReq) (n a : Nat) (r : Req) (res : Res)
    (h : (stepWith rc s (.refresh q)).2.2[n]? = some (.createRefresh a r, res)) :
    (s.cfg.refreshScopes.isEmpty = true ∨ hasOneOf r.grantedScopes s.cfg.refreshScopes = true) ∧
    r.client.grants.contains "refresh_token" = true ∧
    ∃ orig, (Call.getRefresh q.token.sig, Res.req orig) ∈ (stepWith rc s (.refresh q)).2.2.take n ∧
      r.grantedScopes = appendAllUniq [] orig.grantedScopes ∧
      (s.cfg.refreshScopes.isEmpty = true ∨ hasOneOf orig.grantedScopes s.cfg.refreshScopes = true) :=
  stepWith_refresh_rule rc s (.refresh q) n _ h

/-- **every other operation** stores no refresh token, under any fault plan -/
theorem other_operations_never_store_a_refresh_token (rc : RunCfg) (s : MState) (op : Op)
    (hop : (∀ q, op ≠ .redeem q) ∧ (∀ q, op ≠ .devicePoll q) ∧ (∀ q, op ≠ .password q) ∧ (∀ q, op ≠ .refresh q))
    (a : Nat) (r : Req) (res : Res) : (Call.createRefresh a r, res) ∉ (stepWith rc s op).2.2 := by
  intro hmem
  obtain ⟨n, hn⟩ := List.getElem?_of_mem hmem
  have h := stepWith_refresh_rule rc s op n _ hn
  cases op <;> first
    | exact absurd rfl (hop.1 _) | exact absurd rfl (hop.2.1 _) | exact absurd rfl (hop.2.2.1 _) | exact absurd rfl (hop.2.2.2 _)
    | exact Bool.noConfusion (show true = false from h)

/-! ### non-vacuity -/

def exClient (grants : List String) : Client :=
  { id := "c", isPublic := true, scopes := ["offline", "a"], grants := grants, redirects := ["https://c/cb"] }
/-- a code for `c`, the user having granted `granted` -/
def exPre (grants granted : List String) : List Op :=
  [ .setClient (exClient grants),
    .authorize { clientId := "c", responseTypes := ["code"], redirect := "https://c/cb", scopes := ["offline", "a"],
                 grantScopes := granted, subject := "u" } ]
def exRedeem : Op := .redeem { clientId := "c", credOk := true, code := { sig := some 1, exact := true }, redirect := "https://c/cb" }
def isRT (e : Call × Res) : Bool := e.1.isCreateRefresh
def isErrOut : Out → Bool | .err _ => true | _ => false

set_option maxRecDepth 4096 in
/-- with the grant and a refresh scope: entry 6 of the log is the `createRefresh` call (the hypothesis of
    `code_flow_createRefresh_rule` is met), preceded by the `getCode` entries -/
example : ((step (after {} (exPre ["authorization_code", "refresh_token"] ["offline"])) exRedeem).2.2.map isRT) =
    [false, false, false, false, false, false, true, false, false] := by decide

set_option maxRecDepth 4096 in
/-- **a path that ends in an error after the call**: transactional store, the commit (storage call 8) fails —
    the operation answers with an error and rolls back, the log still shows the `createRefresh` call (entry 7),
    and the theorem speaks about it -/
example :
    let r := stepWith { tx := true, plan := planOf [(8, .server_error)] }
      (after {} (exPre ["authorization_code", "refresh_token"] ["offline"])) exRedeem
    isErrOut r.2.1 = true ∧ r.2.2.map isRT = [false, false, false, false, false, false, false, true, false, false] := by decide

set_option maxRecDepth 4096 in
/-- outside the rule no call is made: client without the `refresh_token` grant; user did not grant a refresh scope -/
example : ((step (after {} (exPre ["authorization_code"] ["offline"])) exRedeem).2.2.any isRT) = false ∧
    ((step (after {} (exPre ["authorization_code", "refresh_token"] ["a"])) exRedeem).2.2.any isRT) = false := by decide

end Fosite.Props.C05c

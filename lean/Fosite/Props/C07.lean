/-
  C07 — nothing is honoured after it has expired (pure arithmetic part and the lifespan table).
  Property theorems only; lemmas live in `Fosite/Proofs/Expiry.lean`.

  Every theorem is stated for ALL instants (`Time` = Nat nanoseconds since 1970), all durations (Int
  nanoseconds, negative included), every session expiry (`none` = Go's zero `time.Time`) and every
  verdict of the MAC / JWS layer (`mac`, `sig : Option Err`, a parameter — property C06).  Granularity:
  credentials whose expiry is a `time.Time` are decided on the exact instant, the JWT `exp` claim on
  whole seconds.  The history-level halves (codes, opaque access and refresh tokens inside arbitrary
  histories) use the same guards — see the last section.
-/
import Fosite.Proofs.Expiry
import Fosite.Gen.Facts
namespace Fosite.Props.C07
open Fosite.Model Fosite.Model.Expiry Fosite.Spec.Expiry
open Fosite.Proofs.Expiry

/-! ### 1. opaque credentials: model = documented meaning, refusal after the expiry instant -/

/-- `ValidateAuthorizeCode` decides exactly: refused with `token_expired` once `now` is after the
    expiry instant (session value, else requestedAt + lifespan), otherwise the MAC verdict. -/
theorem code_model_eq_spec (exp : Option Time) (req : Time) (life : Dur) (now : Time) (mac : Option Err) :
    validateAuthorizeCode exp req life now mac =
      opaqueVerdict .token_expired (expiryInstant exp req life) now mac :=
  guarded_eq_spec _ exp req life now mac

theorem access_opaque_model_eq_spec (exp : Option Time) (req : Time) (life : Dur) (now : Time) (mac : Option Err) :
    validateAccessToken exp req life now mac =
      opaqueVerdict .token_expired (expiryInstant exp req life) now mac :=
  guarded_eq_spec _ exp req life now mac

theorem device_code_model_eq_spec (exp : Option Time) (req : Time) (life : Dur) (now : Time) (mac : Option Err) :
    validateDeviceCode exp req life now mac =
      opaqueVerdict .expired_token (expiryInstant exp req life) now mac :=
  guarded_eq_spec _ exp req life now mac

theorem user_code_model_eq_spec (exp : Option Time) (req : Time) (life : Dur) (now : Time) :
    validateUserCode exp req life now =
      opaqueVerdict .expired_token (expiryInstant exp req life) now none := by
  have := guarded_eq_spec .expired_token exp req life now none
  simpa [validateUserCode, macResult] using this

theorem refresh_model_eq_spec (exp : Option Time) (now : Time) (mac : Option Err) :
    validateRefreshToken exp now mac = refreshVerdict exp now mac :=
  refresh_eq_spec exp now mac

/-- An authorization code is refused one nanosecond after its expiry instant and ever after,
    whatever the MAC layer says about the string. -/
theorem code_refused_after_expiry (exp : Option Time) (req : Time) (life : Dur) (now : Time) (mac : Option Err)
    (h : expiryInstant exp req life < Int.ofNat now) :
    validateAuthorizeCode exp req life now mac = .error .token_expired := by
  rw [code_model_eq_spec]; exact opaqueVerdict_expired _ _ _ _ h

/-- … and it is honoured only while `now ≤ expiry` (exact instant) and the MAC verifies. -/
theorem code_honoured_only_until_expiry (exp : Option Time) (req : Time) (life : Dur) (now : Time) (mac : Option Err)
    (h : validateAuthorizeCode exp req life now mac = .ok ()) :
    honouredAt (expiryInstant exp req life) now ∧ mac = none := by
  rw [code_model_eq_spec] at h; exact (opaqueVerdict_ok _ _ _ _).1 h

theorem access_opaque_refused_after_expiry (exp : Option Time) (req : Time) (life : Dur) (now : Time)
    (mac : Option Err) (h : expiryInstant exp req life < Int.ofNat now) :
    validateAccessToken exp req life now mac = .error .token_expired := by
  rw [access_opaque_model_eq_spec]; exact opaqueVerdict_expired _ _ _ _ h

theorem access_opaque_honoured_only_until_expiry (exp : Option Time) (req : Time) (life : Dur) (now : Time)
    (mac : Option Err) (h : validateAccessToken exp req life now mac = .ok ()) :
    honouredAt (expiryInstant exp req life) now ∧ mac = none := by
  rw [access_opaque_model_eq_spec] at h; exact (opaqueVerdict_ok _ _ _ _).1 h

theorem device_code_refused_after_expiry (exp : Option Time) (req : Time) (life : Dur) (now : Time)
    (mac : Option Err) (h : expiryInstant exp req life < Int.ofNat now) :
    validateDeviceCode exp req life now mac = .error .expired_token := by
  rw [device_code_model_eq_spec]; exact opaqueVerdict_expired _ _ _ _ h

theorem device_code_honoured_only_until_expiry (exp : Option Time) (req : Time) (life : Dur) (now : Time)
    (mac : Option Err) (h : validateDeviceCode exp req life now mac = .ok ()) :
    honouredAt (expiryInstant exp req life) now ∧ mac = none := by
  rw [device_code_model_eq_spec] at h; exact (opaqueVerdict_ok _ _ _ _).1 h

theorem user_code_refused_after_expiry (exp : Option Time) (req : Time) (life : Dur) (now : Time)
    (h : expiryInstant exp req life < Int.ofNat now) :
    validateUserCode exp req life now = .error .expired_token := by
  rw [user_code_model_eq_spec]; exact opaqueVerdict_expired _ _ _ _ h

theorem user_code_honoured_only_until_expiry (exp : Option Time) (req : Time) (life : Dur) (now : Time)
    (h : validateUserCode exp req life now = .ok ()) :
    honouredAt (expiryInstant exp req life) now := by
  rw [user_code_model_eq_spec] at h; exact ((opaqueVerdict_ok _ _ _ _).1 h).1

/-- A refresh token with a finite lifetime is refused after its expiry instant. -/
theorem refresh_finite_refused_after_expiry (e now : Time) (mac : Option Err) (h : e < now) :
    validateRefreshToken (some e) now mac = .error .token_expired := by
  rw [refresh_model_eq_spec]
  have : ¬ refreshHonouredAt (some e) now := by
    exact Nat.not_le.mpr h
  simp [refreshVerdict, this]

theorem refresh_honoured_only_until_expiry (e now : Time) (mac : Option Err)
    (h : validateRefreshToken (some e) now mac = .ok ()) : now ≤ e ∧ mac = none := by
  rw [refresh_model_eq_spec] at h
  unfold refreshVerdict at h
  by_cases hh : refreshHonouredAt (some e) now
  · simp only [hh, if_true] at h
    exact ⟨hh, (macResult_ok mac).1 h⟩
  · simp [hh] at h

/-- A refresh token without an expiry (unlimited lifetime) never expires: at every instant the
    verdict is the MAC layer's alone. -/
theorem refresh_unlimited_never_expires (now : Time) (mac : Option Err) :
    validateRefreshToken none now mac = macResult mac := rfl

/-- `RefreshTokenLifespan = -1` (any lifespan below zero): the token-endpoint handlers leave the
    session's refresh expiry unset, and such a token is honoured at every later instant. -/
theorem unlimited_refresh (s : Site) (issuedAt now : Time) (rtLife : Dur) (h : rtLife ≤ -1) :
    stampRefresh s issuedAt rtLife none = none ∧
    validateRefreshToken (stampRefresh s issuedAt rtLife none) now none = .ok () := by
  have : ¬ (rtLife > -1) := by simp only [Dur] at *; omega
  simp [stampRefresh, this, validateRefreshToken, macResult]

/-- A lifespan of zero or more is finite: the expiry is stamped and the token is refused after it. -/
theorem finite_refresh (s : Site) (issuedAt now : Time) (rtLife : Dur) (old : Option Time) (mac : Option Err)
    (h : -1 < rtLife) (hn : stamp s issuedAt rtLife < now) :
    validateRefreshToken (stampRefresh s issuedAt rtLife old) now mac = .error .token_expired := by
  have : rtLife > -1 := h
  simp only [stampRefresh, this, if_true]
  exact refresh_finite_refused_after_expiry _ _ _ hn

/-! ### 2. JWT access tokens: whole-second granularity -/

/-- The `exp` claim a JWT access token is minted with is the whole second of the session expiry;
    there is no `exp` claim when the session carries no expiry. -/
theorem access_jwt_exp_claim (sessionExp iat nbf : Option Time) (issue : Time) :
    (jwtClaimsAtIssue sessionExp iat nbf issue).exp =
      match sessionExp with
      | some e => .int (expClaimOf e)
      | none => .absent := by
  cases sessionExp <;> rfl

/-- the whole second of an instant brackets it -/
theorem exp_claim_brackets_session_expiry (e : Time) :
    expClaimOf e * Int.ofNat second ≤ Int.ofNat e ∧ Int.ofNat e < (expClaimOf e + 1) * Int.ofNat second := by
  unfold expClaimOf second
  simp only [Int.ofNat_eq_natCast, Time] at *
  omega

/-- A JWT access token minted for a session expiry `e` (not inside the first second of 1970) is
    refused from the start of the second after `⌊e⌋` on — whatever the JWS layer says. -/
theorem access_jwt_refused_after_expiry (e : Time) (iat nbf : Option Time) (issue now : Time) (sig : Option Err)
    (h1 : second ≤ e) (h : (e / second + 1) * second ≤ now) :
    ∃ err, validateJWTAccessToken sig (jwtClaimsAtIssue (some e) iat nbf issue) now = .error err := by
  cases sig with
  | some s => exact ⟨s, rfl⟩
  | none =>
    refine ⟨.token_expired, ?_⟩
    have hb := expired_bit e iat nbf issue now h1
    have hn : ¬ honouredNumeric (expClaimOf e) now := by
      rw [honouredNumeric_iff]; simp only [Time] at *; omega
    simp only [hn, decide_false, Bool.not_false] at hb
    simp [validateJWTAccessToken, claimsToRFC, hb]

/-- … with the documented error when the signature verifies: `token_expired` wins over `iat`/`nbf`. -/
theorem access_jwt_expired_error (e : Time) (iat nbf : Option Time) (issue now : Time)
    (h1 : second ≤ e) (h : ¬ honouredNumeric (expClaimOf e) now) :
    validateJWTAccessToken none (jwtClaimsAtIssue (some e) iat nbf issue) now = .error .token_expired := by
  have hb := expired_bit e iat nbf issue now h1
  simp only [h, decide_false, Bool.not_false] at hb
  simp [validateJWTAccessToken, claimsToRFC, hb]

/-- Honoured ⇒ the current whole second is not after the `exp` claim. -/
theorem access_jwt_honoured_only_within_exp_second (e : Time) (iat nbf : Option Time) (issue now : Time)
    (sig : Option Err) (h1 : second ≤ e)
    (h : validateJWTAccessToken sig (jwtClaimsAtIssue (some e) iat nbf issue) now = .ok ()) :
    honouredNumeric (expClaimOf e) now ∧ sig = none := by
  cases sig with
  | some s => simp [validateJWTAccessToken] at h
  | none =>
    refine ⟨?_, rfl⟩
    apply Classical.byContradiction
    intro hn
    rw [access_jwt_expired_error e iat nbf issue now h1 hn] at h
    cases h

/-- Consistency of `exp` with the session expiry: the token is never refused *for expiry* up to
    and including the session's instant, and always refused one second after it. -/
theorem access_jwt_exp_consistent_with_session (e : Time) (iat nbf : Option Time) (issue now : Time)
    (h1 : second ≤ e) :
    (now ≤ e → (mapClaimsValid (jwtClaimsAtIssue (some e) iat nbf issue) now).expired = false) ∧
    (e + second ≤ now → (mapClaimsValid (jwtClaimsAtIssue (some e) iat nbf issue) now).expired = true) := by
  rw [expired_bit e iat nbf issue now h1]
  constructor
  · intro h; simp [honouredNumeric_of_le e now h]
  · intro h; simp [not_honouredNumeric_of_second_later e now h]

/-- Documented edge (not a theorem anyone should like): a session without an access-token expiry
    yields a JWT without `exp`, which no instant refuses for expiry.  Every flow handler stamps the
    expiry before minting; this concerns hand-made sessions only. -/
theorem access_jwt_without_session_expiry_never_expires (iat nbf : Option Time) (issue now : Time) :
    (mapClaimsValid (jwtClaimsAtIssue none iat nbf issue) now).expired = false :=
  expired_bit_absent iat nbf issue now

/-- Documented edge: `exp: 0` (a session expiry inside the first second of 1970) is read as "no
    exp" by `verifyExp` (jwt-go legacy). Hence the hypothesis `second ≤ e` above. -/
theorem access_jwt_exp_zero_never_expires (e : Time) (iat nbf : Option Time) (issue now : Time) (h : e < second) :
    (mapClaimsValid (jwtClaimsAtIssue (some e) iat nbf issue) now).expired = false := by
  have : expClaimOf e = 0 := by
    unfold expClaimOf second at *; simp only [Int.ofNat_eq_natCast, Time] at *; omega
  simp [mapClaimsValid, jwtClaimsAtIssue, numericDate_some, this, verifyExpiresAt, toInt64, verifyExp]

/-- `MapClaims.Valid` on any integer `exp ≠ 0`: the expired bit is set exactly when the current
    whole second is after it. -/
theorem claims_expired_iff (x : Int) (iat nbf : ClaimVal) (now : Time) (hx : x ≠ 0) :
    (mapClaimsValid { exp := .int x, iat := iat, nbf := nbf } now).expired = true ↔ ¬ honouredNumeric x now := by
  simp [mapClaimsValid, verifyExpiresAt_int _ _ hx, honouredNumeric, unix]

/-- a float64 `exp` is truncated toward zero before the comparison -/
theorem claims_float_exp_truncates (m : Int) (n : Int) (req : Bool) :
    verifyExpiresAt (.float m) n req = verifyExp (Int.tdiv m 1000) n req := rfl

/-- a value of any other dynamic type (string, bool, nil, Go `int`) counts as "no exp" -/
theorem claims_non_numeric_exp_is_unset (n : Int) (req : Bool) :
    verifyExpiresAt .other n req = !req ∧ verifyExpiresAt .absent n req = !req := ⟨rfl, rfl⟩

/-! ### 3. advertised lifetimes -/

/-- `expires_in` is sound: a positive promise ends no later than the expiry the session carries,
    and it under-promises by less than one second. -/
theorem expires_in_sound (exp now : Time) (life : Dur) :
    ExpiresInSound exp now (expiresInField (some exp) life now) := by
  have hb := secondsOf_bounds (Int.ofNat exp - Int.ofNat now)
  simp only [ExpiresInSound, expiresInField, getExpiresIn, wholeSeconds_eq]
  refine ⟨fun h => ?_, hb.2.1⟩
  have := hb.1 h
  omega

/-- exact form for a credential that has not expired yet: `0 ≤ exp − now − expires_in·1s < 1s` -/
theorem expires_in_exact_bounds (exp now : Time) (life : Dur) (h : now ≤ exp) :
    0 ≤ Int.ofNat exp - Int.ofNat now - expiresInField (some exp) life now * Int.ofNat second ∧
    Int.ofNat exp - Int.ofNat now - expiresInField (some exp) life now * Int.ofNat second < Int.ofNat second := by
  have hb := secondsOf_bounds (Int.ofNat exp - Int.ofNat now)
  have h0 : 0 ≤ Int.ofNat exp - Int.ofNat now := by simp only [Int.ofNat_eq_natCast, Time] at *; omega
  simp only [expiresInField, getExpiresIn, wholeSeconds_eq]
  exact ⟨hb.2.2 h0, hb.2.1⟩

/-- without a session expiry `getExpiresIn` advertises the lifespan it is handed -/
theorem expires_in_default_when_unset (life : Dur) (now : Time) : getExpiresIn none life now = life := rfl

/-- Every stamping site writes an expiry within half a second of `now + lifespan`
    (|roundSecond (now + life) − (now + life)| ≤ 0.5 s; the unrounded sites are exact). -/
theorem stamped_expiry_within_half_second_of_lifespan (s : Site) (now : Time) (life : Dur)
    (h : 0 ≤ Int.ofNat now + life) : StampConsistent now life (stamp s now life) :=
  stamp_consistent s now life h

/-- the sites that do not round stamp exactly `now + lifespan` -/
theorem unrounded_sites_exact (now : Time) (life : Dur) (h : 0 ≤ Int.ofNat now + life) :
    Int.ofNat (stamp .issueAuthorizeCode now life) = Int.ofNat now + life ∧
    Int.ofNat (stamp .clientCredentials now life) = Int.ofNat now + life ∧
    Int.ofNat (stamp .par now life) = Int.ofNat now + life := by
  simp only [stamp, Site.rounds, stampPlain, addDur, Int.ofNat_eq_natCast, Bool.false_eq_true, if_false, Time, Dur] at *
  omega

/-- which sites round (regenerated by reading; checked against the implementation by the `stamp` ops) -/
theorem rounding_sites :
    [Site.issueAuthorizeCode, .hybridCode, .codeToken, .refresh, .implicit, .clientCredentials, .password,
      .jwtBearer, .deviceAuth, .deviceToken, .par].map Site.rounds =
    [false, true, true, true, true, false, true, true, true, true, false] := by decide

/-- `expires_in` advertised right after stamping with a non-negative lifespan lies within
    (lifespan − 1.5 s, lifespan + 0.5 s]. -/
theorem expires_in_of_stamped_bounds (s : Site) (now : Time) (life : Dur) (h : 0 ≤ life) :
    2 * (expiresInField (some (stamp s now life)) life now * Int.ofNat second) ≤ 2 * life + Int.ofNat second ∧
    2 * life - 3 * Int.ofNat second < 2 * (expiresInField (some (stamp s now life)) life now * Int.ofNat second) := by
  have hc := stamp_consistent s now life (by simp only [Int.ofNat_eq_natCast, Dur] at *; omega)
  have hb := secondsOf_bounds (Int.ofNat (stamp s now life) - Int.ofNat now)
  simp only [expiresInField, getExpiresIn, wholeSeconds_eq]
  unfold StampConsistent at hc
  generalize secondsOf (Int.ofNat (stamp s now life) - Int.ofNat now) = E at *
  generalize Int.ofNat (stamp s now life) = X at *
  unfold second at *
  simp only [Int.ofNat_eq_natCast, Dur] at *
  by_cases hE : 0 < E
  · have := hb.1 hE
    omega
  · omega

/-- A credential stamped at `issuedAt` with lifespan `life` stops being honoured within half a second
    of `issuedAt + life`: it is still honoured half a second before, and refused half a second after. -/
theorem stamped_access_token_lifetime (s : Site) (issuedAt : Time) (life : Dur) (req : Time) (cfgL : Dur) (now : Time)
    (h : 0 ≤ Int.ofNat issuedAt + life) :
    (2 * (Int.ofNat now - (Int.ofNat issuedAt + life)) ≤ - Int.ofNat second →
      validateAccessToken (some (stamp s issuedAt life)) req cfgL now none = .ok ()) ∧
    (2 * (Int.ofNat now - (Int.ofNat issuedAt + life)) > Int.ofNat second →
      validateAccessToken (some (stamp s issuedAt life)) req cfgL now none = .error .token_expired) := by
  have hc := stamp_consistent s issuedAt life h
  unfold StampConsistent at hc
  constructor
  · intro hn
    rw [access_opaque_model_eq_spec, opaqueVerdict_ok]
    refine ⟨?_, rfl⟩
    unfold honouredAt expiryInstant
    unfold second at *
    simp only [Int.ofNat_eq_natCast, Dur] at *
    omega
  · intro hn
    apply access_opaque_refused_after_expiry
    unfold expiryInstant
    unfold second at *
    simp only [Int.ofNat_eq_natCast, Dur] at *
    omega

/-! ### 4. per-client lifespans -/

/-- The regenerated table (what `GetEffectiveLifespan` reads in the source, today) is the documented
    rule: each (grant, token) pair reads the like-named field, and no other pair reads anything. -/
theorem lifespan_table_matches : Fosite.Gen.lifespanTable = Fosite.Spec.Expiry.lifespanTable := by decide

theorem lifespan_fields_match : Fosite.Gen.lifespanFields = Fosite.Spec.Expiry.declaredFields := by decide

theorem grant_type_consts_match : Fosite.Gen.grantTypeConsts = Fosite.Spec.Expiry.grantTypeConsts := by decide

theorem token_type_consts_match : Fosite.Gen.tokenTypeConsts = Fosite.Spec.Expiry.tokenTypeConsts := by decide

/-- every declared field is read by exactly one pair, and no pair reads two fields -/
theorem lifespan_table_one_to_one :
    (Fosite.Spec.Expiry.lifespanTable.map fun e => e.2.2).Nodup ∧
    (Fosite.Spec.Expiry.declaredFields.all fun f => (Fosite.Spec.Expiry.lifespanTable.map fun e => e.2.2).contains f) = true ∧
    Fosite.Spec.Expiry.lifespanTable.length = Fosite.Spec.Expiry.declaredFields.length ∧
    (Fosite.Spec.Expiry.lifespanTable.map fun e => (e.1, e.2.1)).Nodup := by
  refine ⟨?_, ?_, ?_, ?_⟩ <;> decide

/-- The model of `GetEffectiveLifespan` is the override of exactly the pair's own field when the
    client has one, else the server's value. -/
theorem lifespan_override_exact (c : ClientLifespans) (gt : GrantType) (tt : TokenType) (fb : Dur) :
    effectiveLifespan c gt tt fb = (clientOverride c gt tt).getD fb :=
  effective_eq c gt tt fb

theorem effective_eq_spec_table (c : ClientLifespans) (gt : GrantType) (tt : TokenType) (fb : Dur) :
    effectiveLifespan c gt tt fb = Fosite.Spec.Expiry.effective c gt tt fb :=
  effective_eq c gt tt fb

/-- an override takes precedence whatever its value (zero and negative durations are values) -/
theorem override_takes_precedence (cfg : ClientLifespanConfig) (gt : GrantType) (tt : TokenType) (d fb : Dur)
    (h : override cfg gt tt = some d) : effectiveLifespan (.set cfg) gt tt fb = d := by
  rw [lifespan_override_exact]; simp [clientOverride, h]

/-- no override ⇒ the server's value, untouched -/
theorem no_override_uses_server_value (c : ClientLifespans) (gt : GrantType) (tt : TokenType) (fb : Dur)
    (h : clientOverride c gt tt = none) : effectiveLifespan c gt tt fb = fb := by
  rw [lifespan_override_exact]; simp [h]

/-- a pair outside the table (device-code grant, authorize codes, user / device codes, PAR contexts,
    unknown strings) is never overridden -/
theorem no_field_no_override (cfg : ClientLifespanConfig) (gt : GrantType) (tt : TokenType) (fb : Dur)
    (h : ∀ g t, GrantType.constName gt = some g → TokenType.constName tt = some t → tableField g t = none) :
    effectiveLifespan (.set cfg) gt tt fb = fb := by
  apply no_override_uses_server_value
  unfold clientOverride override
  cases hg : GrantType.constName gt with
  | none => rfl
  | some g =>
    cases ht : TokenType.constName tt with
    | none => rfl
    | some t => simp [h g t hg ht]

/-! ### 5. pushed authorization requests (finding F3, repaired) and RFC 7523 assertions -/

/-- `authorizeRequestFromPAR` decides exactly the documented verdict: the request_uri is honoured up
    to and including the instant the PAR endpoint recorded, and refused with `invalid_request_uri`
    after it. -/
theorem par_model_eq_spec (exp : Option Time) (now : Time) : parUse exp now = parVerdict exp now := by
  cases exp with
  | none => rfl
  | some e =>
    simp only [parUse, parVerdict, before, Int.ofNat_eq_natCast]
    by_cases h : now ≤ e
    · have : ¬ ((e : Int) < (now : Int)) := by simp only [Time] at *; omega
      simp [h, this]
    · have : (e : Int) < (now : Int) := by simp only [Time] at *; omega
      simp [h, this]

/-- A pushed `request_uri` is refused once its expiry instant has passed. -/
theorem par_refused_after_expiry (e now : Time) (h : e < now) :
    parUse (some e) now = .error .invalid_request_uri := by
  rw [par_model_eq_spec]
  have : ¬ (now ≤ e) := Nat.not_le.mpr h
  simp [parVerdict, this]

theorem par_honoured_only_until_expiry (e now : Time) (h : parUse (some e) now = .ok ()) : now ≤ e := by
  rw [par_model_eq_spec] at h
  apply Classical.byContradiction
  intro hn
  simp [parVerdict, hn] at h

/-- The record of finding F3: the step as it was before the repair honoured every instant, so the
    demanded statement was false of it (witness: expiry 1, now 2).  The `par` ops of the driver found
    the same on the implementation (`expires_in=1 … accepted` one nanosecond after the expiry). -/
theorem par_before_fix_counterexample :
    ¬ (∀ (e now : Time), e < now → parUseBeforeFix (some e) now ≠ .ok ()) := by
  intro h
  exact h 1 2 (by decide) rfl

/-- the advertised `expires_in` of a PAR response is the whole seconds of the context lifespan, and
    the recorded expiry is exactly `now + lifespan` (no rounding) -/
theorem par_expires_in_consistent (now : Time) (life : Dur) (h : 0 ≤ life) :
    parStamp true now life = some (stamp .par now life) ∧
    Int.ofNat (stamp .par now life) = Int.ofNat now + life ∧
    parExpiresIn life * Int.ofNat second ≤ life ∧ life - parExpiresIn life * Int.ofNat second < Int.ofNat second := by
  have hb := secondsOf_bounds life
  refine ⟨rfl, (unrounded_sites_exact now life (by simp only [Int.ofNat_eq_natCast, Dur] at *; omega)).2.2, ?_, ?_⟩
  · unfold parExpiresIn; rw [wholeSeconds_eq]
    have := hb.2.2 h
    simp only [Dur] at *; omega
  · unfold parExpiresIn; rw [wholeSeconds_eq]; exact hb.2.1

/-- Residual (reported, not a theorem anyone should like): a request pushed with a nil session
    records no expiry, and is then honoured at every instant. -/
theorem par_without_session_never_expires (now use : Time) (life : Dur) :
    parUse (parStamp false now life) use = .ok () := rfl

/-- An RFC 7523 assertion is refused once the instant `exp·1s` has passed (exact instant, stricter
    than the whole-second rule of `MapClaims`), whatever its other claims. -/
theorem assertion_refused_after_expiry (e : Int) (iat nbf : Option Int) (iatOptional : Bool) (maxDur : Dur)
    (now : Time) (h : ¬ assertionHonouredAt e now) :
    validateAssertionTimes (some e) iat nbf iatOptional maxDur now = .error .invalid_grant := by
  have hlt : numericInstant e < Int.ofNat now := by
    unfold assertionHonouredAt at h; unfold numericInstant; omega
  have hb : before (numericInstant e) now = true := by
    unfold before; exact decide_eq_true hlt
  simp only [validateAssertionTimes, hb, if_true]

theorem assertion_without_exp_refused (iat nbf : Option Int) (iatOptional : Bool) (maxDur : Dur) (now : Time) :
    validateAssertionTimes none iat nbf iatOptional maxDur now = .error .invalid_grant := rfl

theorem assertion_honoured_only_until_expiry (e : Int) (iat nbf : Option Int) (iatOptional : Bool) (maxDur : Dur)
    (now : Time) (h : validateAssertionTimes (some e) iat nbf iatOptional maxDur now = .ok ()) :
    assertionHonouredAt e now := by
  apply Classical.byContradiction
  intro hn
  rw [assertion_refused_after_expiry e iat nbf iatOptional maxDur now hn] at h
  cases h

/-! ### 6. the history model uses these guards -/

/-- The expiry test of the stateful model (`Model.expiredAt`: code redemption, access-token
    introspection at every point of a history) is the guard proved correct above. -/
theorem history_expiry_guard_is_this_guard (exp : Option Time) (req : Time) (life : Dur) (now : Time) (h : 0 < now) :
    Fosite.Model.expiredAt exp req life now = true ↔ ¬ honouredAt (expiryInstant exp req life) now := by
  rw [hist_expiredAt_eq exp req life now h]; exact expiredWithFallback_iff exp req life now

theorem history_refresh_guard_is_this_guard (r : Req) (now : Time) :
    refreshExpired r now = true ↔ ¬ refreshHonouredAt r.sess.expRefresh now := by
  rw [hist_refreshExpired_iff, refresh_model_eq_spec]
  unfold refreshVerdict
  by_cases h : refreshHonouredAt r.sess.expRefresh now
  · simp [h, macResult]
  · simp [h]

/-! ### non-vacuity -/

def t0 : Time := 946684800 * second

-- an access token with a session expiry: honoured at the instant, refused one nanosecond later
example : validateAccessToken (some (t0 + 5)) t0 defaultAccessLife (t0 + 5) none = .ok () := by decide
example : validateAccessToken (some (t0 + 5)) t0 defaultAccessLife (t0 + 6) none = .error .token_expired := by decide
-- fallback requestedAt + lifespan, the one-hour server default
example : validateAccessToken none t0 (cfgLife 0 defaultAccessLife) (t0 + 3600 * second) none = .ok () := by decide
example : validateAccessToken none t0 (cfgLife 0 defaultAccessLife) (t0 + 3600 * second + 1) none = .error .token_expired := by decide
-- expiry is checked before the MAC
example : validateAuthorizeCode (some t0) t0 0 (t0 + 1) (some .token_signature_mismatch) = .error .token_expired := by decide
example : validateAuthorizeCode (some t0) t0 0 t0 (some .token_signature_mismatch) = .error .token_signature_mismatch := by decide
example : validateDeviceCode none t0 defaultDeviceLife (t0 + 600 * second + 1) none = .error .expired_token := by decide
example : validateUserCode none t0 defaultDeviceLife (t0 + 600 * second) = .ok () := by decide
example : validateRefreshToken none (t0 + 36500 * 86400 * second) none = .ok () := by decide
example : validateRefreshToken (some t0) (t0 + 1) none = .error .token_expired := by decide
-- JWT: session expiry t0 + 0.3 s ⇒ exp = ⌊·⌋; honoured through the end of that second, refused at the next
example : validateJWTAccessToken none (jwtClaimsAtIssue (some (t0 + 300000000)) none none (t0 - second)) (t0 + 999999999) = .ok () := by decide
example : validateJWTAccessToken none (jwtClaimsAtIssue (some (t0 + 300000000)) none none (t0 - second)) (t0 + second) = .error .token_expired := by decide
example : validateJWTAccessToken none (jwtClaimsAtIssue (some (t0 + 3600 * second)) (some (t0 + 5 * second)) none t0) t0 = .error .token_claim := by decide
-- expires_in: 1.5 s left ⇒ 1; half a second past ⇒ 0 (toward zero, not −1)
example : expiresInField (some (t0 + 1500000000)) 0 t0 = 1 := by decide
example : expiresInField (some t0) 0 (t0 + 500000000) = 0 := by decide
-- rounding: 0.5 s rounds up, just below rounds down; IssueAuthorizeCode does not round
example : stamp .codeToken (t0 + 500000000) (3600 * second) = t0 + 3601 * second := by decide
example : stamp .codeToken (t0 + 499999999) (3600 * second) = t0 + 3600 * second := by decide
example : stamp .issueAuthorizeCode (t0 + 499999999) (900 * second) = t0 + 900 * second + 499999999 := by decide
-- overrides: only the pair's own field counts
example : effectiveLifespan (.set { passwordGrantAccessTokenLifespan := some 7 }) .password .accessToken 42 = 7 := by decide
example : effectiveLifespan (.set { passwordGrantAccessTokenLifespan := some 7 }) .password .refreshToken 42 = 42 := by decide
example : effectiveLifespan (.set { passwordGrantAccessTokenLifespan := some 7 }) .refreshToken .accessToken 42 = 42 := by decide
example : effectiveLifespan (.set { passwordGrantAccessTokenLifespan := some 0 }) .password .accessToken 42 = 0 := by decide
example : effectiveLifespan .unset .password .accessToken 42 = 42 := by decide
-- F3 (repaired): refused one nanosecond after the recorded expiry, honoured at it
example : parUse (some t0) (t0 + 1) = .error .invalid_request_uri := by decide
example : parUse (some t0) t0 = .ok () := by decide
example : parUseBeforeFix (some t0) (t0 + 1) = .ok () := by decide
-- assertion: exp is the last honoured instant
example : validateAssertionTimes (some 946684800) (some 946684700) none false defaultJWTMaxDuration t0 = .ok () := by decide
example : validateAssertionTimes (some 946684800) (some 946684700) none false defaultJWTMaxDuration (t0 + 1) = .error .invalid_grant := by decide

end Fosite.Props.C07

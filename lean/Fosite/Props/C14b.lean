/-
  C14 — capstone: the monitor `Spec.IDToken.check` (the statement of C14 evaluated on one exchange and its
  observation) is silent on every exchange of the model.

  Covers ALL clauses of the property at once, under the readings of `Spec/IDToken.lean`: issued only with
  `openid` and a subject; verifies / alg (by construction of the observation: the model does not sign, `render`
  prints `sigok=1 alg=<sigalg>`); aud names the client; sub and iss from the session; nonce echoed, minimum
  length; exp in the future and within the configured lifetime unless pre-set; iat; at_hash / c_hash equal the
  left half of the hash chosen by the JWS algorithm of the access token / code of the same response, absent
  otherwise; refresh: same rules for the new access token, no c_hash, nonce of either request; a max_age /
  prompt=none / prompt=login / id_token_hint the session does not satisfy never comes with a token.

  `modelObservation e x sigalg` is the exchange's outcome (`Model.IDToken.exchange`, the function
  `pureModelIDToken` evaluates) read as a `Spec.IDToken.Observation` with the driver's own field functions
  (`Proofs/IDTokenCap.lean`); `caseOf` is the driver's `toCase`.  Not covered: the text round trip
  `decObservation (renderOutcome …)` of the driver (string functions that the kernel does not reduce) — it is
  evaluated on concrete op lines by `#guard roundTrip …` in `Proofs/IDTokenCap.lean`.

  Hypotheses (`CapHyp`, one field each; these are the `assumptions` of evidence/C14.json):
    header        the session's alg header chooses the hash the JWS alg of the signing key chooses
    digest        library fact: base64url of half a digest is not the empty string
    code_ne …     the OAuth 2.0 core succeeds and mints non-empty code / access tokens
    clock1..3     the clock is after year 1 at each step
    atHash0 …     the application does not pre-set at_hash / c_hash / nonce in the session's claims
    prompts_*     authorize endpoint: a value `none` / `login` the monitor finds in the prompt parameter is one
                  `ValidatePrompt`'s splitter finds (the monitor's list is a parameter of `caseOf`)
    device_*      device flow: the application-supplied form has no grant_type=refresh_token and a
                  single-valued prompt
-/
import Fosite.Proofs.IDTokenCap
namespace Fosite.Props.C14b
open Fosite.Model.IDToken Fosite.Spec.IDToken Fosite.Driver.IDToken Fosite.Proofs.IDTokenCap

/-- **Capstone.** For every environment, exchange (all seven first steps, all three reported steps), signing
    algorithm name and prompt list: the monitor, evaluated on the case and on the observation the model produces
    for it, reports no violated clause. -/
theorem monitor_silent_on_model (e : Env) (x : Exchange) (sigalg : String) (prompts : List String)
    (h : CapHyp e x sigalg prompts) :
    check (caseOf e x sigalg prompts) (modelObservation e x sigalg) = none :=
  silent h

/-- The same about what the driver evaluates: for every op line that decodes, the monitor is silent on
    `toCase d` and the observation of the exchange `pureModelIDToken` runs.  `decode` supplies the stand-in hash
    (`standIn_digest`), the artefact names and the absence of pre-set hash / nonce claims; what remains is
    `DriverHyp`: header consistency, clock, the two prompt splitters, the device-form restrictions. -/
theorem monitor_silent_on_driver_exchange (fs : List String) (d : Decoded) (hd : decode fs = some d)
    (h : DriverHyp d) : check (toCase d) (driverObservation d) = none :=
  silent_driver hd h

/-- the three parts by reported step (each is the capstone restricted to one `Last`) -/
theorem monitor_silent_on_model_authz (e : Env) (x : Exchange) (sigalg : String) (prompts : List String)
    (h : CapHyp e x sigalg prompts) (hl : x.last = .authz) :
    check (caseOf e x sigalg prompts) (modelObservation e x sigalg) = none := silent_authz h hl

theorem monitor_silent_on_model_token (e : Env) (x : Exchange) (sigalg : String) (prompts : List String)
    (h : CapHyp e x sigalg prompts) (hl : x.last = .token) :
    check (caseOf e x sigalg prompts) (modelObservation e x sigalg) = none := silent_token h hl

theorem monitor_silent_on_model_refresh (e : Env) (x : Exchange) (sigalg : String) (prompts : List String)
    (h : CapHyp e x sigalg prompts) (hl : x.last = .refresh) :
    check (caseOf e x sigalg prompts) (modelObservation e x sigalg) = none := silent_refresh h hl

/-- The driver's comparison of a hash claim (text) is the structured one used above. -/
theorem driver_binding_is_model_binding (m : ClaimMap) (k sigalg artefact : String) :
    decBinding (bindField m k sigalg artefact) = bindingOf standIn m k sigalg artefact :=
  decBinding_bindField m k sigalg artefact

/-! ## non-vacuity -/

section Examples

def exEnv_cap : Env where
  C := demoC
  cfgIssuer := "https://as.example"
  minEntropyRaw := 0
  cfgLifespan := 0
  lifeCode := none
  lifeImplicit := some 120000000000
  lifeRefresh := some 60000000000
  clientId := "client"
  clientPublic := false
  redirectSecure := true
  alg := .str "ES384"

def exClaims_cap : Claims where
  sub := "alice"
  aud := ["api", "client", "api"]
  authTime := 946684700000000000
  rat := 946684760000000000
  extra := [("sub", .raw "mallory"), ("name", .raw "Alice"), ("at_hash", .raw "evil")]

def exForm_cap : Form := { nonce := "nonce-nonce-1", maxAge := some 100, prompt := "consent", hint := .decoded "alice" }

def exX_cap (rt : RT) (last : Last) : Exchange where
  rt := rt
  last := last
  openid := true
  now1 := 946684800500000000
  dt1 := 1000000000
  dt2 := 2000000000
  form := exForm_cap
  refreshNonce := "refresh-nonce"
  claims := exClaims_cap
  code := "CODE"
  at0 := "AT0"
  at1 := "AT1"
  at2 := "AT2"
  fresh := "uuid"

/-- the hypotheses hold for concrete exchanges of every flow (prompt list as the driver splits it) -/
theorem exHyp (rt : RT) (last : Last) : CapHyp exEnv_cap (exX_cap rt last) "ES384" ["consent"] where
  header := by decide
  digest := demoC_digest _
  code_ne := (by decide : ("CODE" : String) ≠ "")
  at0_ne := (by decide : ("AT0" : String) ≠ "")
  at1_ne := (by decide : ("AT1" : String) ≠ "")
  at2_ne := (by decide : ("AT2" : String) ≠ "")
  clock1 := (by decide : zeroTime < (946684800500000000 : Int))
  clock2 := (by decide : zeroTime < (946684800500000000 : Int) + 1000000000)
  clock3 := (by decide : zeroTime < (946684800500000000 : Int) + 1000000000 + 2000000000)
  atHash0 := rfl
  cHash0 := rfl
  nonce0 := rfl
  prompts_none := fun _ h => absurd h (by decide : ¬ ((["consent"] : List String).contains "none" = true))
  prompts_login := fun _ h => absurd h (by decide : ¬ ((["consent"] : List String).contains "login" = true))
  device_gt := fun _ => (by decide : ("" : String) ≠ "refresh_token")
  device_none := fun _ h => absurd h (by decide : ¬ ((["consent"] : List String).contains "none" = true))
  device_login := fun _ h => absurd h (by decide : ¬ ((["consent"] : List String).contains "login" = true))

/-- an ID token IS produced (hybrid authorize response, token endpoint, refresh, device) and the monitor,
    evaluated, answers `none` -/
example :
    (match modelObservation exEnv_cap (exX_cap .cit .authz) "ES384", modelObservation exEnv_cap (exX_cap .code .token) "ES384",
           modelObservation exEnv_cap (exX_cap .ci .refresh) "ES384", modelObservation exEnv_cap (exX_cap .device .token) "ES384" with
     | .idToken _, .idToken _, .idToken _, .idToken _ => true
     | _, _, _, _ => false) = true ∧
    check (caseOf exEnv_cap (exX_cap .cit .authz) "ES384" ["consent"]) (modelObservation exEnv_cap (exX_cap .cit .authz) "ES384") = none ∧
    check (caseOf exEnv_cap (exX_cap .code .token) "ES384" ["consent"]) (modelObservation exEnv_cap (exX_cap .code .token) "ES384") = none ∧
    check (caseOf exEnv_cap (exX_cap .ci .refresh) "ES384" ["consent"]) (modelObservation exEnv_cap (exX_cap .ci .refresh) "ES384") = none := by
  decide

/-- what the observation of the hybrid response looks like -/
example : modelObservation exEnv_cap (exX_cap .cit .authz) "ES384" =
    .idToken { sigok := true, alg := "ES384", sub := some "alice", iss := some "https://as.example",
               aud := ["api", "client"], nonce := some "nonce-nonce-1", expRel := some 120, iatRel := some 0,
               atHash := .matches, cHash := .matches } := by
  decide

/-- the monitor is not trivially silent: deliberately wrong observations for the same case -/
example :
    let k := caseOf exEnv_cap (exX_cap .cit .authz) "ES384" ["consent"]
    let good : Obs := { sigok := true, alg := "ES384", sub := some "alice", iss := some "https://as.example",
                        aud := ["api", "client"], nonce := some "nonce-nonce-1", expRel := some 120,
                        iatRel := some 0, atHash := .matches, cHash := .matches }
    check k (.idToken good) = none ∧
    check k (.idToken { good with sub := some "mallory" }) = some "sub" ∧
    check k (.idToken { good with aud := ["api"] }) = some "aud" ∧
    check k (.idToken { good with nonce := some "other" }) = some "nonce" ∧
    check k (.idToken { good with expRel := some 121 }) = some "exp-lifetime" ∧
    check k (.idToken { good with expRel := some (-1) }) = some "exp-past" ∧
    check k (.idToken { good with atHash := .mismatch }) = some "at_hash" ∧
    check k (.idToken { good with cHash := .absent }) = some "c_hash" ∧
    check k (.idToken { good with alg := "RS256" }) = some "alg" ∧
    check k (.idToken { good with sigok := false }) = some "signature" ∧
    -- a token where the statement allows none: no openid, or a session that does not satisfy max_age
    check { k with openid := false } (.idToken good) = some "openid-scope" ∧
    check { k with maxAge := some 10 } (.idToken good) = some "max_age" ∧
    check { k with hint := .decoded "bob" } (.idToken good) = some "id_token_hint" := by
  decide

/-- a hypothesis that cannot be dropped: with a session header that chooses another hash than the signing key
    (`ES384` key, no `alg` header ⇒ SHA-256), the model's own token is reported (`at_hash`) — the limit theorem
    `C14.hash_follows_session_header_not_jws_alg` seen through the monitor -/
example : check (caseOf { exEnv_cap with alg := .absent } (exX_cap .cit .authz) "ES384" ["consent"])
    (modelObservation { exEnv_cap with alg := .absent } (exX_cap .cit .authz) "ES384") = some "at_hash" := by
  decide

/-- `atHash0` cannot be dropped: a session whose claims object already carries an `at_hash` keeps it in the
    pure `id_token` response, where no access token is delivered (the op line of the driver has no such field) -/
example : check (caseOf exEnv_cap { exX_cap .it .authz with claims := { exClaims_cap with atHash := "preset" } } "ES384" ["consent"])
    (modelObservation exEnv_cap { exX_cap .it .authz with claims := { exClaims_cap with atHash := "preset" } } "ES384") =
      some "at_hash" := by
  decide

/-- `nonce0` cannot be dropped: a nonce pre-set by the application survives into the refresh token when neither
    request carries one -/
example :
    let x : Exchange := { { exX_cap .code .refresh with claims := { exClaims_cap with nonce := "app-nonce" } } with
                          form := { exForm_cap with nonce := "" }, refreshNonce := "" }
    check (caseOf exEnv_cap x "ES384" ["consent"]) (modelObservation exEnv_cap x "ES384") = some "nonce" := by
  decide

/-- `device_gt` cannot be dropped: an application-supplied device form with `grant_type=refresh_token` switches the
    request block of `GenerateIDToken` off (limit theorem `C14.generate_skips_request_checks_on_refresh_grant`) -/
example :
    let x : Exchange := { exX_cap .device .token with
                          form := { exForm_cap with grantType := "refresh_token", hint := .decoded "bob" } }
    check (caseOf exEnv_cap x "ES384" ["consent"]) (modelObservation exEnv_cap x "ES384") = some "id_token_hint" := by
  decide

end Examples

end Fosite.Props.C14b

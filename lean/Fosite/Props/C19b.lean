/-
  C19 — "One provider and the reference store are safe under concurrent requests":
  the INTERLEAVING half (the lock-discipline half is `Props/C19.lean`).

  Semantics (`Model/Sched.lean`): any number of threads, each running one endpoint program
  (`Op.prog`), share one reference store; a schedule is a list of thread indices and `Sys.step s i`
  lets thread `i` perform its next call ATOMICALLY (`SState.exec` — one store operation under the
  store's mutexes; that the mutexes do make each operation atomic is what `Props/C19.lean` checks on
  the extracted lock facts).  Every `Prog.call` node is a scheduling point, which is at least as fine
  as storage-call granularity (`sched_storage_granularity_is_covered`).

  All theorems hold for EVERY number of threads, EVERY schedule (of any length, fair or not) and
  EVERY initial state; the ones about handed tokens additionally for every list of API operations.

  What the statement does NOT say, and what is not true of the reference store (see the evaluated
  examples at the end): single use of a code / refresh token under concurrency.  Two concurrent
  redemptions of one code may both succeed, two concurrent refreshes of one token may both succeed,
  and a refresh whose lookup precedes a concurrent revocation still succeeds afterwards.  C19 claims
  that each such outcome is the outcome of a sequential order of the individual store operations, that
  handed tokens are active unless a concurrent request invalidated them, and that minted values never
  repeat — this is what is proved here.
-/
import Fosite.Proofs.Sched

namespace Fosite.Props.C19
open Fosite.Model

/-! ## 1. The final state is the one a sequential order of the steps produces -/

/-- **Every schedule is a sequential order of atomic store operations.**  For the steps `tr` the run
    adds to the trace: the final store is the fold of `SState.exec` over the calls of `tr` in trace
    order; every recorded answer is the answer the store gave at that point of this order
    (`Genuine`); and every thread has advanced along its OWN program exactly by its own sub-trace
    (`Prog.follows`), i.e. each request only ever saw answers the store really gave, and the
    interleaving is an interleaving of genuine paths of the endpoint programs. -/
theorem sched_final_state_is_sequential (s : Sys) (sched : List Nat) :
    (runSched s sched).trace = s.trace ++ newTrace s sched ∧
    (runSched s sched).ss = execAll s.ss (traceCalls (newTrace s sched)) ∧
    Genuine s.ss (newTrace s sched) ∧
    (runSched s sched).thr.length = s.thr.length ∧
    (∀ i t0, s.thr[i]? = some t0 →
      ∃ t, (runSched s sched).thr[i]? = some t ∧ Prog.follows t0.prog (subTrace i (newTrace s sched)) t.prog) ∧
    (∀ e ∈ newTrace s sched, e.1 < s.thr.length) :=
  let R := reach_newTrace s sched
  ⟨R.trace, R.ss, R.genuine, R.len, R.thr, R.inRange⟩

/-- the same for the threads of a list of API operations started together: here the trace of the
    final system is the whole sequential order -/
theorem sched_final_state_is_sequential_ops (m : MState) (ops : List Op) (sched : List Nat) :
    let s := runSched (Sys.init m ops) sched
    s.ss = execAll m.ss (traceCalls s.trace) ∧ Genuine m.ss s.trace ∧
    ∀ i p, (ops.filterMap (fun op => op.prog m))[i]? = some p →
      ∃ t, s.thr[i]? = some t ∧ Prog.follows p (subTrace i s.trace) t.prog := by
  have R := reach_newTrace (Sys.init m ops) sched
  rw [newTrace_init] at R
  refine ⟨R.ss, R.genuine, ?_⟩
  intro i p hp
  have : (Sys.init m ops).thr[i]? = some (Thr.ofProg p) := by simp [Sys.init, hp]
  obtain ⟨t, ht, hf⟩ := R.thr i _ this
  exact ⟨t, ht, by simpa using hf⟩

/-- a finished thread's outcome is the value its program returns along its own sub-trace -/
theorem sched_outcome_is_result_of_own_path (s : Sys) (sched : List Nat) (i : Nat) (t0 : Thr) (o : Out)
    (h0 : s.thr[i]? = some t0) (ho : (runSched s sched).outs[i]? = some (some o)) :
    Prog.follows t0.prog (subTrace i (newTrace s sched)) (.ret o) := by
  obtain ⟨t, ht, hp⟩ := outs_getElem? _ i o ho
  obtain ⟨t', ht', hf⟩ := (reach_newTrace s sched).thr i t0 h0
  rw [ht] at ht'; cases ht'
  rw [hp] at hf; exact hf

/-- a path determines its end: the thread's state is its initial program with the recorded answers
    replayed through the continuations -/
theorem sched_thread_state_is_replay (s : Sys) (sched : List Nat) (i : Nat) (t0 : Thr) (h0 : s.thr[i]? = some t0) :
    ∃ t, (runSched s sched).thr[i]? = some t ∧
      t.prog = Prog.advance t0.prog ((subTrace i (newTrace s sched)).map (fun e => e.2)) := by
  obtain ⟨t, ht, hf⟩ := (reach_newTrace s sched).thr i t0 h0
  exact ⟨t, ht, follows_advance _ _ _ hf⟩

/-- schedules at storage-call granularity ("thread `i` performs its next storage call", the quiet
    calls in front of it riding along) are schedules of the fine-grained scheduler, so every theorem
    of this file covers them -/
theorem sched_storage_granularity_is_covered (s : Sys) (sched : List Nat) :
    ∃ sched', runStorage s sched = runSched s sched' := runStorage_is_runSched s sched

/-! ## 2. Token generation never returns the same value twice -/

/-- **Any two minting steps of a run return different values** (`createCode`, `createAccess`,
    `createRefresh`, `createPAR`, `createDevice`, `newId`): the later one returns a value beyond
    everything the earlier one minted (`createDevice` mints two: device code `n` and user code `n+1`),
    and both are at or above the initial mint counter. -/
theorem sched_minted_values_distinct (s : Sys) (sched : List Nat) (a b i j : Nat) (c1 c2 : Call) (r1 r2 : Res)
    (hab : a < b)
    (ha : (newTrace s sched)[a]? = some (i, c1, r1)) (hb : (newTrace s sched)[b]? = some (j, c2, r2))
    (h1 : c1.mints = true) (h2 : c2.mints = true) :
    ∃ n1 n2, r1 = .nat n1 ∧ r2 = .nat n2 ∧ n1 ≠ n2 ∧ n1 + c1.mintWidth ≤ n2 ∧ s.ss.next ≤ n1 := by
  obtain ⟨l1, l2, l3, htr⟩ := split_at_two _ a b _ _ hab ha hb
  have hg := (reach_newTrace s sched).genuine
  rw [htr] at hg
  obtain ⟨n1, n2, e1, e2, h0, hw⟩ := minted_increasing s.ss l1 l2 l3 i j c1 c2 r1 r2 hg h1 h2
  refine ⟨n1, n2, e1, e2, ?_, hw, h0⟩
  have : 1 ≤ c1.mintWidth := by cases c1 <;> simp [Call.mintWidth]
  omega

/-- **A minted value is distinct from every signature present in the initial store** (`Fresh`: all
    signatures of the initial store are below its mint counter — an invariant of the store,
    `sched_fresh_invariant`): no code, access token, refresh token, request URI, device code or user
    code of the initial store, and nothing the request-id indexes point at, equals it. -/
theorem sched_minted_value_not_in_initial_store (s : Sys) (hf : Fresh s.ss) (sched : List Nat) (a i : Nat) (c : Call) (r : Res)
    (ha : (newTrace s sched)[a]? = some (i, c, r)) (hm : c.mints = true) :
    ∃ n, r = .nat n ∧ ∀ k, n ≤ k →
      alookup s.ss.store.codes k = none ∧ alookup s.ss.store.access k = none ∧ alookup s.ss.store.refresh k = none ∧
      alookup s.ss.store.par k = none ∧ alookup s.ss.store.device k = none ∧
      (∀ sig d, alookup s.ss.store.device sig = some d → d.userSig ≠ k) ∧
      (∀ rid, alookup s.ss.store.atIdx rid ≠ some k) ∧ (∀ rid, alookup s.ss.store.rtIdx rid ≠ some k) := by
  obtain ⟨l1, l2, htr, _⟩ := split_at _ a _ ha
  have hg := (reach_newTrace s sched).genuine
  rw [htr] at hg
  obtain ⟨n, hr, hn⟩ := minted_single s.ss l1 l2 i c r hg hm
  exact ⟨n, hr, fun k hk => fresh_absent s.ss hf k (Nat.le_trans hn hk)⟩

/-- `Fresh` is preserved by every store operation, hence by every schedule -/
theorem sched_fresh_invariant (s : Sys) (sched : List Nat) (hf : Fresh s.ss) : Fresh (runSched s sched).ss := by
  rw [(reach_newTrace s sched).ss]; exact execAll_Fresh _ _ hf

theorem sched_fresh_exec (ss : SState) (c : Call) (hf : Fresh ss) : Fresh (ss.exec c).1 := exec_Fresh ss c hf

/-- `Fresh` holds of the empty store and is preserved by every operation of a sequential history
    (including the harness-level ones), so it holds wherever a concurrent batch may start -/
theorem sched_fresh_reachable (ops : List Op) : Fresh (after {} ops).ss := after_Fresh ops {} fresh_empty

/-! ## 3. Every token handed to a caller is active or was invalidated by a concurrent request -/

/-- **Access tokens.**  If thread `i` finished handing out access token `atk` (token endpoint:
    `.tokens atk …`; authorization endpoint: `.authz _ (some atk) _`), then thread `i` itself created it
    — a step `(i, createAccess q, atk)` of the trace — and in the final store the record is present
    (with the request `q` the thread stored), or a step of ANOTHER thread, executed after the creating
    step, is a removing call for it: `deleteAccess (some atk)`, or `revokeAccess id` / `rotateRefresh id _`
    with the record's request id `id = q.id`.  For every list of operations, every schedule, every
    initial state. -/
theorem sched_handed_access_token_active_or_invalidated_by_other (m : MState) (ops : List Op) (sched : List Nat)
    (i : Nat) (o : Out) (atk : Nat)
    (hout : (runSched (Sys.init m ops) sched).outs[i]? = some (some o)) (ha : o.handedAccess = some atk) :
    ∃ q l1 l2, (runSched (Sys.init m ops) sched).trace = l1 ++ (i, .createAccess q, .nat atk) :: l2 ∧
      (alookup (runSched (Sys.init m ops) sched).ss.store.access atk = some q ∨
        ∃ e ∈ l2, e.1 ≠ i ∧ e.2.1.removesAccess atk q.id = true) := by
  rw [← newTrace_init]
  exact handed_access _ (init_owned m ops) sched i o atk hout ha

/-- **Refresh tokens.**  If thread `i` finished with `.tokens _ (some rt) …`, then thread `i` itself
    created `rt` and in the final store the record is present AND ACTIVE, or a step of another thread
    after the creating step is a removing call for it: `deleteRefresh (some rt)`, or `revokeRefresh id` /
    `rotateRefresh id _` with the record's request id. -/
theorem sched_handed_refresh_token_active_or_invalidated_by_other (m : MState) (hf : Fresh m.ss) (ops : List Op)
    (sched : List Nat) (i : Nat) (o : Out) (rt : Nat)
    (hout : (runSched (Sys.init m ops) sched).outs[i]? = some (some o)) (ha : o.handedRefresh = some rt) :
    ∃ a q l1 l2, (runSched (Sys.init m ops) sched).trace = l1 ++ (i, .createRefresh a q, .nat rt) :: l2 ∧
      (alookup (runSched (Sys.init m ops) sched).ss.store.refresh rt = some { active := true, atSig := a, req := q } ∨
        ∃ e ∈ l2, e.1 ≠ i ∧ e.2.1.removesRefresh rt q.id = true) := by
  rw [← newTrace_init]
  exact handed_refresh _ (init_owned m ops) hf sched i o rt hout ha

/-- the per-handler fact behind both: whatever the store answers to each of its calls, an endpoint
    program hands out only tokens it created itself and for which it has issued no removing call
    since (the refresh flow rotates — `rotateRefresh` — BEFORE it creates the new pair) -/
theorem sched_endpoint_never_removes_what_it_hands_out (m : MState) (op : Op) (p : Prog Out) (h : op.prog m = some p)
    (l : List (Call × Res)) (o : Out) (hf : Prog.follows p l (.ret o)) :
    (∀ atk, o.handedAccess = some atk → ∃ q m1 m2, l = m1 ++ (.createAccess q, .nat atk) :: m2 ∧
      ∀ e ∈ m2, e.1.removesAccess atk q.id = false) ∧
    (∀ rt, o.handedRefresh = some rt → ∃ a q m1 m2, l = m1 ++ (.createRefresh a q, .nat rt) :: m2 ∧
      ∀ e ∈ m2, e.1.removesRefresh rt q.id = false) := by
  have hH := ownK_sound {} p Handed l o (own_op m op p h) hf
  constructor
  · intro atk ha
    obtain ⟨q, hq⟩ := hH.1 atk ha
    rcases ownAfter_acc {} l atk q hq with ⟨hm, _⟩ | ⟨m1, m2, hl, hcl⟩
    · cases hm
    · exact ⟨q, m1, m2, hl, hcl⟩
  · intro rt ha
    obtain ⟨a, q, hq⟩ := hH.2 rt ha
    rcases ownAfter_rts {} l rt a q hq with ⟨hm, _⟩ | ⟨m1, m2, hl, hcl⟩
    · cases hm
    · exact ⟨a, q, m1, m2, hl, hcl⟩

/-! ## 4. What was dead stays dead under every schedule -/

theorem sched_dead_code_stays_dead (s : Sys) (sched : List Nat) (sig : Nat) (hb : CodesBelow s.ss) (hd : CodeDead s.ss sig) :
    CodeDead (runSched s sched).ss sig := by
  rw [(reach_newTrace s sched).ss]
  exact (execAll_preserves (fun ss => CodesBelow ss ∧ CodeDead ss sig)
    (fun ss c h => ⟨exec_CodesBelow ss c h.1, exec_CodeDead ss c sig h.1 h.2⟩) _ _ ⟨hb, hd⟩).2

theorem sched_dead_refresh_token_stays_dead (s : Sys) (sched : List Nat) (sig : Nat) (hd : RTDead s.ss sig) :
    RTDead (runSched s sched).ss sig := by
  rw [(reach_newTrace s sched).ss]
  exact execAll_preserves (fun ss => RTDead ss sig) (fun ss c h => exec_RTDead ss c sig h) _ _ hd

theorem sched_dead_device_code_stays_dead (s : Sys) (sched : List Nat) (sig : Nat) (hd : DevDead s.ss sig) :
    DevDead (runSched s sched).ss sig := by
  rw [(reach_newTrace s sched).ss]
  exact execAll_preserves (fun ss => DevDead ss sig) (fun ss c h => exec_DevDead ss c sig h) _ _ hd

theorem sched_dead_request_uri_stays_dead (s : Sys) (sched : List Nat) (u : Nat) (hd : ParDead s.ss u) :
    ParDead (runSched s sched).ss u := by
  rw [(reach_newTrace s sched).ss]
  exact execAll_preserves (fun ss => ParDead ss u) (fun ss c h => exec_ParDead ss c u h) _ _ hd

/-- **Used codes, rotated / revoked refresh tokens, used device codes and consumed request URIs stay
    dead under every schedule of every set of threads** (no interleaving resurrects them). -/
theorem sched_dead_stays_dead (s : Sys) (sched : List Nat) :
    (∀ sig, CodesBelow s.ss → CodeDead s.ss sig → CodeDead (runSched s sched).ss sig) ∧
    (∀ sig, RTDead s.ss sig → RTDead (runSched s sched).ss sig) ∧
    (∀ sig, DevDead s.ss sig → DevDead (runSched s sched).ss sig) ∧
    (∀ u, ParDead s.ss u → ParDead (runSched s sched).ss u) :=
  ⟨fun sig hb hd => sched_dead_code_stays_dead s sched sig hb hd,
   fun sig hd => sched_dead_refresh_token_stays_dead s sched sig hd,
   fun sig hd => sched_dead_device_code_stays_dead s sched sig hd,
   fun u hd => sched_dead_request_uri_stays_dead s sched u hd⟩

/-! ## 5. Non-vacuity: concrete interleavings (kernel evaluation) -/

def schedClient : Client :=
  { id := "c1", grants := ["authorization_code", "refresh_token"], scopes := ["offline"], redirects := ["https://c1/cb"] }

/-- a registered client and one issued authorization code (signature 1, request id 0; mint counter 2) -/
def schedState : MState :=
  after {} [ .setClient schedClient,
             .authorize { clientId := "c1", responseTypes := ["code"], redirect := "https://c1/cb", scopes := ["offline"],
                          grantScopes := ["offline"], subject := "u" } ]

def schedRedeem : Op :=
  .redeem { clientId := "c1", credOk := true, code := { sig := some 1, exact := true }, redirect := "https://c1/cb" }

/-- … after the code has been redeemed once: access token 3, refresh token 4 (mint counter 5) -/
def schedState2 : MState := (step schedState schedRedeem).1

def schedRefresh : Op := .refresh { clientId := "c1", credOk := true, token := { sig := some 4, exact := true } }
def schedRevoke : Op := .revoke { clientId := "c1", credOk := true, token := { sig := some 4, exact := true }, hint := .refresh }

/-- thread 0, thread 1, thread 0, … -/
def alternate (n : Nat) : List Nat := (List.range n).flatMap (fun _ => [0, 1])

def handedOf (s : Sys) : List (Option Nat × Option Nat) :=
  s.outs.map (fun o => match o with
    | some o => (o.handedAccess, o.handedRefresh)
    | none => (none, none))
def isErrOut : Option Out → Bool | some (.err _) => true | _ => false
def isOkOut : Option Out → Bool | some .ok => true | _ => false
def accessSigs (s : Sys) : List Nat := s.ss.store.access.map (·.1)
def refreshSigs (s : Sys) : List (Nat × Bool) := s.ss.store.refresh.map (fun p => (p.1, p.2.active))
def isRotate : Nat × Call × Res → Bool | (_, .rotateRefresh _ _, _) => true | _ => false

set_option maxRecDepth 100000 in
/-- **two concurrent redemptions of the same code, alternating**: the reference store lets BOTH succeed
    (both `getCode` lookups precede both `invalidateCode`s; C19 does not claim single use under
    concurrency).  24 steps; the final store is the fold of the 24 store operations; both handed
    token pairs (4, 6) and (5, 7) are present and active; the four values are distinct. -/
example :
    let s := runSched (Sys.init schedState [schedRedeem, schedRedeem]) (alternate 12)
    s.allDone = true ∧ s.trace.length = 24 ∧
    handedOf s = [(some 4, some 6), (some 5, some 7)] ∧
    s.ss.store = (execAll schedState.ss (traceCalls s.trace)).store ∧
    s.ss.next = (execAll schedState.ss (traceCalls s.trace)).next ∧
    accessSigs s = [4, 5] ∧ refreshSigs s = [(6, true), (7, true)] ∧
    (alookup s.ss.store.codes 1).map (·.active) = some false := by
  decide

set_option maxRecDepth 100000 in
/-- the same two redemptions one after the other: the second is refused (`invalid_grant`) and, the code
    having been used before, everything issued for the authorization is revoked -/
example :
    let s := runSched (Sys.init schedState [schedRedeem, schedRedeem]) (List.replicate 12 0 ++ List.replicate 12 1)
    s.allDone = true ∧ handedOf s = [(some 3, some 4), (none, none)] ∧ (s.outs.map isErrOut) = [false, true] ∧
    accessSigs s = [] ∧ refreshSigs s = [(4, false)] := by
  decide

set_option maxRecDepth 100000 in
/-- **a refresh racing a revocation of the same refresh token, alternating**: the refresh looked the token
    up (active) before the revocation deactivated it; its `rotateRefresh` then finds the record
    (inactive) and proceeds.  The revocation answers OK, the refresh answers a fresh pair (6, 7), both of
    which are present and active in the final store: a sequential order of the individual store
    operations, though not of the two requests. -/
example :
    let s := runSched (Sys.init schedState2 [schedRefresh, schedRevoke]) (alternate 8)
    s.allDone = true ∧ handedOf s = [(some 6, some 7), (none, none)] ∧ (s.outs.map isOkOut) = [false, true] ∧
    s.ss.store = (execAll schedState2.ss (traceCalls s.trace)).store ∧
    accessSigs s = [6] ∧ refreshSigs s = [(4, false), (7, true)] := by
  decide

set_option maxRecDepth 100000 in
/-- **a handed token invalidated by the other thread**: two refreshes of the same refresh token 4.  Thread 1
    looks the token up, then thread 0 runs to completion (handing out 7 and 8), then thread 1 goes on:
    its `rotateRefresh` revokes by REQUEST ID and thereby removes thread 0's new access token 7 and
    deactivates thread 0's new refresh token 8.  Both requests succeed; thread 0's pair is gone at the
    end (removed by a step of thread 1 after the creating steps — the second disjunct of
    `sched_handed_*_active_or_invalidated_by_other`), thread 1's pair (9, 10) is live. -/
example :
    let s := runSched (Sys.init schedState2 [schedRefresh, schedRefresh]) ([1, 1, 1, 1] ++ List.replicate 8 0 ++ List.replicate 4 1)
    s.allDone = true ∧ handedOf s = [(some 7, some 8), (some 9, some 10)] ∧
    accessSigs s = [9] ∧ refreshSigs s = [(4, false), (8, false), (10, true)] ∧
    ((s.trace.drop 12).filter isRotate).map (·.1) = [1] ∧
    s.ss.store = (execAll schedState2.ss (traceCalls s.trace)).store := by
  decide

set_option maxRecDepth 100000 in
/-- two refreshes of the same token, alternating: both rotate first, then both create — both pairs live
    (no single use under concurrency) -/
example :
    let s := runSched (Sys.init schedState2 [schedRefresh, schedRefresh]) (alternate 8)
    s.allDone = true ∧ handedOf s = [(some 7, some 9), (some 8, some 10)] ∧
    accessSigs s = [7, 8] ∧ refreshSigs s = [(4, false), (9, true), (10, true)] := by
  decide

set_option maxRecDepth 100000 in
/-- storage-call granularity: 10 rounds suffice for the two redemptions (24 fine-grained steps) -/
example :
    let s := runStorage (Sys.init schedState [schedRedeem, schedRedeem]) (alternate 10)
    s.allDone = true ∧ s.trace.length = 24 ∧ handedOf s = [(some 4, some 6), (some 5, some 7)] := by
  decide

/-- the hypothesis `Fresh` of the refresh-token theorem holds of the example states (and of every state
    a history of operations reaches from the empty store: `sched_fresh_reachable`) -/
example : Fresh schedState2.ss := step_Fresh _ _ (after_Fresh _ _ fresh_empty)

end Fosite.Props.C19

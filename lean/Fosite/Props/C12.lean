/-
  C12 — scope and audience policies mean what they document.
  Property theorems only; lemmas live in `Fosite/Proofs`.
-/
import Fosite.Proofs.Scope
namespace Fosite.Props.C12
open Fosite Fosite.Model

/-- `WildcardScopeStrategy` (model of the Go loop) decides exactly the documented relation, for every
    list of matchers and every needle. -/
theorem wildcard_model_eq_spec (matchers : List (List Char)) (needle : List Char) :
    wildcardScope matchers needle = Spec.wildcard matchers needle := by
  unfold wildcardScope Spec.wildcard
  congr 1
  funext m
  exact Proofs.wildcardOne_eq m needle

/-- `ExactScopeStrategy` is list membership. -/
theorem exact_model_eq_spec (haystack : List (List Char)) (needle : List Char) :
    exactScope haystack needle = Spec.exact haystack needle := by
  unfold exactScope Spec.exact
  induction haystack with
  | nil => simp
  | cons h hs ih =>
    simp only [List.any_cons, List.contains_cons, ih]

/-- A trailing wildcard needs at least one more segment: `users.*` never matches `users`. -/
theorem wildcard_trailing_star_needs_segment (p : List Seg) :
    Spec.wildcardSegs (p ++ [star]) p = false :=
  Proofs.wildcardSegs_longer _ _ (by simp)

/-- A wildcard never matches an empty segment. -/
theorem wildcard_star_rejects_empty_segment :
    Spec.wildcardSegs [star] [[]] = false := by decide

-- README examples (non-vacuity: the relation is neither empty nor full)
example : wildcardScope ["users.*".toList] "users.read".toList = true := by decide
example : wildcardScope ["users.*".toList] "users.read.foo".toList = true := by decide
example : wildcardScope ["users".toList] "users.read".toList = false := by decide
example : wildcardScope ["users.read.*".toList] "users.read".toList = false := by decide
example : wildcardScope ["users.*.*".toList] "users.read".toList = false := by decide
example : wildcardScope ["users.*.*".toList] "users.read.own.other".toList = true := by decide

end Fosite.Props.C12

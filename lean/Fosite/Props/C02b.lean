/-
  C02, second half — the refusal paths of a code redemption (`Props/C02.lean` has the success path:
  a redemption that returns tokens had the right client / redirect_uri / time and carries the grant).

  Clauses of the property text covered here, all for the fault-free `step` of the model and for
  EVERY state and request unless a hypothesis says otherwise:

  * "any other attempt is refused (as invalid_grant for a foreign client or a different
    redirect_uri)": `foreign_client_refused_invalid_grant`, `different_redirect_uri_refused_invalid_grant`;
    "only before it expires": `expired_code_refused_invalid_request` (the owner passing every other
    check is answered `invalid_request` — by `AuthorizeExplicitGrantHandler.PopulateTokenEndpointResponse`,
    the first place where the stored session's expiry is looked at; reading of DESIGN §3 C02: any error
    class is acceptable for expiry) and `expired_code_never_issues` (whoever presents it);
  * "issues nothing": `refused_redeem_changes_no_token_record` (the whole store, not only the five
    tables, and the client registry are unchanged; only the mint counter moved, by the request id)
    and `refused_redeem_issues_nothing` (no `createAccess` / `createRefresh` in the storage-call log);
  * "and leaves the code usable by its rightful holder": `refused_attempt_leaves_code_usable`
    (every later request gets the answer it would have got, fresh signatures one further) and
    `rightful_holder_still_succeeds`.

  The two hypotheses of the "issues nothing" theorems, both decidable:
  * `NotReplay`: the presented code, if known, is still active.  A replayed code legitimately revokes
    the tokens of its authorization (C01); `replayed_code_keeps_code_tables` says what that branch leaves alone.
  * `OidcSessionOk`: the OpenID Connect session stored under the code, if any, grants `openid` and has
    a subject — which is how the authorization endpoint writes it.  Without it the clause is FALSE of
    the model and of the Go code alike: `OpenIDConnectExplicitHandler.PopulateTokenEndpointResponse`
    runs after the code handler has committed, so a malformed OIDC session makes the request fail
    with the code consumed and tokens stored (`malformed_oidc_session_burns_code`).  No sequence of
    model operations produces such a state: `OidcSessionOk` holds of every state reachable from the
    empty one (`Model.reachable_sessionOk`, invariant `OidcInv`), and the `reachable_…` theorems at
    the end state the clauses for reachable states without it.
-/
import Fosite.Proofs.PKCEHistory
import Fosite.Props.C02
namespace Fosite.Props.C02b
open Fosite.Model

/-- the state a refused request leaves: nothing but the mint counter moved (by the request id) -/
def bumped (s : MState) : MState := { s with ss := { s.ss with next := s.ss.next + 1 } }

/-- **Foreign client.** An authenticated client that may use the grant, presenting an exact copy of
    a known, unredeemed code that was issued to another client, is answered `invalid_grant`, and
    nothing is written. -/
theorem foreign_client_refused_invalid_grant (s : MState) (q : RedeemReq) (client : Client) (rec : CodeRec)
    (hcl : s.ss.clients.find? (fun c => c.id == q.clientId) = some client)
    (hcred : (client.isPublic || q.credOk) = true)
    (hgr : client.grants.contains "authorization_code" = true)
    (hrec : q.code.sig.bind (alookup s.ss.store.codes) = some rec) (hact : rec.active = true)
    (hexact : q.code.exact = true)
    (hforeign : rec.req.client.id ≠ client.id) :
    (step s (.redeem q)).2.1 = .err .invalid_grant ∧ (step s (.redeem q)).1 = bumped s := by
  have hv := redeemVerdict_foreign_client s.cfg s.now q s.ss.store s.ss.clients client rec hcl hcred hgr hrec hact hexact
    (by simpa using hforeign)
  have hp := redeemPure_refuse s.cfg s.now q s.ss _ hv
  obtain ⟨h1, h2, _⟩ := step_redeem_pure s q
  rw [h1, h2, hp]; exact ⟨rfl, rfl⟩

/-- **Different redirect_uri.** The code's own client, presenting the code with a `redirect_uri`
    other than the one the authorization request carried, is answered `invalid_grant`, and nothing
    is written. -/
theorem different_redirect_uri_refused_invalid_grant (s : MState) (q : RedeemReq) (client : Client) (rec : CodeRec)
    (hcl : s.ss.clients.find? (fun c => c.id == q.clientId) = some client)
    (hcred : (client.isPublic || q.credOk) = true)
    (hgr : client.grants.contains "authorization_code" = true)
    (hrec : q.code.sig.bind (alookup s.ss.store.codes) = some rec) (hact : rec.active = true)
    (hexact : q.code.exact = true)
    (hown : rec.req.client.id = client.id)
    (hsent : rec.req.formGet "redirect_uri" ≠ "") (hdiff : rec.req.formGet "redirect_uri" ≠ q.redirect) :
    (step s (.redeem q)).2.1 = .err .invalid_grant ∧ (step s (.redeem q)).1 = bumped s := by
  have hv := redeemVerdict_different_redirect s.cfg s.now q s.ss.store s.ss.clients client rec hcl hcred hgr hrec hact hexact
    (by simpa using hown) (by simp [hsent, hdiff])
  have hp := redeemPure_refuse s.cfg s.now q s.ss _ hv
  obtain ⟨h1, h2, _⟩ := step_redeem_pure s q
  rw [h1, h2, hp]; exact ⟨rfl, rfl⟩

/-- **Expired code, presented by its owner** with the right redirect_uri and a verifier the PKCE
    handler accepts: answered `invalid_request`, nothing is written. -/
theorem expired_code_refused_invalid_request (s : MState) (q : RedeemReq) (client : Client) (rec : CodeRec)
    (hcl : s.ss.clients.find? (fun c => c.id == q.clientId) = some client)
    (hcred : (client.isPublic || q.credOk) = true)
    (hgr : client.grants.contains "authorization_code" = true)
    (hrec : q.code.sig.bind (alookup s.ss.store.codes) = some rec) (hact : rec.active = true)
    (hexact : q.code.exact = true)
    (hown : rec.req.client.id = client.id)
    (hred : rec.req.formGet "redirect_uri" = "" ∨ rec.req.formGet "redirect_uri" = q.redirect)
    (hpk : pkceVerdict s.cfg (q.code.sig.bind (alookup s.ss.store.pkce)) q.verifier client.isPublic = none)
    (hexp : expiredAt rec.req.sess.expCode s.now s.cfg.codeLife s.now = true) :
    (step s (.redeem q)).2.1 = .err .invalid_request ∧ (step s (.redeem q)).1 = bumped s := by
  have hv := redeemVerdict_expired s.cfg s.now q s.ss.store s.ss.clients client rec hcl hcred hgr hrec hact hexact
    (by simpa using hown) (by rcases hred with h | h <;> simp [h]) hpk hexp
  have hp := redeemPure_refuse s.cfg s.now q s.ss _ hv
  obtain ⟨h1, h2, _⟩ := step_redeem_pure s q
  rw [h1, h2, hp]; exact ⟨rfl, rfl⟩

/-- **Expired code, whoever presents it**: while the code is unredeemed the answer is an error and
    nothing is written (which error depends on which check fails first). -/
theorem expired_code_never_issues (s : MState) (q : RedeemReq) (rec : CodeRec)
    (hrec : q.code.sig.bind (alookup s.ss.store.codes) = some rec) (hact : rec.active = true)
    (hexp : expiredAt rec.req.sess.expCode s.now s.cfg.codeLife s.now = true) :
    (∃ e, (step s (.redeem q)).2.1 = .err e) ∧ (step s (.redeem q)).1 = bumped s := by
  obtain ⟨h1, h2, _⟩ := step_redeem_pure s q
  cases hv : redeemVerdict s.cfg s.now q s.ss.store s.ss.clients with
  | refuse e =>
    have hp := redeemPure_refuse s.cfg s.now q s.ss _ hv
    rw [h1, h2, hp]; exact ⟨⟨e, rfl⟩, rfl⟩
  | replay rec' =>
    obtain ⟨h3, h4⟩ := redeemVerdict_replay _ _ _ _ _ _ hv
    rw [hrec] at h3; cases h3; rw [hact] at h4; cases h4
  | issue client rec' => exact absurd hv (redeemVerdict_expired_any _ _ _ _ _ rec hrec hexp client rec')

/-- **A refused redemption changes no token record.** For every redemption whose answer is not a
    token response, outside the replay branch: the answer is an error and the state afterwards is the
    state before with the mint counter advanced by one (the request id) — codes, access tokens,
    refresh tokens, PKCE and OIDC sessions, indexes, pushed requests, device authorizations, client
    registry, configuration and clock are all unchanged. -/
theorem refused_redeem_changes_no_token_record (s : MState) (q : RedeemReq)
    (hnr : NotReplay s.ss q) (hoidc : OidcSessionOk s.ss q)
    (hout : (step s (.redeem q)).2.1.tokensIssued = false) :
    (∃ e, (step s (.redeem q)).2.1 = .err e) ∧ (step s (.redeem q)).1 = bumped s := by
  obtain ⟨h1, h2, _⟩ := step_redeem_pure s q
  rw [h2] at hout
  obtain ⟨e, _, hp⟩ := redeemPure_not_tokens s.cfg s.now q s.ss hnr hoidc hout
  rw [h1, h2, hp]; exact ⟨⟨e, rfl⟩, rfl⟩

/-- … spelled out for the five tables the property speaks of -/
theorem refused_redeem_tables_unchanged (s : MState) (q : RedeemReq)
    (hnr : NotReplay s.ss q) (hoidc : OidcSessionOk s.ss q)
    (hout : (step s (.redeem q)).2.1.tokensIssued = false) :
    (step s (.redeem q)).1.ss.store.codes = s.ss.store.codes ∧
    (step s (.redeem q)).1.ss.store.access = s.ss.store.access ∧
    (step s (.redeem q)).1.ss.store.refresh = s.ss.store.refresh ∧
    (step s (.redeem q)).1.ss.store.pkce = s.ss.store.pkce ∧
    (step s (.redeem q)).1.ss.store.oidc = s.ss.store.oidc := by
  rw [(refused_redeem_changes_no_token_record s q hnr hoidc hout).2]
  exact ⟨rfl, rfl, rfl, rfl, rfl⟩

/-- **Refusals issue nothing.** In a refused redemption (outside the replay branch) the storage-call
    log contains no `createAccess` and no `createRefresh`.  (In the fault-free run these calls cannot
    fail, and once the code handler has stored the access token every remaining step succeeds when the
    OIDC session is well-formed — so a logged token-creating call means a token response.) -/
theorem refused_redeem_issues_nothing (s : MState) (q : RedeemReq)
    (hnr : NotReplay s.ss q) (hoidc : OidcSessionOk s.ss q)
    (hout : (step s (.redeem q)).2.1.tokensIssued = false) :
    ∀ e ∈ (step s (.redeem q)).2.2, e.1.isIssue = false := by
  obtain ⟨_, h2, h3⟩ := step_redeem_pure s q
  rw [h2] at hout
  obtain ⟨e, _, hp⟩ := redeemPure_not_tokens s.cfg s.now q s.ss hnr hoidc hout
  rw [h3]
  apply redeem_log_no_issue
  have := congrArg (fun p => p.1.next) ((redeem_refines s.cfg s.now q s.ss).trans hp)
  exact this

/-- **A refused attempt leaves the code usable.** After a refused redemption `q0` (outside the replay
    branch), every token request `q` gets exactly the answer it would have got had `q0` never been
    made, with freshly minted signatures one further along the counter. -/
theorem refused_attempt_leaves_code_usable (s : MState) (q0 q : RedeemReq)
    (hnr : NotReplay s.ss q0) (hoidc : OidcSessionOk s.ss q0)
    (hout : (step s (.redeem q0)).2.1.tokensIssued = false) :
    (step (step s (.redeem q0)).1 (.redeem q)).2.1 = (step s (.redeem q)).2.1.shift 1 := by
  rw [(refused_redeem_changes_no_token_record s q0 hnr hoidc hout).2]
  rw [(step_redeem_pure (bumped s) q).2.1, (step_redeem_pure s q).2.1]
  exact redeemPure_shift s.cfg s.now q s.ss

/-- in particular the rightful holder still succeeds, with the same scopes, the same `expires_in`,
    and a refresh token / ID token exactly if it would have got one -/
theorem rightful_holder_still_succeeds (s : MState) (q0 q : RedeemReq) (a r i e sc)
    (hnr : NotReplay s.ss q0) (hoidc : OidcSessionOk s.ss q0)
    (hout : (step s (.redeem q0)).2.1.tokensIssued = false)
    (hq : (step s (.redeem q)).2.1 = .tokens a r i e sc) :
    (step (step s (.redeem q0)).1 (.redeem q)).2.1 = .tokens (a + 1) (r.map (· + 1)) i e sc := by
  rw [refused_attempt_leaves_code_usable s q0 q hnr hoidc hout, hq]; rfl

/-- … and conversely a request that is refused stays refused with the same error, however many
    refused attempts are made in between -/
theorem refused_stays_refused (s : MState) (q0 q : RedeemReq) (e : Err)
    (hnr : NotReplay s.ss q0) (hoidc : OidcSessionOk s.ss q0)
    (hout : (step s (.redeem q0)).2.1.tokensIssued = false)
    (hq : (step s (.redeem q)).2.1 = .err e) :
    (step (step s (.redeem q0)).1 (.redeem q)).2.1 = .err e := by
  rw [refused_attempt_leaves_code_usable s q0 q hnr hoidc hout, hq]; rfl

/-- The replay branch (a code that was redeemed before): `invalid_grant`; codes, PKCE and OIDC
    sessions are left alone — what it revokes are the access and refresh tokens of the authorization. -/
theorem replayed_code_keeps_code_tables (s : MState) (q : RedeemReq) (client : Client) (rec : CodeRec)
    (hcl : s.ss.clients.find? (fun c => c.id == q.clientId) = some client)
    (hcred : (client.isPublic || q.credOk) = true)
    (hgr : client.grants.contains "authorization_code" = true)
    (hrec : q.code.sig.bind (alookup s.ss.store.codes) = some rec) (hact : rec.active = false) :
    (step s (.redeem q)).2.1 = .err .invalid_grant ∧
    (step s (.redeem q)).1.ss.store.codes = s.ss.store.codes ∧
    (step s (.redeem q)).1.ss.store.pkce = s.ss.store.pkce ∧
    (step s (.redeem q)).1.ss.store.oidc = s.ss.store.oidc := by
  have hv : redeemVerdict s.cfg s.now q s.ss.store s.ss.clients = .replay rec := by
    simp only [redeemVerdict, hcl, hcred, hgr, hrec, hact, Bool.not_true, Bool.not_false, Bool.false_eq_true, ↓reduceIte]
  obtain ⟨h1, h2, _⟩ := step_redeem_pure s q
  obtain ⟨r1, r2, r3, r4, _⟩ := redeemPure_replay s.cfg s.now q s.ss rec hv
  rw [h1, h2]; exact ⟨r1, r2, r3, r4⟩

/-! ### non-vacuity: concrete histories -/

def owner : Client := { id := "c1", grants := ["authorization_code"], scopes := ["a"], redirects := ["https://c1/cb"] }
def other : Client := { id := "c2", grants := ["authorization_code"], scopes := ["a"], redirects := ["https://c2/cb"] }

/-- two clients; `c1` obtains code 1 (redirect_uri sent, code lifetime 15 min) -/
def setup : List Op :=
  [ .setClient owner, .setClient other,
    .authorize { clientId := "c1", responseTypes := ["code"], redirect := "https://c1/cb", scopes := ["a"],
                 grantScopes := ["a"], subject := "u" } ]

def s0 : MState := after {} setup

def byOwner : RedeemReq := { clientId := "c1", credOk := true, code := { sig := some 1, exact := true }, redirect := "https://c1/cb" }
def byOther : RedeemReq := { byOwner with clientId := "c2" }
def wrongRedirect : RedeemReq := { byOwner with redirect := "https://c1/other" }
def code1 : CodeRec := (alookup s0.ss.store.codes 1).getD default

set_option maxRecDepth 4096 in
/-- the hypotheses of `foreign_client_refused_invalid_grant` hold of `s0`, `byOther` … -/
example : (step s0 (.redeem byOther)).2.1 = .err .invalid_grant ∧ (step s0 (.redeem byOther)).1 = bumped s0 :=
  foreign_client_refused_invalid_grant s0 byOther other code1 (by decide) (by decide) (by decide) (by decide) (by decide)
    (by decide) (by decide)

set_option maxRecDepth 4096 in
/-- … those of `different_redirect_uri_refused_invalid_grant` of `s0`, `wrongRedirect` … -/
example : (step s0 (.redeem wrongRedirect)).2.1 = .err .invalid_grant :=
  (different_redirect_uri_refused_invalid_grant s0 wrongRedirect owner code1 (by decide) (by decide) (by decide) (by decide)
    (by decide) (by decide) (by decide) (by decide) (by decide)).1

/-- sixteen minutes later the code has expired -/
def s0late : MState := after {} (setup ++ [.advance (16 * 60 * 1000000000)])
def code1late : CodeRec := (alookup s0late.ss.store.codes 1).getD default

set_option maxRecDepth 4096 in
/-- … those of `expired_code_refused_invalid_request` of `s0late`, `byOwner` -/
example : (step s0late (.redeem byOwner)).2.1 = .err .invalid_request :=
  (expired_code_refused_invalid_request s0late byOwner owner code1late (by decide) (by decide) (by decide) (by decide)
    (by decide) (by decide) (by decide) (by decide) (by decide) (by decide)).1

set_option maxRecDepth 4096 in
/-- … those of `expired_code_never_issues` of `s0late` and the OTHER client's request (refused, whichever check fires first) -/
example : (∃ e, (step s0late (.redeem byOther)).2.1 = .err e) ∧ (step s0late (.redeem byOther)).1 = bumped s0late :=
  expired_code_never_issues s0late byOther code1late (by decide) (by decide) (by decide)

/-- the owner has redeemed code 1 -/
def s0used : MState := after {} (setup ++ [.redeem byOwner])
def code1used : CodeRec := (alookup s0used.ss.store.codes 1).getD default

set_option maxRecDepth 4096 in
/-- … those of `replayed_code_keeps_code_tables` of `s0used`: a second presentation is the replay branch -/
example : (step s0used (.redeem byOwner)).2.1 = .err .invalid_grant :=
  (replayed_code_keeps_code_tables s0used byOwner owner code1used (by decide) (by decide) (by decide) (by decide) (by decide)).1

set_option maxRecDepth 4096 in
/-- the hypotheses of the "issues nothing" theorems hold of the foreign attempt, and the owner's
    request — which succeeds in `s0` — succeeds after it -/
example : NotReplay s0.ss byOther ∧ OidcSessionOk s0.ss byOther ∧ (step s0 (.redeem byOther)).2.1.tokensIssued = false ∧
    (step s0 (.redeem byOwner)).2.1.tokensIssued = true ∧
    (step (step s0 (.redeem byOther)).1 (.redeem byOwner)).2.1.tokensIssued = true := by decide

set_option maxRecDepth 4096 in
/-- **A foreign client's attempt, a wrong redirect_uri, then the owner succeeds** — and a second
    presentation of the now-used code is refused (whole history from the empty state). -/
example :
    (trace {} (setup ++ [.redeem byOther, .redeem wrongRedirect, .redeem byOwner, .redeem byOwner])).map (fun p => p.2.tokensIssued)
      = [false, false, false, false, false, true, false] ∧
    ((trace {} (setup ++ [.redeem byOther, .redeem wrongRedirect])).map (fun p => p.2.error?)).drop 3
      = [some .invalid_grant, some .invalid_grant] := by decide

/-- a state in which code 1 carries an OIDC session that lacks the `openid` scope (not producible
    by the model's operations: the authorization endpoint stores the session only when `openid` was granted) -/
def malformed : MState :=
  { s0 with ss := { s0.ss with store := { s0.ss.store with oidc := [(1, { id := 0, client := owner })] } } }

set_option maxRecDepth 4096 in
/-- Why `OidcSessionOk` is needed: with a malformed OIDC session the owner's request is refused
    (`misconfiguration`) AFTER the code handler has committed — the code is consumed and an access
    token has been stored. -/
theorem malformed_oidc_session_burns_code :
    ¬ OidcSessionOk malformed.ss byOwner ∧ NotReplay malformed.ss byOwner ∧
    (step malformed (.redeem byOwner)).2.1.error? = some .misconfiguration ∧
    (alookup (step malformed (.redeem byOwner)).1.ss.store.codes 1).map (·.active) = some false ∧
    (step malformed (.redeem byOwner)).1.ss.store.access.length = 1 := by
  decide

/-! ### reachable states: the OIDC side condition is a theorem -/

/-- **A refused redemption changes no token record** — in every state reachable from the empty
    state by any operations, for every redemption outside the replay branch. -/
theorem reachable_refused_redeem_changes_no_token_record (ops : List Op) (q : RedeemReq)
    (hnr : NotReplay (after {} ops).ss q)
    (hout : (step (after {} ops) (.redeem q)).2.1.tokensIssued = false) :
    (∃ e, (step (after {} ops) (.redeem q)).2.1 = .err e) ∧ (step (after {} ops) (.redeem q)).1 = bumped (after {} ops) :=
  refused_redeem_changes_no_token_record _ q hnr (reachable_sessionOk ops q) hout

theorem reachable_refused_redeem_issues_nothing (ops : List Op) (q : RedeemReq)
    (hnr : NotReplay (after {} ops).ss q)
    (hout : (step (after {} ops) (.redeem q)).2.1.tokensIssued = false) :
    ∀ e ∈ (step (after {} ops) (.redeem q)).2.2, e.1.isIssue = false :=
  refused_redeem_issues_nothing _ q hnr (reachable_sessionOk ops q) hout

/-- **A refused attempt leaves the code usable** — reachable states. -/
theorem reachable_refused_attempt_leaves_code_usable (ops : List Op) (q0 q : RedeemReq)
    (hnr : NotReplay (after {} ops).ss q0)
    (hout : (step (after {} ops) (.redeem q0)).2.1.tokensIssued = false) :
    (step (step (after {} ops) (.redeem q0)).1 (.redeem q)).2.1 = (step (after {} ops) (.redeem q)).2.1.shift 1 :=
  refused_attempt_leaves_code_usable _ q0 q hnr (reachable_sessionOk ops q0) hout

set_option maxRecDepth 4096 in
/-- `s0` is reachable (it is `after {} setup`), so the hypotheses are those of the example above -/
example : NotReplay (after {} setup).ss byOther ∧ (step (after {} setup) (.redeem byOther)).2.1.tokensIssued = false := by decide

end Fosite.Props.C02b

/-
  What C13 (and the writer half of C11) says, written as the simplest possible definitions over the
  registration, the request parameters and the library facts — and, built from them, the monitor that
  judges one observed response of the implementation from the op line and the observation alone.

  C13  "The authorization endpoint accepts a request only if the client exists, the response_type is one of
        the client's registered combinations (as a set), the response_mode is one the client may use, the
        state has the configured minimum length, OpenID Connect requests carry a redirect_uri, and
        implicit/hybrid ID-token requests carry a nonce of minimum length; a client lacking the implicit
        grant never receives tokens from the authorization endpoint and one lacking the authorization_code
        grant can never turn a code into tokens.  Parameters taken from an OpenID Connect request object
        are honoured only if it is signed with a key and algorithm registered for that client (unsigned
        only where the registration permits), and a request_uri only if pre-registered.  Access tokens and
        ID tokens are only ever delivered in the fragment or a form post, never in the redirect's query
        string, and the state is echoed unchanged on success and on redirected errors."
  C11  "every redirect … targets the validated URI; when the requested redirect_uri does not qualify the
        error is rendered directly and no redirect is issued."

  Readings (the one that demands less is taken): "tokens" a client without the implicit grant must not
  receive = access tokens, and ID tokens of the pure implicit flow (fosite lets `code id_token` through for
  a client with the authorization_code grant only); a registration without `request_object_signing_alg`
  permits any algorithm the server supports, `none` included; names are compared the way fosite compares
  response types, grant types and scope names everywhere: through `strings.ToLower`.
-/
import Fosite.Model.AuthzWrite
import Fosite.Spec.Redirect
namespace Fosite.Spec.Authz
open Fosite.Model Fosite.Model.Authz

/-! ### vocabulary -/

/-- `x` occurs in `xs`, case-insensitively -/
def memCI (lower : String → String) (x : String) (xs : List String) : Prop := ∃ y ∈ xs, lower y = lower x

instance (lower : String → String) (x : String) (xs : List String) : Decidable (memCI lower x xs) := by
  unfold memCI; exact inferInstance

/-- the two lists denote the same set of names -/
def sameSetCI (lower : String → String) (a b : List String) : Prop :=
  (∀ x ∈ a, memCI lower x b) ∧ (∀ y ∈ b, memCI lower y a)

instance (lower : String → String) (a b : List String) : Decidable (sameSetCI lower a b) := by
  unfold sameSetCI; exact inferInstance

/-- the space-separated names of a parameter value -/
abbrev words (s : String) : List String := removeEmptySplit s

/-- the requested response_type is one of the client's registered combinations, as a set -/
def responseTypeRegistered (lower : String → String) (c : Client) (responseType : String) : Prop :=
  words responseType ≠ [] ∧ ∃ t ∈ c.getResponseTypes, sameSetCI lower (words responseType) (words t)

instance (lower : String → String) (c : Client) (rt : String) : Decidable (responseTypeRegistered lower c rt) := by
  unfold responseTypeRegistered; exact inferInstance

/-- the requested response_mode (if any) is one the client may use -/
def responseModeAllowed (c : Client) (mode : String) : Prop :=
  mode = "" ∨ ∃ ms, c.responseModes = some ms ∧ mode ∈ ms

instance (c : Client) (mode : String) : Decidable (responseModeAllowed c mode) := by
  unfold responseModeAllowed
  cases c.responseModes with
  | none => exact decidable_of_iff (mode = "") ⟨Or.inl, fun h => h.elim id (fun ⟨_, h, _⟩ => by cases h)⟩
  | some ms =>
    exact decidable_of_iff (mode = "" ∨ mode ∈ ms)
      ⟨fun h => h.elim Or.inl (fun h => Or.inr ⟨ms, rfl, h⟩),
       fun h => h.elim Or.inl (fun ⟨_, h, hm⟩ => by cases h; exact Or.inr hm)⟩

/-- the client holds the grant type -/
def hasGrant (lower : String → String) (c : Client) (g : String) : Prop := memCI lower g c.getGrantTypes

instance (lower : String → String) (c : Client) (g : String) : Decidable (hasGrant lower c g) := by
  unfold hasGrant; exact inferInstance

/-! ### request objects -/

/-- the keys registered for the client -/
def registeredKeys (o : OIDCReg) : List JWK :=
  match o.jwks with
  | some ks => ks
  | none => o.remoteJWKS.getD []

/-- "signed with a key and algorithm registered for that client (unsigned only where the registration
    permits)": the client registered keys, its `request_object_signing_alg` is absent or equals the
    token's algorithm, and — unless that algorithm is `none` — the signature was produced by one of the
    registered keys. -/
def signedAsRegistered (c : Client) (t : ParsedJWT) : Prop :=
  match c.oidc with
  | none => False
  | some o =>
    (o.requestObjectSigningAlg = "" ∨ o.requestObjectSigningAlg = t.alg) ∧
    (t.alg = "none" ∨ ∃ k ∈ registeredKeys o, k.keyId = t.signedBy)

instance (c : Client) (t : ParsedJWT) : Decidable (signedAsRegistered c t) := by
  unfold signedAsRegistered; cases c.oidc <;> exact inferInstance

/-- a `request_uri` is pre-registered -/
def requestURIRegistered (c : Client) (uri : String) : Prop :=
  match c.oidc with
  | none => False
  | some o => uri ∈ o.requestURIs

instance (c : Client) (uri : String) : Decidable (requestURIRegistered c uri) := by
  unfold requestURIRegistered; cases c.oidc <;> exact inferInstance

/-- an OpenID Connect request: the `scope` parameter names `openid` -/
def isOIDC (lower : String → String) (f : Form) : Prop := memCI lower "openid" (words (f.get "scope"))

instance (lower : String → String) (f : Form) : Decidable (isOIDC lower f) := by unfold isOIDC; exact inferInstance

/-- the request object the request names (by value, or by reference when it can be fetched) -/
def namedObject (lib : Lib) (f : Form) : Option JWTFacts :=
  if f.get "request" ≠ "" then some (lib.jwtOf (f.get "request"))
  else if f.get "request_uri" ≠ "" then
    match lib.fetch (f.get "request_uri") with
    | .body b => some (lib.jwtOf b)
    | _ => none
  else none

/-- The request object whose parameters may be honoured: the request is an OpenID Connect request that
    names exactly one object, by value or through a pre-registered `request_uri`, and the object is
    signed as registered. -/
def honoured (lib : Lib) (c : Client) (f : Form) : Option ParsedJWT :=
  if isOIDC lib.lower f ∧ ¬ (f.get "request" ≠ "" ∧ f.get "request_uri" ≠ "") ∧
     (f.get "request_uri" ≠ "" → requestURIRegistered c (f.get "request_uri")) then
    match namedObject lib f with
    | some (.parsed t) => if signedAsRegistered c t then some t else none
    | _ => none
  else none

/-- the parameters in force: those of the honoured request object supersede the plain ones -/
def effective (lib : Lib) (c : Client) (f : Form) : Form :=
  match honoured lib c f with
  | some t => t.claims.foldl (fun g kv => g.set kv.1 kv.2) f
  | none => f

/-- the scope in force: the object's scope plus the plain one -/
def effectiveScopes (lib : Lib) (c : Client) (f : Form) : List String :=
  match honoured lib c f with
  | some _ => words ((effective lib c f).get "scope") ++ words (f.get "scope")
  | none => words (f.get "scope")

/-! ### redirect target -/

/-- the URI the responses of this request may be sent to: `Spec.matchTarget` of the parameter in force -/
def redirectTarget (lib : Lib) (c : Client) (f : Form) : Option String :=
  Spec.matchTarget lib.P ((effective lib c f).get "redirect_uri") c.redirectURIs

/-- how the harness prints the target of a `Location` header / form action -/
def targetString (u : PURL) : String :=
  if u.opaquePart != "" then u.scheme ++ ":" ++ u.opaquePart else u.scheme ++ "://" ++ u.host ++ u.path

/-! ### the observation of one response -/

structure Obs where
  accepted : Bool
  errName : String
  placement : String
  /-- unescaped `target=` -/
  target : String
  params : List String
  query : List String
  /-- `none`: no `state` at the placement -/
  state : Option String
  tokensInQuery : Bool
  deriving Repr

def Obs.redirected (o : Obs) : Bool := o.placement == "query" || o.placement == "fragment" || o.placement == "form_post"

/-- The clauses of C13 and of C11's writer half that the response `o` to the request `i` violates. -/
def violations (i : Input) (o : Obs) : List String :=
  let f := i.form
  let lower := i.lib.lower
  match i.clients (f.get "client_id") with
  | none =>
    (if o.accepted then ["C13:client_exists"] else []) ++
    (if o.redirected then ["C11:error_redirect_without_valid_uri"] else []) ++
    (if o.tokensInQuery then ["C13:tokens_in_query"] else [])
  | some c =>
    let eff := effective i.lib c f
    let hasTok := o.params.contains "access_token" || o.params.contains "id_token"
    let target := redirectTarget i.lib c f
    -- acceptance
    (if o.accepted ∧ ¬ i.formOK then ["C13:client_exists"] else []) ++
    (if o.accepted ∧ ¬ responseTypeRegistered lower c (eff.get "response_type") then ["C13:response_type_registered"] else []) ++
    (if o.accepted ∧ ¬ responseModeAllowed c (eff.get "response_mode") then ["C13:response_mode_allowed"] else []) ++
    (if o.accepted ∧ blen (eff.get "state") < i.cfg.minEntropy then ["C13:state_min_length"] else []) ++
    (if o.accepted ∧ "openid" ∈ effectiveScopes i.lib c f ∧ eff.get "redirect_uri" = "" then ["C13:oidc_redirect_uri"] else []) ++
    (if o.accepted ∧ o.params.contains "id_token" ∧ blen (eff.get "nonce") < i.cfg.minEntropy then ["C13:nonce_min_length"] else []) ++
    (if o.accepted ∧ o.params.contains "access_token" ∧ ¬ hasGrant lower c "implicit" then ["C13:implicit_grant"] else []) ++
    (if o.accepted ∧ o.params.contains "id_token" ∧ ¬ o.params.contains "code" ∧ ¬ hasGrant lower c "implicit" then ["C13:implicit_grant"] else []) ++
    (if o.accepted ∧ o.params.contains "code" ∧ (words (eff.get "response_type")).length ≥ 2 ∧
        ¬ hasGrant lower c "authorization_code" then ["C13:hybrid_code_grant"] else []) ++
    -- request objects
    (if o.accepted ∧ isOIDC lower f ∧ (f.get "request" ≠ "" ∨ f.get "request_uri" ≠ "") ∧ (honoured i.lib c f).isNone then
      (if f.get "request_uri" ≠ "" ∧ ¬ requestURIRegistered c (f.get "request_uri") then ["C13:request_uri_registered"]
       else ["C13:request_object_signature"]) else []) ++
    -- delivery
    (if o.tokensInQuery ∨ (o.placement == "query" ∧ hasTok) ∨ o.query.contains "access_token" ∨ o.query.contains "id_token"
      then ["C13:tokens_in_query"] else []) ++
    (if (o.accepted ∨ o.redirected) ∧ o.state ≠ some (eff.get "state") then ["C13:state_echo"] else []) ++
    -- C11, writer half
    (if o.accepted ∧ ¬ o.redirected then ["C11:response_not_delivered"] else []) ++
    (if o.redirected ∧ target.isNone then ["C11:error_redirect_without_valid_uri"] else []) ++
    (match target with
     | some s => if o.redirected ∧ o.target ≠ targetString (i.lib.P s) then ["C11:target_not_validated_uri"] else []
     | none => [])

end Fosite.Spec.Authz

/-
  What C20 (rendering half) and the RFCs prescribe for fosite's responses, written as tables.

  * RFC 6749 §5.2 / §4.1.2.1, RFC 9126 §2.3: an error is told to the client as `error` (the code)
    plus an optional human-readable `error_description`; at the token / PAR endpoint as a JSON
    object with the error's HTTP status, at the authorization endpoint as parameters of the
    redirect (query, fragment, or form_post inputs) — unless the redirect URI is not valid, then
    as a JSON body.
  * Internal debug text is shown only when the operator enabled it.
  * Every response that can carry tokens, codes or errors is `Cache-Control: no-store`,
    `Pragma: no-cache`.
  * RFC 7009 §2.2: revocation answers 200 except for `invalid_request` / `invalid_client`;
    RFC 7662 §2.2–2.3: introspection answers `{"active":false}` for anything but a malformed or
    unauthorised *call*.

  `none` = the specification prescribes nothing for this input (printed as "skip"):
  an error whose own description is empty, a `nil` error, response modes fosite does not define,
  responder headers that collide with the headers the writer owns.
-/
import Fosite.Model.Render
namespace Fosite.Spec.Render
open Fosite.Model.Render

/-- `"` ↦ `'` -/
def deQuote : Bytes → Bytes
  | [] => []
  | c :: cs => (if c = dq then sq else c) :: deQuote cs

/-- the texts of an error a client may see, in the order they are shown -/
def visibleTexts (e : RFCError) : List Bytes :=
  [e.description, e.hint] ++ (if e.exposeDebug = true then [e.debug] else [])

def joinSpace : List Bytes → Bytes
  | [] => []
  | [x] => x
  | x :: y :: rest => x ++ sp :: joinSpace (y :: rest)

/-- `error_description` of the RFC format: the non-empty visible texts separated by one space, free
    of double quotes (RFC 6749 §5.2 excludes `"` and `\` from the value). -/
def description (e : RFCError) : Option Bytes :=
  if e.description = [] then none
  else some (deQuote (joinSpace ((visibleTexts e).filter (fun t => t ≠ []))))

def nonEmpty (b : Bytes) : Option Bytes := if b = [] then none else some b

/-- the members of an error object / the parameters of an error redirect, as (key, optional value) rows -/
def errorRows (e : RFCError) : Option (List (Bytes × Option JVal)) :=
  if e.useLegacyFormat = true then
    some [ (kError, some (.str e.name)),
           (kDescription, some (.str e.description)),
           (kHint, (nonEmpty e.hint).map .str),
           (kStatusCode, if e.code = 0 then none else some (.num e.code)),
           (kDebug, if e.exposeDebug = true then (nonEmpty e.debug).map .str else none) ]
  else
    (description e).map (fun d => [ (kError, some (.str e.name)), (kDescription, some (.str d)) ])

def present (rows : List (Bytes × Option JVal)) : List (Bytes × JVal) :=
  rows.filterMap (fun r => r.2.map (fun v => (r.1, v)))

/-- JSON error object (`status_code` exists only in the legacy format) -/
def errorObject (e : RFCError) : Option (List (Bytes × JVal)) := (errorRows e).map present

/-- redirect / form parameters: the same rows without `status_code`, as strings -/
def errorParams (e : RFCError) : Option (List (Bytes × Bytes)) :=
  (errorRows e).map (fun rows => (present (rows.filter (fun r => r.1 != kStatusCode))).filterMap
    (fun p => match p.2 with | .str b => some (p.1, b) | _ => none))

/-- the error the client is told: the outermost RFC 6749 error of the chain; anything else is an
    anonymous `error` / 500 whose message is debug text -/
def rfcOf : Link → Option RFCError
  | .rfc e => some e
  | _ => none

def told (cfg : Cfg) (err : GoErr) : Option RFCError :=
  if err = [] then none
  else
    let e : RFCError := match err.findSome? rfcOf with
      | some e => e
      | none => { name := asc "error", description := asc "The error is unrecognizable", code := 500,
                  debug := err.message }
    some { e with useLegacyFormat := cfg.useLegacyErrorFormat, exposeDebug := cfg.sendDebugMessagesToClients }

def noStore : Headers := [(hCC, "no-store"), (hPragma, "no-cache")]

def jsonError (e : RFCError) (headers : Headers) : Option Response :=
  (errorObject e).map (fun o => { status := e.code, headers := headers, bodyKind := .json, fields := jsonFields o })

/-- `err` is, or wraps, the registered error `t` (`errors.Is`) -/
abbrev mentions (err : GoErr) (t : RFCError) : Bool := isErr err t

/-- error responses, endpoint by endpoint -/
def errorResponse (w : ErrWriter) (cfg : Cfg) (err : GoErr) : Option Response :=
  match w with
  | .access => (told cfg err).bind (fun e => jsonError e ((hCT, ctJSON) :: noStore))
  | .pushedAuthorize => (told cfg err).bind (fun e => jsonError e (noStore ++ [(hCT, ctJSON)]))
  | .authorize ar =>
    (told cfg err).bind (fun e =>
      if ar.redirValid = false then jsonError e (noStore ++ [(hCT, ctJSON)])
      else
        (errorParams e).bind (fun ps =>
          let ps := ps ++ [(kState, ar.state)]
          if ar.mode = mFormPost then
            some { status := 200, headers := noStore ++ [(hCT, ctHTML)], bodyKind := .html, target := formTarget ar,
                   fields := strFields .query (formQuery ar) ++ strFields .form ps }
          else if ar.mode = mFragment then
            some { status := 303, headers := noStore ++ [(hLocation, "*")], bodyKind := .empty, target := ar.redirBase,
                   fields := strFields .query ar.redirQuery ++ strFields .fragment ps }
          else if ar.mode = mQuery ∨ ar.mode = [] then
            some { status := 303, headers := noStore ++ [(hLocation, "*")], bodyKind := .empty, target := ar.redirBase,
                   fields := strFields .query (ps ++ ar.redirQuery) }
          else none))
  | .introspection =>
    if err = [] then none
    else if !isErr err errInactiveToken && (isErr err errInvalidRequest || isErr err errRequestUnauthorized) then
      (told cfg err).bind (fun e => jsonError e ((hCT, ctJSON) :: noStore))
    else some { status := 200, headers := (hCT, ctJSON) :: noStore, bodyKind := .json,
                fields := [⟨.json, asc "active", .bool false⟩] }
  | .revocation =>
    -- the client learns the error *code* only: the registered description of the code, never request-specific text
    let canned (t : RFCError) : Option Response := jsonError t (noStore ++ [(hCT, ctJSON)])
    if isErr err errInvalidRequest then canned errInvalidRequest
    else if isErr err errInvalidClient then canned errInvalidClient
    else some { status := 200, headers := noStore, bodyKind := .empty }

/-- headers of the responder are kept, except that they cannot replace the ones the writer owns -/
def ownHeaders : List String := [hCC, hPragma, hCT, hLocation]
def distinctKeys : Headers → Bool
  | [] => true
  | (k, _) :: rest => !(rest.any (fun p => p.1 == k)) && distinctKeys rest
def foreign (h : Headers) : Bool := h.all (fun p => !(ownHeaders.contains p.1)) && distinctKeys h

def distinctFieldKeys : List (Bytes × JVal) → Bool
  | [] => true
  | (k, _) :: rest => !(rest.any (fun p => p.1 == k)) && distinctFieldKeys rest

/-- RFC 6749 §5.1: 200, JSON, no-store / no-cache; the members are the response's members -/
def accessResponse (accessToken tokenType : Bytes) (extra : List (Bytes × JVal)) : Option Response :=
  if extra.any (fun p => p.1 == asc "access_token" || p.1 == asc "token_type") then none
  else some { status := 200, headers := noStore ++ [(hCT, ctJSON)], bodyKind := .json,
              fields := jsonFields (extra ++ [(asc "access_token", .str accessToken), (asc "token_type", .str tokenType)]) }

def distinctParamKeys : List (Bytes × Bytes) → Bool
  | [] => true
  | (k, _) :: rest => !(rest.any (fun p => p.1 == k)) && distinctParamKeys rest

/-- RFC 6749 §4.1.2 / §4.2.2, OAuth 2.0 Form Post Response Mode: the parameters travel in the place
    the response mode names; the redirect URI's own query is kept.  Prescribed for parameters with
    distinct names that do not collide with the redirect URI's own. -/
def authorizeResponse (ar : AuthReq) (respHeaders : Headers) (params : List (Bytes × Bytes)) : Option Response :=
  if !foreign respHeaders || !distinctParamKeys params
      || params.any (fun p => ar.redirQuery.any (fun q => q.1 == p.1)) then none
  else
    let h := respHeaders ++ noStore
    if ar.mode = mFormPost then
      some { status := 200, headers := h ++ [(hCT, ctHTML)], bodyKind := .html, target := formTarget ar,
             fields := strFields .query (formQuery ar) ++ strFields .form params }
    else if ar.mode = mQuery ∨ ar.mode = [] then
      some { status := 303, headers := h ++ [(hLocation, "*")], bodyKind := .empty, target := ar.redirBase,
             fields := strFields .query (ar.redirQuery ++ params) }
    else if ar.mode = mFragment then
      some { status := 303, headers := h ++ [(hLocation, "*")], bodyKind := .empty, target := ar.redirBase,
             fields := strFields .query ar.redirQuery ++ strFields .fragment params }
    else none

/-- RFC 7662 §2.2 -/
def introspectionResponse (r : Introspection) : Option Response :=
  let h : Headers := (hCT, ctJSON) :: noStore
  if r.active = false then
    some { status := 200, headers := h, bodyKind := .json, fields := [⟨.json, asc "active", .bool false⟩] }
  else if r.extraClaims.any (fun p => p.1 == asc "active" || reservedClaims.contains p.1) then none
  else
    let rows : List (Bytes × Option JVal) :=
      [ (asc "active", some (.bool true)) ]
      ++ r.extraClaims.map (fun p => (p.1, some p.2))
      ++ [ (asc "exp", r.exp.map .num),
           (asc "client_id", (nonEmpty r.clientID).map .str),
           (asc "scope", if r.scopes = [] then none else some (.str (joinSpace r.scopes))),
           (asc "iat", r.iat.map .num),
           (asc "sub", (nonEmpty r.subject).map .str),
           (asc "aud", if r.audience = [] then none else some (.strs r.audience)),
           (asc "username", (nonEmpty r.username).map .str) ]
    some { status := 200, headers := h, bodyKind := .json, fields := jsonFields (present rows) }

/-- RFC 9126 §2.2: 201, JSON, `request_uri` and `expires_in` -/
def parResponse (respHeaders : Headers) (requestURI : Bytes) (expiresIn : Nat) (extra : List (Bytes × JVal)) : Option Response :=
  if !foreign respHeaders || extra.any (fun p => p.1 == asc "request_uri" || p.1 == asc "expires_in") then none
  else some { status := 201, headers := respHeaders ++ noStore ++ [(hCT, ctJSON)], bodyKind := .json,
              fields := jsonFields (extra ++ [(asc "request_uri", .str requestURI), (asc "expires_in", .num expiresIn)]) }

/-- RFC 8628 §3.2: 200, JSON with exactly the registered members.  The implementation adds a
    `"Header": null` member; the specification does not know it, so it prescribes nothing about the
    member list and this op is compared through the model only. -/
def deviceResponse (_respHeaders : Headers) (_d : Device) : Option Response := none

end Fosite.Spec.Render

/-
  C14 — "ID Tokens are bound to the right client, user, nonce and tokens": the bindings of the statement as
  predicates on (inputs, emitted claim set), and the same clauses as a decidable monitor on what the harness
  reads off a verified token (`Obs`).

  Readings (always the one that demands less):
  * "the hash chosen by the token's algorithm": SHA-256 / 384 / 512 by the digits of the JWS `alg`
    (`algBits`, a finite table).  `ComputeHash` reads the `alg` value of the session's ID-token headers; the
    harness keeps that header consistent with the signing key (DESIGN.md §3 C14).
  * "echoes the request's nonce unchanged": if the request that leads to the token carries a nonce, the token
    carries exactly it.  A token minted on refresh may carry the nonce of the original request or the one of
    the refresh request.
  * "within the configured lifetime": `exp·10⁹ ≤ now + lifespan`, with `lifespan` the per-client value for the
    grant type if configured, else `Config.IDTokenLifespan`, and one hour where that value is 0; "expires in
    the future": `now.Unix() ≤ exp` — the granularity of the `exp` claim.
  * at_hash / c_hash are demanded when the same response delivers an access token / code, and must be
    absent or matching otherwise (token endpoint: compared with the code that was redeemed).
  * "a max_age … the session does not satisfy": both times are known and `auth_time + max_age < requested_at`
    (unbounded arithmetic); prompt=none: `auth_time > requested_at`; prompt=login: `auth_time < requested_at`;
    id_token_hint: it decodes (possibly expired) to a different subject.
-/
import Fosite.Model.IDToken
namespace Fosite.Spec.IDToken
open Fosite.Model.IDToken

/-! ## predicates on the emitted claim set -/

/-- names the requesting client in `aud` -/
def AudHasClient (clientId : String) (m : ClaimMap) : Prop :=
  ∃ l, m.get "aud" = some (.strs l) ∧ clientId ∈ l

/-- carries the session's subject -/
def SubFromSession (c : Claims) (m : ClaimMap) : Prop := m.get "sub" = some (.str c.sub)

/-- carries the session's issuer, or the configured one where the session names none -/
def IssFromSession (cfgIssuer : String) (c : Claims) (m : ClaimMap) : Prop :=
  m.get "iss" = optStr (if c.iss ≠ "" then c.iss else cfgIssuer)

/-- echoes the request's nonce unchanged -/
def NonceEchoed (f : Form) (m : ClaimMap) : Prop := f.nonce ≠ "" → m.get "nonce" = some (.str f.nonce)

/-- expires in the future (granularity of the claim: seconds) -/
def ExpFuture (now : Int) (m : ClaimMap) : Prop := ∃ e, m.get "exp" = some (.num e) ∧ unix now ≤ e

/-- the configured lifetime: one hour where 0 is configured -/
def effectiveLifetime (lifespan : Int) : Int := if lifespan = 0 then hour else lifespan

/-- expires within the configured lifetime -/
def ExpBounded (now : Int) (lifespan : Int) (m : ClaimMap) : Prop :=
  ∃ e, m.get "exp" = some (.num e) ∧ e * 1000000000 ≤ now + effectiveLifetime lifespan

/-- the hash the token's algorithm chooses -/
def algBits (alg : String) : Option Nat :=
  if alg ∈ ["RS256", "ES256", "PS256"] then some 256
  else if alg ∈ ["RS384", "ES384", "PS384"] then some 384
  else if alg ∈ ["RS512", "ES512", "PS512"] then some 512
  else none

/-- left half of the hash of an artefact, base64url -/
def halfHash (C : Crypto) (bits : Nat) (artefact : String) : String :=
  C.b64 ((C.hash bits artefact).take ((C.hash bits artefact).length / 2))

def AtHashIs (C : Crypto) (bits : Nat) (accessToken : String) (m : ClaimMap) : Prop :=
  m.get "at_hash" = optStr (halfHash C bits accessToken)

def CHashIs (C : Crypto) (bits : Nat) (code : String) (m : ClaimMap) : Prop :=
  m.get "c_hash" = optStr (halfHash C bits code)

def NoCHash (m : ClaimMap) : Prop := m.get "c_hash" = none

/-! ## requests the session does not satisfy -/

def MaxAgeViolated (f : Form) (c : Claims) : Prop :=
  ∃ n, f.maxAge = some n ∧ n > 0 ∧ c.authTime ≠ zeroTime ∧ c.rat ≠ zeroTime ∧ c.authTime + n * 1000000000 < c.rat

def PromptNoneViolated (f : Form) (c : Claims) : Prop := f.prompt = "none" ∧ c.authTime > c.rat

def PromptLoginViolated (f : Form) (c : Claims) : Prop := f.prompt = "login" ∧ c.authTime < c.rat

def HintMismatch (f : Form) (c : Claims) : Prop := ∃ s, f.hint = .decoded s ∧ s ≠ c.sub

/-! ## the monitor: the statement evaluated on one exchange and its observation -/

/-- how the harness found a hash claim -/
inductive Binding
  | absent      -- no such claim
  | matches     -- equals the left half of the hash (chosen by the JWS alg) of the artefact of the exchange
  | mismatch
  | unbound     -- the claim is present but the exchange has no artefact to compare with
  deriving DecidableEq, Repr, Inhabited

/-- a verified and decoded ID token; times are relative to `now.Unix()` of the reported step -/
structure Obs where
  sigok : Bool
  alg : String
  sub : Option String
  iss : Option String
  aud : List String
  nonce : Option String
  expRel : Option Int
  iatRel : Option Int
  atHash : Binding
  cHash : Binding
  deriving DecidableEq, Repr, Inhabited

inductive Observation
  | err
  | noIDToken
  | idToken (o : Obs)
  deriving DecidableEq, Repr, Inhabited

/-- the exchange as the statement sees it -/
structure Case where
  rt : RT
  last : Last
  openid : Bool
  sigalg : String             -- the algorithm the server signs with
  clientId : String
  sub : String
  sessIss : String
  cfgIss : String
  nonce : String
  refreshNonce : String
  minEntropy : Int            -- effective minimum
  now1 : Int
  dt1 : Int
  dt2 : Int
  presetExp : Int
  authTime : Int
  rat : Int
  cfgLifespan : Int
  lifeCode : Option Int
  lifeImplicit : Option Int
  lifeRefresh : Option Int
  maxAge : Option Int
  prompts : List String       -- the prompt parameter split at spaces
  hint : Hint

def Case.nowLast (k : Case) : Int :=
  match k.last with
  | .authz => k.now1
  | .token => k.now1 + k.dt1
  | .refresh => k.now1 + k.dt1 + k.dt2

def Case.configured (k : Case) (override : Option Int) : Int :=
  effectiveLifetime (match override with
    | some l => l
    | none => effectiveLifetime k.cfgLifespan)

/-- the configured lifetime that applies to the reported token, counted from `from` -/
def Case.lifetime (k : Case) : Int × Int :=
  match k.last with
  | .refresh => (k.nowLast, k.configured k.lifeRefresh)
  | .authz => (k.now1, k.configured k.lifeImplicit)
  | .token =>
    -- the reference store shares the session object: after a hybrid response with an ID token the expiry
    -- chosen there is the session's expiry
    if (k.rt = .ci ∨ k.rt = .cit) ∧ k.openid then (k.now1, k.configured k.lifeImplicit)
    else if k.rt = .device then (k.nowLast, k.configured none)
    else (k.nowLast, k.configured k.lifeCode)

def Case.maxAgeViolated (k : Case) : Bool :=
  match k.maxAge with
  | some n => decide (n > 0 ∧ k.authTime ≠ zeroTime ∧ k.rat ≠ zeroTime ∧ k.authTime + n * 1000000000 < k.rat)
  | none => false

def Case.promptNoneViolated (k : Case) : Bool :=
  k.prompts.contains "none" && decide (k.authTime ≠ zeroTime ∧ k.rat ≠ zeroTime ∧ k.authTime > k.rat)

def Case.promptLoginViolated (k : Case) : Bool :=
  k.prompts.contains "login" && decide (k.authTime ≠ zeroTime ∧ k.rat ≠ zeroTime ∧ k.authTime < k.rat)

def Case.hintViolated (k : Case) : Bool :=
  match k.hint with
  | .absent => false
  | .error => true
  | .decoded s => s ≠ k.sub

/-- the response of the reported step delivers an access token / a code -/
def Case.deliversToken (k : Case) : Bool :=
  match k.last with
  | .authz => k.rt.hasToken
  | _ => true

def Case.deliversCode (k : Case) : Bool :=
  match k.last with
  | .authz => k.rt.hasCode
  | _ => false

/-- `none` = the exchange conforms to the statement, `some clause` = the clause it violates -/
def check (k : Case) : Observation → Option String
  | .err => none
  | .noIDToken => none
  | .idToken o =>
    if ¬ k.openid then some "openid-scope"
    else if k.sub = "" then some "subject"
    else if ¬ o.sigok then some "signature"
    else if o.alg ≠ k.sigalg then some "alg"
    else if ¬ o.aud.contains k.clientId then some "aud"
    else if o.sub ≠ some k.sub then some "sub"
    else if o.iss ≠ (let i := if k.sessIss ≠ "" then k.sessIss else k.cfgIss; if i ≠ "" then some i else none) then some "iss"
    else if k.last ≠ .refresh ∧ k.nonce ≠ "" ∧ o.nonce ≠ some k.nonce then some "nonce"
    else if k.last ≠ .refresh ∧ k.nonce ≠ "" ∧ (k.nonce.length : Int) < k.minEntropy then some "nonce-entropy"
    else if k.last = .refresh ∧ o.nonce ≠ none ∧ o.nonce ≠ some k.nonce ∧ o.nonce ≠ some k.refreshNonce then some "nonce"
    else if k.last = .refresh ∧ k.refreshNonce ≠ "" ∧ o.nonce = some k.refreshNonce ∧ o.nonce ≠ some k.nonce
              ∧ (k.refreshNonce.length : Int) < k.minEntropy then some "nonce-entropy"
    else match o.expRel, o.iatRel with
      | some e, some i =>
        if e < 0 then some "exp-past"
        else if (k.presetExp = zeroTime ∨ k.last = .refresh) ∧
                (e + unix k.nowLast) * 1000000000 > k.lifetime.1 + k.lifetime.2 then some "exp-lifetime"
        else if i ≠ 0 then some "iat"
        else if k.deliversToken ∧ o.atHash ≠ .matches then some "at_hash"
        else if ¬ k.deliversToken ∧ o.atHash ≠ .absent then some "at_hash"
        else if k.deliversCode ∧ o.cHash ≠ .matches then some "c_hash"
        else if ¬ k.deliversCode ∧ k.last = .token ∧ k.rt ≠ .device ∧ o.cHash ≠ .absent ∧ o.cHash ≠ .matches then some "c_hash"
        else if ¬ k.deliversCode ∧ (k.last ≠ .token ∨ k.rt = .device) ∧ o.cHash ≠ .absent then some "c_hash"
        else if k.last ≠ .refresh ∧ k.maxAgeViolated then some "max_age"
        else if k.last ≠ .refresh ∧ k.promptNoneViolated then some "prompt-none"
        else if k.last ≠ .refresh ∧ k.promptLoginViolated then some "prompt-login"
        else if k.last ≠ .refresh ∧ k.hintViolated then some "id_token_hint"
        else none
      | _, _ => some "exp-or-iat-missing"

end Fosite.Spec.IDToken

/-
  What the audience strategies are documented to mean (statement of C12; DESIGN §3 C12):

  * default: the requested audience URL and a whitelisted URL have the same scheme and the same
    host (compared as strings: port and letter case count), and for the paths
    `p = hp  ∨  p = trim hp  ∨  (trim hp ++ "/")` is a prefix of `p`,
    where `trim` removes every trailing slash — i.e. the whitelisted path matches itself and
    covers exactly the paths below it, cut at a segment boundary.
  * exact: every requested audience is a member of the whitelist (string equality).

  URL parsing is a parameter (`net/url.Parse` is trusted, not modelled): the rule is stated on
  parsed components.  Nothing here refers to the model's `trimRightSlash` / `take` formulation.
-/
import Fosite.Model.Audience
namespace Fosite.Spec
open Fosite.Model (URLParts Err)

/-- remove every trailing `/` (simplest recursion: the trimmed tail decides) -/
def trimSlashes : List Char → List Char
  | [] => []
  | c :: cs =>
    match trimSlashes cs with
    | [] => if c = '/' then [] else [c]
    | t :: ts => c :: t :: ts

/-- the documented path rule: `hp` whitelisted path, `p` requested path -/
def audiencePath (hp p : List Char) : Bool :=
  p == hp || p == trimSlashes hp || (trimSlashes hp ++ ['/']).isPrefixOf p

/-- one requested URL against one whitelisted URL -/
def audienceOne (hu nu : URLParts) : Bool :=
  nu.scheme == hu.scheme && nu.host == hu.host && audiencePath hu.path.toList nu.path.toList

/-- Default strategy when every string parses (`parse` total): accepted iff every requested audience
    matches some whitelisted one. -/
def audienceDefaultTotal (parse : String → URLParts) (haystack needles : List String) : Option Err :=
  if ∀ n ∈ needles, ∃ h ∈ haystack, audienceOne (parse h) (parse n) = true then none
  else some .invalid_request

/-- Default strategy with a partial parser (`none` = `url.Parse` returned an error): additionally
    every requested audience must parse, and — as soon as there is at least one requested audience —
    every whitelisted entry must parse too.  Every refusal is `invalid_request`.
    (Written with `match` so that it is executable for the monitor; `Proofs/Audience.lean` proves
    the quantifier form `audienceDefault_eq_none_iff`.) -/
def audienceDefault (parse : String → Option URLParts) (haystack needles : List String) : Option Err :=
  if needles.all (fun n =>
      match parse n with
      | none => false
      | some nu =>
        haystack.all (fun h => (parse h).isSome) &&
        haystack.any (fun h => match parse h with
          | none => false
          | some hu => audienceOne hu nu))
  then none else some .invalid_request

/-- Exact strategy: every requested audience is a member of the whitelist. -/
def audienceExact (haystack needles : List String) : Option Err :=
  if ∀ n ∈ needles, n ∈ haystack then none else some .invalid_request

end Fosite.Spec

/-
  What C06 says about JWT access tokens, written as plainly as possible over the same facts the
  model uses.

  "A JWT access token is accepted only with a valid signature from the configured key and an
   asymmetric algorithm (never none or a symmetric one) … for every JWT header/payload/signature
   manipulation."

  Readings:
    * "a JWT access token" is a compact JWS: one string of exactly three "."-separated base64url
      parts (RFC 7519 §3, RFC 9068 §2).  The JWS JSON serialization is not a JWT.
    * "the configured key" is the RSA or ECDSA key pair the key getter returns — bare, inside a
      `*jose.JSONWebKey`, or as the public key of an opaque signer.  Any other configuration has no
      configured key: nothing may be accepted under it.
    * "an asymmetric algorithm": one of RS256/384/512, PS256/384/512 with an RSA key,
      ES256/384/512 with an ECDSA key, spelled exactly so.
    * "valid signature": the `signedBy` fact (see `Model/JWTAT.lean`), and no unsupported `crit`.
    * accepted also means the registered time claims hold at the instant of the check (the bits are
      C07's) and, for introspection, that every non-empty required scope is covered.
    * "for every header manipulation": every header member the library hands on was covered by the
      signature (monitor clause `unsigned_header`; compact strings have no unprotected header).
  The statement is one-directional (soundness of acceptance).  `Accepts` is nevertheless the exact
  condition on strings that are not the JSON serialization: the theorems in `Props/C06b.lean` show
  that there the strategy, the signer-level `Validate` and introspection accept exactly `Accepts`;
  in general they accept exactly `AcceptsAnyForm` (the same without the compact-form clause — the
  difference is the recorded finding).
-/
import Fosite.Model.JWTAT
namespace Fosite.Spec.JWTAT
open Fosite.Model.JWTAT

/-- key material that carries a verification key: (key pair, type) -/
def materialPair : Material → Option (KeyId × KeyType)
  | .rsaPriv k => some (k, .rsa)
  | .ecPriv k _ => some (k, .ec)
  | .signer (.rsaPub k) _ => some (k, .rsa)
  | .signer (.ecPub k) _ => some (k, .ec)
  | _ => none

/-- the configured key of a key-getter result -/
def configured : KeyCfg → Option (KeyId × KeyType)
  | .direct m => materialPair m
  | .jwkPtr m _ _ => materialPair m
  | _ => none

/-- the string is a compact JWS of three base64url parts with a well-typed header, one signature
    and a claims object -/
def compactWellFormed (t : Token) : Prop :=
  t.json = false ∧ t.nseg = 3 ∧ t.b64OK = true ∧ t.hdrOK = true ∧ t.nsig = 1 ∧ t.payloadOK = true

/-- the same for either serialization (what go-jose parses) -/
def anyFormWellFormed (t : Token) : Prop :=
  (if t.json then t.jsonOK = true else t.nseg = 3 ∧ t.b64OK = true) ∧
  t.hdrOK = true ∧ t.nsig = 1 ∧ t.payloadOK = true

/-- signed by the configured key with an asymmetric algorithm of the key's type, claims in time -/
def signedAndTimely (cfg : KeyCfg) (t : Token) : Prop :=
  ∃ k ty, configured cfg = some (k, ty) ∧ algFamily t.alg = ty.family ∧
    t.signedBy = some k ∧ t.critOK = true ∧ t.claims.valid = true

/-- C06 (JWT half): the tokens that may be accepted -/
def Accepts (cfg : KeyCfg) (t : Token) : Prop := compactWellFormed t ∧ signedAndTimely cfg t

/-- what the strategy accepts: `Accepts` without the compact-form clause -/
def AcceptsAnyForm (cfg : KeyCfg) (t : Token) : Prop := anyFormWellFormed t ∧ signedAndTimely cfg t

/-- every non-empty required scope is covered -/
def scopesCovered (cover : String → Bool) (need : List String) : Prop :=
  ∀ s ∈ need, s ≠ "" → cover s = true

/-! ### Boolean forms (for the monitor) -/

def signedAndTimelyB (cfg : KeyCfg) (t : Token) : Bool :=
  match configured cfg with
  | some (k, ty) => algFamily t.alg == ty.family && t.signedBy == some k && t.critOK && t.claims.valid
  | none => false

def compactWellFormedB (t : Token) : Bool :=
  !t.json && t.nseg == 3 && t.b64OK && t.hdrOK && t.nsig == 1 && t.payloadOK

def acceptsB (cfg : KeyCfg) (t : Token) : Bool := compactWellFormedB t && signedAndTimelyB cfg t

def scopesCoveredB (cover : String → Bool) (need : List String) : Bool :=
  need.all (fun s => s == "" || cover s)

/-! ### Error classes

  The statement does not order the checks; the documented classes are:
    text not a well-formed JWS            → invalid_token / 400            (ErrInvalidTokenFormat)
    claims part is not a JSON object      → token_claim / 401              (ErrTokenClaim)
    algorithm / key / signature / crit    → token_signature_mismatch / 400 (ErrTokenSignatureMismatch)
    exp in the past                       → invalid_token / 401            (ErrTokenExpired)
    iat / nbf in the future               → token_claim / 401              (ErrTokenClaim)
    a required scope is not covered       → invalid_scope / 400            (ErrInvalidScope)
    no usable key configured              → a plain error (rendered "error" / 500)
  A refusal must carry the class of SOME clause that fails. -/

/-- the text is not a compact JWS of three base64url parts with a well-typed header and one signature -/
def textMalformedB (t : Token) : Bool := t.json || !(t.nseg == 3 && t.b64OK) || !t.hdrOK || t.nsig != 1

/-- the classes of all failing clauses -/
def allowedErrors (cfg : KeyCfg) (t : Token) (cover : String → Bool) (need : List String) : List Err :=
  (if configured cfg = none then [Err.unrecognized, Err.token_signature_mismatch] else []) ++
  (if textMalformedB t then [Err.invalid_token_format] else []) ++
  (if !t.payloadOK then [Err.token_claim] else []) ++
  (if !signedAndTimelyB cfg { t with claims := ⟨false, false, false⟩ } then [Err.token_signature_mismatch] else []) ++
  (if t.claims.expired then [Err.token_expired] else []) ++
  (if t.claims.iatFuture || t.claims.nbfFuture then [Err.token_claim] else []) ++
  (if !scopesCoveredB cover need then [Err.invalid_scope] else [])

/-! ### The monitor: clauses violated by one observation -/

inductive Obs
  | accepted
  | rejected (name : String) (status : Nat)
  deriving DecidableEq, Repr

/-- What an accepted presentation shows beyond the statement of C06 (NOT violations: C06 demands a valid
    signature of the configured key under an asymmetric algorithm, and these presentations carry one):
    go-jose also parses the JWS JSON serialization, so a valid token re-wrapped as
    `{"protected":…,"payload":…,"signature":…}` is accepted, and members of an unprotected header are merged
    into the (unsigned part of the) header the session sees.  RFC 7519 says JWTs are always compact; recorded
    as an observation in DESIGN.md, kept out of the monitor. -/
def serializationRemarks (t : Token) : List String :=
  (if t.json then ["compact_form"] else []) ++
  (if t.json && t.nseg != 3 then ["three_segments"] else []) ++
  (if !t.unsignedHdr.isEmpty then ["unsigned_header"] else [])

/-- clauses of C06 an ACCEPTED presentation violates -/
def acceptViolations (cfg : KeyCfg) (t : Token) : List String :=
  (if !t.json && t.nseg != 3 then ["three_segments"] else []) ++
  (if !(t.hdrOK && t.nsig == 1 && t.payloadOK && (t.json || t.b64OK) && (!t.json || t.jsonOK)) then ["well_formed"] else []) ++
  (match algFamily t.alg with
    | .none => ["alg_none"]
    | .hmac => ["alg_symmetric"]
    | .other => ["alg_asymmetric"]
    | _ => []) ++
  (match configured cfg with
    | none => ["configured_key"]
    | some (k, ty) =>
      (if algFamily t.alg != ty.family then ["alg_key_type"] else []) ++
      (if t.signedBy != some k then ["signature"] else [])) ++
  (if !t.critOK then ["crit"] else []) ++
  (if !t.claims.valid then ["claims"] else [])

/-- `checkClass`: whether the error class is prescribed for this operation (the signer-level
    `Validate` returns no RFC errors) -/
def violations (cfg : KeyCfg) (t : Token) (cover : String → Bool) (need : List String)
    (checkClass : Bool) (o : Obs) : List String :=
  match o with
  | .accepted =>
    acceptViolations cfg t ++ (if !scopesCoveredB cover need then ["scopes"] else [])
  | .rejected name status =>
    if acceptsB cfg t && scopesCoveredB cover need then ["rejected_valid"]
    else if checkClass && !(allowedErrors cfg t cover need).any (fun e => e.name == name && e.status == status) then ["error_class"]
    else []

end Fosite.Spec.JWTAT

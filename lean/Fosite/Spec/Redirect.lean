/-
  What C11 says about the redirect-URI decision functions, written as the simplest possible
  definitions over the same parser observations (`PURL`) the model uses.

  "Every redirect … targets a URI that is string-identical to one of the client's registered
   redirect URIs, or is an http URI on a loopback IP literal whose host, path and query equal those
   of a registered URI (any port); the target is absolute and has no fragment of its own.  When the
   requested redirect_uri does not qualify (or is missing while several are registered) the error is
   rendered … and no redirect is issued, and the authorization-code flow and the pushed-authorization
   endpoint accept plain-http targets only on loopback/localhost hosts unless configured otherwise."
-/
import Fosite.Model.Redirect
namespace Fosite.Spec
open Fosite.Model (PURL Parser)

/-- RFC 8252 §7.3 variant: the requested URI is an `http` URI on a loopback IP literal and agrees
    with the (parseable) registered URI on host name, path and query.  Nothing is said about the port. -/
def loopbackVariant (req reg : PURL) : Prop :=
  req.scheme = "http" ∧ req.hostIsLoopbackIP = true ∧ reg.parseOk = true ∧
  reg.hostname = req.hostname ∧ reg.path = req.path ∧ reg.rawQuery = req.rawQuery

instance (req reg : PURL) : Decidable (loopbackVariant req reg) := by
  unfold loopbackVariant; exact inferInstance

/-- A redirect target must parse, be absolute (as judged by the request-URL validator) and carry no
    fragment of its own. -/
def wellFormedTarget (u : PURL) : Prop :=
  u.parseOk = true ∧ u.isRequestURL = true ∧ u.fragment = ""

instance (u : PURL) : Decidable (wellFormedTarget u) := by
  unfold wellFormedTarget; exact inferInstance

/-- The requested string qualifies against the registration. -/
def qualifies (P : Parser) (raw : String) (regs : List String) : Prop :=
  raw ∈ regs ∨ ∃ r ∈ regs, loopbackVariant (P raw) (P r)

instance (P : Parser) (raw : String) (regs : List String) : Decidable (qualifies P raw regs) := by
  unfold qualifies; exact inferInstance

/-- `s` is an admissible redirect target for the request `raw` of a client registered with `regs`
    (the statement of `match_sound` in DESIGN §C11). -/
def matchSound (P : Parser) (raw : String) (regs : List String) (s : String) : Prop :=
  (raw ≠ "" ∧ s = raw ∧ raw ∈ regs) ∨
  (raw = "" ∧ regs = [s]) ∨
  (raw ≠ "" ∧ s = raw ∧ ∃ r ∈ regs, loopbackVariant (P raw) (P r))

/-- The documented decision, as a function: the redirect target, or `none` = "render the error
    directly, no redirect". -/
def matchTarget (P : Parser) (raw : String) (regs : List String) : Option String :=
  if raw = "" then
    match regs with
    | [r] => if wellFormedTarget (P r) then some r else none   -- omitted: the single registered URI
    | _ => none                                               -- omitted with none or several registered
  else if qualifies P raw regs ∧ wellFormedTarget (P raw) then some raw
  else none

/-- loopback / localhost host names: the literal `localhost`, any name under `.localhost`,
    or a loopback IP literal. -/
def isLocal (u : PURL) : Prop :=
  u.hostname = "localhost" ∨ (∃ p : List Char, u.hostname.toList = p ++ ".localhost".toList) ∨
  u.hostIsLoopbackIP = true

/-- executable form of `isLocal`, written differently from the model (drop instead of suffix test) -/
def isLocalB (u : PURL) : Bool :=
  let hn := u.hostname.toList
  decide (u.hostname = "localhost") || (hn.drop (hn.length - 10) == ".localhost".toList) ||
  u.hostIsLoopbackIP

/-- plain http is acceptable only on local hosts; every other scheme is left to other checks -/
def secure (u : PURL) : Bool := decide (u.scheme ≠ "http") || isLocalB u

/-- strict variant: https, or http on a local host; nothing else -/
def secureStrict (u : PURL) : Bool :=
  decide (u.scheme = "https") || (decide (u.scheme = "http") && isLocalB u)

end Fosite.Spec

/-
  What C07 says about expiry, as the simplest possible definitions.

  "Authorization codes, access tokens (opaque and JWT), refresh tokens with a finite lifetime, device
   codes, user codes, pushed-authorization request URIs and JWT assertions are refused once their
   expiry instant has passed, however they are presented.  Lifetimes advertised in responses
   (expires_in, exp) are consistent with the instant at which the credential stops being honoured,
   and per-client lifetime overrides take precedence over server defaults exactly for their
   grant/token-type pair."

  Reading (DESIGN §3 C07): a credential whose expiry is a `time.Time` is honoured exactly up to and
  including that instant (nanoseconds); a credential whose expiry is a NumericDate (`exp` claim of a
  JWT) is honoured exactly while the current *whole second* is not after it.  `expires_in` never
  promises more than is honoured and under-promises by less than one second.
-/
import Fosite.Model.Expiry
namespace Fosite.Spec.Expiry
open Fosite.Model Fosite.Model.Expiry

/-! ### the expiry instant of a credential, and being honoured -/

/-- The expiry instant of a `time.Time` credential: what the session says, else issue instant +
    configured lifespan. -/
def expiryInstant (exp : Option Time) (requestedAt : Time) (life : Dur) : Int :=
  match exp with
  | some e => Int.ofNat e
  | none => Int.ofNat requestedAt + life

/-- exact-instant granularity: still honoured at `now` iff `now ≤ X` -/
def honouredAt (X : Int) (now : Time) : Prop := Int.ofNat now ≤ X

instance (X : Int) (now : Time) : Decidable (honouredAt X now) := by unfold honouredAt; exact inferInstance

/-- whole-second granularity (NumericDate `exp`): honoured at `now` iff `⌊now⌋ ≤ exp` -/
def honouredNumeric (exp : Int) (now : Time) : Prop := Int.ofNat (now / second) ≤ exp

instance (e : Int) (now : Time) : Decidable (honouredNumeric e now) := by unfold honouredNumeric; exact inferInstance

/-- a refresh token: `none` = unlimited lifetime -/
def refreshHonouredAt (exp : Option Time) (now : Time) : Prop :=
  match exp with
  | none => True
  | some e => now ≤ e

instance (exp : Option Time) (now : Time) : Decidable (refreshHonouredAt exp now) := by
  unfold refreshHonouredAt; cases exp <;> exact inferInstance

/-- documented verdict for an opaque credential: refused with the kind's expiry error once the
    instant has passed, otherwise whatever the MAC layer says -/
def opaqueVerdict (expiredErr : Err) (X : Int) (now : Time) (mac : Option Err) : Except Err Unit :=
  if honouredAt X now then macResult mac else .error expiredErr

def refreshVerdict (exp : Option Time) (now : Time) (mac : Option Err) : Except Err Unit :=
  if refreshHonouredAt exp now then macResult mac else .error .token_expired

/-- The `exp` claim that is consistent with a session expiry: its whole second (RFC 7519 NumericDate). -/
def expClaimOf (sessionExp : Time) : Int := Int.ofNat (sessionExp / second)

/-- pushed authorization request: the request_uri is usable up to and including the instant the PAR
    endpoint stamped (`push + lifespan`); RFC 9126 §4 -/
def parVerdict (parContextExp : Option Time) (now : Time) : Except Err Unit :=
  match parContextExp with
  | none => .ok ()
  | some e => if now ≤ e then .ok () else .error .invalid_request_uri

/-- an RFC 7523 assertion: its `exp` NumericDate, read as the instant `exp·1s`, is the last instant
    at which it is honoured -/
def assertionHonouredAt (exp : Int) (now : Time) : Prop := Int.ofNat now ≤ exp * Int.ofNat second

instance (e : Int) (now : Time) : Decidable (assertionHonouredAt e now) := by
  unfold assertionHonouredAt; exact inferInstance

/-! ### advertised lifetimes -/

/-- `expires_in = E` seconds, advertised at `now` for a credential expiring at `exp`, is *sound*:
    a positive promise lies within the honoured interval, and under-promises by less than a second. -/
def ExpiresInSound (exp now : Time) (E : Int) : Prop :=
  (0 < E → Int.ofNat now + E * Int.ofNat second ≤ Int.ofNat exp) ∧
  (Int.ofNat exp - Int.ofNat now - E * Int.ofNat second < Int.ofNat second)

/-- whole seconds of a remaining lifetime, toward zero -/
def secondsOf (d : Int) : Int :=
  if 0 ≤ d then Int.ofNat (d.toNat / second) else - Int.ofNat ((-d).toNat / second)

/-- a stamped expiry is *consistent* with the lifespan: within half a second of `now + life` -/
def StampConsistent (now : Time) (life : Dur) (stamped : Time) : Prop :=
  2 * (Int.ofNat stamped - (Int.ofNat now + life)) ≤ Int.ofNat second ∧
  2 * ((Int.ofNat now + life) - Int.ofNat stamped) ≤ Int.ofNat second

/-! ### the per-client lifespan table -/

/-- Go constant name ↦ value (`oauth2.go`) -/
def grantTypeConsts : List (String × String) :=
  [("GrantTypeAuthorizationCode", "authorization_code"),
   ("GrantTypeClientCredentials", "client_credentials"),
   ("GrantTypeDeviceCode", "urn:ietf:params:oauth:grant-type:device_code"),
   ("GrantTypeImplicit", "implicit"),
   ("GrantTypeJWTBearer", "urn:ietf:params:oauth:grant-type:jwt-bearer"),
   ("GrantTypePassword", "password"),
   ("GrantTypeRefreshToken", "refresh_token")]

def tokenTypeConsts : List (String × String) :=
  [("AccessToken", "access_token"),
   ("AuthorizeCode", "authorize_code"),
   ("DeviceCode", "device_code"),
   ("IDToken", "id_token"),
   ("PushedAuthorizeRequestContext", "par_context"),
   ("RefreshToken", "refresh_token"),
   ("UserCode", "user_code")]

/-- the fields `ClientLifespanConfig` declares, in declaration order -/
def declaredFields : List String :=
  ["AuthorizationCodeGrantAccessTokenLifespan",
   "AuthorizationCodeGrantIDTokenLifespan",
   "AuthorizationCodeGrantRefreshTokenLifespan",
   "ClientCredentialsGrantAccessTokenLifespan",
   "ImplicitGrantAccessTokenLifespan",
   "ImplicitGrantIDTokenLifespan",
   "JwtBearerGrantAccessTokenLifespan",
   "PasswordGrantAccessTokenLifespan",
   "PasswordGrantRefreshTokenLifespan",
   "RefreshTokenGrantIDTokenLifespan",
   "RefreshTokenGrantAccessTokenLifespan",
   "RefreshTokenGrantRefreshTokenLifespan"]

/-- how a grant-type constant is spelled inside a field name -/
def grantStem : List (String × String) :=
  [("GrantTypeAuthorizationCode", "AuthorizationCode"),
   ("GrantTypeClientCredentials", "ClientCredentials"),
   ("GrantTypeDeviceCode", "DeviceCode"),
   ("GrantTypeImplicit", "Implicit"),
   ("GrantTypeJWTBearer", "JwtBearer"),
   ("GrantTypePassword", "Password"),
   ("GrantTypeRefreshToken", "RefreshToken")]

/-- the like-named field of a (grant, token) pair: `<Grant>Grant<Token>Lifespan` -/
def fieldNameOf (grantStemName tokenConst : String) : String :=
  grantStemName ++ "Grant" ++ tokenConst ++ "Lifespan"

/-- THE RULE: a (grant constant, token constant) pair reads the like-named field when
    `ClientLifespanConfig` declares one, and no other pair reads anything.  Enumerated in sorted
    order (both constant lists above are sorted). -/
def lifespanTable : List (String × String × String) :=
  grantStem.flatMap fun g =>
    tokenTypeConsts.filterMap fun t =>
      let f := fieldNameOf g.2 t.1
      if declaredFields.contains f then some (g.1, t.1, f) else none

def GrantType.constName : GrantType → Option String
  | .authorizationCode => some "GrantTypeAuthorizationCode"
  | .clientCredentials => some "GrantTypeClientCredentials"
  | .implicit => some "GrantTypeImplicit"
  | .jwtBearer => some "GrantTypeJWTBearer"
  | .password => some "GrantTypePassword"
  | .refreshToken => some "GrantTypeRefreshToken"
  | .deviceCode => some "GrantTypeDeviceCode"
  | .other => none

def TokenType.constName : TokenType → Option String
  | .accessToken => some "AccessToken"
  | .refreshToken => some "RefreshToken"
  | .authorizeCode => some "AuthorizeCode"
  | .idToken => some "IDToken"
  | .userCode => some "UserCode"
  | .deviceCode => some "DeviceCode"
  | .parContext => some "PushedAuthorizeRequestContext"
  | .other => none

/-- a field of the configuration by its Go name -/
def fieldByName (c : ClientLifespanConfig) (name : String) : Option Dur :=
  if name = "AuthorizationCodeGrantAccessTokenLifespan" then c.authorizationCodeGrantAccessTokenLifespan
  else if name = "AuthorizationCodeGrantIDTokenLifespan" then c.authorizationCodeGrantIDTokenLifespan
  else if name = "AuthorizationCodeGrantRefreshTokenLifespan" then c.authorizationCodeGrantRefreshTokenLifespan
  else if name = "ClientCredentialsGrantAccessTokenLifespan" then c.clientCredentialsGrantAccessTokenLifespan
  else if name = "ImplicitGrantAccessTokenLifespan" then c.implicitGrantAccessTokenLifespan
  else if name = "ImplicitGrantIDTokenLifespan" then c.implicitGrantIDTokenLifespan
  else if name = "JwtBearerGrantAccessTokenLifespan" then c.jwtBearerGrantAccessTokenLifespan
  else if name = "PasswordGrantAccessTokenLifespan" then c.passwordGrantAccessTokenLifespan
  else if name = "PasswordGrantRefreshTokenLifespan" then c.passwordGrantRefreshTokenLifespan
  else if name = "RefreshTokenGrantIDTokenLifespan" then c.refreshTokenGrantIDTokenLifespan
  else if name = "RefreshTokenGrantAccessTokenLifespan" then c.refreshTokenGrantAccessTokenLifespan
  else if name = "RefreshTokenGrantRefreshTokenLifespan" then c.refreshTokenGrantRefreshTokenLifespan
  else none

/-- the field the table assigns to a pair of constants -/
def tableField (g t : String) : Option String :=
  (lifespanTable.find? fun e => e.1 == g && e.2.1 == t).map fun e => e.2.2

/-- the per-client override for a pair, read through the table -/
def override (c : ClientLifespanConfig) (gt : GrantType) (tt : TokenType) : Option Dur :=
  match GrantType.constName gt, TokenType.constName tt with
  | some g, some t =>
    match tableField g t with
    | some f => fieldByName c f
    | none => none
  | _, _ => none

/-- the override of a client (none unless it carries a lifespan configuration) -/
def clientOverride (c : ClientLifespans) (gt : GrantType) (tt : TokenType) : Option Dur :=
  match c with
  | .plain => none
  | .unset => none
  | .set cfg => override cfg gt tt

/-- documented effective lifespan: the override when there is one, else the server's value -/
def effective (c : ClientLifespans) (gt : GrantType) (tt : TokenType) (fallback : Dur) : Dur :=
  (clientOverride c gt tt).getD fallback

end Fosite.Spec.Expiry

/-
  Monitors: the history properties (C01–C05, C07–C09, C12 confinement) as decidable checks over an
  *observed* trace — operation lines and the outcome the implementation (or the model) reported.
  The bookkeeping below is driven by observed outcomes only; it never consults the model, so it is
  an oracle independent of it.  `fzdriver monitor` runs it over the implementation's trace; every
  hit carries a structured signature "Cxx:<what>" that the runner matches against known findings.
-/
import Fosite.Driver.Wire
import Fosite.Model.Scope
import Fosite.Spec.Scope
import Fosite.Model.Audience
namespace Fosite.Spec.Monitor
open Fosite.Driver

structure MClient where
  id : String
  isPublic : Bool
  grants : List String
  scopes : List String
  aud : List String
  deriving Inhabited

/-- one authorization (consent) as the monitor saw it being granted -/
structure MGrant where
  gid : Nat
  client : String
  redirect : String
  challenge : String
  method : String
  gscopes : List String
  gaud : List String
  subject : String
  code : String
  codeExp : Nat               -- instant after which the code must be refused
  hybridAT : String
  redeemed : Bool := false
  replayed : Bool := false    -- the used code was presented again by an authorised client
  reused : Bool := false      -- a used refresh token was presented again
  members : List String := [] -- tokens the token endpoint issued for this grant
  pkceEnforcedAtIssue : Bool := false
  deriving Inhabited

structure MTok where
  name : String
  kind : Char                 -- 'A' | 'R'
  gid : Nat
  client : String
  exp : Option Nat            -- instant after which it must be refused (none = unlimited)
  sibling : String := ""      -- the token issued in the same response
  dead : Bool := false        -- the monitor expects it to be inactive from now on
  why : String := ""          -- property tag that made it dead ("C01", "C04", "C08")
  usedRT : Bool := false
  fromTokenEndpoint : Bool := true
  deriving Inhabited

structure Book where
  now : Nat := 0
  cfg : List String := []
  clients : List MClient := []
  grants : List MGrant := []
  toks : List MTok := []
  deriving Inhabited

def Book.cfgv (b : Book) (k : String) : String := kv b.cfg k
def Book.cfgNat (b : Book) (k : String) : Int := (b.cfgv k).toInt?.getD 0
def Book.client (b : Book) (id : String) : Option MClient := b.clients.find? (·.id == id)
def Book.grantOfCode (b : Book) (code : String) : Option MGrant := b.grants.find? (·.code == code)
def Book.grant (b : Book) (gid : Nat) : Option MGrant := b.grants.find? (·.gid == gid)
def Book.tok (b : Book) (name : String) : Option MTok := b.toks.find? (·.name == name)
def Book.setGrant (b : Book) (g : MGrant) : Book := { b with grants := b.grants.map (fun x => if x.gid == g.gid then g else x) }
def Book.setTok (b : Book) (t : MTok) : Book := { b with toks := b.toks.map (fun x => if x.name == t.name then t else x) }
def Book.kill (b : Book) (name why : String) : Book :=
  { b with toks := b.toks.map (fun x => if x.name == name && !x.dead then { x with dead := true, why := why } else x) }

/-- revocation by request id: every access token of the grant, and its live refresh token -/
def Book.killGrant (b : Book) (gid : Nat) (why : String) (alsoRefresh : Bool) : Book :=
  { b with toks := b.toks.map (fun x =>
      if x.gid == gid && !x.dead && (x.kind == 'A' || alsoRefresh) then { x with dead := true, why := why } else x) }

def second : Nat := 1000000000
def roundSec (t : Nat) : Nat := ((t + second / 2) / second) * second
def addI (t : Nat) (d : Int) : Nat := (Int.ofNat t + d).toNat

/-- the outcome segment of an observation line -/
def outSeg (obs : String) : String := (obs.splitOn " || ").headD ""

/-- C20, storage half: the harness lists everything handed to the storage layer during the operation
    that equals a usable secret in cleartext (4th segment "taint=,item,…"); each item is a hit -/
def taintHits (obs : String) : List String :=
  match (obs.splitOn " || ").find? (fun s => s.startsWith "taint=") with
  | some s => (decList (s.drop 6).toString).map (fun it => "C20:storage-sees-secret:" ++ it)
  | none => []

def outKind (o : String) : String := (o.splitOn " ").headD ""
def outField (o k : String) : String := kv (o.splitOn " ") k
def errName (o : String) : String := ((o.splitOn " ").getD 1 "")

def strategyOf (b : Book) : Fosite.Model.ScopeStrategy :=
  match b.cfgv "scope" with | "hierarchic" => .hierarchic | "exact" => .exact | _ => .wildcard

/-- the documented scope relation (Spec, not the model) -/
def specCovers (b : Book) (registered : List String) (scope : String) : Bool :=
  let hay := registered.map String.toList
  match strategyOf b with
  | .wildcard => Fosite.Spec.wildcard hay scope.toList
  | .hierarchic => Fosite.Spec.hierarchic hay scope.toList
  | .exact => Fosite.Spec.exact hay scope.toList

def verifierWellFormed (v : String) : Bool :=
  43 ≤ v.length && v.length ≤ 128 && v.toList.all (fun c => c.isAlphanum || c == '-' || c == '.' || c == '_' || c == '~')

/-- base name and mutation of a presented credential descriptor -/
def descBase (d : String) : String := (d.splitOn "~").headD ""
def descExact (d : String) : Bool := !(d.contains '~') && d != "garbage" && d != "foreign"
/-- the presented string carries the stored signature (exact copy, or same signature with another
    random part): lookups by signature find the record -/
def sigMatches (d : String) : Bool := descExact d || d.endsWith "~r"

def refreshScopesOK (b : Book) (granted : List String) : Bool :=
  let rs := decList (b.cfgv "refreshScopes")
  rs.isEmpty || rs.any granted.contains

/-- Checks evaluated on one (operation, outcome) pair against the bookkeeping *before* the
    operation.  Each hit is "Cxx:<signature>". -/
def check (b : Book) (f : List String) (o : String) : List String :=
  let k := outKind o
  match f with
  | ["redeem", client, cred, code, redirect, verifier, _scopes, _aud] =>
    match b.grantOfCode (descBase code) with
    | none => if k == "tokens" then ["C06:redeem-accepted-unknown-code"] else []
    | some g =>
      let authed := match b.client client with
        | some c => c.isPublic || cred == "1"
        | none => false
      let registered := match b.client client with
        | some c => c.grants.contains "authorization_code"
        | none => false
      let expired := decide (b.now > g.codeExp)
      let pkceOK :=
        if g.challenge == "" then
          -- no challenge: never redeemable when PKCE is enforced for this client
          !(b.cfgv "pkce" == "1" || (b.cfgv "pkcePublic" == "1" && (match b.client g.client with | some c => c.isPublic | none => false)))
        else
          verifierWellFormed verifier &&
            (if g.method == "S256" then g.challenge == "H(" ++ verifier ++ ")"
             else (b.cfgv "plain" == "1") && g.challenge == verifier)
      if k == "tokens" then
        (if !descExact code then ["C06:redeem-accepted-tampered-code"] else []) ++
        (if g.redeemed then ["C01:code-redeemed-twice"] else []) ++
        (if !authed then ["C10:redeem-without-client-authentication"] else []) ++
        (if client != g.client then ["C02:redeem-by-foreign-client"] else []) ++
        (if g.redirect != "" && redirect != g.redirect then ["C02:redeem-with-different-redirect-uri"] else []) ++
        (if expired then ["C02:redeem-after-expiry", "C07:code-honoured-after-expiry"] else []) ++
        (if !pkceOK then
            [if g.challenge == "" then "C03:redeem-without-challenge-under-enforcement" else "C03:redeem-without-matching-verifier"] else []) ++
        (if outField o "scope" != encListW g.gscopes then ["C02:issued-scopes-differ-from-consent"] else []) ++
        (let rtIssued := outField o "rt" != "?"
         let rule := refreshScopesOK b g.gscopes
         if rtIssued && !rule then ["C05:refresh-token-issued-without-refresh-scope"] else [])
      else if k == "err" then
        (if sigMatches code && g.redeemed && authed && registered && errName o != "invalid_grant/400" then
            ["C01:replay-not-invalid_grant"] else []) ++
        (if descExact code && !g.redeemed && authed && registered && client != g.client && errName o != "invalid_grant/400" then
            ["C02:foreign-client-not-invalid_grant"] else []) ++
        (if descExact code && !g.redeemed && authed && registered && client == g.client && g.redirect != "" && redirect != g.redirect
              && errName o != "invalid_grant/400" then
            ["C02:different-redirect-not-invalid_grant"] else [])
      else []
  | ["refresh", client, cred, tok, _scopes, _aud] =>
    match b.tok (descBase tok) with
    | none => if k == "tokens" then ["C06:refresh-accepted-unknown-token"] else []
    | some t =>
      let cl := b.client client
      let authed := match cl with | some c => c.isPublic || cred == "1" | none => false
      let hasGrant := match cl with | some c => c.grants.contains "refresh_token" | none => false
      let g := (b.grant t.gid).getD default
      if k == "tokens" then
        (if !descExact tok then ["C06:refresh-accepted-tampered-token"] else []) ++
        (if t.kind != 'R' then ["C06:refresh-accepted-non-refresh-token"] else []) ++
        (if t.usedRT then ["C04:refresh-token-exchanged-twice"] else []) ++
        (if t.dead && !t.usedRT then ["C04:dead-refresh-token-exchanged:" ++ t.why] else []) ++
        (if !authed then ["C10:refresh-without-client-authentication"] else []) ++
        (if client != t.client then ["C05:refresh-by-foreign-client"] else []) ++
        (if !hasGrant then ["C05:refresh-by-client-without-grant-type"] else []) ++
        (match t.exp with | some e => if b.now > e then ["C07:refresh-token-honoured-after-expiry"] else [] | none => []) ++
        (match cl with
          | some c =>
            (if !g.gscopes.all (specCovers b c.scopes) then ["C05:refresh-although-scope-no-longer-allowed"] else [])
          | none => []) ++
        (if outField o "scope" != encListW g.gscopes then ["C05:refreshed-scopes-differ-from-grant"] else []) ++
        (if outField o "rt" == "?" then ["C04:refresh-without-new-refresh-token"] else [])
      else if k == "err" then
        (if sigMatches tok && t.kind == 'R' && t.usedRT && authed && hasGrant && errName o != "invalid_grant/400" then
            ["C04:reuse-not-invalid_grant"] else [])
      else []
  | ["introspect", tok, _hint, scopes] =>
    match b.tok (descBase tok) with
    | none => if k == "active" then ["C09:unknown-token-reported-active"] else []
    | some t =>
      let g := (b.grant t.gid).getD default
      let expired := match t.exp with | some e => decide (b.now > e) | none => false
      let covered := (decList scopes).all (fun s => s == "" || specCovers b g.gscopes s)
      let rtDisabled := t.kind == 'R' && b.cfgv "noRtIntrospect" == "1"
      if k == "active" then
        (if !descExact tok then ["C06:tampered-token-reported-active"] else []) ++
        (if t.dead then [t.why ++ ":dead-token-reported-active"] else []) ++
        (if expired then ["C07:expired-token-reported-active"] else []) ++
        (if !covered then ["C09:active-although-required-scope-not-granted"] else []) ++
        (if rtDisabled then ["C09:refresh-token-introspected-although-disabled"] else []) ++
        (if outField o "c" != t.client then ["C09:reported-client-differs"] else []) ++
        (if outField o "sub" != g.subject then ["C09:reported-subject-differs"] else []) ++
        (if outField o "gs" != encListW g.gscopes then ["C09:reported-scopes-differ"] else []) ++
        (if outField o "ga" != encListW g.gaud then ["C09:reported-audience-differs"] else []) ++
        (if outField o "use" != (if t.kind == 'A' then "access_token" else "refresh_token") then ["C09:reported-kind-differs"] else [])
      else if k == "inactive" then
        (if descExact tok && !t.dead && !expired && covered && !rtDisabled then ["C09:live-token-reported-inactive"] else [])
      else []
  | ["revoke", client, cred, tok, _hint] =>
    let cl := b.client client
    let authed := match cl with | some c => c.isPublic || cred == "1" | none => false
    match b.tok (descBase tok) with
    | none => if k == "err" && authed then ["C08:unknown-token-revocation-not-success"] else []
    | some t =>
      if !authed then (if k != "err" then ["C08:unauthenticated-revocation-accepted"] else [])
      else if !descExact tok then []      -- signature-only match: lookup is by signature (C06 territory)
      else if client != t.client then
        (if !t.dead && !(k == "err" && errName o == "unauthorized_client/400") then ["C08:foreign-revocation-not-unauthorized_client"] else [])
      else (if k == "err" then ["C08:owner-revocation-refused"] else [])
  | _ => []
where
  encListW (xs : List String) : String := String.join (xs.map (fun x => "," ++ x))

/-- bookkeeping update from the observed outcome -/
def update (b : Book) (f : List String) (o : String) : Book :=
  let k := outKind o
  match f with
  | "cfg" :: rest => { b with cfg := rest }
  | ["client", id, pub, grants, scopes, aud, _redirects] =>
    let c : MClient := { id := id, isPublic := pub == "1", grants := decList grants, scopes := decList scopes, aud := decList aud }
    { b with clients := (b.clients.filter (·.id != id)) ++ [c] }
  | ["advance", d] => { b with now := b.now + d.toNat?.getD 0 }
  | ["authorize", client, rts, redirect, _secure, _state, _nonce, _scopes, _aud, gs, ga, sub, challenge, method] =>
    if k != "authz" then b else
    let code := outField o "code"
    let atk := outField o "at"
    let gid := b.grants.length
    let hybrid := (decList rts).length > 1
    let codeLife := b.cfgNat "codeLife"
    let codeExp := if hybrid then roundSec (addI b.now codeLife) else addI b.now codeLife
    let g : MGrant := { gid := gid, client := client, redirect := redirect, challenge := challenge, method := method,
                        gscopes := dedup (decList gs), gaud := dedup (decList ga), subject := sub,
                        code := if code == "?" then "" else code, codeExp := codeExp,
                        hybridAT := if atk == "?" then "" else atk }
    let b := { b with grants := b.grants ++ [g] }
    if atk == "?" then b else
      { b with toks := b.toks ++ [{ name := atk, kind := 'A', gid := gid, client := client,
                                    exp := some (roundSec (addI b.now (b.cfgNat "atLife"))), fromTokenEndpoint := false }] }
  | ["redeem", client, cred, code, _redirect, _verifier, _scopes, _aud] =>
    match b.grantOfCode (descBase code) with
    | none => b
    | some g =>
      if k == "tokens" then
        let atk := outField o "at"
        let rt := outField o "rt"
        let atTok : MTok := { name := atk, kind := 'A', gid := g.gid, client := g.client,
                              exp := some (roundSec (addI b.now (b.cfgNat "atLife"))), sibling := if rt == "?" then "" else rt }
        let rtExp := if b.cfgNat "rtLife" > -1 then some (roundSec (addI b.now (b.cfgNat "rtLife"))) else none
        let newToks := [atTok] ++ (if rt == "?" then [] else [{ name := rt, kind := 'R', gid := g.gid, client := g.client, exp := rtExp, sibling := atk }])
        let b := { b with toks := b.toks ++ newToks }
        b.setGrant { g with redeemed := true, members := g.members ++ newToks.map (·.name) }
      else if k == "err" && sigMatches code && g.redeemed then
        -- replay of a used code: once the caller is an authenticated client registered for the grant,
        -- every token obtained from that code must be inactive from now on
        let cl := b.client client
        let authed := match cl with | some c => (c.isPublic || cred == "1") && c.grants.contains "authorization_code" | none => false
        if authed then
          let b := b.killGrant g.gid "C01" true
          b.setGrant { g with replayed := true }
        else b
      else b
  | ["refresh", client, cred, tok, _scopes, _aud] =>
    match b.tok (descBase tok) with
    | none => b
    | some t =>
      match b.grant t.gid with
      | none => b
      | some g =>
        if k == "tokens" then
          let atk := outField o "at"
          let rt := outField o "rt"
          -- rotation: the presented token and the access token issued alongside it are dead
          let b := b.setTok { t with usedRT := true, dead := true, why := if t.dead then t.why else "C04" }
          let b := b.killGrant g.gid "C04" false
          let atTok : MTok := { name := atk, kind := 'A', gid := g.gid, client := g.client,
                                exp := some (roundSec (addI b.now (b.cfgNat "atLife"))), sibling := if rt == "?" then "" else rt }
          let rtExp := if b.cfgNat "rtLife" > -1 then some (roundSec (addI b.now (b.cfgNat "rtLife"))) else t.exp
          let newToks := [atTok] ++ (if rt == "?" then [] else [{ name := rt, kind := 'R', gid := g.gid, client := g.client, exp := rtExp, sibling := atk }])
          let b := { b with toks := b.toks ++ newToks }
          b.setGrant { g with members := g.members ++ newToks.map (·.name) }
        else if k == "err" && sigMatches tok && t.kind == 'R' && t.usedRT then
          let cl := b.client client
          let authed := match cl with | some c => (c.isPublic || cred == "1") && c.grants.contains "refresh_token" | none => false
          if authed then
            let b := b.killGrant g.gid "C04" true
            b.setGrant { g with reused := true }
          else b
        else b
  | ["revoke", client, cred, tok, _hint] =>
    match b.tok (descBase tok) with
    | none => b
    | some t =>
      let cl := b.client client
      let authed := match cl with | some c => c.isPublic || cred == "1" | none => false
      if k == "ok" && authed && sigMatches tok && client == t.client && !t.dead then
        b.killGrant t.gid "C08" true
      else b
  | _ => b
where
  dedup (xs : List String) : List String := xs.foldl (fun acc x => if acc.contains x then acc else acc ++ [x]) []

end Fosite.Spec.Monitor

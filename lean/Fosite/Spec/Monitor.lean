/-
  Monitors: the history properties (C01–C05, C07–C09, C12 confinement) as decidable checks over an
  *observed* trace — operation lines and the outcome the implementation (or the model) reported.
  The bookkeeping below is driven by observed outcomes only; it never consults the model, so it is
  an oracle independent of it.  `fzdriver monitor` runs it over the implementation's trace; every
  hit carries a structured signature "Cxx:<what>" that the runner matches against known findings.
-/
import Fosite.Driver.Wire
import Fosite.Model.Scope
import Fosite.Spec.Scope
import Fosite.Model.Audience
namespace Fosite.Spec.Monitor
open Fosite.Driver

structure MClient where
  id : String
  isPublic : Bool
  grants : List String
  scopes : List String
  aud : List String
  deriving Inhabited

/-- one authorization (consent) as the monitor saw it being granted -/
structure MGrant where
  gid : Nat
  client : String
  redirect : String
  challenge : String
  method : String
  gscopes : List String
  gaud : List String
  subject : String
  code : String
  codeExp : Nat               -- instant after which the code must be refused
  hybridAT : String
  redeemed : Bool := false
  replayed : Bool := false    -- the used code was presented again by an authorised client
  reused : Bool := false      -- a used refresh token was presented again
  members : List String := [] -- tokens the token endpoint issued for this grant
  pkceEnforcedAtIssue : Bool := false
  deriving Inhabited

structure MTok where
  name : String
  kind : Char                 -- 'A' | 'R'
  gid : Nat
  client : String
  exp : Option Nat            -- instant after which it must be refused (none = unlimited)
  sibling : String := ""      -- the token issued in the same response
  dead : Bool := false        -- the monitor expects it to be inactive from now on
  why : String := ""          -- property tag that made it dead ("C01", "C04", "C08")
  usedRT : Bool := false
  fromTokenEndpoint : Bool := true
  deriving Inhabited

/-- a device authorization as observed -/
structure MDevice where
  name : String
  client : String
  exp : Nat
  state : Nat := 0            -- 0 undecided, 1 accepted, 2 rejected
  gscopes : List String := []
  gaud : List String := []
  subject : String := ""
  used : Bool := false        -- tokens were obtained from it
  gid : Option Nat := none
  deriving Inhabited

/-- a pushed authorization request as observed -/
structure MPar where
  name : String
  client : String
  exp : Nat
  redirect : String
  challenge : String
  method : String
  rts : List String
  used : Bool := false
  deriving Inhabited

structure Book where
  now : Nat := 0
  cfg : List String := []
  clients : List MClient := []
  grants : List MGrant := []
  toks : List MTok := []
  devices : List MDevice := []
  pars : List MPar := []
  deriving Inhabited

def Book.cfgv (b : Book) (k : String) : String := kv b.cfg k
def Book.cfgNat (b : Book) (k : String) : Int := (b.cfgv k).toInt?.getD 0
def Book.client (b : Book) (id : String) : Option MClient := b.clients.find? (·.id == id)
def Book.grantOfCode (b : Book) (code : String) : Option MGrant := b.grants.find? (·.code == code)
def Book.grant (b : Book) (gid : Nat) : Option MGrant := b.grants.find? (·.gid == gid)
def Book.tok (b : Book) (name : String) : Option MTok := b.toks.find? (·.name == name)
def Book.device (b : Book) (name : String) : Option MDevice := b.devices.find? (·.name == name)
def Book.parOf (b : Book) (name : String) : Option MPar := b.pars.find? (·.name == name)
def Book.setDevice (b : Book) (d : MDevice) : Book := { b with devices := b.devices.map (fun x => if x.name == d.name then d else x) }
def Book.setPar (b : Book) (p : MPar) : Book := { b with pars := b.pars.map (fun x => if x.name == p.name then p else x) }
def Book.setGrant (b : Book) (g : MGrant) : Book := { b with grants := b.grants.map (fun x => if x.gid == g.gid then g else x) }
def Book.setTok (b : Book) (t : MTok) : Book := { b with toks := b.toks.map (fun x => if x.name == t.name then t else x) }
def Book.kill (b : Book) (name why : String) : Book :=
  { b with toks := b.toks.map (fun x => if x.name == name && !x.dead then { x with dead := true, why := why } else x) }

/-- revocation by request id: every access token of the grant, and its live refresh token -/
def Book.killGrant (b : Book) (gid : Nat) (why : String) (alsoRefresh : Bool) : Book :=
  { b with toks := b.toks.map (fun x =>
      if x.gid == gid && !x.dead && (x.kind == 'A' || alsoRefresh) then { x with dead := true, why := why } else x) }

def second : Nat := 1000000000
def roundSec (t : Nat) : Nat := ((t + second / 2) / second) * second
def addI (t : Nat) (d : Int) : Nat := (Int.ofNat t + d).toNat

/-- the outcome segment of an observation line -/
def outSeg (obs : String) : String := (obs.splitOn " || ").headD ""

/-- C20, storage half: the harness lists everything handed to the storage layer during the operation
    that equals a usable secret in cleartext (4th segment "taint=,item,…"); each item is a hit -/
def taintHits (obs : String) : List String :=
  match (obs.splitOn " || ").find? (fun s => s.startsWith "taint=") with
  | some s => (decList (s.drop 6).toString).map (fun it =>
      -- "response:internal-detail:<error>": the text of an injected storage error reached what the client is shown
      if it.startsWith "response:" then "C20:response-leaks-" ++ (it.drop 9).toString else "C20:storage-sees-secret:" ++ it)
  | none => []

def outKind (o : String) : String := (o.splitOn " ").headD ""
def outField (o k : String) : String := kv (o.splitOn " ") k
def errName (o : String) : String := ((o.splitOn " ").getD 1 "")

def strategyOf (b : Book) : Fosite.Model.ScopeStrategy :=
  match b.cfgv "scope" with | "hierarchic" => .hierarchic | "exact" => .exact | _ => .wildcard

/-- the documented scope relation (Spec, not the model) -/
def specCovers (b : Book) (registered : List String) (scope : String) : Bool :=
  let hay := registered.map String.toList
  match strategyOf b with
  | .wildcard => Fosite.Spec.wildcard hay scope.toList
  | .hierarchic => Fosite.Spec.hierarchic hay scope.toList
  | .exact => Fosite.Spec.exact hay scope.toList

def verifierWellFormed (v : String) : Bool :=
  43 ≤ v.length && v.length ≤ 128 && v.toList.all (fun c => c.isAlphanum || c == '-' || c == '.' || c == '_' || c == '~')

/-- base name and mutation of a presented credential descriptor -/
def descBase (d : String) : String := (d.splitOn "~").headD ""
def descExact (d : String) : Bool := !(d.contains '~') && d != "garbage" && d != "foreign"
/-- the presented string carries the stored signature (exact copy, or same signature with another
    random part): lookups by signature find the record -/
def sigMatches (d : String) : Bool := descExact d || d.endsWith "~r" || d.endsWith "~q"

def refreshScopesOK (b : Book) (granted : List String) : Bool :=
  let rs := decList (b.cfgv "refreshScopes")
  rs.isEmpty || rs.any granted.contains

/-- has the token expired?  Opaque tokens: at the instant; JWT access tokens (cfg jwt=1) carry their expiry
    as a whole-second claim and are honoured until that second is over (C07 reading). -/
def tokExpired (b : Book) (t : MTok) : Bool :=
  match t.exp with
  | some e =>
    if t.kind == 'A' && b.cfgv "jwt" == "1" then decide (b.now / second > e / second) else decide (b.now > e)
  | none => false

def encListI (xs : List String) : String := String.join (xs.map (fun x => "," ++ x))

/-- what `IntrospectToken` says about a token, against the bookkeeping (C09 and the "inactive" halves of
    C01/C04/C06/C07/C08) -/
def checkIntrospect (b : Book) (tok scopes o : String) : List String :=
  let k := outKind o
  match b.tok (descBase tok) with
  | none => if k == "active" then ["C09:unknown-token-reported-active"] else []
  | some t =>
    let g := (b.grant t.gid).getD default
    let expired := tokExpired b t
    let covered := (decList scopes).all (fun s => s == "" || specCovers b g.gscopes s)
    let rtDisabled := t.kind == 'R' && b.cfgv "noRtIntrospect" == "1"
    if k == "active" then
      (if !descExact tok then ["C06:tampered-token-reported-active"] else []) ++
      (if t.dead then [t.why ++ ":dead-token-reported-active"] else []) ++
      (if expired then ["C07:expired-token-reported-active"] else []) ++
      (if !covered then ["C09:active-although-required-scope-not-granted"] else []) ++
      (if rtDisabled then ["C09:refresh-token-introspected-although-disabled"] else []) ++
      (if outField o "c" != t.client then ["C09:reported-client-differs"] else []) ++
      (if outField o "sub" != g.subject then ["C09:reported-subject-differs"] else []) ++
      (if outField o "gs" != encListI g.gscopes then ["C09:reported-scopes-differ"] else []) ++
      (if outField o "ga" != encListI g.gaud then ["C09:reported-audience-differs"] else []) ++
      (if !(decList (outField o "gs")).all (fun sc => g.gscopes.contains sc) then ["C12:token-carries-ungranted-scope"] else []) ++
      (if !(decList (outField o "ga")).all (fun a => g.gaud.contains a) then ["C12:token-carries-ungranted-audience"] else []) ++
      (if outField o "use" != (if t.kind == 'A' then "access_token" else "refresh_token") then ["C09:reported-kind-differs"] else [])
    else if k == "inactive" then
      (if descExact tok && !t.dead && !expired && covered && !rtDisabled then ["C09:live-token-reported-inactive"] else [])
    else []


/-- Checks evaluated on one (operation, outcome) pair against the bookkeeping *before* the
    operation.  Each hit is "Cxx:<signature>". -/
def check (b : Book) (f : List String) (o : String) : List String :=
  let k := outKind o
  match f with
  | ["redeem", client, cred, code, redirect, verifier, _scopes, _aud] =>
    match b.grantOfCode (descBase code) with
    | none => if k == "tokens" then ["C06:redeem-accepted-unknown-code"] else []
    | some g =>
      let authed := match b.client client with
        | some c => c.isPublic || cred == "1"
        | none => false
      let registered := match b.client client with
        | some c => c.grants.contains "authorization_code"
        | none => false
      let expired := decide (b.now > g.codeExp)
      let pkceOK :=
        if g.challenge == "" then
          -- no challenge: never redeemable when PKCE is enforced for this client
          !(b.cfgv "pkce" == "1" || (b.cfgv "pkcePublic" == "1" && (match b.client g.client with | some c => c.isPublic | none => false)))
        else
          verifierWellFormed verifier &&
            (if g.method == "S256" then g.challenge == "H(" ++ verifier ++ ")"
             else (b.cfgv "plain" == "1") && g.challenge == verifier)
      if k == "tokens" then
        (if !descExact code then ["C06:redeem-accepted-tampered-code"] else []) ++
        (if g.redeemed then ["C01:code-redeemed-twice"] else []) ++
        (if !authed then ["C10:redeem-without-client-authentication"] else []) ++
        (if client != g.client then ["C02:redeem-by-foreign-client"] else []) ++
        (if g.redirect != "" && redirect != g.redirect then ["C02:redeem-with-different-redirect-uri"] else []) ++
        (if expired then ["C02:redeem-after-expiry", "C07:code-honoured-after-expiry"] else []) ++
        (if !pkceOK then
            [if g.challenge == "" then "C03:redeem-without-challenge-under-enforcement" else "C03:redeem-without-matching-verifier"] else []) ++
        (if outField o "scope" != encListW g.gscopes then ["C02:issued-scopes-differ-from-consent"] else []) ++
        (if !(decList (outField o "scope")).all (fun sc => g.gscopes.contains sc) then ["C12:token-carries-ungranted-scope"] else []) ++
        (let rtIssued := outField o "rt" != "?"
         let rule := refreshScopesOK b g.gscopes
         if rtIssued && !rule then ["C05:refresh-token-issued-without-refresh-scope"] else [])
      else if k == "err" then
        (if sigMatches code && g.redeemed && authed && registered && errName o != "invalid_grant/400" then
            ["C01:replay-not-invalid_grant"] else []) ++
        (if descExact code && !g.redeemed && authed && registered && client != g.client && errName o != "invalid_grant/400" then
            ["C02:foreign-client-not-invalid_grant"] else []) ++
        (if descExact code && !g.redeemed && authed && registered && client == g.client && g.redirect != "" && redirect != g.redirect
              && errName o != "invalid_grant/400" then
            ["C02:different-redirect-not-invalid_grant"] else [])
      else []
  | ["refresh", client, cred, tok, _scopes, _aud] =>
    match b.tok (descBase tok) with
    | none => if k == "tokens" then ["C06:refresh-accepted-unknown-token"] else []
    | some t =>
      let cl := b.client client
      let authed := match cl with | some c => c.isPublic || cred == "1" | none => false
      let hasGrant := match cl with | some c => c.grants.contains "refresh_token" | none => false
      let g := (b.grant t.gid).getD default
      if k == "tokens" then
        (if !descExact tok then ["C06:refresh-accepted-tampered-token"] else []) ++
        (if t.kind != 'R' then ["C06:refresh-accepted-non-refresh-token"] else []) ++
        (if t.usedRT then ["C04:refresh-token-exchanged-twice"] else []) ++
        (if t.dead && !t.usedRT then ["C04:dead-refresh-token-exchanged:" ++ t.why] else []) ++
        (if !authed then ["C10:refresh-without-client-authentication"] else []) ++
        (if client != t.client then ["C05:refresh-by-foreign-client"] else []) ++
        (if !hasGrant then ["C05:refresh-by-client-without-grant-type"] else []) ++
        (match t.exp with | some e => if b.now > e then ["C07:refresh-token-honoured-after-expiry"] else [] | none => []) ++
        (match cl with
          | some c =>
            (if !g.gscopes.all (specCovers b c.scopes) then ["C05:refresh-although-scope-no-longer-allowed"] else [])
          | none => []) ++
        (if outField o "scope" != encListW g.gscopes then ["C05:refreshed-scopes-differ-from-grant"] else []) ++
        (if outField o "rt" == "?" then ["C04:refresh-without-new-refresh-token"] else [])
      else if k == "err" then
        (if sigMatches tok && t.kind == 'R' && t.usedRT && authed && hasGrant && errName o != "invalid_grant/400" then
            ["C04:reuse-not-invalid_grant"] else [])
      else []
  | ["introspect", tok, _hint, scopes] => checkIntrospect b tok scopes o
  | ["introspectHTTP", ckind, carg, ccred, tok, _hint, scopes] =>
    -- "answers only callers that authenticate with valid client credentials or a valid, different,
    -- active access token": an answer about the token (active or inactive) needs such a caller
    let answered := k == "active" || k == "inactive"
    let callerOK :=
      if ckind == "basic" then (b.client carg).isSome && ccred == "1"
      else if ckind == "bearer" then
        match b.tok (descBase carg) with
        | some t =>
          descExact carg && carg != tok && t.kind == 'A' && !t.dead && !tokExpired b t
        | none => false
      else false
    (if answered && !callerOK then ["C09:endpoint-answered-unauthenticated-caller"] else []) ++
    -- what it says about the token is judged exactly as for IntrospectToken
    (if answered then checkIntrospect b tok scopes (if k == "inactive" then "inactive x" else o) else [])
  | ["revoke", client, cred, tok, _hint] =>
    let cl := b.client client
    let authed := match cl with | some c => c.isPublic || cred == "1" | none => false
    match b.tok (descBase tok) with
    | none => if k == "err" && authed then ["C08:unknown-token-revocation-not-success"] else []
    | some t =>
      if !authed then (if k != "err" then ["C08:unauthenticated-revocation-accepted"] else [])
      else if !descExact tok then []      -- signature-only match: lookup is by signature (C06 territory)
      else if client != t.client then
        (if !t.dead && !(k == "err" && errName o == "unauthorized_client/400") then ["C08:foreign-revocation-not-unauthorized_client"] else [])
      else (if k == "err" then ["C08:owner-revocation-refused"] else [])
  | ["devicePoll", client, cred, dev] =>
    let cl := b.client client
    let authed := match cl with | some c => c.isPublic || cred == "1" | none => false
    let hasGrant := match cl with | some c => c.grants.contains "urn:ietf:params:oauth:grant-type:device_code" | none => false
    match b.device (descBase dev) with
    | none => if k == "tokens" then ["C16:tokens-for-unknown-device-code"] else []
    | some d =>
      let expired := decide (b.now > d.exp)
      if k == "tokens" then
        (if !descExact dev then ["C06:device-code-accepted-tampered"] else []) ++
        (if !authed then ["C10:device-poll-without-client-authentication"] else []) ++
        (if d.state != 1 then ["C16:tokens-without-approval"] else []) ++
        (if expired then ["C16:tokens-after-expiry", "C07:device-code-honoured-after-expiry"] else []) ++
        (if client != d.client then ["C16:tokens-for-other-client"] else []) ++
        (if d.used then ["C16:device-code-yielded-tokens-twice"] else []) ++
        (if outField o "scope" != encListW d.gscopes then ["C16:issued-scopes-differ-from-consent"] else [])
      else if k == "err" && descExact dev && authed && hasGrant && !d.used then
        -- exactly one condition applies ⇒ the prescribed answer
        let e := errName o
        (if d.state == 0 && !expired && client == d.client && e != "authorization_pending/400" then ["C16:pending-not-authorization_pending"] else []) ++
        (if d.state == 2 && !expired && client == d.client && e != "access_denied/403" then ["C16:denied-not-access_denied"] else []) ++
        (if d.state == 1 && expired && client == d.client && e != "expired_token/400" then ["C16:expired-not-expired_token"] else []) ++
        (if d.state == 1 && !expired && client != d.client && e != "invalid_grant/400" then ["C16:other-client-not-invalid_grant"] else []) ++
        (if d.state == 1 && !expired && client == d.client then ["C16:approved-device-code-refused"] else [])
      else []
  | ["authorizePar", client, uri, _extra, _gs, _ga, _sub] =>
    match b.parOf uri with
    | none => if k == "authz" then ["C17:unknown-request_uri-accepted"] else []
    | some p =>
      if k == "authz" then
        (if p.used then ["C17:request_uri-used-twice"] else []) ++
        (if client != p.client then ["C17:request_uri-used-by-other-client"] else []) ++
        (if b.now > p.exp then ["C17:request_uri-honoured-after-expiry", "C07:request_uri-honoured-after-expiry"] else [])
      else []
  | ["parPush", client, cred, hasUri, _bodySecret, rts, _redirect, secure, _state, _nonce, scopes, _aud, _challenge, _method] =>
    let authed := match b.client client with | some c => c.isPublic || cred == "1" | none => false
    let covered := match b.client client with
      | some c => (decList scopes).all (fun sc => specCovers b c.scopes sc)
      | none => false
    if k == "par" then
      (if secure == "0" && (decList rts).any (fun t => t == "code" || t == "token" || t == "id_token")
        then ["C11:plain-http-redirect-accepted-by-par"] else []) ++
      (if !covered then ["C12:uncovered-scope-accepted"] else []) ++
      (if !authed then ["C17:push-without-client-authentication"] else []) ++
      (if hasUri == "1" then ["C17:push-containing-request_uri-accepted"] else [])
    else []
  | ["authorize", client, rts, _redirect, secure, _state, _nonce, scopes, _aud, _gs, _ga, _sub, challenge, method] =>
    (if k == "authz" && b.cfgv "enforcePAR" == "1" then ["C17:unpushed-request-accepted-under-enforcement"] else []) ++
    -- the authorization-code flow accepts plain-http targets only on loopback / localhost hosts
    (if k == "authz" && secure == "0" && decList rts == ["code"] then ["C11:plain-http-redirect-accepted-by-code-flow"] else []) ++
    -- no flow accepts a requested scope that the registration does not cover
    (if k == "authz" && !(match b.client client with
        | some c => (decList scopes).all (fun sc => specCovers b c.scopes sc)
        | none => false) then ["C12:uncovered-scope-accepted"] else []) ++
    -- a challenge registered under a method that is neither S256 nor (enabled) plain can only be compared as plain later
    (if k == "authz" && outField o "code" != "?" && challenge != "" &&
        !(method == "S256" || ((method == "plain" || method == "") && b.cfgv "plain" == "1"))
      then ["C03:challenge-accepted-under-unusable-method"] else [])
  | ["cc", client, cred, _scopes, _aud] =>
    match b.client client with
    | some c =>
      if k == "tokens" then
        (if c.isPublic then ["C10:public-client-obtained-client_credentials-token"] else []) ++
        (if cred != "1" then ["C10:client_credentials-without-client-authentication"] else [])
      else []
    | none => if k == "tokens" then ["C10:unknown-client-obtained-token"] else []
  | _ => []
where
  encListW (xs : List String) : String := String.join (xs.map (fun x => "," ++ x))

/-- bookkeeping update from the observed outcome -/
def update (b : Book) (f : List String) (o : String) : Book :=
  let k := outKind o
  match f with
  | "cfg" :: rest => { b with cfg := rest }
  | ["client", id, pub, grants, scopes, aud, _redirects] =>
    let c : MClient := { id := id, isPublic := pub == "1", grants := decList grants, scopes := decList scopes, aud := decList aud }
    { b with clients := (b.clients.filter (·.id != id)) ++ [c] }
  | ["advance", d] => { b with now := b.now + d.toNat?.getD 0 }
  | ["authorize", client, rts, redirect, _secure, _state, _nonce, _scopes, _aud, gs, ga, sub, challenge, method] =>
    if k != "authz" then b else
    let code := outField o "code"
    let atk := outField o "at"
    let gid := b.grants.length
    let hybrid := (decList rts).length > 1
    let codeLife := b.cfgNat "codeLife"
    let codeExp := if hybrid then roundSec (addI b.now codeLife) else addI b.now codeLife
    let g : MGrant := { gid := gid, client := client, redirect := redirect, challenge := challenge, method := method,
                        gscopes := dedup (decList gs), gaud := dedup (decList ga), subject := sub,
                        code := if code == "?" then "" else code, codeExp := codeExp,
                        hybridAT := if atk == "?" then "" else atk }
    let b := { b with grants := b.grants ++ [g] }
    if atk == "?" then b else
      { b with toks := b.toks ++ [{ name := atk, kind := 'A', gid := gid, client := client,
                                    exp := some (roundSec (addI b.now (b.cfgNat "atLife"))), fromTokenEndpoint := false }] }
  | ["redeem", client, cred, code, _redirect, _verifier, _scopes, _aud] =>
    match b.grantOfCode (descBase code) with
    | none => b
    | some g =>
      if k == "tokens" then
        let atk := outField o "at"
        let rt := outField o "rt"
        let atTok : MTok := { name := atk, kind := 'A', gid := g.gid, client := g.client,
                              exp := some (roundSec (addI b.now (b.cfgNat "atLife"))), sibling := if rt == "?" then "" else rt }
        let rtExp := if b.cfgNat "rtLife" > -1 then some (roundSec (addI b.now (b.cfgNat "rtLife"))) else none
        let newToks := [atTok] ++ (if rt == "?" then [] else [{ name := rt, kind := 'R', gid := g.gid, client := g.client, exp := rtExp, sibling := atk }])
        let b := { b with toks := b.toks ++ newToks }
        b.setGrant { g with redeemed := true, members := g.members ++ newToks.map (·.name) }
      else if k == "err" && sigMatches code && g.redeemed then
        -- replay of a used code: once the caller is an authenticated client registered for the grant,
        -- every token obtained from that code must be inactive from now on
        let cl := b.client client
        let authed := match cl with | some c => (c.isPublic || cred == "1") && c.grants.contains "authorization_code" | none => false
        if authed then
          let b := b.killGrant g.gid "C01" true
          b.setGrant { g with replayed := true }
        else b
      else b
  | ["refresh", client, cred, tok, _scopes, _aud] =>
    match b.tok (descBase tok) with
    | none => b
    | some t =>
      match b.grant t.gid with
      | none => b
      | some g =>
        if k == "tokens" then
          let atk := outField o "at"
          let rt := outField o "rt"
          -- rotation: the presented token and the access token issued alongside it are dead
          let b := b.setTok { t with usedRT := true, dead := true, why := if t.dead then t.why else "C04" }
          let b := b.killGrant g.gid "C04" false
          let atTok : MTok := { name := atk, kind := 'A', gid := g.gid, client := g.client,
                                exp := some (roundSec (addI b.now (b.cfgNat "atLife"))), sibling := if rt == "?" then "" else rt }
          let rtExp := if b.cfgNat "rtLife" > -1 then some (roundSec (addI b.now (b.cfgNat "rtLife"))) else t.exp
          let newToks := [atTok] ++ (if rt == "?" then [] else [{ name := rt, kind := 'R', gid := g.gid, client := g.client, exp := rtExp, sibling := atk }])
          let b := { b with toks := b.toks ++ newToks }
          b.setGrant { g with members := g.members ++ newToks.map (·.name) }
        else if k == "err" && sigMatches tok && t.kind == 'R' && t.usedRT then
          let cl := b.client client
          let authed := match cl with | some c => (c.isPublic || cred == "1") && c.grants.contains "refresh_token" | none => false
          if authed then
            let b := b.killGrant g.gid "C04" true
            b.setGrant { g with reused := true }
          else b
        else b
  | ["revoke", client, cred, tok, _hint] =>
    match b.tok (descBase tok) with
    | none => b
    | some t =>
      let cl := b.client client
      let authed := match cl with | some c => c.isPublic || cred == "1" | none => false
      if k == "ok" && authed && sigMatches tok && client == t.client && !t.dead then
        b.killGrant t.gid "C08" true
      else b
  | ["cc", client, _cred, scopes, aud] => directGrant b client (decList scopes) (decList aud) "" o false
  | ["password", client, _cred, user, _pw, _ok, scopes, aud] => directGrant b client (decList scopes) (decList aud) ("sub-" ++ user) o true
  | ["deviceAuthorize", client, _cred, _formClient, _scopes, _aud] =>
    if k != "device" then b else
    { b with devices := b.devices ++ [{ name := outField o "dc", client := client,
                                         exp := roundSec (addI b.now (b.cfgNat "deviceLife")) }] }
  | ["deviceDecide", dev, verdict, gs, ga, sub] =>
    match b.device dev with
    | none => b
    | some d =>
      if d.state != 0 then b else
      b.setDevice (if verdict == "accept" then { d with state := 1, gscopes := dedup (decList gs), gaud := dedup (decList ga), subject := sub }
                   else { d with state := 2 })
  | ["devicePoll", client, cred, dev] =>
    match b.device (descBase dev) with
    | none => b
    | some d =>
      if k == "tokens" then
        let gid := b.grants.length
        let g : MGrant := { gid := gid, client := d.client, redirect := "", challenge := "", method := "", gscopes := d.gscopes,
                            gaud := d.gaud, subject := d.subject, code := "", codeExp := 0, hybridAT := "", redeemed := true }
        let b := { b with grants := b.grants ++ [g] }
        let b := addTokens b gid d.client o none
        b.setDevice { d with used := true, gid := some gid }
      else if k == "err" && sigMatches dev && d.used && b.cfgv "devMark" == "1" then
        -- the store reports the device code as already used: the tokens issued from it must be revoked
        let cl := b.client client
        let authed := match cl with | some c => (c.isPublic || cred == "1") && c.grants.contains "urn:ietf:params:oauth:grant-type:device_code" | none => false
        match d.gid with
        | some gid => if authed then b.killGrant gid "C16" true else b
        | none => b
      else b
  | ["parPush", client, _cred, _hasUri, _bodySecret, rts, redirect, _secure, _state, _nonce, _scopes, _aud, challenge, method] =>
    if k != "par" then b else
    { b with pars := b.pars ++ [{ name := outField o "uri", client := client, exp := addI b.now (b.cfgNat "parLife"),
                                   redirect := redirect, challenge := challenge, method := method, rts := decList rts }] }
  | ["authorizePar", _client, uri, _extra, gs, ga, sub] =>
    match b.parOf uri with
    | none => b
    | some p =>
      -- the request_uri is consumed by the lookup, whatever happens next
      let b := b.setPar { p with used := true }
      if k != "authz" then b else
      let code := outField o "code"
      let atk := outField o "at"
      let gid := b.grants.length
      let hybrid := p.rts.length > 1
      let codeLife := b.cfgNat "codeLife"
      let codeExp := if hybrid then roundSec (addI b.now codeLife) else addI b.now codeLife
      let g : MGrant := { gid := gid, client := p.client, redirect := p.redirect, challenge := p.challenge, method := p.method,
                          gscopes := dedup (decList gs), gaud := dedup (decList ga), subject := sub,
                          code := if code == "?" then "" else code, codeExp := codeExp,
                          hybridAT := if atk == "?" then "" else atk }
      let b := { b with grants := b.grants ++ [g] }
      if atk == "?" then b else
        { b with toks := b.toks ++ [{ name := atk, kind := 'A', gid := gid, client := p.client,
                                      exp := some (roundSec (addI b.now (b.cfgNat "atLife"))), fromTokenEndpoint := false }] }
  | _ => b
where
  dedup (xs : List String) : List String := xs.foldl (fun acc x => if acc.contains x then acc else acc ++ [x]) []
  /-- record the tokens of a `tokens` outcome for grant `gid` -/
  addTokens (b : Book) (gid : Nat) (client : String) (o : String) (rtKeep : Option Nat) : Book :=
    let atk := outField o "at"
    let rt := outField o "rt"
    let atTok : MTok := { name := atk, kind := 'A', gid := gid, client := client,
                          exp := some (roundSec (addI b.now (b.cfgNat "atLife"))), sibling := if rt == "?" then "" else rt }
    let rtExp := if b.cfgNat "rtLife" > -1 then some (roundSec (addI b.now (b.cfgNat "rtLife"))) else rtKeep
    let newToks := [atTok] ++ (if rt == "?" then [] else [{ name := rt, kind := 'R', gid := gid, client := client, exp := rtExp, sibling := atk }])
    { b with toks := b.toks ++ newToks }
  /-- client_credentials / password: a grant is created at the token endpoint; the application grants what was requested -/
  directGrant (b : Book) (client : String) (scopes aud : List String) (sub : String) (o : String) (rounded : Bool) : Book :=
    if outKind o != "tokens" then b else
    let gid := b.grants.length
    let g : MGrant := { gid := gid, client := client, redirect := "", challenge := "", method := "", gscopes := dedup scopes,
                        gaud := dedup aud, subject := sub, code := "", codeExp := 0, hybridAT := "", redeemed := true }
    let b := { b with grants := b.grants ++ [g] }
    let b := addTokens b gid client o none
    -- the client_credentials handler stamps the expiry without rounding
    if rounded then b else
      { b with toks := b.toks.map (fun t => if t.gid == gid && t.kind == 'A' then { t with exp := some (addI b.now (b.cfgNat "atLife")) } else t) }

end Fosite.Spec.Monitor

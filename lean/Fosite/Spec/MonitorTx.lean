/-
  C18 on implementation traces: an automaton over the storage-call log of ONE operation (the second
  segment of the observation line), written from the property statement, independent of the model
  and of the proof calculus in `Proofs/Tx.lean`.

    * a token-bearing answer although a storage call of the request failed;
    * begin / commit / rollback out of order, a transaction left open, a commit after a failed call
      inside the transaction, tokens handed out of a transaction that was not committed;
    * a rolled-back request (and no successful write outside the transaction) that left the store
      dump different from the dump before the request.
-/
import Fosite.Spec.Monitor
namespace Fosite.Spec.MonitorTx
open Fosite.Spec.Monitor Fosite.Driver

inductive Phase | idle | opened | committed | rolledBack | abandoned
  deriving DecidableEq, Repr

structure St where
  phase : Phase := .idle
  dirty : Bool := false          -- a call inside the open transaction answered with an error
  failed : Bool := false         -- some call of the request answered with an (unexpected) error
  wroteOutside : Bool := false   -- a mutating call succeeded while no transaction was open
  hits : List String := []

/-- "name(args)=res" ↦ (name, res) -/
def parseCall (e : String) : String × String :=
  let name := ((e.splitOn "(").headD e |>.splitOn "=").headD e
  let res := (e.splitOn "=").getLast?.getD ""
  (name, res)

def isWrite (name : String) : Bool :=
  name.startsWith "create" || name.startsWith "invalidate" || name.startsWith "delete" ||
  name.startsWith "revoke" || name.startsWith "rotate"

/-- an answer that is a storage failure (a genuine or injected not-found / inactive answer is an ordinary
    lookup result and is judged by the other properties) -/
def isFailure (res : String) : Bool := res.startsWith "err:"

def stepCall (s : St) (e : String) : St :=
  let (name, res0) := parseCall e
  let hit (h : String) (s : St) : St := { s with hits := s.hits ++ [h] }
  -- "=ok!notx": the harness's transactional store saw this write arrive, while a transaction was open, with a
  -- context that does not carry the transaction
  let escaped := res0.endsWith "!notx"
  let res := if escaped then (res0.dropEnd 5).toString else res0
  let s := if escaped then hit "C18:write-outside-open-transaction" s else s
  match name with
  | "newId" => s
  | "beginTx" =>
    let s := if s.phase != .idle then hit "C18:begin-inside-or-after-a-transaction" s else s
    if res == "ok" then { s with phase := .opened, dirty := false } else { s with failed := true }
  | "commitTx" =>
    let s := if s.phase != .opened then hit "C18:commit-without-open-transaction" s else s
    let s := if s.dirty then hit "C18:commit-after-failed-write" s else s
    if res == "ok" then { s with phase := .committed } else { s with failed := true, dirty := true }
  | "rollbackTx" =>
    let s := if s.phase != .opened then hit "C18:rollback-without-open-transaction" s else s
    if res == "ok" then { s with phase := .rolledBack } else { s with failed := true, phase := .abandoned }
  | _ =>
    let s := if isFailure res then { s with failed := true, dirty := s.dirty || s.phase == .opened } else s
    if isWrite name && res == "ok" && s.phase != .opened then { s with wroteOutside := true } else s

def segs (obs : String) : List String := obs.splitOn " || "

/-- hits of one (operation, observation) pair; `prevDump` is the dump segment of the previous observation
    of the same history -/
def txHits (tx : Bool) (prevDump : Option String) (obs : String) : List String :=
  let ss := segs obs
  let out := ss.headD ""
  let calls := ((ss.getD 1 "").splitOn " ").filter (· != "")
  let dump := ss.getD 2 ""
  let s := calls.foldl stepCall {}
  let k := outKind out
  let bearing := k == "tokens" || (k == "authz" && outField out "at" != "?")
  let h1 := if bearing && s.failed then ["C18:tokens-despite-storage-failure"] else []
  let h2 := if tx && s.phase == .opened then ["C18:transaction-left-open"] else []
  let h3 := if tx && bearing && !(s.phase == .idle || s.phase == .committed) then ["C18:tokens-from-uncommitted-transaction"] else []
  let h4 := match prevDump with
    | some d => if tx && s.phase == .rolledBack && !s.wroteOutside && d != dump then ["C18:rollback-left-changes"] else []
    | none => []
  let h5 := if !tx && calls.any (fun e => let n := (parseCall e).1; n == "beginTx" || n == "commitTx" || n == "rollbackTx")
            then ["C18:transaction-call-on-non-transactional-store"] else []
  (if tx then s.hits else []) ++ h1 ++ h2 ++ h3 ++ h4 ++ h5

/-! "whatever was invalidated stays invalid and nothing undelivered becomes usable", judged on the store
    dumps alone (the bookkeeping of the other monitors assumes fault-free operations): between the dump
    before and the dump after one operation
      * a code / refresh-token / device record that was inactive is not active again,
      * a record name that had been in an earlier dump of this history and was gone does not reappear. -/

/-- the entries of table `t` in a dump: "t[e1; e2; …]" -/
def tableEntries (dump t : String) : List String :=
  match dump.splitOn (t ++ "[") with
  | _ :: rest :: _ => (((rest.splitOn "]").headD "").splitOn "; ").filter (· != "")
  | _ => []

/-- (name, active?) of "Name:1:…" / "Name:0:…" entries -/
def flagged (dump t : String) : List (String × Bool) :=
  (tableEntries dump t).map (fun e => let p := e.splitOn ":"; (p.headD "", p.getD 1 "" == "1"))

def namesOf (dump t : String) : List String := (tableEntries dump t).map (fun e => (e.splitOn ":").headD "")

def resurrected (prev cur : String) (seen : List String) : List String :=
  let act (t : String) : List String :=
    ((flagged cur t).filter (fun (n, a) => a && (flagged prev t).any (fun (m, x) => m == n && !x))).map
      (fun (n, _) => "C18:inactive-record-active-again:" ++ t)
  let back (t : String) : List String :=
    ((namesOf cur t).filter (fun n => seen.contains n && !(namesOf prev t).contains n)).map
      (fun _ => "C18:deleted-record-back:" ++ t)
  (act "codes" ++ act "refresh" ++ back "codes" ++ back "access" ++ back "refresh" ++ back "device" ++ back "par").eraseDups

def allNames (dump : String) : List String :=
  namesOf dump "codes" ++ namesOf dump "access" ++ namesOf dump "refresh" ++ namesOf dump "device" ++ namesOf dump "par"

/-! ### C19, op "par": several requests interleaved at storage-call granularity

  "every token handed to a caller is either active or was invalidated by one of the concurrent requests, and
  token generation never returns the same value twice" — judged on the observation of one `par` operation:
  per-thread outcomes, the call log with thread tags `t<i>:`, the store dump afterwards. -/

/-- "t3:name(a,b)=res" ↦ (thread, name, args, res) -/
def parseTagged (e : String) : Nat × String × List String × String :=
  let (tag, rest) := match e.splitOn ":" with
    | t :: r => (t, ":".intercalate r)
    | [] => ("", e)
  let thr := (tag.drop 1).toString.toNat?.getD 0
  let name := (rest.splitOn "(").headD rest
  let inner := ((rest.splitOn "(").getD 1 "").splitOn ")" |>.headD ""
  let res := (rest.splitOn "=").getLast?.getD ""
  (thr, name, inner.splitOn ",", res)

def parHits (obs : String) : List String :=
  let ss := segs obs
  let outs := ((ss.headD "").drop 4).toString.splitOn " ;; "
  let calls := (((ss.getD 1 "").splitOn " ").filter (· != "")).map parseTagged
  let dump := ss.getD 2 ""
  let accessLive := namesOf dump "access"
  let refreshLive := ((flagged dump "refresh").filter (·.2)).map (·.1)
  -- position, thread and request id of the call that created a token
  let created (kind tok : String) : Option (Nat × Nat × String) :=
    ((List.range calls.length).zip calls).findSome? (fun (k, (t, name, args, res)) =>
      if name == kind && res == "ok" && args.headD "" == tok then some (k, t, args.getLast?.getD "") else none)
  let removedByOther (i pos : Nat) (tok gid : String) (isAccess : Bool) : Bool :=
    ((List.range calls.length).zip calls).any (fun (k, (t, name, args, res)) =>
      k > pos && t != i && res == "ok" &&
        ((name == (if isAccess then "deleteAccess" else "deleteRefresh") && args.headD "" == tok) ||
         (name == (if isAccess then "revokeAccess" else "revokeRefresh") && args.headD "" == gid) ||
         (name == "rotateRefresh" && args.headD "" == gid)))
  let perThread := ((List.range outs.length).zip outs).flatMap (fun (i, o) =>
    let k := outKind o
    (if k == "panic" then ["C19:panic-in-concurrent-request"] else []) ++
    (if k == "tokens" || k == "authz" then
      let atk := outField o "at"
      let rt := outField o "rt"
      (if atk != "?" && atk != "" && !accessLive.contains atk then
        match created "createAccess" atk with
        | some (pos, _, gid) => if removedByOther i pos atk gid true then [] else ["C19:handed-access-token-gone-without-another-request-removing-it"]
        | none => ["C19:handed-access-token-never-stored"]
       else []) ++
      (if k == "tokens" && rt != "?" && rt != "" && !refreshLive.contains rt then
        match created "createRefresh" rt with
        | some (pos, _, gid) => if removedByOther i pos rt gid false then [] else ["C19:handed-refresh-token-dead-without-another-request-killing-it"]
        | none => ["C19:handed-refresh-token-never-stored"]
       else [])
     else []))
  -- token generation never returns the same value twice
  let minted := calls.filterMap (fun (_, name, args, res) =>
    if res == "ok" && (name == "createCode" || name == "createAccess" || name == "createRefresh" || name == "createPAR" || name == "createDevice")
    then some (name ++ ":" ++ args.headD "") else none)
  let dup := if minted.eraseDups.length != minted.length then ["C19:minted-value-repeated"] else []
  (perThread ++ dup).eraseDups

end Fosite.Spec.MonitorTx

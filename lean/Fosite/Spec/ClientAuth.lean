/-
  C10 — what client authentication MEANS, written as plain propositions (no control flow), and what the
  four endpoints owe to it.  `Proofs/ClientAuth.lean` shows that the model of the Go code decides exactly
  this; the driver evaluates it on every implementation line as a monitor.

  The documented rules (RFC 6749 §2.3, §3.2.1, §5.2; OpenID Connect Core §9; RFC 7009 §2.1; RFC 9126 §2.1;
  RFC 8628 §3.1):

    * credentials come from the HTTP Basic header when there is one (both halves form-urldecoded), from the
      body parameters `client_id` / `client_secret` otherwise;
    * a header that does not decode, or no `client_id` anywhere, is `invalid_request`; so is an unknown
      `client_assertion_type`;
    * the client must be registered; a confidential client must PROVE its secret: the presented secret
      matches the current hash or one of the rotated hashes;
    * a client with a registered `token_endpoint_auth_method` (an OpenID Connect client) may use only that
      method: body credentials only with `client_secret_post`, a Basic password only with
      `client_secret_basic`, no secret at all (public) only with `none`;
    * everything else is `invalid_client`;
    * an endpoint that asked for authentication and did not get it answers with that error (the PAR endpoint:
      always `invalid_client`), starts nothing behind the gate and writes nothing — unless the responsible
      token handler explicitly allows unauthenticated requests;
    * behind the gate the request is processed in the name of the AUTHENTICATED client.
-/
import Fosite.Model.ClientAuth
namespace Fosite.Spec.ClientAuth
open Fosite.Model.ClientAuth

/-- How a secret reached the server. -/
inductive Transport
  | basic     -- `Authorization: Basic`
  | body      -- `client_id` / `client_secret` parameters
  deriving DecidableEq, Repr

/-- The request presents `(id, secret)` over `t`: the Basic header wins when it is there. -/
def Presents (r : Request) (t : Transport) (id secret : String) : Prop :=
  match r.basic with
  | .present _ i s => t = .basic ∧ i = some id ∧ s = some secret
  | .absent => t = .body ∧ r.clientId ≠ "" ∧ id = r.clientId ∧ secret = r.clientSecret

/-- Nothing usable is presented: an undecodable header, or no header and no `client_id`. -/
def Malformed (r : Request) : Prop :=
  match r.basic with
  | .present _ i s => i = none ∨ s = none
  | .absent => r.clientId = ""

/-- The secret is proven: it matches the current or a rotated hash. -/
def SecretProven (H : Hasher) (c : Registration) (secret : String) : Prop :=
  H c.hash secret = true ∨ ∃ h ∈ c.rotated, H h secret = true

/-- The request uses the body-credential mechanism (`client_secret_post`). -/
def UsesPost (r : Request) : Prop := r.clientId ≠ "" ∧ r.clientSecret ≠ ""
/-- The request uses the Basic-password mechanism (`client_secret_basic`). -/
def UsesBasic (r : Request) : Prop := r.basic.hasSecret = true

/-- The mechanisms the request uses are the ones the registration permits.  Clients without a registered
    method (plain `fosite.Client`s) are not restricted. -/
def MethodPermits (r : Request) (c : Registration) : Prop :=
  c.oidc = true →
    (UsesPost r → c.authMethod = "client_secret_post") ∧
    (UsesBasic r → c.authMethod = "client_secret_basic") ∧
    (c.isPublic = true → c.authMethod = "none")

/-- The secret-based (non-assertion) acceptance rule. -/
def AcceptsSecret (H : Hasher) (lookup : String → Option Registration) (r : Request) (c : Registration) : Prop :=
  ∃ t id secret, Presents r t id secret ∧ lookup id = some c ∧ MethodPermits r c ∧
    (c.isPublic = true ∨ SecretProven H c secret)

/-- When is a request authenticated as `c`. -/
def Accepts (H : Hasher) (lookup : String → Option Registration) (r : Request) (c : Registration) : Prop :=
  (r.assertionType = clientAssertionJWTBearerType ∧ r.assertion = .ok c) ∨
  (r.assertionType = "" ∧ AcceptsSecret H lookup r c)

/-- The error class of a request that is not accepted. -/
def RejectionClass (r : Request) (e : Err) : Prop :=
  (r.assertionType = clientAssertionJWTBearerType → r.assertion = .err e) ∧
  (r.assertionType ≠ clientAssertionJWTBearerType → r.assertionType ≠ "" → e = errInvalidRequest) ∧
  (r.assertionType = "" → Malformed r → e = errInvalidRequest) ∧
  (r.assertionType = "" → ¬ Malformed r → e = errInvalidClient)

/-! ### The same, executable (used by the monitor) -/

def secretProvenB (H : Hasher) (c : Registration) (secret : String) : Bool :=
  H c.hash secret || c.rotated.any (fun h => H h secret)

def methodPermitsB (r : Request) (c : Registration) : Bool :=
  !c.oidc ||
    ((!(r.clientId != "" && r.clientSecret != "") || c.authMethod == "client_secret_post") &&
     (!r.basic.hasSecret || c.authMethod == "client_secret_basic") &&
     (!c.isPublic || c.authMethod == "none"))

/-- `(id, secret)` the request presents, if any. -/
def presented (r : Request) : Option (String × String) :=
  match r.basic with
  | .present _ (some i) (some s) => some (i, s)
  | .present _ _ _ => none
  | .absent => if r.clientId = "" then none else some (r.clientId, r.clientSecret)

/-- The documented verdict. -/
def verdict (H : Hasher) (lookup : String → Option Registration) (r : Request) : Except Err Registration :=
  if r.assertionType = clientAssertionJWTBearerType then
    match r.assertion with
    | .ok c => .ok c
    | .err e => .error e
  else if r.assertionType ≠ "" then .error errInvalidRequest
  else match presented r with
    | none => .error errInvalidRequest
    | some (id, secret) =>
      match lookup id with
      | none => .error errInvalidClient
      | some c =>
        if methodPermitsB r c && (c.isPublic || secretProvenB H c secret) then .ok c
        else .error errInvalidClient

/-! ### What the property demands on top of the verdict -/

/-- The property's acceptance condition for a confidential client, in its own words: the assertion
    sub-result was ok, or a secret was presented over a transport, it matches the current or a rotated hash,
    and the registered method permits what the request used. -/
def ProvedSecretOrAssertion (H : Hasher) (lookup : String → Option Registration) (r : Request)
    (c : Registration) : Prop :=
  (r.assertionType = clientAssertionJWTBearerType ∧ r.assertion = .ok c) ∨
  (∃ t id secret, Presents r t id secret ∧ lookup id = some c ∧ SecretProven H c secret ∧ MethodPermits r c)

/-- Registrations never hold the hash of the empty string (assumption of the strict transport reading:
    with it, a secret that proves anything is non-empty, so the mechanism that carried it is visible to
    `MethodPermits`). -/
def NoEmptySecret (H : Hasher) (c : Registration) : Prop :=
  H c.hash "" = false ∧ ∀ h ∈ c.rotated, H h "" = false

/-- The strict reading of "through a transport the registered method permits" for a client that registered a
    method: Basic ⇒ `client_secret_basic`, body ⇒ `client_secret_post`. -/
def TransportMatchesMethod (t : Transport) (c : Registration) : Prop :=
  c.oidc = true → (t = .basic → c.authMethod = "client_secret_basic") ∧ (t = .body → c.authMethod = "client_secret_post")

/-! ### Endpoints: the gate (executable; the monitor compares it with the implementation line) -/

/-- What the harness observes of an endpoint call. -/
structure Obs where
  auth : Option (Except Err Registration)
  result : Except Err (Option Registration)
  writes : List String

def Obs.early : Obs := ⟨none, .error errInvalidRequest, []⟩
def Obs.rejected (v : Except Err Registration) (e : Err) : Obs := ⟨some v, .error e, []⟩

/-- POST with a non-empty form is required before anything else (`needForm = false`: the PAR endpoint does not
    insist on a body). -/
def preconditions (http : Http) (needForm : Bool) : Bool :=
  http.method == "POST" && http.parseOk && !(needForm && http.postFormEmpty)

/-- Behind the gate: the downstream answer in the name of `c`. -/
def behind (v : Except Err Registration) (c : Option Registration) (d : DResult) : Obs :=
  match d.err with
  | none => ⟨some v, .ok c, d.writes⟩
  | some e => ⟨some v, .error e, d.writes⟩

/-- Token endpoint.  `responsible` are the handlers whose grant type the request names, in registration
    order; `down` is what they (and the response phase) answer for a client. -/
def tokenObs (cfg : Config) (http : Http) (grantTypes : List String) (v : Except Err Registration)
    (responsible : List HandlerKind) (down : Option Registration → DResult) : Obs :=
  if !preconditions http true then .early
  else if grantTypes = [] then .early
  else match responsible with
    | [] => ⟨some v, .error errInvalidRequest, []⟩             -- nobody is responsible
    | _ :: _ =>
      match v with
      | .ok c => behind v (some c) (down (some c))
      | .error e =>
        -- unauthenticated processing only when every responsible handler explicitly allows it
        if responsible.all (fun k => canSkipClientAuth k cfg) then behind v none (down none)
        else .rejected v e

/-- Revocation endpoint. -/
def revocationObs (http : Http) (v : Except Err Registration) (down : Registration → DResult) : Obs :=
  if !preconditions http true then .early
  else match v with
    | .error e => .rejected v e
    | .ok c => behind v (some c) (down c)

/-- The PAR endpoint reads the merged form (`r.Form`: body, then URL query).  Credentials are body parameters
    (RFC 6749 §2.3.1: they "MUST NOT be included in the request URI"): an acceptance counts only when the body
    alone yields it; otherwise the verdict on the body stands.  Rejections are reported as the endpoint found
    them. -/
def parVerdict (vForm vBody : Except Err Registration) : Except Err Registration :=
  match vForm, vBody with
  | .ok c, .ok c' => if c = c' then vForm else vBody
  | .ok _, .error _ => vBody
  | .error _, _ => vForm

/-- PAR endpoint: every authentication failure is `invalid_client`; `request_uri` is forbidden; a `client_id`
    parameter, when sent, must name the authenticated client (`invalid_client` when it names nobody,
    `invalid_request` when it names somebody else). -/
def parObs (lookup : String → Option Registration) (http : Http) (v : Except Err Registration)
    (formClientID requestURI : String) (down : Registration → DResult) : Obs :=
  if !preconditions http false then .early
  else match v with
    | .error e => .rejected v (if e.rfc then errInvalidClient else e)
    | .ok c =>
      if requestURI ≠ "" then .rejected v errInvalidRequest
      else if formClientID ≠ "" ∧ formClientID ≠ c.id then
        .rejected v (if (lookup formClientID).isNone then errInvalidClient else errInvalidRequest)
      else behind v (some c) (down c)

/-- Device authorization endpoint: the `client_id` parameter must name the authenticated client. -/
def deviceObs (http : Http) (v : Except Err Registration) (formClientID : String)
    (down : Registration → DResult) : Obs :=
  if !preconditions http true then .early
  else match v with
    | .error e => .rejected v e
    | .ok c =>
      if formClientID ≠ c.id then .rejected v errInvalidRequest
      else behind v (some c) (down c)

/-- `client_credentials` behind the gate: a public client is refused, whatever else holds. -/
def clientCredentialsDown (scopesAllowed : Bool) (c : Registration) (issue : DResult) : DResult :=
  if !scopesAllowed then ⟨some errInvalidScope, []⟩
  else if c.isPublic then ⟨some errInvalidGrant, []⟩
  else issue

end Fosite.Spec.ClientAuth

/-
  What C06 means for opaque (HMAC) tokens, written without loops or loop state.

  A token is *well-formed* when it is `a.b` with no dot in `a`, both parts non-empty and both
  base64-decodable; its random part is `dec a`, its signature part `dec b`.  A key *authenticates*
  a well-formed token when it has at least 32 bytes and the MAC of the random part under its first
  32 bytes is the signature part.  `verdict` says which answer `Validate` must give.
-/
import Fosite.Model.HMAC
namespace Fosite.Spec.HMAC
open Fosite.Model.HMAC

/-- a secret is usable iff it has at least 32 bytes -/
def usable (k : Bytes) : Bool := 32 ≤ k.length

/-- `k` authenticates the pair (random part, signature part) -/
def authentic (C : Crypto) (k : Bytes) (r s : Bytes) : Bool := C.mac (k.take 32) r == s

/-- split at the first dot, by `takeWhile` / `dropWhile` -/
def parts (tok : Str) : Option (Str × Str) :=
  match tok.dropWhile (· != '.') with
  | [] => none
  | _ :: b => some (tok.takeWhile (· != '.'), b)

inductive Shape
  | noDot | emptyPart | badSig | badRand
  | good (r s : Bytes)
  deriving DecidableEq, Repr

def shape (C : Crypto) (tok : Str) : Shape :=
  match parts tok with
  | none => .noDot
  | some (a, b) =>
    if a.isEmpty || b.isEmpty then .emptyPart
    else match C.dec b, C.dec a with
      | none, _ => .badSig
      | some _, none => .badRand
      | some s, some r => .good r s

def Shape.err : Shape → Outcome
  | .noDot | .emptyPart => .invalid_format
  | .badSig | .badRand => .b64_error
  | .good _ _ => .ok

/-- Declarative well-formedness: `tok = a.b`, first dot, parts non-empty, `r = dec a`, `s = dec b`. -/
def WellFormed (C : Crypto) (tok : Str) (r s : Bytes) : Prop :=
  ∃ a b, tok = a ++ '.' :: b ∧ '.' ∉ a ∧ a ≠ [] ∧ b ≠ [] ∧ C.dec a = some r ∧ C.dec b = some s

/-- `k` is the key that makes `Validate` accept: it is in the list, every earlier key is usable and
    merely mismatches, and `k` is usable and authenticates. -/
def Accepting (C : Crypto) (keys : List Bytes) (r s : Bytes) (k : Bytes) : Prop :=
  ∃ pre post, keys = pre ++ k :: post ∧
    (∀ k' ∈ pre, 32 ≤ k'.length ∧ C.mac (k'.take 32) r ≠ s) ∧
    32 ≤ k.length ∧ C.mac (k.take 32) r = s

/-- The answer of `Validate` for a key list and a token:
    * no key at all: refused;
    * malformed token: the format / base64 error — unless the first key is too short, which is
      reported first;
    * well-formed token: the first key that is too short or authenticates decides. -/
def verdict (C : Crypto) (keys : List Bytes) (tok : Str) : Outcome :=
  match keys with
  | [] => .err_no_keys
  | k0 :: _ =>
    match shape C tok with
    | .good r s =>
      match keys.find? (fun k => !usable k || authentic C k r s) with
      | none => .signature_mismatch
      | some k => if usable k then .ok else .err_short_secret
    | bad => if usable k0 then bad.err else .err_short_secret

/-- `Signature`: the part after the dot when there is exactly one dot, else empty. -/
def signatureOf (tok : Str) : Str :=
  if tok.count '.' = 1 then (tok.dropWhile (· != '.')).drop 1 else []

/-- Layout of a minted token. -/
def layout (C : Crypto) (key r : Bytes) : Str × Str :=
  (C.enc r ++ ['.'] ++ C.enc (C.mac key r), C.enc (C.mac key r))

/-- `Generate`: refused under a short secret; otherwise `max(entropy, 32)` random bytes, signed
    with the first 32 bytes of the secret. -/
def mint (C : Crypto) (secret : Bytes) (entropy : Int) (rng : Nat → Bytes) : Except Outcome (Str × Str) :=
  if usable secret then .ok (layout C (secret.take 32) (rng (max entropy 32).toNat))
  else .error .err_short_secret

/-- the kind's prefix is dropped when present -/
def strip (kind : Kind) (tok : Str) : Str :=
  let p := "ory_".toList ++ kind.part ++ ['_']
  if tok.take p.length = p then tok.drop p.length else tok

/-! ### Hypotheses about the primitives (never axioms: always explicit arguments) -/

/-- base64url round trip, alphabet without the dot, non-empty output for non-empty input; the MAC
    has a non-empty output (the hasher's `Size()` is positive). -/
structure Lawful (C : Crypto) : Prop where
  dec_enc : ∀ b, C.dec (C.enc b) = some b
  enc_nodot : ∀ b, '.' ∉ C.enc b
  enc_ne_nil : ∀ b, b ≠ [] → C.enc b ≠ []
  mac_ne_nil : ∀ k m, C.mac k m ≠ []

/-- the decoder rejects every string containing a dot (not in the base64url alphabet) -/
def DotFree (C : Crypto) : Prop := ∀ s, '.' ∈ s → C.dec s = none

/-- "the MAC is injective in its message for the configured keys": two messages that receive the
    same tag under (possibly different) usable configured keys are equal. -/
def MacCollisionFree (C : Crypto) (keys : List Bytes) : Prop :=
  ∀ k₁ ∈ keys, ∀ k₂ ∈ keys, 32 ≤ k₁.length → 32 ≤ k₂.length →
    ∀ r₁ r₂, C.mac (k₁.take 32) r₁ = C.mac (k₂.take 32) r₂ → r₁ = r₂

/-- `mac_unforgeable`: whatever authenticates under a usable configured key was minted by the
    server (`minted r s`). -/
def Unforgeable (C : Crypto) (keys : List Bytes) (minted : Bytes → Bytes → Prop) : Prop :=
  ∀ k ∈ keys, 32 ≤ k.length → ∀ r, minted r (C.mac (k.take 32) r)

end Fosite.Spec.HMAC

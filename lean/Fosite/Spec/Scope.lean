/-
  What the scope strategies are documented to mean (README "Scopes", and the
  statement of C12), written as the simplest recursion.
-/
import Fosite.Model.Scope
namespace Fosite.Spec
open Fosite.Model (Seg splitDot star)

/-- one matcher segment against one needle segment -/
def segMatch (m n : Seg) : Bool := (m == star && !n.isEmpty) || m == n

/-- Wildcard matching on segment lists: segments match pairwise; a *final* `*` with needle
    segments left over matches the (non-empty) next one and swallows the rest; otherwise the
    lengths must agree. -/
def wildcardSegs : List Seg → List Seg → Bool
  | [], [] => true
  | [], _ :: _ => false
  | _ :: _, [] => false
  | [m], n :: ns => if ns.isEmpty then segMatch m n else (m == star && !n.isEmpty)
  | m :: m' :: ms, n :: ns => segMatch m n && wildcardSegs (m' :: ms) ns

def wildcard (matchers : List (List Char)) (needle : List Char) : Bool :=
  matchers.any (fun m => wildcardSegs (splitDot m) (splitDot needle))

/-- Hierarchic: a registered scope covers itself and every dotted child. -/
def hierarchic (haystack : List (List Char)) (needle : List Char) : Bool :=
  haystack.any (fun h => h == needle || (h ++ ['.']).isPrefixOf needle)

def exact (haystack : List (List Char)) (needle : List Char) : Bool :=
  haystack.contains needle

end Fosite.Spec

/-
  What C15 says, written as plainly as possible over the same observations the model uses.

  "A private_key_jwt client assertion authenticates a client only if it is signed with a key
   registered for that client using the client's registered asymmetric algorithm, iss and sub both
   equal the client id, aud contains the token endpoint URL, it is unexpired, and its jti has not
   been seen before.  A JWT-bearer authorization grant is accepted only if signed by a key registered
   for its (iss, sub), with aud containing the token URL, an exp in the future but not beyond the
   configured maximum, nbf respected and iat present when required, requested scopes covered by the
   key's scopes, and (when required) a jti never used before.  A given jti is accepted at most once,
   also when identical requests arrive concurrently."

  Readings (always the one that demands less):
    * "unexpired" is judged at the granularity the implementation uses for the claim check, whole
      seconds: `⌊now⌋ ≤ exp`.
    * "nbf respected": `nbf ≤ now` (the code demands `nbf < now`).
    * "a jti is accepted at most once" is about one assertion — presentations with the same jti AND
      the same exp.  (Every replay memory forgets a jti once the assertion that carried it has
      expired; a later, different assertion that reuses the identifier is not a replay.)
-/
import Fosite.Model.Assertion
namespace Fosite.Spec.Assertion
open Fosite.Model.Assertion

/-- the `aud` claim names `u`: as a single string, or as an element of the array -/
def audContains (aud : Claim) (u : String) : Prop :=
  aud = .str u ∨ ∃ xs, aud = .list xs ∧ some u ∈ xs

instance (aud : Claim) (u : String) : Decidable (audContains aud u) :=
  match aud with
  | .str s => if h : s = u then isTrue (Or.inl (by rw [h])) else
      isFalse (fun hh => by
        rcases hh with hh | ⟨xs, hh, _⟩
        · exact h (by injection hh)
        · cases hh)
  | .list xs => if h : some u ∈ xs then isTrue (Or.inr ⟨xs, rfl, h⟩) else
      isFalse (fun hh => by
        rcases hh with hh | ⟨ys, hh, hm⟩
        · cases hh
        · injection hh with hh; exact h (hh ▸ hm))
  | .absent => isFalse (fun hh => by rcases hh with hh | ⟨_, hh, _⟩ <;> cases hh)
  | .int _ => isFalse (fun hh => by rcases hh with hh | ⟨_, hh, _⟩ <;> cases hh)
  | .flt _ => isFalse (fun hh => by rcases hh with hh | ⟨_, hh, _⟩ <;> cases hh)
  | .other => isFalse (fun hh => by rcases hh with hh | ⟨_, hh, _⟩ <;> cases hh)

/-- the `exp` claim is a number whose second `e` satisfies `P` -/
def expSatisfies (c : Claim) (P : Int → Prop) : Prop :=
  match c.toInt64 with
  | some e => P e
  | none => False

instance (c : Claim) (P : Int → Prop) [DecidablePred P] : Decidable (expSatisfies c P) := by
  unfold expSatisfies; split <;> exact inferInstance

/-- the keys registered for a client -/
def registeredKeys (c : ClientReg) : List JWK := c.jwks.getD []

/-- no unexpired record of `jti` is in the replay memory -/
def jtiFresh (st : JtiStore) (jti : String) (now : Int) : Prop :=
  ∀ e, lookup st jti = some e → e ≤ now

instance (st : JtiStore) (jti : String) (now : Int) : Decidable (jtiFresh st jti now) :=
  match h : lookup st jti with
  | none => isTrue (fun e he => by rw [h] at he; cases he)
  | some e0 => if h2 : e0 ≤ now then isTrue (fun e he => by rw [h] at he; injection he with he; omega)
      else isFalse (fun hh => h2 (hh e0 h))

/-- C15, first sentence, with the expiry clause as a parameter: what must be true of a client
    assertion that authenticated client `cid` (everything but the replay clause, which is
    `JtiPresentFresh` / the history theorems). -/
def ClientAssertionOKWith (expOK : Int → Prop) (cfg : Config) (clients : List ClientReg) (j : JWS)
    (cid : String) : Prop :=
  ∃ c ∈ clients, c.id = cid ∧
    (∃ k ∈ registeredKeys c, k.use = "sig" ∧ verifies j k.key k.type = true) ∧
    j.alg = c.authAlg ∧
    (algFamily j.alg = .rsa ∨ algFamily j.alg = .ec) ∧
    j.claims.iss = .str cid ∧ j.claims.sub = .str cid ∧
    (∃ u ∈ cfg.tokenURLs, audContains j.claims.aud u) ∧
    expSatisfies j.claims.exp expOK

instance (expOK : Int → Prop) [DecidablePred expOK] (cfg : Config) (clients : List ClientReg) (j : JWS)
    (cid : String) : Decidable (ClientAssertionOKWith expOK cfg clients j cid) := by
  unfold ClientAssertionOKWith; exact inferInstance

/-- "unexpired", whole seconds: `⌊now⌋ ≤ exp` -/
def unexpiredSec (now : Int) (e : Int) : Prop := nowSec now ≤ e

instance (now : Int) : DecidablePred (unexpiredSec now) := fun e => by unfold unexpiredSec; exact inferInstance

/-- C15, first sentence -/
def ClientAssertionOK (cfg : Config) (clients : List ClientReg) (j : JWS) (now : Int) (cid : String) : Prop :=
  ClientAssertionOKWith (unexpiredSec now) cfg clients j cid

instance (cfg : Config) (clients : List ClientReg) (j : JWS) (now : Int) (cid : String) :
    Decidable (ClientAssertionOK cfg clients j now cid) := by
  unfold ClientAssertionOK; exact inferInstance

/-- the jti clause for one presentation: a non-empty string with no live record -/
def JtiPresentFresh (j : JWS) (st : JtiStore) (now : Int) : Prop :=
  match j.claims.jti with
  | .str jti => jti ≠ "" ∧ jtiFresh st jti now
  | _ => False

instance (j : JWS) (st : JtiStore) (now : Int) : Decidable (JtiPresentFresh j st now) := by
  unfold JtiPresentFresh; split <;> exact inferInstance

/-- the registration of JWT-bearer keys is a map: the JWK stored under a `kid` carries that `kid`,
    and (issuer, subject, kid) identifies the record -/
def WellFormedKeys (keys : List IssuerKey) : Prop :=
  (∀ k ∈ keys, k.mapKid = k.jwkKid) ∧
  (∀ a ∈ keys, ∀ b ∈ keys, a.iss = b.iss → a.sub = b.sub → a.mapKid = b.mapKid → a = b)

instance (keys : List IssuerKey) : Decidable (WellFormedKeys keys) := by
  unfold WellFormedKeys; exact inferInstance

/-- a non-empty string claim -/
def nonEmptyStr (c : Claim) : Prop :=
  match c with
  | .str s => s ≠ ""
  | _ => False

instance (c : Claim) : Decidable (nonEmptyStr c) := by
  unfold nonEmptyStr; split <;> exact inferInstance

/-- C15, second sentence: what must be true of an accepted JWT-bearer assertion (everything but
    the replay clause).  `subject` is the subject the grant was accepted for. -/
def BearerOK (cfg : BearerConfig) (strat : List String → String → Bool) (keys : List IssuerKey)
    (j : JWS) (requested : List String) (now : Int) (subject : String) : Prop :=
  match j.claims.iss with
  | .str iss =>
    j.claims.sub = .str subject ∧
    (∃ k ∈ keys, k.iss = iss ∧ k.sub = subject ∧ verifies j k.key k.type = true ∧
      ∀ s ∈ requested, strat k.scopes s = true) ∧
    (∃ u ∈ cfg.tokenURLs, audContains j.claims.aud u) ∧
    expSatisfies j.claims.exp (fun e =>
      now ≤ e * second ∧
      e * second ≤ (match j.claims.iat.toInt64 with | some i => i * second | none => now) + cfg.maxDur) ∧
    (match j.claims.nbf.toInt64 with | some n => n * second ≤ now | none => j.claims.nbf = .absent) ∧
    (cfg.iatOptional = false → j.claims.iat.toInt64.isSome = true) ∧
    (cfg.jtiOptional = false → nonEmptyStr j.claims.jti)
  | _ => False

instance (cfg : BearerConfig) (strat : List String → String → Bool) (keys : List IssuerKey)
    (j : JWS) (requested : List String) (now : Int) (subject : String) :
    Decidable (BearerOK cfg strat keys j requested now subject) := by
  unfold BearerOK; split
  · refine @instDecidableAnd _ _ _ (@instDecidableAnd _ _ _ (@instDecidableAnd _ _ _
      (@instDecidableAnd _ _ _ (@instDecidableAnd _ _ ?_ _))))
    split <;> exact inferInstance
  · exact inferInstance

/-- the identity of an assertion for the purpose of replay: (jti, exp second) -/
def ticketOf (w : Wire) : Option (String × Int) :=
  match w with
  | .jws j =>
    match j.claims.jti, j.claims.exp.toInt64 with
    | .str jti, some e => if jti = "" then none else some (jti, e)
    | _, _ => none
  | _ => none

end Fosite.Spec.Assertion
